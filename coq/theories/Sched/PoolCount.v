(** Counting lemmas for the quiescence clauses of the oracle. *)
From OCV Require Import Base.Prelude Coroutine.Co Sched.Sched Sched.Pool Sched.PoolOracle Sched.PoolJ.
From Coq Require Import ZifyBool ZifyNat.
Open Scope Z_scope.

Lemma count_true_cons {A} (f : A -> bool) a l : count_true f (a :: l) = (if f a then 1 else 0) + count_true f l.
Proof. unfold count_true. cbn [filter]. destruct (f a); cbn [length]; lia. Qed.

Lemma count_true_nil {A} (f : A -> bool) : count_true f [] = 0.
Proof. reflexivity. Qed.

Lemma count_true_nonneg {A} (f : A -> bool) l : 0 <= count_true f l.
Proof. unfold count_true. lia. Qed.

Lemma count_all_default {A} (f : A -> bool) (d : A) l :
  f d = false -> (forall w, nth w l d = d) -> count_true f l = 0.
Proof.
  intros Hd. induction l as [|a l IH]; intro H; [reflexivity|].
  rewrite count_true_cons. specialize (H 0%nat) as H0. cbn [nth] in H0. subst a. rewrite Hd.
  rewrite IH; [reflexivity|]. intro w. apply (H (S w)).
Qed.

(** two lists that agree position by position (padding with [d]) count the same *)
Lemma count_nth_ext {A} (f : A -> bool) (d : A) : f d = false ->
  forall l1 l2, (forall w, nth w l1 d = nth w l2 d) -> count_true f l1 = count_true f l2.
Proof.
  intros Hd. induction l1 as [|a l1 IH]; intros l2 H.
  - symmetry. apply (count_all_default f d); [exact Hd|]. intro w. rewrite <- H. destruct w; reflexivity.
  - destruct l2 as [|b l2].
    + apply (count_all_default f d); [exact Hd|]. intro w. rewrite H. destruct w; reflexivity.
    + rewrite !count_true_cons. specialize (H 0%nat) as H0. cbn [nth] in H0. subst b.
      rewrite (IH l2); [reflexivity|]. intro w. apply (H (S w)).
Qed.

Lemma count_true_map {A B} (g : A -> B) (f : B -> bool) l : count_true f (map g l) = count_true (fun a => f (g a)) l.
Proof. induction l as [|a l IH]; [reflexivity|]. cbn [map]. rewrite !count_true_cons, IH. reflexivity. Qed.

Lemma count_true_ext {A} (f g : A -> bool) l : (forall a, In a l -> f a = g a) -> count_true f l = count_true g l.
Proof.
  induction l as [|a l IH]; intro H; [reflexivity|]. rewrite !count_true_cons, (H a (or_introl eq_refl)), IH; [reflexivity|].
  intros b Hb. apply H. right. exact Hb.
Qed.

(** the tracker's view of the workers counts like the model's workers *)
Lemma count_workers (f : cstate -> bool) ws (lw : list cstate) :
  f Ready = false -> (forall w, nth w lw Ready = wst ws w) -> count_true f lw = count_true (fun k => f (k_st k)) ws.
Proof.
  intros Hd H. rewrite <- (count_true_map k_st f ws). apply (count_nth_ext f Ready Hd). intro w. rewrite H. unfold wst.
  destruct (nth_error ws w) as [k|] eqn:E.
  - symmetry. assert (w < length ws)%nat as Hlt by (apply nth_error_Some; congruence).
    rewrite (nth_indep _ Ready (k_st k)) by (rewrite map_length; exact Hlt). rewrite map_nth.
    f_equal. apply nth_error_nth. exact E.
  - symmetry. apply nth_overflow. rewrite map_length. apply nth_error_None, E.
Qed.

Lemma nlive_count ws : nlive ws = count_true live ws.
Proof. reflexivity. Qed.

(** * unfinished tasks are not more than the workers that hold them *)
Definition held_ids (ws : list worker) : list nat :=
  flat_map (fun k => if live k then match k_task k with Some (i, _) => [i] | None => [] end else []) ws.

Lemma held_ids_length ws : Z.of_nat (length (held_ids ws)) <= nlive ws.
Proof.
  induction ws as [|k ws IH]; [reflexivity|]. unfold held_ids in *. cbn [flat_map]. rewrite app_length.
  unfold nlive in *. cbn [filter]. destruct (live k); [|cbn [length app]; lia].
  destruct (k_task k) as [[i r]|]; cbn [length]; lia.
Qed.

Lemma held_ids_In ws w k i rest : nth_error ws w = Some k -> live k = true -> k_task k = Some (i, rest) -> In i (held_ids ws).
Proof.
  intros Hn Hl Hk. unfold held_ids. apply in_flat_map. exists k. split; [eapply nth_error_In, Hn|].
  rewrite Hl, Hk. left. reflexivity.
Qed.

Lemma filter_seq_length {A} (f : A -> bool) (d : A) l :
  length (filter f l) = length (filter (fun i => f (nth i l d)) (seq 0 (length l))).
Proof.
  induction l as [|a l IH]; [reflexivity|].
  assert (forall s, length (filter (fun i => f (nth i (a :: l) d)) (map S s)) =
                    length (filter (fun i => f (nth i l d)) s)) as E.
  { induction s as [|x s IHs]; [reflexivity|]. cbn [map filter]. change (nth (S x) (a :: l) d) with (nth x l d).
    destruct (f (nth x l d)); cbn [length]; rewrite IHs; reflexivity. }
  cbn [length]. rewrite <- cons_seq, <- seq_shift.
  set (g := fun i => f (nth i (a :: l) d)). cbn [filter]. change (g 0%nat) with (f a).
  destruct (f a); cbn [length]; unfold g; rewrite E, <- IH; reflexivity.
Qed.

Lemma count_le_held {A} (f : A -> bool) (d : A) (l : list A) ws :
  (forall i, (i < length l)%nat -> f (nth i l d) = true -> In i (held_ids ws)) ->
  count_true f l <= nlive ws.
Proof.
  intro H. unfold count_true. rewrite (filter_seq_length f d l).
  set (U := filter (fun i => f (nth i l d)) (seq 0 (length l))).
  assert (NoDup U) as Hnd by (apply NoDup_filter, seq_NoDup).
  assert (incl U (held_ids ws)) as Hin.
  { intros i Hi. apply filter_In in Hi as [Hi Hf]. apply in_seq in Hi. apply H; [lia | exact Hf]. }
  pose proof (NoDup_incl_length Hnd Hin). pose proof (held_ids_length ws). lia.
Qed.
