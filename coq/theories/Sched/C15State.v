(** C15 proofs, layer 1: canonical single-pool states of the pool model and the model's steps on
    them as equations. A state reachable in the histories of [wf15] has one pool [(0, mx, 0)] in
    state Running, empty request deques outside a resumption, empty cancel sets, no waiters;
    the varying components are collected in [cst]. *)
From OCV Require Import Base.Prelude Misc.Time Queue.PMap Queue.OWS Queue.OWSLemmas Coroutine.Co Sched.Sched Sched.Pool.
From Coq Require Import ZifyBool ZifyNat.
Open Scope Z_scope.

Record cst := {
  c_clock : Z;
  c_ts : list Z;                      (* TIMESTAMP deque (non-empty only inside a resumption) *)
  c_ws : list worker;
  c_wp : list nat;
  c_tq : sys; c_cq : sys;
  c_tb : list (list instr); c_tpr : list Z;
  c_d : sdata;
  c_run : Z; c_pf : Z;
  c_res : list (nat * tres);
  c_rt : list (nat * nat);
  c_tp : list nat
}.

Definition mkq (mx : Z) (s : cst) : pool :=
  {| p_state := PRunning; p_sd := c_d s; p_running := c_run s; p_popfail := c_pf s; p_min := 0; p_max := mx; p_keep := 0;
     p_waits := []; p_results := c_res s; p_nowaits := [] |}.

Definition mkx (mx : Z) (s : cst) : pw :=
  {| pw_clock := c_clock s; pw_ts := c_ts s; pw_cn := []; pw_workers := c_ws s; pw_wpool := c_wp s;
     pw_tq := c_tq s; pw_cq := c_cq s; pw_tbody := c_tb s; pw_tprio := c_tpr s; pw_pools := [mkq mx s];
     pw_cur := O; pw_cancel_tasks := []; pw_cancel_cos := []; pw_running_tasks := c_rt s; pw_spin := false;
     pw_tpool := c_tp s; pw_defects := [] |}.

(** the pools of C15 have no keep-alive: the keep-alive rounds of the fuel formulas vanish *)
Lemma keep_rounds_mkx mx s : keep_rounds (mkx mx s) = O.
Proof. reflexivity. Qed.
Lemma wfuel_mkx mx s :
  wfuel (mkx mx s) = (S (S (length (c_tb s))) + fold_right Nat.add O (map (fun b => S (S (length b))) (c_tb s)) + length (c_ws s))%nat.
Proof. unfold wfuel. rewrite keep_rounds_mkx, Nat.add_0_r. reflexivity. Qed.
Lemma pass_fuel_p_mkx mx s :
  pass_fuel_p (mkx mx s) = (S (S (wfuel (mkx mx s))) * S (S (length (c_ws s) + length (c_tb s))))%nat.
Proof. unfold pass_fuel_p. rewrite keep_rounds_mkx. reflexivity. Qed.

(* ---- setters ---- *)
Definition s_ws (s : cst) (ws : list worker) : cst :=
  {| c_clock := c_clock s; c_ts := c_ts s; c_ws := ws; c_wp := c_wp s; c_tq := c_tq s; c_cq := c_cq s; c_tb := c_tb s;
     c_tpr := c_tpr s; c_d := c_d s; c_run := c_run s; c_pf := c_pf s; c_res := c_res s; c_rt := c_rt s; c_tp := c_tp s |}.
Definition s_tq (s : cst) (q : sys) : cst :=
  {| c_clock := c_clock s; c_ts := c_ts s; c_ws := c_ws s; c_wp := c_wp s; c_tq := q; c_cq := c_cq s; c_tb := c_tb s;
     c_tpr := c_tpr s; c_d := c_d s; c_run := c_run s; c_pf := c_pf s; c_res := c_res s; c_rt := c_rt s; c_tp := c_tp s |}.
Definition s_cq (s : cst) (q : sys) : cst :=
  {| c_clock := c_clock s; c_ts := c_ts s; c_ws := c_ws s; c_wp := c_wp s; c_tq := c_tq s; c_cq := q; c_tb := c_tb s;
     c_tpr := c_tpr s; c_d := c_d s; c_run := c_run s; c_pf := c_pf s; c_res := c_res s; c_rt := c_rt s; c_tp := c_tp s |}.
Definition s_ts (s : cst) (ts : list Z) : cst :=
  {| c_clock := c_clock s; c_ts := ts; c_ws := c_ws s; c_wp := c_wp s; c_tq := c_tq s; c_cq := c_cq s; c_tb := c_tb s;
     c_tpr := c_tpr s; c_d := c_d s; c_run := c_run s; c_pf := c_pf s; c_res := c_res s; c_rt := c_rt s; c_tp := c_tp s |}.
Definition s_d (s : cst) (d : sdata) : cst :=
  {| c_clock := c_clock s; c_ts := c_ts s; c_ws := c_ws s; c_wp := c_wp s; c_tq := c_tq s; c_cq := c_cq s; c_tb := c_tb s;
     c_tpr := c_tpr s; c_d := d; c_run := c_run s; c_pf := c_pf s; c_res := c_res s; c_rt := c_rt s; c_tp := c_tp s |}.
Definition s_run (s : cst) (r : Z) : cst :=
  {| c_clock := c_clock s; c_ts := c_ts s; c_ws := c_ws s; c_wp := c_wp s; c_tq := c_tq s; c_cq := c_cq s; c_tb := c_tb s;
     c_tpr := c_tpr s; c_d := c_d s; c_run := r; c_pf := c_pf s; c_res := c_res s; c_rt := c_rt s; c_tp := c_tp s |}.
Definition s_pf (s : cst) (pf : Z) : cst :=
  {| c_clock := c_clock s; c_ts := c_ts s; c_ws := c_ws s; c_wp := c_wp s; c_tq := c_tq s; c_cq := c_cq s; c_tb := c_tb s;
     c_tpr := c_tpr s; c_d := c_d s; c_run := c_run s; c_pf := pf; c_res := c_res s; c_rt := c_rt s; c_tp := c_tp s |}.
Definition s_rt (s : cst) (rt : list (nat * nat)) : cst :=
  {| c_clock := c_clock s; c_ts := c_ts s; c_ws := c_ws s; c_wp := c_wp s; c_tq := c_tq s; c_cq := c_cq s; c_tb := c_tb s;
     c_tpr := c_tpr s; c_d := c_d s; c_run := c_run s; c_pf := c_pf s; c_res := c_res s; c_rt := rt; c_tp := c_tp s |}.
Definition s_res (s : cst) (res : list (nat * tres)) : cst :=
  {| c_clock := c_clock s; c_ts := c_ts s; c_ws := c_ws s; c_wp := c_wp s; c_tq := c_tq s; c_cq := c_cq s; c_tb := c_tb s;
     c_tpr := c_tpr s; c_d := c_d s; c_run := c_run s; c_pf := c_pf s; c_res := res; c_rt := c_rt s; c_tp := c_tp s |}.
Definition s_clock (s : cst) (c : Z) : cst :=
  {| c_clock := c; c_ts := c_ts s; c_ws := c_ws s; c_wp := c_wp s; c_tq := c_tq s; c_cq := c_cq s; c_tb := c_tb s;
     c_tpr := c_tpr s; c_d := c_d s; c_run := c_run s; c_pf := c_pf s; c_res := c_res s; c_rt := c_rt s; c_tp := c_tp s |}.

Ltac csimpl :=
  cbn [c_clock c_ts c_ws c_wp c_tq c_cq c_tb c_tpr c_d c_run c_pf c_res c_rt c_tp
       s_ws s_tq s_cq s_ts s_d s_run s_pf s_rt s_res s_clock] in *.

Definition w_st (k : worker) (st : cstate) : worker :=
  {| k_st := st; k_create := k_create k; k_task := k_task k; k_tpool := k_tpool k; k_dead := k_dead k |}.
Definition w_task (k : worker) (tk : option (nat * list instr)) : worker :=
  {| k_st := k_st k; k_create := k_create k; k_task := tk; k_tpool := k_tpool k; k_dead := k_dead k |}.
Definition w_dead (k : worker) : worker :=
  {| k_st := k_st k; k_create := k_create k; k_task := k_task k; k_tpool := k_tpool k; k_dead := true |}.
Definition neww (c : Z) : worker := {| k_st := Ready; k_create := c; k_task := None; k_tpool := O; k_dead := false |}.

(** * [try_grow] *)
Definition grow (mx : Z) (s : cst) : cst :=
  if full_len (c_tq s) =? 0 then s
  else if mx <=? c_run s then s
  else
    {| c_clock := c_clock s; c_ts := c_ts s; c_ws := c_ws s ++ [neww (c_clock s)]; c_wp := c_wp s ++ [O];
       c_tq := c_tq s; c_cq := fst (lpush (c_cq s) 0 0 (Z.of_nat (length (c_ws s)))); c_tb := c_tb s;
       c_tpr := c_tpr s; c_d := c_d s; c_run := c_run s + 1; c_pf := c_pf s; c_res := c_res s; c_rt := c_rt s;
       c_tp := c_tp s |}.

Lemma try_grow_mk mx s : try_grow (mkx mx s) 0 = mkx mx (grow mx s).
Proof.
  unfold try_grow, grow.
  change (pw_tq (mkx mx s)) with (c_tq s).
  destruct (full_len (c_tq s) =? 0); [reflexivity|].
  change (p_max (get_pool (mkx mx s) 0)) with mx. change (p_running (get_pool (mkx mx s) 0)) with (c_run s).
  destruct (mx <=? c_run s); reflexivity.
Qed.

(** * [k_change] (recording listener + creator listener) *)
Definition chg (mx : Z) (s : cst) (w : nat) (k : worker) (new : cstate) : cst :=
  let s1 := s_ws s (set_nth w (w_st k new) (c_ws s)) in
  match new with
  | Suspend _ _ | Syscall _ _ _ => grow mx s1
  | Complete _ => s_run s1 (sat_sub (c_run s1) 1)
  | Cancelled | Error _ => grow mx (s_run s1 (sat_sub (c_run s1) 1))
  | _ => s1
  end.

Lemma k_change_mk mx s w k new :
  nth_error (c_ws s) w = Some k ->
  k_change (mkx mx s) w new = (mkx mx (chg mx s w k new), [EL 0 w (CbChanged new) (k_st k)]).
Proof.
  intro H. unfold k_change. change (get_worker (mkx mx s) w) with (nth_error (c_ws s) w). rewrite H. f_equal.
  unfold chg, creator.
  change (upd_worker (mkx mx s) w {| k_st := new; k_create := k_create k; k_task := k_task k; k_tpool := k_tpool k; k_dead := k_dead k |})
    with (mkx mx (s_ws s (set_nth w (w_st k new) (c_ws s)))).
  set (s1 := s_ws s (set_nth w (w_st k new) (c_ws s))).
  change (pw_cur (mkx mx s1)) with O.
  destruct new; try reflexivity; try (rewrite <- try_grow_mk; reflexivity).
Qed.

(** * One iteration of the worker loop [wloop], by what the worker is doing *)
Definition upd_w (s : cst) (w : nat) (k : worker) : cst := s_ws s (set_nth w k (c_ws s)).

Lemma set_nth_same_def : @Co.set_nth = @OWS.set_nth.
Proof. reflexivity. Qed.

Lemma nth_error_upd_w s w k : (w < length (c_ws s))%nat -> nth_error (c_ws (upd_w s w k)) w = Some k.
Proof. intro H. unfold upd_w. cbn [c_ws s_ws]. rewrite set_nth_same_def. apply OWSLemmas.nth_error_set_nth_eq, H. Qed.

Lemma nth_error_upd_w_other s w k w' : w <> w' -> nth_error (c_ws (upd_w s w k)) w' = nth_error (c_ws s) w'.
Proof. intro H. unfold upd_w. cbn [c_ws s_ws]. rewrite set_nth_same_def. apply OWSLemmas.nth_error_set_nth_neq, H. Qed.

Lemma nth_error_lt' {A} (l : list A) i x : nth_error l i = Some x -> (i < length l)%nat.
Proof. intro H. apply nth_error_Some. congruence. Qed.

Section Wloop.
  Variable mx : Z.
  Variable s : cst.
  Variable w : nat.
  Variable k : worker.
  Hypothesis Hk : nth_error (c_ws s) w = Some k.

  Lemma wl_log f acc t n rest :
    k_task k = Some (t, ILog n :: rest) ->
    wloop (S f) (mkx mx s) w acc = wloop f (mkx mx (upd_w s w (w_task k (Some (t, rest))))) w (acc ++ [EB t (BLog n)]).
  Proof.
    intro Ht. cbn [wloop]. change (get_worker (mkx mx s) w) with (nth_error (c_ws s) w). rewrite Hk. cbv beta iota. rewrite Ht. reflexivity.
  Qed.

  Lemma wl_ret f acc t :
    k_task k = Some (t, []) -> k_tpool k = O -> nth t (c_tp s) O = O -> assoc_get t (c_res s) = None ->
    wloop (S f) (mkx mx s) w acc =
    wloop f (mkx mx (s_pf (s_res (s_rt (upd_w s w (w_task k None)) (assoc_del t (c_rt s))) (c_res s ++ [(t, TOk 0)])) 0))
          w (acc ++ [EB t (BRet 0)]).
  Proof.
    intros Ht Hp Htp Hres. destruct k as [st cr tk tp dd]. cbn [k_task k_tpool] in Ht, Hp. subst tk tp.
    cbn [wloop]. change (get_worker (mkx mx s) w) with (nth_error (c_ws s) w). rewrite Hk. cbv beta iota.
    cbn [k_task k_tpool k_st k_create k_dead].
    unfold finish_task.
    match goal with |- context [nth t (pw_tpool ?x) O] => change (pw_tpool x) with (c_tp s) end.
    rewrite Htp. cbn [Nat.eqb].
    match goal with |- context [mem_nat t (p_nowaits ?q)] => change (p_nowaits q) with (@nil nat) end.
    cbn [mem_nat existsb].
    match goal with |- context [assoc_get t (p_results ?q)] => change (p_results q) with (c_res s) end.
    rewrite Hres. reflexivity.
  Qed.

  Lemma wl_pop_some f acc q' tz :
    k_task k = None -> lpop (c_tq s) 0 0 = (q', OItem (Some tz)) ->
    wloop (S f) (mkx mx s) w acc =
    wloop f (mkx mx (upd_w (s_rt (s_tq s q') (assoc_del (Z.to_nat tz) (c_rt s) ++ [(Z.to_nat tz, w)])) w
                       {| k_st := k_st k; k_create := k_create k;
                          k_task := Some (Z.to_nat tz, nth (Z.to_nat tz) (c_tb s) []); k_tpool := O; k_dead := k_dead k |}))
          w (acc ++ [EB (Z.to_nat tz) (BStart (Z.of_nat w))]).
  Proof.
    intros Ht Hp. cbn [wloop]. change (get_worker (mkx mx s) w) with (nth_error (c_ws s) w). rewrite Hk. cbv beta iota. rewrite Ht.
    change (pw_tq (mkx mx s)) with (c_tq s). change (pw_cur (mkx mx s)) with O. rewrite Hp. reflexivity.
  Qed.

  Lemma wl_pop_none f acc q' :
    k_task k = None -> lpop (c_tq s) 0 0 = (q', OItem None) -> 0 < c_run s ->
    wloop (S f) (mkx mx s) w acc = (mkx mx (s_tq s q'), acc, WReturn).
  Proof.
    intros Ht Hp Hr. cbn [wloop]. change (get_worker (mkx mx s) w) with (nth_error (c_ws s) w). rewrite Hk. cbv beta iota. rewrite Ht.
    change (pw_tq (mkx mx s)) with (c_tq s). change (pw_cur (mkx mx s)) with O. rewrite Hp.
    change (p_keep (get_pool (set_tq (mkx mx s) q') 0)) with 0.
    change (p_min (get_pool (set_tq (mkx mx s) q') 0)) with 0.
    change (p_running (get_pool (set_tq (mkx mx s) q') 0)) with (c_run s).
    change (pw_clock (set_tq (mkx mx s) q')) with (c_clock s).
    assert (0 <=? sat_sub (c_clock s) (k_create k) = true) as -> by (unfold sat_sub; lia).
    assert (0 <? c_run s = true) as -> by lia. reflexivity.
  Qed.

  Lemma wl_syscall f acc t y n st rest new :
    k_task k = Some (t, ISyscall y n st :: rest) -> tr_syscall (k_st k) y n st = Some new ->
    wloop (S f) (mkx mx s) w acc =
    wloop f (mkx mx (chg mx (upd_w s w (w_task k (Some (t, rest)))) w (w_task k (Some (t, rest))) new)) w
          (acc ++ [EL 0 w (CbChanged new) (k_st k)] ++ [EB t (BRes true)]).
  Proof.
    intros Ht Htr. cbn [wloop]. change (get_worker (mkx mx s) w) with (nth_error (c_ws s) w). rewrite Hk. cbv beta iota. rewrite Ht, Htr.
    change (upd_worker (mkx mx s) w {| k_st := k_st k; k_create := k_create k; k_task := Some (t, rest); k_tpool := k_tpool k; k_dead := k_dead k |})
      with (mkx mx (upd_w s w (w_task k (Some (t, rest))))).
    rewrite (k_change_mk mx _ w (w_task k (Some (t, rest))) new)
      by (apply nth_error_upd_w, (nth_error_lt' _ _ _ Hk)).
    reflexivity.
  Qed.

  Lemma wl_running f acc t rest new :
    k_task k = Some (t, IRunning :: rest) -> tr_running (c_clock s) (k_st k) = Some (Some new) ->
    wloop (S f) (mkx mx s) w acc =
    wloop f (mkx mx (chg mx (upd_w s w (w_task k (Some (t, rest)))) w (w_task k (Some (t, rest))) new)) w
          (acc ++ [EL 0 w (CbChanged new) (k_st k)] ++ [EB t (BRes true)]).
  Proof.
    intros Ht Htr. cbn [wloop]. change (get_worker (mkx mx s) w) with (nth_error (c_ws s) w). rewrite Hk. cbv beta iota. rewrite Ht.
    change (upd_worker (mkx mx s) w {| k_st := k_st k; k_create := k_create k; k_task := Some (t, rest); k_tpool := k_tpool k; k_dead := k_dead k |})
      with (mkx mx (upd_w s w (w_task k (Some (t, rest))))).
    change (pw_clock (mkx mx (upd_w s w (w_task k (Some (t, rest)))))) with (c_clock s). rewrite Htr.
    rewrite (k_change_mk mx _ w (w_task k (Some (t, rest))) new)
      by (apply nth_error_upd_w, (nth_error_lt' _ _ _ Hk)).
    reflexivity.
  Qed.

  Lemma wl_until f acc t y ts rest :
    k_task k = Some (t, IUntil y ts :: rest) ->
    wloop (S f) (mkx mx s) w acc =
    (mkx mx (s_ts (upd_w s w (w_task k (Some (t, rest)))) (ts :: c_ts s)), acc ++ [EB t (BYield y (RUntil ts))], WYield).
  Proof.
    intro Ht. cbn [wloop]. change (get_worker (mkx mx s) w) with (nth_error (c_ws s) w). rewrite Hk. cbv beta iota. rewrite Ht. reflexivity.
  Qed.
End Wloop.

(** * Resuming a worker *)
Definition pre_resume (mx : Z) (s : cst) (w : nat) (k : worker) (c : option cstate) : cst * list ev :=
  match c with
  | Some new => (chg mx s w k new, [EL 0 w (CbChanged new) (k_st k)])
  | None => (s, [])
  end.

Section Resume.
  Variable mx : Z.
  Variable s : cst.
  Variable w : nat.
  Variable k : worker.
  Variable c0 : option cstate.
  Hypothesis Hwp : nth w (c_wp s) O = O.
  Hypothesis Hk : nth_error (c_ws s) w = Some k.
  Hypothesis Hst : match k_st k with Complete _ | Error _ => False | _ => True end.
  Hypothesis Htr : tr_running (c_clock s) (k_st k) = Some c0.
  Hypothesis Hdead : k_dead k = false.

  Lemma k_resume_prefix :
    k_resume (mkx mx s) w =
    let '(x2, ev2, out) := wloop (wfuel (mkx mx (fst (pre_resume mx s w k c0)))) (mkx mx (fst (pre_resume mx s w k c0))) w
                                 (snd (pre_resume mx s w k c0)) in
    let st2 := match get_worker x2 w with Some k2 => k_st k2 | None => Ready end in
    let dead (x : pw) := match get_worker x w with
                         | Some k' => upd_worker x w {| k_st := k_st k'; k_create := k_create k';
                                                       k_task := k_task k'; k_tpool := k_tpool k'; k_dead := true |}
                         | None => x end in
    match out with
    | WYield =>
        match st2 with
        | Running =>
            let '(cancel, cn') := pop_front false (pw_cn x2) in
            if cancel then
              let '(x3, e) := k_change (set_req x2 (pw_ts x2) cn') w Cancelled in
              (x3, ROk Cancelled, ev2 ++ e)
            else
              let '(ts, ts') := pop_front 0 (pw_ts x2) in
              let '(x3, e) := k_change (set_req x2 ts' cn') w (Suspend 0 ts) in
              (x3, ROk (Suspend 0 ts), ev2 ++ e)
        | Syscall y' n s0 =>
            let '(_, cn') := pop_front false (pw_cn x2) in
            let '(_, ts') := pop_front 0 (pw_ts x2) in
            (set_req x2 ts' cn', ROk (Syscall y' n s0), ev2)
        | _ => (x2, RErr, ev2)
        end
    | WReturn =>
        match st2 with
        | Running => let '(x3, e) := k_change (dead x2) w (Complete (-1)) in (x3, ROk (Complete (-1)), ev2 ++ e)
        | _ => (dead x2, RErr, ev2)
        end
    | WPanic pk =>
        match st2 with
        | Running =>
            let '(x3, e) := k_change (dead x2) w (Error (panic_msg pk)) in
            (x3, ROk (Error (panic_msg pk)), ev2 ++ e)
        | _ => (dead x2, RErr, ev2)
        end
    | WSpin | WFuel => (set_spin x2, RBad, ev2)
    end.
  Proof.
    unfold k_resume.
    change (pw_wpool (mkx mx s)) with (c_wp s). change (pw_cur (mkx mx s)) with O. rewrite Hwp. cbn [Nat.eqb].
    change (get_worker (mkx mx s) w) with (nth_error (c_ws s) w). rewrite Hk.
    change (pw_clock (mkx mx s)) with (c_clock s). rewrite Htr, Hdead.
    destruct c0 as [new|]; cbn [pre_resume fst snd].
    - rewrite (k_change_mk mx s w k new Hk). destruct (k_st k); try contradiction; reflexivity.
    - destruct (k_st k); try contradiction; reflexivity.
  Qed.

  Variable s2 : cst.
  Variable ev2 : list ev.
  Variable k2 : worker.
  Hypothesis Hk2 : nth_error (c_ws s2) w = Some k2.

  Lemma k_resume_yield y' n' st' :
    wloop (wfuel (mkx mx (fst (pre_resume mx s w k c0)))) (mkx mx (fst (pre_resume mx s w k c0))) w
          (snd (pre_resume mx s w k c0)) = (mkx mx s2, ev2, WYield) ->
    k_st k2 = Syscall y' n' st' ->
    k_resume (mkx mx s) w = (mkx mx (s_ts s2 (tl (c_ts s2))), ROk (Syscall y' n' st'), ev2).
  Proof.
    intros Hw Hs2. rewrite k_resume_prefix, Hw. cbv zeta.
    change (get_worker (mkx mx s2) w) with (nth_error (c_ws s2) w). rewrite Hk2, Hs2.
    change (pw_cn (mkx mx s2)) with (@nil bool). change (pw_ts (mkx mx s2)) with (c_ts s2).
    cbn [pop_front]. destruct (c_ts s2); reflexivity.
  Qed.

  Lemma k_resume_return :
    wloop (wfuel (mkx mx (fst (pre_resume mx s w k c0)))) (mkx mx (fst (pre_resume mx s w k c0))) w
          (snd (pre_resume mx s w k c0)) = (mkx mx s2, ev2, WReturn) ->
    k_st k2 = Running ->
    k_resume (mkx mx s) w =
    (mkx mx (chg mx (upd_w s2 w (w_dead k2)) w (w_dead k2) (Complete (-1))), ROk (Complete (-1)),
     ev2 ++ [EL 0 w (CbChanged (Complete (-1))) Running]).
  Proof.
    intros Hw Hs2. rewrite k_resume_prefix, Hw. cbv zeta.
    change (get_worker (mkx mx s2) w) with (nth_error (c_ws s2) w). rewrite Hk2. cbv beta iota. rewrite Hs2.
    change (get_worker (mkx mx s2) w) with (nth_error (c_ws s2) w). rewrite Hk2.
    change (upd_worker (mkx mx s2) w {| k_st := k_st k2; k_create := k_create k2; k_task := k_task k2; k_tpool := k_tpool k2; k_dead := true |})
      with (mkx mx (upd_w s2 w (w_dead k2))).
    rewrite (k_change_mk mx _ w (w_dead k2) (Complete (-1)))
      by (apply nth_error_upd_w, (nth_error_lt' _ _ _ Hk2)).
    cbn [w_dead k_st]. rewrite Hs2. reflexivity.
  Qed.
End Resume.

(** * The scheduling pass on canonical states *)
Notation csys := (check_sys pw pw_clock k_state k_change (k_push 0)).
Notation dsch := (do_schedule pw pw_clock k_state k_change k_resume (k_push 0) (k_pop 0) k_cancelled k_uncancel).

Definition d_wake (d : sdata) (e : Z * nat) : sdata :=
  {| sd_suspend := sd_suspend d; sd_syscall := remove_nat (snd e) (sd_syscall d);
     sd_sys_suspend := heap_remove e (sd_sys_suspend d); sd_gone := sd_gone d |}.
Definition d_park (d : sdata) (ts : Z) (i : nat) : sdata :=
  {| sd_suspend := sd_suspend d; sd_syscall := if mem_nat i (sd_syscall d) then sd_syscall d else i :: sd_syscall d;
     sd_sys_suspend := sd_sys_suspend d ++ [(ts, i)]; sd_gone := sd_gone d |}.

Lemma csys_done_empty mx s d acc f : heap_min (sd_sys_suspend d) = None -> csys f (mkx mx s) d acc = COk _ (mkx mx s) d acc.
Proof. intro H. destruct f; cbn [check_sys]; [reflexivity|]. rewrite H. reflexivity. Qed.

Lemma csys_done_later mx s d acc f ts i :
  heap_min (sd_sys_suspend d) = Some (ts, i) -> c_clock s < ts -> csys f (mkx mx s) d acc = COk _ (mkx mx s) d acc.
Proof.
  intros H Hc. destruct f; cbn [check_sys]; [reflexivity|]. rewrite H.
  change (pw_clock (mkx mx s)) with (c_clock s). assert (c_clock s <? ts = true) as -> by lia. reflexivity.
Qed.

Lemma csys_wake mx s d acc f ts i k y n t0 :
  heap_min (sd_sys_suspend d) = Some (ts, i) -> ts <= c_clock s -> mem_nat i (sd_syscall d) = true ->
  nth_error (c_ws s) i = Some k -> k_st k = Syscall y n (SSuspend t0) ->
  csys (S f) (mkx mx s) d acc =
  csys f (mkx mx (s_cq (chg mx s i k (Syscall y n STimeout))
                       (fst (lpush (c_cq (chg mx s i k (Syscall y n STimeout))) 0 0 (Z.of_nat i)))))
       (d_wake d (ts, i)) (acc ++ [EL 0 i (CbChanged (Syscall y n STimeout)) (k_st k)]).
Proof.
  intros H Hc Hm Hk Hs. cbn [check_sys]. rewrite H.
  change (pw_clock (mkx mx s)) with (c_clock s). assert (c_clock s <? ts = false) as -> by lia.
  cbn [sd_syscall]. rewrite Hm.
  unfold k_state. change (get_worker (mkx mx s) i) with (nth_error (c_ws s) i). rewrite Hk. cbn [option_map]. rewrite Hs.
  rewrite (k_change_mk mx s i k _ Hk). rewrite ?Hs. reflexivity.
Qed.

Lemma k_pop_mk mx s :
  k_pop 0 (mkx mx s) =
  match lpop (c_cq s) 0 0 with
  | (q, OItem (Some v)) => (mkx mx (s_cq s q), Some (Z.to_nat v))
  | (q, _) => (mkx mx (s_cq s q), None)
  end.
Proof.
  unfold k_pop. change (pw_cq (mkx mx s)) with (c_cq s).
  destruct (lpop (c_cq s) 0 0) as [q [|[v|]| | |]]; reflexivity.
Qed.

Section Pass.
  Variable mx : Z.
  Variable s : cst.
  Variable d : sdata.
  Variable dl : Z.
  Hypothesis Hsusp : sd_suspend d = [].

  Lemma dsch_cut f res acc :
    sat_sub dl (c_clock s) = 0 -> dsch (S f) (mkx mx s) d dl res acc = (mkx mx s, d, PassOk 0 res, acc).
  Proof.
    intro H. cbn [do_schedule]. change (pw_clock (mkx mx s)) with (c_clock s). rewrite H. reflexivity.
  Qed.

  Variable s1 : cst.
  Variable d1 : sdata.
  Variable acc acc1 : list ev.
  Hypothesis Hlive : sat_sub dl (c_clock s) <> 0.
  Hypothesis Hsys : csys (S (length (sd_sys_suspend d))) (mkx mx s) d acc = COk _ (mkx mx s1) d1 acc1.

  Lemma dsch_end f res q :
    lpop (c_cq s1) 0 0 = (q, OItem None) ->
    dsch (S f) (mkx mx s) d dl res acc = (mkx mx (s_cq s1 q), d1, PassOk (sat_sub dl (c_clock s)) res, acc1).
  Proof.
    intro Hp. cbn [do_schedule]. change (pw_clock (mkx mx s)) with (c_clock s).
    destruct (sat_sub dl (c_clock s) =? 0) eqn:E; [lia|].
    unfold check_ready. rewrite Hsusp. cbn [length check_suspend]. rewrite Hsusp. cbn [heap_min].
    rewrite Hsys, k_pop_mk, Hp. reflexivity.
  Qed.

  Variable q : sys.
  Variable v : Z.
  Variable s3 : cst.
  Variable e : list ev.
  Hypothesis Hpop : lpop (c_cq s1) 0 0 = (q, OItem (Some v)).

  Lemma dsch_parked f res y n ts :
    k_resume (mkx mx (s_cq s1 q)) (Z.to_nat v) = (mkx mx s3, ROk (Syscall y n (SSuspend ts)), e) ->
    dsch (S f) (mkx mx s) d dl res acc = dsch f (mkx mx s3) (d_park d1 ts (Z.to_nat v)) dl res (acc1 ++ e).
  Proof.
    intro Hr. cbn [do_schedule]. change (pw_clock (mkx mx s)) with (c_clock s).
    destruct (sat_sub dl (c_clock s) =? 0) eqn:E; [lia|].
    unfold check_ready. rewrite Hsusp. cbn [length check_suspend]. rewrite Hsusp. cbn [heap_min].
    rewrite Hsys, k_pop_mk, Hpop. unfold k_cancelled. change (pw_cancel_cos (mkx mx (s_cq s1 q))) with (@nil nat).
    cbn [mem_nat existsb]. rewrite Hr. reflexivity.
  Qed.

  Lemma dsch_exited f res r :
    k_resume (mkx mx (s_cq s1 q)) (Z.to_nat v) = (mkx mx s3, ROk (Complete r), e) ->
    dsch (S f) (mkx mx s) d dl res acc =
    dsch f (mkx mx s3) d1 dl (res ++ [(Z.to_nat v, ROk (Complete r))]) (acc1 ++ e).
  Proof.
    intro Hr. cbn [do_schedule]. change (pw_clock (mkx mx s)) with (c_clock s).
    destruct (sat_sub dl (c_clock s) =? 0) eqn:E; [lia|].
    unfold check_ready. rewrite Hsusp. cbn [length check_suspend]. rewrite Hsusp. cbn [heap_min].
    rewrite Hsys, k_pop_mk, Hpop. unfold k_cancelled. change (pw_cancel_cos (mkx mx (s_cq s1 q))) with (@nil nat).
    cbn [mem_nat existsb]. rewrite Hr. reflexivity.
  Qed.
End Pass.

(** * Operations *)
Lemma ppass_mk mx s dl s2 d2 l rs e :
  dsch (pass_fuel_p (mkx mx (grow mx s))) (mkx mx (grow mx s)) (c_d (grow mx s)) dl [] [] = (mkx mx s2, d2, PassOk l rs, e) ->
  ppass (mkx mx s) 0 dl = (mkx mx (s_d s2 d2), PLeft l, e).
Proof.
  intro H. unfold ppass. change (p_state (get_pool (mkx mx s) 0)) with PRunning. cbv iota.
  rewrite try_grow_mk.
  change (set_cur (mkx mx (grow mx s)) 0) with (mkx mx (grow mx s)).
  change (p_sd (get_pool (mkx mx (grow mx s)) 0)) with (c_d (grow mx s)).
  rewrite H. reflexivity.
Qed.

Definition submit_c (s : cst) (body : list instr) : cst :=
  {| c_clock := c_clock s; c_ts := c_ts s; c_ws := c_ws s; c_wp := c_wp s;
     c_tq := fst (lpush (c_tq s) 0 0 (Z.of_nat (length (c_tb s)))); c_cq := c_cq s;
     c_tb := c_tb s ++ [body]; c_tpr := c_tpr s ++ [0]; c_d := c_d s; c_run := c_run s; c_pf := c_pf s;
     c_res := c_res s; c_rt := c_rt s; c_tp := c_tp s ++ [O] |}.

Lemma pstep_submit mx s body : pstep (mkx mx s) (PSubmit 0 body None) = (mkx mx (submit_c s body), OSubmit true).
Proof. reflexivity. Qed.

Lemma pstep_clock mx s c : pstep (mkx mx s) (PClock c) = (mkx mx (s_clock s c), OUnitP).
Proof. reflexivity. Qed.

Definition cst0 (c : Z) : cst :=
  {| c_clock := c; c_ts := []; c_ws := []; c_wp := []; c_tq := add_handles 1 (OWS.init 1 queue_cap);
     c_cq := add_handles 1 (OWS.init 1 queue_cap); c_tb := []; c_tpr := []; c_d := sdata0; c_run := 0; c_pf := 0;
     c_res := []; c_rt := []; c_tp := [] |}.

Lemma pw0_mk mx c : pw0 c [(0, mx, 0)] = mkx mx (cst0 c).
Proof. reflexivity. Qed.
