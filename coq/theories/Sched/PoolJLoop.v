(** The worker loop keeps the simulation invariant. *)
From OCV Require Import Base.Prelude Misc.Time Queue.PMap Queue.OWS Queue.OWSOracle Queue.OWSLemmas Queue.OWSModel Queue.OWSStep.
From OCV Require Import Coroutine.Co Coroutine.CoLemmas Sched.Sched Sched.Pool Sched.PoolOracle Sched.PoolBase Sched.PoolWf Sched.PoolQ Sched.PoolJ Sched.PoolJLemmas Sched.PoolCanon Sched.PoolUnfold Sched.PoolMeasure Sched.PoolJStep.
From Coq Require Import ZifyBool ZifyNat.
Open Scope Z_scope.

Lemma imode_MRun s : imode s = Some MRun -> s = Running.
Proof. destruct s as [| |y ts|y n st| |r|m]; cbn [imode]; try discriminate; [reflexivity|]. destruct st; discriminate. Qed.

Lemma imode_MExec s n : imode s = Some (MExec n) -> exists y, s = Syscall y n SExecuting.
Proof.
  destruct s as [| |y ts|y n' st| |r|m]; cbn [imode]; try discriminate. destruct st; try discriminate.
  intro H. injection H as ->. eauto.
Qed.

Lemma imode_MSusp s n : imode s = Some (MSusp n) -> exists y ts, s = Syscall y n (SSuspend ts).
Proof.
  destruct s as [| |y ts|y n' st| |r|m]; cbn [imode]; try discriminate. destruct st; try discriminate.
  intro H. injection H as ->. eauto.
Qed.

Lemma imode_MWoken s n : imode s = Some (MWoken n) -> exists y, s = Syscall y n STimeout.
Proof.
  destruct s as [| |y ts|y n' st| |r|m]; cbn [imode]; try discriminate. destruct st; try discriminate.
  intro H. injection H as ->. eauto.
Qed.

Lemma body_from_nil m : body_from m [] = true -> m = MRun.
Proof. destruct m; cbn [body_from]; congruence. Qed.

Section Loop.
Variable mx : Z.
Variable kp : Z.

Lemma G_upd_same x h w k k' :
  G mx x h -> get_worker x w = Some k -> k_st k' = k_st k -> (k_task k = None -> k_task k' = None) ->
  G mx (upd_worker x w k') h.
Proof.
  intros HG Hk Est Etask. unfold get_worker in Hk.
  assert (w < length (pw_workers x))%nat as Hlt by (eapply nth_error_Some_lt, Hk).
  destruct HG as [HG|[HG|(v & kv & Hv & Hlv & Hc)]]; [left; exact HG | right; left; exact HG|].
  right. right. autorewrite with pw. destruct (Nat.eq_dec v w) as [->|Hne].
  - exists w, k'. rewrite nth_error_set_nth_same by exact Hlt. rewrite Hk in Hv. injection Hv as <-.
    split; [reflexivity|]. split; [unfold live in *; rewrite Est; exact Hlv|]. rewrite Est.
    destruct Hc as [Hc|Hc]; [left; apply Etask, Hc | right; exact Hc].
  - exists v, kv. rewrite nth_error_set_nth_other by exact Hne. auto.
Qed.

Lemma J_set_req tnt x d h t ts : J mx kp tnt x d h t -> J mx kp tnt (set_req x ts (pw_cn x)) d h t.
Proof.
  intros [HQ HL HP HS HT HR HW]. constructor; autorewrite with pw; try assumption.
  destruct HP as [P1 P2 P3 P4 P5 P6 P7 P8 P9 P10 P11 P12]. constructor; autorewrite with pw; assumption.
Qed.

(** the worker found nothing to do and its keep-alive has not expired: a plain yield *)
Definition idle_yield (x' : pw) (w : nat) : Prop :=
  exists k, get_worker x' w = Some k /\ live k = true /\ k_dead k = false /\ k_tpool k = 0%nat /\ pw_ts x' = [] /\
    k_task k = None /\ k_st k = Running /\ all_items (pw_tq x') = [].

(** what the worker loop leaves for [k_resume] *)
Definition wl_post (x' : pw) (w : nat) (out : wout) : Prop :=
  match out with
  | WYield =>
      (exists k i rest, get_worker x' w = Some k /\ live k = true /\ k_dead k = false /\ k_tpool k = 0%nat /\
        (length (pw_ts x') <= 1)%nat /\ k_task k = Some (i, rest) /\
        ((k_st k = Running /\ body_from MRun rest = true) \/
         (exists y n ts, k_st k = Syscall y n (SSuspend ts) /\ body_from (MWoken n) rest = true))) \/
      idle_yield x' w
  | WReturn =>
      exists k, get_worker x' w = Some k /\ live k = true /\ k_st k = Running /\ k_task k = None /\ k_dead k = false /\
        k_tpool k = 0%nat /\ all_items (pw_tq x') = [] /\ pw_ts x' = []
  | WFuel => True
  | _ => False
  end.

Lemma hole_ok_intro x w k m :
  get_worker x w = Some k -> live k = true -> k_dead k = false -> k_tpool k = 0%nat -> imode (k_st k) = Some m ->
  match k_task k with Some (_, rest) => body_from m rest = true | None => m = MRun end -> hole_ok x w.
Proof. intros. exists k, m. auto 10. Qed.

Definition wl_cost (out : wout) : Z := match out with WYield => 3 | _ => 0 end.

(** the idle part of the potential: naps left before the last keep-alive expires, idle yields left
    before the next nap *)
Definition ipot (x : pw) : Z := mx * phix kp x + pfx mx x.
Definition idle_dec (x x' : pw) : Prop := ipot x' + 1 <= ipot x.

(** how the measures move over a call of the worker loop, provided no nap hit the end of time:
    either work was done, or the call was a plain idle yield (possibly after one nap) *)
Definition WM (w : nat) (x x' : pw) (out : wout) (f : nat) : Prop :=
  low kp x' ->
  (rho x' + wl_cost out <= rho x \/
   (idle_yield x' w /\ out = WYield /\ 0 < kp /\ rho x' <= rho x /\ (rho x' = rho x -> idle_dec x x'))) /\
  (forall k, get_worker x w = Some k -> (mu2 kp x k <= f)%nat -> out <> WFuel).

Definition WL (f : nat) : Prop := forall tnt x d w acc t,
  J mx kp tnt x d (Some w) t -> quiet_off t -> G mx x (Some w) -> hole_ok x w -> ~ In w (pw_cancel_cos x) -> pw_ts x = [] ->
  exists x' evs out, wloop f x w acc = (x', acc ++ evs, out) /\
    J mx kp tnt x' d (Some w) (fold_left pev evs t) /\ G mx x' (Some w) /\
    pw_cancel_cos x' = pw_cancel_cos x /\ pw_tbody x' = pw_tbody x /\ pw_clock x <= pw_clock x' /\ wl_post x' w out /\
    WM w x x' out f.

Lemma rem_ext c k k' : k_create k' = k_create k -> rem kp c k' = rem kp c k.
Proof. unfold rem. intros ->. reflexivity. Qed.

Lemma quiet_off_fold t e : quiet_off t -> quiet_off (fold_left pev e t).
Proof. unfold quiet_off. rewrite po_pools_fold_pev. auto. Qed.

Lemma wl_chain f tnt x x1 d w acc e t k k1 :
  WL f -> J mx kp tnt x1 d (Some w) (fold_left pev e t) -> quiet_off t -> G mx x1 (Some w) -> hole_ok x1 w ->
  pw_cancel_cos x1 = pw_cancel_cos x -> ~ In w (pw_cancel_cos x) -> pw_ts x1 = [] -> pw_tbody x1 = pw_tbody x ->
  pw_clock x <= pw_clock x1 -> rho x1 < rho x ->
  get_worker x w = Some k -> get_worker x1 w = Some k1 -> k_create k1 = k_create k -> (mu x1 k1 < mu x k)%nat ->
  exists x' evs out, wloop f x1 w (acc ++ e) = (x', acc ++ evs, out) /\
    J mx kp tnt x' d (Some w) (fold_left pev evs t) /\ G mx x' (Some w) /\
    pw_cancel_cos x' = pw_cancel_cos x /\ pw_tbody x' = pw_tbody x /\ pw_clock x <= pw_clock x' /\ wl_post x' w out /\
    WM w x x' out (S f).
Proof.
  intros HWL HJ Hq HG Hh Ecc Hncc Hts Etb Hclk Hrho Hk Hk1 Ecr Hmu.
  destruct (HWL tnt x1 d w (acc ++ e) (fold_left pev e t) HJ (quiet_off_fold _ _ Hq) HG Hh ltac:(rewrite Ecc; exact Hncc) Hts)
    as (x' & evs & out & Ew & HJ' & HG' & Ecc' & Etb' & Hclk' & Hpost & HM).
  exists x', (e ++ evs), out. rewrite app_assoc, fold_pev_app. split; [exact Ew|].
  split; [exact HJ'|]. split; [exact HG'|]. split; [congruence|]. split; [congruence|]. split; [lia|]. split; [exact Hpost|].
  intro Hlow. destruct (HM Hlow) as [HD Hf']. split.
  - destruct HD as [HA|(Hi & Ho & Hkp & Hr & _)]; [left; lia|]. right. split; [exact Hi|]. split; [exact Ho|]. split; [exact Hkp|]. split; [lia|]. intro E. exfalso. lia.
  - intros k0 Hk0 Hm. rewrite Hk in Hk0. injection Hk0 as <-. apply (Hf' k1 Hk1). unfold mu2 in *.
    pose proof (rem_mono kp _ _ k Hclk) as Hr. rewrite (rem_ext _ _ _ Ecr). pose proof (rem_nonneg kp (pw_clock x1) k). lia.
Qed.

Lemma wl_chain0 f tnt x x1 d w acc t k k1 :
  WL f -> J mx kp tnt x1 d (Some w) t -> quiet_off t -> G mx x1 (Some w) -> hole_ok x1 w ->
  pw_cancel_cos x1 = pw_cancel_cos x -> ~ In w (pw_cancel_cos x) -> pw_ts x1 = [] -> pw_tbody x1 = pw_tbody x ->
  pw_clock x <= pw_clock x1 -> rho x1 < rho x ->
  get_worker x w = Some k -> get_worker x1 w = Some k1 -> k_create k1 = k_create k -> (mu x1 k1 < mu x k)%nat ->
  exists x' evs out, wloop f x1 w acc = (x', acc ++ evs, out) /\
    J mx kp tnt x' d (Some w) (fold_left pev evs t) /\ G mx x' (Some w) /\
    pw_cancel_cos x' = pw_cancel_cos x /\ pw_tbody x' = pw_tbody x /\ pw_clock x <= pw_clock x' /\ wl_post x' w out /\
    WM w x x' out (S f).
Proof.
  intros HWL HJ Hq HG Hh Ecc Hncc Hts Etb Hclk Hrho Hk Hk1 Ecr Hmu.
  destruct (wl_chain f tnt x x1 d w acc [] t k k1 HWL HJ Hq HG Hh Ecc Hncc Hts Etb Hclk Hrho Hk Hk1 Ecr Hmu) as (x' & evs & out & Ew & H).
  rewrite app_nil_r in Ew. exists x', evs, out. split; [exact Ew | exact H].
Qed.

Lemma G_frame x x' h :
  all_items (pw_tq x') = all_items (pw_tq x) -> get_pool x' 0 = get_pool x 0 -> pw_workers x' = pw_workers x ->
  G mx x h -> G mx x' h.
Proof. unfold G. intros -> -> ->. auto. Qed.

Lemma WL_0 : WL 0.
Proof.
  intros tnt x d w acc t HJ Hq HG Hh Hncc Hts. exists x, [], WFuel. cbn [wloop fold_left wl_post]. rewrite app_nil_r.
  split; [reflexivity|]. split; [exact HJ|]. split; [exact HG|]. split; [reflexivity|]. split; [reflexivity|]. split; [lia|]. split; [exact I|].
  intros _. split; [left; cbn [wl_cost]; lia|]. intros k Hk Hm. unfold mu2, mu in Hm. lia.
Qed.

(** the finishing branches *)
Lemma mu_same_q x x' k k' : pw_tq x' = pw_tq x -> pw_tbody x' = pw_tbody x -> tasklen k' = tasklen k -> mu x' k' = mu x k.
Proof. unfold mu. intros -> -> ->. reflexivity. Qed.

Lemma wl_finish f tnt x d w acc t k i rest r e :
  WL f -> J mx kp tnt x d (Some w) t -> quiet_off t -> get_worker x w = Some k -> live k = true -> k_dead k = false ->
  k_tpool k = 0%nat -> imode (k_st k) = Some MRun -> k_task k = Some (i, rest) ->
  ~ In w (pw_cancel_cos x) -> pw_ts x = [] ->
  pev t e = fin_trk t i r -> r = body_outcome rest ->
  exists x' evs out,
    fin_cont f w (acc ++ [e]) 0 (finish_task (upd_worker x w (with_task k None)) 0 i r) = (x', acc ++ evs, out) /\
    J mx kp tnt x' d (Some w) (fold_left pev evs t) /\ G mx x' (Some w) /\
    pw_cancel_cos x' = pw_cancel_cos x /\ pw_tbody x' = pw_tbody x /\ pw_clock x <= pw_clock x' /\ wl_post x' w out /\
    WM w x x' out (S f).
Proof.
  intros HWL HJ Hq Hk Hl Hdead Htp Him Htask Hncc Hts Hev Hrout.
  destruct (J_finish mx kp tnt x d w t k i rest r HJ Hq Hk Hl Htask Hrout) as (xf & Ef & HJ' & Hm & Hw' & HG').
  pose proof (finish_rho x w k i r xf (jp_pools _ _ _ _ (j_p _ _ _ _ _ _ _ _ HJ)) Hk Hl Ef) as Hrho.
  rewrite Ef. cbn [fin_cont]. cbv zeta in HJ', Hm, Hw', HG'. set (xg := upd_pool xf 0 (p_with_popfail 0)) in *.
  destruct Hm as [M1 M2 M3 M4 M5 M6].
  eapply (wl_chain f tnt x xg d w acc [e] t k (with_task k None)); try eassumption.
  - cbn [fold_left]. rewrite Hev. exact HJ'.
  - eapply hole_ok_intro; [exact Hw' | exact Hl | exact Hdead | exact Htp | exact Him | reflexivity].
  - congruence.
  - lia.
  - unfold tasklen in Hrho. rewrite Htask in Hrho. lia.
  - reflexivity.
  - unfold mu. rewrite M5, M6. unfold tasklen. cbn [with_task k_task]. rewrite Htask. lia.
Qed.

Lemma tr_syscall_imode s m y name st :
  imode s = Some m -> (match mode_name m with None => true | Some n' => n' =? name end) = true ->
  tr_syscall s y name st = Some (Syscall y name st).
Proof.
  intros Him Hn. destruct m as [|n|n|n]; cbn [mode_name] in Hn.
  - apply imode_MRun in Him. subst. reflexivity.
  - apply imode_MExec in Him as [y0 ->]. cbn [tr_syscall]. rewrite Hn. reflexivity.
  - apply imode_MSusp in Him as (y0 & ts & ->). cbn [tr_syscall]. rewrite Hn. reflexivity.
  - apply imode_MWoken in Him as [y0 ->]. cbn [tr_syscall]. rewrite Hn. reflexivity.
Qed.

Lemma WL_S f : WL f -> WL (S f).
Proof.
  intros HWL tnt x d w acc t HJ Hq HG Hh Hncc Hts.
  destruct Hh as (k & m & Hk & Hl & Hdead & Htp & Him & Hbody).
  pose proof (jp_cur _ _ _ _ (j_p _ _ _ _ _ _ _ _ HJ)) as Hcur.
  pose proof (jp_pools _ _ _ _ (j_p _ _ _ _ _ _ _ _ HJ)) as Hpools.
  rewrite (wloop_S f x w acc k Hk). cbv zeta. rewrite Hcur, ?Htp.
  destruct (k_task k) as [[i body]|] eqn:Htask.
  - destruct body as [|ins rest].
    + (* the body ran off its end *)
      apply body_from_nil in Hbody. subst m.
      eapply (wl_finish f tnt x d w acc t k i [] (TOk 0) _ HWL HJ Hq Hk Hl Hdead Htp Him Htask Hncc Hts); reflexivity.
    + set (k0 := with_task k (Some (i, rest))). set (x0 := upd_worker x w k0).
      assert (body_outcome (ins :: rest) = body_outcome rest -> J mx kp tnt x0 d (Some w) t) as HJ0'.
      { intro Hout. apply (J_hole_upd mx kp tnt x d w t k k0 HJ Hk); [reflexivity | reflexivity | unfold tid; rewrite Htask; reflexivity|].
        intros i' rest' E. cbn [k0 with_task k_task] in E. injection E as <- <-.
        destruct (jt_suf _ _ _ _ _ _ _ _ (j_t _ _ _ _ _ _ _ _ HJ) _ _ _ _ Hk Htask) as [S1 S2]. cbn [length] in S2.
        split; [rewrite <- Hout; exact S1 | lia]. }
      assert (G mx x0 (Some w)) as HG0.
      { apply (G_upd_same x (Some w) w k k0 HG Hk); [reflexivity|]. congruence. }
      assert (get_worker x0 w = Some k0) as Hk0 by (apply get_worker_upd_worker_same; eapply get_worker_lt, Hk).
      assert (pw_cancel_cos x0 = pw_cancel_cos x) as Ecc0 by reflexivity.
      assert (pw_ts x0 = []) as Hts0 by exact Hts.
      assert (pw_tbody x0 = pw_tbody x) as Etb0 by reflexivity.
      assert (live k0 = true) as Hl0 by exact Hl.
      assert (rho x0 + 3 = rho x) as Hrho0.
      { pose proof (rho_upd_worker x w k k0 Hk) as H1. rewrite (wwork_live k Hl), (wwork_live k0 Hl0), Hl, Hl0 in H1.
        unfold tasklen in H1. rewrite Htask in H1. cbn [k0 with_task k_task length] in H1. unfold x0. lia. }
      assert ((mu x0 k0 < mu x k)%nat) as Hmu0.
      { unfold mu, tasklen. rewrite Htask. cbn [k0 with_task k_task length]. change (pw_tq x0) with (pw_tq x). change (pw_tbody x0) with (pw_tbody x). lia. }
      assert (forall m', imode (k_st k0) = Some m' -> body_from m' rest = true -> hole_ok x0 w) as Hh0.
      { intros m' H1 H2. eapply hole_ok_intro; [exact Hk0 | exact Hl0 | exact Hdead | exact Htp | exact H1 | exact H2]. }
      assert (forall m', body_from (match m with MRun => MRun | MSusp n => MWoken n | _ => m' end) rest = true ->
                         match m with MRun | MSusp _ => True | _ => False end ->
              (k_st k0 = Running /\ body_from MRun rest = true) \/
              (exists y n ts, k_st k0 = Syscall y n (SSuspend ts) /\ body_from (MWoken n) rest = true)) as Hyield.
      { intros m' Hb Hm. destruct m as [|n|n|n]; try contradiction.
        - left. split; [apply imode_MRun, Him | exact Hb].
        - right. apply imode_MSusp in Him as (y0 & ts & E). exists y0, n, ts. split; [exact E | exact Hb]. }
      destruct ins as [y|y dd|y ts| |y name st| |dd|n|v|pk|]; cbn [body_from] in Hbody.
      * (* ISuspend *)
        pose proof (HJ0' eq_refl) as HJ0.
        exists x0, [EB i (BYield y RNone)], WYield. split; [reflexivity|].
        split; [exact HJ0|]. split; [exact HG0|]. split; [exact Ecc0|]. split; [exact Etb0|]. split; [apply Z.le_refl|]. split.
        { left. exists k0, i, rest. split; [exact Hk0|]. split; [exact Hl0|]. split; [exact Hdead|]. split; [exact Htp|].
          split; [rewrite Hts0; cbn; lia|]. split; [reflexivity|].
          apply (Hyield MRun); destruct m; try discriminate; auto. }
        intros _. split; [left; cbn [wl_cost]; lia | discriminate].
      * (* IDelay *)
        pose proof (HJ0' eq_refl) as HJ0.
        eexists _, [EB i (BYield y (RDelay dd))], WYield. split; [reflexivity|].
        split; [apply J_set_req, HJ0|]. split; [exact HG0|]. split; [exact Ecc0|]. split; [exact Etb0|]. split; [apply Z.le_refl|]. split.
        { left. exists k0, i, rest. split; [exact Hk0|]. split; [exact Hl0|]. split; [exact Hdead|]. split; [exact Htp|].
          split; [autorewrite with pw; rewrite Hts0; cbn; lia|]. split; [reflexivity|].
          apply (Hyield MRun); destruct m; try discriminate; auto. }
        intros _. split; [left; cbn [wl_cost]; change (rho (set_req x0 _ _)) with (rho x0); lia | discriminate].
      * (* IUntil *)
        pose proof (HJ0' eq_refl) as HJ0.
        eexists _, [EB i (BYield y (RUntil ts))], WYield. split; [reflexivity|].
        split; [apply J_set_req, HJ0|]. split; [exact HG0|]. split; [exact Ecc0|]. split; [exact Etb0|]. split; [apply Z.le_refl|]. split.
        { left. exists k0, i, rest. split; [exact Hk0|]. split; [exact Hl0|]. split; [exact Hdead|]. split; [exact Htp|].
          split; [autorewrite with pw; rewrite Hts0; cbn; lia|]. split; [reflexivity|].
          apply (Hyield MRun); destruct m; try discriminate; auto. }
        intros _. split; [left; cbn [wl_cost]; change (rho (set_req x0 _ _)) with (rho x0); lia | discriminate].
      * discriminate.
      * (* ISyscall *)
        pose proof (HJ0' eq_refl) as HJ0.
        apply andb_true_iff in Hbody as [Hname Hbody].
        rewrite (tr_syscall_imode _ _ y name st Him Hname).
        assert (exists m', imode (Syscall y name st) = Some m' /\ body_from m' rest = true) as (m' & Him' & Hbody').
        { destruct st; try discriminate; cbn [imode]; eauto. }
        destruct (J_k_change mx kp tnt x0 d w t k0 (Syscall y name st) HJ0 Hq Hk0 Hl0 ltac:(discriminate))
          as (x1 & Ekc & HJ1 & Hm1 & Hk1 & HG1a & HG1b & HG1c).
        destruct (k_change_rho x0 w k0 (Syscall y name st) x1 _ Hpools Hcur Hk0 Hl0 Ekc) as [Hr1 _]. cbn [terminal creator_grows] in Hr1.
        rewrite Ekc. destruct Hm1 as [M1 M2 M3 M4 M5 M6].
        replace (acc ++ [EL 0 w (CbChanged (Syscall y name st)) (k_st k0)] ++ [EB i (BRes true)])
          with (acc ++ [EL 0 w (CbChanged (Syscall y name st)) (k_st k0); EB i (BRes true)]) by reflexivity.
        eapply (wl_chain f tnt x x1 d w acc _ t k (with_st k0 (Syscall y name st)) HWL); [exact HJ1 | exact Hq | | | congruence | exact Hncc | congruence | congruence | rewrite M4; apply Z.le_refl | lia | exact Hk | exact Hk1 | reflexivity |].
        -- apply G_None_any, HG1a. reflexivity.
        -- eapply hole_ok_intro; [exact Hk1 | reflexivity | exact Hdead | exact Htp | exact Him' | exact Hbody'].
        -- rewrite (mu_same_q x0 x1 k0 (with_st k0 (Syscall y name st)) M5 M6 eq_refl). exact Hmu0.
      * (* IRunning *)
        pose proof (HJ0' eq_refl) as HJ0.
        destruct m as [|n|n|n]; try discriminate.
        -- pose proof (imode_MRun _ Him) as Est. rewrite Est. cbn [tr_running].
           eapply (wl_chain f tnt x x0 d w acc [EB i (BRes true)] t k k0 HWL);
             [exact HJ0 | exact Hq | exact HG0 | | exact Ecc0 | exact Hncc | exact Hts0 | exact Etb0 | apply Z.le_refl | lia | exact Hk | exact Hk0 | reflexivity | exact Hmu0].
           ++ apply (Hh0 MRun); [exact Him | exact Hbody].
        -- destruct (imode_MExec _ _ Him) as [y0 Est]. rewrite Est. cbn [tr_running].
           destruct (J_k_change mx kp tnt x0 d w t k0 Running HJ0 Hq Hk0 Hl0 ltac:(discriminate))
             as (x1 & Ekc & HJ1 & Hm1 & Hk1 & HG1a & HG1b & HG1c).
           destruct (k_change_rho x0 w k0 Running x1 _ Hpools Hcur Hk0 Hl0 Ekc) as [Hr1 _]. cbn [terminal creator_grows] in Hr1.
           rewrite Ekc. destruct Hm1 as [M1 M2 M3 M4 M5 M6].
           replace (acc ++ [EL 0 w (CbChanged Running) (k_st k0)] ++ [EB i (BRes true)])
             with (acc ++ [EL 0 w (CbChanged Running) (k_st k0); EB i (BRes true)]) by reflexivity.
           eapply (wl_chain f tnt x x1 d w acc _ t k (with_st k0 Running) HWL); [exact HJ1 | exact Hq | | | congruence | exact Hncc | congruence | congruence | rewrite M4; apply Z.le_refl | lia | exact Hk | exact Hk1 | reflexivity |].
           ++ apply HG1b; auto.
           ++ eapply hole_ok_intro; [exact Hk1 | reflexivity | exact Hdead | exact Htp | reflexivity | exact Hbody].
           ++ rewrite (mu_same_q x0 x1 k0 (with_st k0 Running) M5 M6 eq_refl). exact Hmu0.
        -- destruct (imode_MWoken _ _ Him) as [y0 Est]. rewrite Est. cbn [tr_running].
           eapply (wl_chain f tnt x x0 d w acc [EB i (BRes true)] t k k0 HWL);
             [exact HJ0 | exact Hq | exact HG0 | | exact Ecc0 | exact Hncc | exact Hts0 | exact Etb0 | apply Z.le_refl | lia | exact Hk | exact Hk0 | reflexivity | exact Hmu0].
           ++ apply (Hh0 (MWoken n)); [exact Him | exact Hbody].
      * (* ITick *)
        pose proof (HJ0' eq_refl) as HJ0.
        apply andb_true_iff in Hbody as [Hd Hbody].
        eapply (wl_chain f tnt x _ d w acc [EB i (BTick dd)] t k k0 HWL);
          [ | exact Hq | | | exact Ecc0 | exact Hncc | exact Hts0 | exact Etb0 | | | exact Hk | exact Hk0 | reflexivity | exact Hmu0].
        -- cbn [fold_left]. apply J_tick; [exact HJ0 | lia].
        -- eapply G_frame; [| | | exact HG0]; reflexivity.
        -- eapply hole_ok_intro; [exact Hk0 | exact Hl0 | exact Hdead | exact Htp | exact Him | exact Hbody].
        -- autorewrite with pw. apply (sat_add64_mono (pw_clock x) dd); [apply (jp_clock _ _ _ _ (j_p _ _ _ _ _ _ _ _ HJ)) | lia].
        -- change (rho (set_clockp x0 _)) with (rho x0). lia.
      * (* ILog *)
        pose proof (HJ0' eq_refl) as HJ0.
        eapply (wl_chain f tnt x x0 d w acc [EB i (BLog n)] t k k0 HWL);
          [exact HJ0 | exact Hq | exact HG0 | | exact Ecc0 | exact Hncc | exact Hts0 | exact Etb0 | apply Z.le_refl | lia | exact Hk | exact Hk0 | reflexivity | exact Hmu0].
        -- apply (Hh0 m); [exact Him | exact Hbody].
      * (* IReturn *)
        destruct m; try discriminate.
        eapply (wl_finish f tnt x d w acc t k i (IReturn v :: rest) (TOk v) _ HWL HJ Hq Hk Hl Hdead Htp Him Htask Hncc Hts); reflexivity.
      * (* IPanic *)
        destruct m; try discriminate.
        eapply (wl_finish f tnt x d w acc t k i (IPanic pk :: rest) (TErr (task_msg pk)) _ HWL HJ Hq Hk Hl Hdead Htp Him Htask Hncc Hts); reflexivity.
      * discriminate.
  - (* no task: pop one *)
    subst m. pose proof (imode_MRun _ Him) as Est.
    pose proof (jq_t _ _ (j_q _ _ _ _ _ _ _ _ HJ)) as HQt.
    destruct (lpop (pw_tq x) 0 0) as [q' r] eqn:Epop.
    destruct (Q1_lpop_cases _ _ _ _ HQt Epop) as [HQ' [(tz & -> & Hcnt)|(-> & Hnil & Hnil')]].
    + destruct (mem_nat (Z.to_nat tz) (pw_cancel_tasks x)) eqn:Em.
      * destruct (J_pop_cancel mx kp tnt x d w t k q' tz HJ Hq Hk Hl HQ' Hcnt Em) as (HJ1 & Ecc1 & Ets1 & Hk1 & Etb1).
        pose proof (pop_cancel_rho x q' tz Hpools Hcnt) as Hr1.
        cbv zeta in *. set (xg := pop_cancel x 0 q' (Z.to_nat tz)) in *.
        destruct (pop_cancel_post x q' (Z.to_nat tz) Hpools) as (W0 & R0 & N0 & Hu0 & _). fold xg in Hu0.
        eapply (wl_chain0 f tnt x xg d w acc t k k HWL); [exact HJ1 | exact Hq | | | exact Ecc1 | exact Hncc | congruence | exact Etb1 | rewrite (up_clock _ _ _ _ _ _ _ Hu0); apply Z.le_refl | lia | exact Hk | exact Hk1 | reflexivity |].
        -- eapply G_idle; eassumption.
        -- eapply hole_ok_intro; [exact Hk1 | exact Hl | exact Hdead | exact Htp | rewrite Est; reflexivity | rewrite Htask; reflexivity].
        -- unfold mu. rewrite Etb1.
           rewrite (up_tq _ _ _ _ _ _ _ Hu0). rewrite (qsum_pop _ _ _ _ Hcnt). lia.
      * destruct (J_pop_start mx kp tnt x d w t k q' tz HJ Hq Hk Hl Htask Hncc HQ' Hcnt Em) as (HJ1 & Ecc1 & Ets1 & Etb1 & Hk1 & Hb1).
        pose proof (pop_start_rho x q' tz w k Hk Hl Htask Hcnt) as Hr1.
        cbv zeta in *. set (xg := pop_start x 0 q' (Z.to_nat tz) w k) in *.
        eapply (wl_chain f tnt x xg d w acc [EB (Z.to_nat tz) (BStart (Z.of_nat w))] t k _ HWL);
          [exact HJ1 | exact Hq | | | exact Ecc1 | exact Hncc | congruence | exact Etb1 | apply Z.le_refl | lia | exact Hk | exact Hk1 | reflexivity |].
        -- right. right. eexists w, _. split; [exact Hk1|]. split; [exact Hl|]. right. split; [reflexivity|].
           cbn [k_st]. rewrite Est. reflexivity.
        -- eapply hole_ok_intro; [exact Hk1 | exact Hl | exact Hdead | reflexivity | cbn [k_st]; rewrite Est; reflexivity | exact Hb1].
        -- unfold mu. rewrite Etb1. assert (all_items (pw_tq xg) = all_items q') as -> by reflexivity.
           rewrite (qsum_pop _ _ _ _ Hcnt). unfold tasklen. rewrite Htask. cbn [k_task]. unfold blen. lia.
    + (* the queue is empty *)
      pose proof (J_pop_none mx kp tnt x d (Some w) t q' HJ HQ' Hnil Hnil') as HJ1.
      pose proof (j_p _ _ _ _ _ _ _ _ HJ) as [P1 P2 P3 P4 P5 P6 P7 P8 P9 P10 P11 P12].
      pose proof (nlive_pos _ _ _ Hk Hl) as Hpos. autorewrite with pw.
      set (x1 := set_tq x q') in *.
      assert (rho x1 = rho x) as Er1 by (unfold rho, x1; autorewrite with pw; rewrite Hnil, Hnil'; reflexivity).
      assert (get_worker x1 w = Some k) as Hk1 by exact Hk.
      destruct (((p_keep (get_pool x 0) <=? sat_sub (pw_clock x) (k_create k)) && (p_min (get_pool x 0) <? p_running (get_pool x 0)))
                || negb (match p_state (get_pool x 0) with PRunning => true | _ => false end)) eqn:Econd.
      * (* the worker exits *)
        exists x1, [], WReturn. rewrite app_nil_r. split; [reflexivity|]. cbn [fold_left].
        split; [exact HJ1|]. split; [left; exact Hnil'|]. split; [reflexivity|]. split; [reflexivity|]. split; [apply Z.le_refl|]. split.
        { exists k. unfold x1. autorewrite with pw. auto 10. }
        intros _. split; [left; cbn [wl_cost]; lia | discriminate].
      * apply orb_false_iff in Econd as [Ekeep Est0].
        assert (p_keep (get_pool x 0) <=? sat_sub (pw_clock x) (k_create k) = false) as Ekeep'.
        { destruct (p_keep (get_pool x 0) <=? sat_sub (pw_clock x) (k_create k)); [|reflexivity]. cbn [andb] in Ekeep. lia. }
        destruct P3 as (Ekp & Hc0 & Hcr & Hpf0).
        assert (0 < k_create k + kp - pw_clock x) as Hrem by (unfold sat_sub in Ekeep'; lia).
        assert (0 < kp) as Hkpos by (pose proof (Hcr w k Hk); lia).
        assert (length (pw_pools x1) = 1%nat) as Hp1 by exact P1.
        destruct (p_popfail (get_pool x 0) + 1 <? p_running (get_pool x 0)) eqn:Epf.
        -- (* a plain yield *)
           set (x2 := upd_pool x1 0 (p_with_popfail (p_popfail (get_pool x 0) + 1))).
           assert (get_pool x2 0 = p_with_popfail (p_popfail (get_pool x 0) + 1) (get_pool x 0)) as Eq2.
           { unfold x2. rewrite get_pool_upd_pool_same by lia. reflexivity. }
           exists x2, [], WYield. rewrite app_nil_r. split; [reflexivity|]. cbn [fold_left].
           split; [apply J_popfail; [exact HJ1 | lia]|]. split; [left; exact Hnil'|]. split; [reflexivity|]. split; [reflexivity|]. split; [apply Z.le_refl|].
           assert (idle_yield x2 w) as Hidle.
           { exists k. split; [exact Hk|]. split; [exact Hl|]. split; [exact Hdead|]. split; [exact Htp|]. split; [exact Hts|].
             split; [exact Htask|]. split; [exact Est | exact Hnil']. }
           split; [right; exact Hidle|].
           intros _. split; [|discriminate]. right. split; [exact Hidle|]. split; [reflexivity|]. split; [exact Hkpos|].
           assert (rho x2 = rho x) as Er2 by exact Er1. split; [lia|]. intros _.
           unfold idle_dec, ipot, pfx, phix. rewrite Eq2. cbn [p_popfail p_with_popfail].
           change (pw_clock x2) with (pw_clock x). change (pw_workers x2) with (pw_workers x). unfold pfc. lia.
        -- (* a nap, and round again *)
           set (c1 := sat_add64 (pw_clock x) 1000000).
           set (x2 := set_clockp (upd_pool x1 0 (p_with_popfail 0)) c1).
           destruct (sat_add64_mono (pw_clock x) 1000000 P10 ltac:(lia)) as [Hc1 Hc2]. fold c1 in Hc1, Hc2.
           assert (J mx kp tnt x2 d (Some w) t) as HJ2 by (apply J_clockp; [apply J_popfail; [exact HJ1 | lia] | exact Hc1 | exact Hc2]).
           assert (get_worker x2 w = Some k) as Hk2 by exact Hk.
           destruct (HWL tnt x2 d w acc t HJ2 Hq ltac:(left; exact Hnil')
                       ltac:(eapply hole_ok_intro; [exact Hk2 | exact Hl | exact Hdead | exact Htp | rewrite Est; reflexivity | rewrite Htask; reflexivity])
                       Hncc Hts)
             as (x' & evs & out & Ew & HJ' & HG' & Ecc' & Etb' & Hclk' & Hpost & HM).
           exists x', evs, out. split; [exact Ew|]. split; [exact HJ'|]. split; [exact HG'|]. split; [exact Ecc'|]. split; [exact Etb'|].
           assert (pw_clock x2 = c1) as Ec2 by reflexivity.
           split; [lia|]. split; [exact Hpost|].
           intro Hlow. destruct (HM Hlow) as [HD Hf'].
           assert (pw_clock x' < U64MAX) as Hlow' by (destruct Hlow as [?|?]; [lia | assumption]).
           assert (c1 = pw_clock x + 1000000) as Ec1 by (unfold c1, sat_add64 in *; lia).
           assert (rho x2 = rho x) as Er2 by exact Er1.
           assert (get_pool x2 0 = p_with_popfail 0 (get_pool x 0)) as Eq2.
           { unfold x2. autorewrite with pw. rewrite get_pool_upd_pool_same by lia. reflexivity. }
           assert (1 <= rem kp (pw_clock x) k) as Hr1 by (apply rem_pos, Hrem).
           assert (rem kp c1 k + 1 <= rem kp (pw_clock x) k) as Hr2 by (rewrite Ec1; pose proof (rem_nap kp (pw_clock x) k); lia).
           assert (phix kp x2 + 1 <= phix kp x) as Hphi.
           { unfold phix. change (pw_workers x2) with (pw_workers x). rewrite Ec2, Ec1.
             pose proof (phimax_nap kp (pw_clock x) (pw_workers x)) as H1.
             pose proof (phimax_ge kp (pw_clock x) (pw_workers x) w k Hk) as H2. unfold lrem in H2. rewrite Hl in H2. lia. }
           assert (ipot x2 + 1 <= ipot x + 1 /\ ipot x2 <= mx * phix kp x) as [_ Hip].
           { unfold ipot, pfx. rewrite Eq2. cbn [p_popfail p_with_popfail]. unfold pfc. pose proof (pfc_nonneg mx (p_popfail (get_pool x 0))). unfold pfc in *. nia. }
           split.
           ++ destruct HD as [HA|(Hi & Ho & _ & Hr & Hdec)]; [left; lia|]. right. split; [exact Hi|]. split; [exact Ho|]. split; [exact Hkpos|]. split; [lia|].
              intro E. unfold idle_dec in *. specialize (Hdec ltac:(lia)). unfold ipot at 2. pose proof (pfc_nonneg mx (p_popfail (get_pool x 0))). unfold pfx. lia.
           ++ intros k0 Hk0 Hm. rewrite Hk in Hk0. injection Hk0 as <-. apply (Hf' k Hk2). unfold mu2 in *. rewrite Ec2.
              assert (mu x2 k = mu x k) as -> by (unfold mu, x2, x1; autorewrite with pw; rewrite Hnil, Hnil'; reflexivity).
              pose proof (rem_nonneg kp c1 k). lia.
Qed.

Theorem wloop_J : forall f, WL f.
Proof. induction f as [|f IH]; [apply WL_0 | apply WL_S, IH]. Qed.

End Loop.
