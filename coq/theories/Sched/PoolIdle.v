(** When every task is settled (finished, or cancelled for good) a pass executes no task
    instruction: the clock stands still, the tracker's tasks and clock are untouched. *)
From OCV Require Import Base.Prelude Misc.Time Queue.PMap Queue.OWS Queue.OWSOracle Queue.OWSLemmas Queue.OWSModel Queue.OWSStep.
From OCV Require Import Coroutine.Co Coroutine.CoOracle Coroutine.CoLemmas Sched.Sched Sched.Pool Sched.PoolOracle Sched.PoolBase Sched.PoolWf Sched.PoolQ Sched.PoolJ Sched.PoolJLemmas Sched.PoolUnfold Sched.PoolMeasure Sched.PoolJStep Sched.PoolJLoop Sched.PoolCount Sched.PoolBound Sched.PoolJPass Sched.PoolJHole Sched.PoolJSched.
From Coq Require Import ZifyBool ZifyNat.
Open Scope Z_scope.

(** * events that touch neither the tracker's tasks nor its clock *)
Definition tinert (e : ev) : Prop := forall t, po_tasks (pev t e) = po_tasks t /\ po_clock (pev t e) = po_clock t.

Lemma tinert_EL l w c old : tinert (EL l w c old).
Proof. intro t. destruct c; split; reflexivity. Qed.

Lemma fold_tinert evs : forall t, Forall tinert evs ->
  po_tasks (fold_left pev evs t) = po_tasks t /\ po_clock (fold_left pev evs t) = po_clock t.
Proof.
  induction evs as [|e evs IH]; intros t H; cbn [fold_left]; [auto|]. inversion H as [|? ? He Hr]; subst.
  destruct (IH (pev t e) Hr) as [-> ->]. apply He.
Qed.

Lemma k_change_inert x w new x' e : k_change x w new = (x', e) -> Forall tinert e.
Proof.
  unfold k_change. destruct (get_worker x w); intro H; injection H as _ <-; [|constructor].
  constructor; [apply tinert_EL | constructor].
Qed.

Lemma k_finish_inert x2 w ev2 out x' r ev' :
  k_finish x2 w ev2 out = (x', r, ev') -> exists e, ev' = ev2 ++ e /\ Forall tinert e.
Proof.
  unfold k_finish. intro H.
  assert (forall a b c (rr : res),
             (let '(x3, e) := k_change a b c in (x3, rr, ev2 ++ e)) = (x', r, ev') -> exists e, ev' = ev2 ++ e /\ Forall tinert e) as Hkc.
  { intros a b c rr E. destruct (k_change a b c) as [x3 e] eqn:Ekc. injection E as _ _ <-. exists e. split; [reflexivity|].
    eapply k_change_inert, Ekc. }
  assert (forall (y : pw) (rr : res), (y, rr, ev2) = (x', r, ev') -> exists e, ev' = ev2 ++ e /\ Forall tinert e) as Hnone.
  { intros y rr E. injection E as _ _ <-. exists []. rewrite app_nil_r. split; [reflexivity | constructor]. }
  destruct out.
  - destruct (match get_worker x2 w with Some k2 => k_st k2 | None => Ready end); try (eapply Hnone, H).
    + destruct (pop_front false (pw_cn x2)) as [cancel cn']. destruct cancel.
      * eapply Hkc, H.
      * destruct (pop_front 0 (pw_ts x2)) as [ts ts']. eapply Hkc, H.
    + destruct (pop_front false (pw_cn x2)) as [c cn']. destruct (pop_front 0 (pw_ts x2)) as [ts ts']. eapply Hnone, H.
  - destruct (match get_worker x2 w with Some k2 => k_st k2 | None => Ready end); try (eapply Hnone, H).
    eapply Hkc, H.
  - destruct (match get_worker x2 w with Some k2 => k_st k2 | None => Ready end); try (eapply Hnone, H).
    eapply Hkc, H.
  - eapply Hnone, H.
  - eapply Hnone, H.
Qed.

(** * settled tasks *)
Definition TS (tk : list ttrk) : Prop := forall i, task_settled (tkn tk i) = true.
Definition TK (tk : list ttrk) : Prop :=
  forall i, tt_started (tkn tk i) <> 0%nat -> tt_cancel0 (tkn tk i) = true -> tt_withdrawn (tkn tk i) = true.

Lemma TS_forallb tk : forallb task_settled tk = true -> TS tk.
Proof.
  intros H i. destruct (lt_dec i (length tk)) as [Hlt|Hge].
  - rewrite forallb_forall in H. apply H. unfold tkn. apply nth_In, Hlt.
  - rewrite tkn_out by lia. reflexivity.
Qed.

Section Idle.
Variable mx : Z.

Lemma idle_q tnt x d h t z :
  J mx tnt x d h t -> TS (po_tasks t) -> In z (all_items (pw_tq x)) -> Sched.mem_nat (Z.to_nat z) (pw_cancel_tasks x) = true.
Proof.
  intros HJ HS Hin. pose proof (j_t _ _ _ _ _ _ _ HJ) as HT.
  destruct (jt_q _ _ _ _ _ _ _ _ HT z Hin) as (i & -> & Hi & Hc & Ha & Hst & Hf & _ & _ & Hc1).
  rewrite Nat2Z.id. apply mem_nat_In. apply (jt_te _ _ _ _ _ _ _ _ HT i Hin).
  - specialize (HS i). unfold task_settled in HS. rewrite Ha, Hf, Hc1 in HS. cbn in HS. rewrite orb_false_r in HS. apply andb_true_iff in HS. apply HS.
  - specialize (HS i). unfold task_settled in HS. rewrite Ha, Hf, Hc1 in HS. cbn in HS. rewrite orb_false_r in HS. apply andb_true_iff in HS as [_ H].
    apply negb_true_iff, H.
Qed.

Lemma idle_w tnt x d h t w k :
  J mx tnt x d h t -> TS (po_tasks t) -> TK (po_tasks t) ->
  get_worker x w = Some k -> live k = true -> ~ In w (pw_cancel_cos x) -> k_task k = None.
Proof.
  intros HJ HS HK Hk Hl Hncc. pose proof (j_t _ _ _ _ _ _ _ HJ) as HT. unfold get_worker in Hk.
  destruct (k_task k) as [[i rest]|] eqn:Htask; [exfalso | reflexivity].
  destruct (jt_hold _ _ _ _ _ _ _ _ HT w k i rest Hk Htask) as (Hi & Ha & Hst & _ & Hf & _).
  specialize (HS i). unfold task_settled in HS. rewrite Ha, Hf in HS. cbn in HS.
  apply orb_true_iff in HS as [HS|HS].
  - apply andb_true_iff in HS as [H0 Hw]. rewrite (HK i ltac:(lia) H0) in Hw. discriminate.
  - apply Hncc. eapply (jt_cc _ _ _ _ _ _ _ _ HT); eassumption.
Qed.

(** * the worker loop: only cancelled tasks are popped *)
Definition WLI (f : nat) : Prop := forall tnt x d w acc t,
  J mx tnt x d (Some w) t -> quiet_off t -> G mx x (Some w) -> hole_ok x w -> ~ In w (pw_cancel_cos x) -> pw_ts x = [] ->
  TS (po_tasks t) -> TK (po_tasks t) ->
  exists x' out, wloop f x w acc = (x', acc, out) /\ pw_clock x' = pw_clock x.

Lemma WLI_0 : WLI 0.
Proof. intros tnt x d w acc t _ _ _ _ _ _ _ _. exists x, WFuel. split; reflexivity. Qed.

Lemma WLI_S f : WLI f -> WLI (S f).
Proof.
  intros HW tnt x d w acc t HJ Hq HG Hh Hncc Hts HS HK.
  destruct Hh as (k & m & Hk & Hl & Hdead & Htp & Him & Hbody).
  pose proof (jp_cur _ _ _ (j_p _ _ _ _ _ _ _ HJ)) as Hcur.
  pose proof (jp_pools _ _ _ (j_p _ _ _ _ _ _ _ HJ)) as Hpools.
  pose proof (idle_w tnt x d _ t w k HJ HS HK Hk Hl Hncc) as Htask.
  rewrite Htask in Hbody. subst m.
  rewrite (wloop_S f x w acc k Hk). cbv zeta. rewrite Hcur, ?Htp. rewrite Htask.
  pose proof (imode_MRun _ Him) as Est.
  pose proof (jq_t _ _ (j_q _ _ _ _ _ _ _ HJ)) as HQt.
  destruct (lpop (pw_tq x) 0 0) as [q' r] eqn:Epop.
  destruct (Q1_lpop_cases _ _ _ _ HQt Epop) as [HQ' [(tz & -> & Hcnt)|(-> & Hnil & Hnil')]].
  - assert (In tz (all_items (pw_tq x))) as Hin.
    { apply cnt_In. specialize (Hcnt tz). rewrite one_same in Hcnt. lia. }
    pose proof (idle_q tnt x d _ t tz HJ HS Hin) as Em. rewrite Em.
    destruct (J_pop_cancel mx tnt x d w t k q' tz HJ Hq Hk Hl HQ' Hcnt Em) as (HJ1 & Ecc1 & Ets1 & Hk1 & Etb1).
    cbv zeta in *. set (xg := pop_cancel x 0 q' (Z.to_nat tz)) in *.
    destruct (pop_cancel_post x q' (Z.to_nat tz) Hpools) as (W0 & R0 & N0 & Hu0 & _). fold xg in Hu0.
    destruct (HW tnt xg d w acc t HJ1 Hq) as (x' & out & Ew & Ec); try assumption.
    + eapply G_idle; eassumption.
    + eapply hole_ok_intro; [exact Hk1 | exact Hl | exact Hdead | exact Htp | rewrite Est; reflexivity | rewrite Htask; reflexivity].
    + congruence.
    + congruence.
    + exists x', out. split; [exact Ew|]. rewrite Ec. apply (up_clock _ _ _ _ _ _ _ Hu0).
  - autorewrite with pw.
    pose proof (j_p _ _ _ _ _ _ _ HJ) as [P1 P2 P3 P4 P5 P6 P7 P8 P9 P10 P11 P12].
    pose proof (nlive_pos _ _ _ Hk Hl) as Hpos.
    assert ((p_keep (get_pool x 0) <=? sat_sub (pw_clock x) (k_create k)) && (p_min (get_pool x 0) <? p_running (get_pool x 0)) = true) as ->.
    { unfold sat_sub. apply andb_true_iff. split; lia. }
    cbn [orb]. exists (set_tq x q'), WReturn. split; reflexivity.
Qed.

Theorem wloop_I : forall f, WLI f.
Proof. induction f as [|f IH]; [apply WLI_0 | apply WLI_S, IH]. Qed.

(** * a resumption: the worker drains the cancelled tasks and exits *)
Lemma k_resume_I tnt x d w t :
  J mx tnt x d (Some w) t -> quiet_off t -> G mx x (Some w) -> parked_ok x w -> ~ In w (pw_cancel_cos x) -> pw_ts x = [] ->
  TS (po_tasks t) -> TK (po_tasks t) ->
  exists x' r evs, k_resume x w = (x', r, evs) /\ Forall tinert evs /\ pw_clock x' = pw_clock x.
Proof.
  intros HJ Hq HG (k & m & Hk & Hl & Hdead & Htp & Hres & Hpm & Hbody) Hncc Hts HS HK.
  pose proof (idle_w tnt x d _ t w k HJ HS HK Hk Hl Hncc) as Htask. rewrite Htask in Hbody. destruct Hbody as [-> Est].
  set (xd := k_defect x w).
  assert (J mx tnt xd d (Some w) t /\ get_worker xd w = Some k /\ G mx xd (Some w) /\ pw_cancel_cos xd = pw_cancel_cos x /\
          pw_ts xd = [] /\ pw_clock xd = pw_clock x) as (HJd & Hkd & HGd & Eccd & Htsd & Ecd).
  { unfold xd, k_defect. destruct (Nat.eqb _ _); [auto 10|].
    split; [apply J_add_defect, HJ|]. split; [exact Hk|]. split; [|auto].
    eapply (G_frame mx x); [reflexivity | reflexivity | reflexivity | exact HG]. }
  rewrite (k_resume_eq x w k Hkd). cbv zeta. fold xd. rewrite Est. cbn [tr_running].
  destruct (J_k_change mx tnt xd d w t k Running HJd Hq Hkd Hl ltac:(discriminate))
    as (x1 & Ekc & HJ1 & Hm1 & Hk1 & _ & HG1b & _).
  rewrite Est in Ekc, HJ1. rewrite Ekc, Hdead. destruct Hm1 as [M1 M2 M3 M4 M5 M6].
  set (e1 := EL 0 w (CbChanged Running) Ready) in *.
  assert (hole_ok x1 w) as Hh1.
  { eapply hole_ok_intro; [exact Hk1 | reflexivity | exact Hdead | exact Htp | reflexivity|]. cbn [with_st k_task]. rewrite Htask. reflexivity. }
  assert (~ In w (pw_cancel_cos x1)) as Hncc1 by congruence.
  assert (pw_ts x1 = []) as Hts1 by congruence.
  assert (G mx x1 (Some w)) as HG1 by (apply HG1b; auto).
  assert (quiet_off (pev t e1)) as Hq1 by (unfold quiet_off; rewrite po_pools_pev; exact Hq).
  destruct (wloop_J mx (wfuel x1) tnt x1 d w [e1] (pev t e1) HJ1 Hq1 HG1 Hh1 Hncc1 Hts1)
    as (x2 & evs & out & Ew & HJ2 & HG2 & Ecc2 & _ & Hc2 & Hpost & Hr2 & Hnf).
  destruct (wloop_I (wfuel x1) tnt x1 d w [e1] (pev t e1) HJ1 Hq1 HG1 Hh1 Hncc1 Hts1 HS HK) as (x2' & out' & Ew' & Ec2).
  rewrite Ew in Ew'. injection Ew' as <- Eev <-. subst evs.
  rewrite Ew.
  pose proof (Hnf _ Hk1 (mu_bound mx tnt x1 d (Some w) _ w _ HJ1 Hk1 eq_refl)) as Hnf'.
  destruct (k_finish_J mx tnt x x2 d w (fold_left pev [] (pev t e1)) ([e1] ++ []) out HJ2
              (quiet_off_fold _ _ Hq1) HG2 ltac:(congruence) Hpost Hnf')
    as (x' & r & evs' & Ef & _ & _ & _ & _ & _ & _ & H7).
  destruct (k_finish_inert _ _ _ _ _ _ _ Ef) as (e & Ee & Hine). apply app_inv_head in Ee. subst e.
  exists x', r, (([e1] ++ []) ++ evs'). split; [exact Ef|]. split.
  - apply Forall_app. split; [|exact Hine]. constructor; [apply tinert_EL | constructor].
  - congruence.
Qed.

End Idle.
