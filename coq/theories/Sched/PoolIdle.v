(** When every task is settled (finished, or cancelled for good) a pass executes no task
    instruction: the clock stands still, the tracker's tasks and clock are untouched. *)
From OCV Require Import Base.Prelude Misc.Time Queue.PMap Queue.OWS Queue.OWSOracle Queue.OWSLemmas Queue.OWSModel Queue.OWSStep.
From OCV Require Import Coroutine.Co Coroutine.CoOracle Coroutine.CoLemmas Sched.Sched Sched.Pool Sched.PoolOracle Sched.PoolBase Sched.PoolWf Sched.PoolQ Sched.PoolJ Sched.PoolJLemmas Sched.PoolUnfold Sched.PoolMeasure Sched.PoolJStep Sched.PoolJLoop Sched.PoolCount Sched.PoolBound Sched.PoolJPass Sched.PoolJHole Sched.PoolJSched.
From Coq Require Import ZifyBool ZifyNat.
Open Scope Z_scope.

(** * events that touch neither the tracker's tasks nor its clock *)
Definition tinert (e : ev) : Prop := forall t, po_tasks (pev t e) = po_tasks t /\ po_clock (pev t e) = po_clock t.

Lemma tinert_EL l w c old : tinert (EL l w c old).
Proof. intro t. destruct c; split; reflexivity. Qed.

Lemma fold_tinert evs : forall t, Forall tinert evs ->
  po_tasks (fold_left pev evs t) = po_tasks t /\ po_clock (fold_left pev evs t) = po_clock t.
Proof.
  induction evs as [|e evs IH]; intros t H; cbn [fold_left]; [auto|]. inversion H as [|? ? He Hr]; subst.
  destruct (IH (pev t e) Hr) as [-> ->]. apply He.
Qed.

Lemma k_change_inert x w new x' e : k_change x w new = (x', e) -> Forall tinert e.
Proof.
  unfold k_change. destruct (get_worker x w); intro H; injection H as _ <-; [|constructor].
  constructor; [apply tinert_EL | constructor].
Qed.

Lemma k_finish_inert x2 w ev2 out x' r ev' :
  k_finish x2 w ev2 out = (x', r, ev') -> exists e, ev' = ev2 ++ e /\ Forall tinert e.
Proof.
  unfold k_finish. intro H.
  assert (forall a b c (rr : res),
             (let '(x3, e) := k_change a b c in (x3, rr, ev2 ++ e)) = (x', r, ev') -> exists e, ev' = ev2 ++ e /\ Forall tinert e) as Hkc.
  { intros a b c rr E. destruct (k_change a b c) as [x3 e] eqn:Ekc. injection E as _ _ <-. exists e. split; [reflexivity|].
    eapply k_change_inert, Ekc. }
  assert (forall (y : pw) (rr : res), (y, rr, ev2) = (x', r, ev') -> exists e, ev' = ev2 ++ e /\ Forall tinert e) as Hnone.
  { intros y rr E. injection E as _ _ <-. exists []. rewrite app_nil_r. split; [reflexivity | constructor]. }
  destruct out.
  - destruct (match get_worker x2 w with Some k2 => k_st k2 | None => Ready end); try (eapply Hnone, H).
    + destruct (pop_front false (pw_cn x2)) as [cancel cn']. destruct cancel.
      * eapply Hkc, H.
      * destruct (pop_front 0 (pw_ts x2)) as [ts ts']. eapply Hkc, H.
    + destruct (pop_front false (pw_cn x2)) as [c cn']. destruct (pop_front 0 (pw_ts x2)) as [ts ts']. eapply Hnone, H.
  - destruct (match get_worker x2 w with Some k2 => k_st k2 | None => Ready end); try (eapply Hnone, H).
    eapply Hkc, H.
  - destruct (match get_worker x2 w with Some k2 => k_st k2 | None => Ready end); try (eapply Hnone, H).
    eapply Hkc, H.
  - eapply Hnone, H.
  - eapply Hnone, H.
Qed.

(** * settled tasks *)
Definition TS (tk : list ttrk) : Prop := forall i, task_settled (tkn tk i) = true.
Definition TK (tk : list ttrk) : Prop :=
  forall i, tt_started (tkn tk i) <> 0%nat -> tt_cancel0 (tkn tk i) = true -> tt_withdrawn (tkn tk i) = true.

Lemma TS_forallb tk : forallb task_settled tk = true -> TS tk.
Proof.
  intros H i. destruct (lt_dec i (length tk)) as [Hlt|Hge].
  - rewrite forallb_forall in H. apply H. unfold tkn. apply nth_In, Hlt.
  - rewrite tkn_out by lia. reflexivity.
Qed.

Section Idle.
Variable mx : Z.
Variable kp : Z.

Lemma idle_q tnt x d h t z :
  J mx kp tnt x d h t -> TS (po_tasks t) -> In z (all_items (pw_tq x)) -> Sched.mem_nat (Z.to_nat z) (pw_cancel_tasks x) = true.
Proof.
  intros HJ HS Hin. pose proof (j_t _ _ _ _ _ _ _ _ HJ) as HT.
  destruct (jt_q _ _ _ _ _ _ _ _ HT z Hin) as (i & -> & Hi & Hc & Ha & Hst & Hf & _ & _ & Hc1).
  rewrite Nat2Z.id. apply mem_nat_In. apply (jt_te _ _ _ _ _ _ _ _ HT i Hin).
  - specialize (HS i). unfold task_settled in HS. rewrite Ha, Hf, Hc1 in HS. cbn in HS. rewrite orb_false_r in HS. apply andb_true_iff in HS. apply HS.
  - specialize (HS i). unfold task_settled in HS. rewrite Ha, Hf, Hc1 in HS. cbn in HS. rewrite orb_false_r in HS. apply andb_true_iff in HS as [_ H].
    apply negb_true_iff, H.
Qed.

Lemma idle_w tnt x d h t w k :
  J mx kp tnt x d h t -> TS (po_tasks t) -> TK (po_tasks t) ->
  get_worker x w = Some k -> live k = true -> ~ In w (pw_cancel_cos x) -> k_task k = None.
Proof.
  intros HJ HS HK Hk Hl Hncc. pose proof (j_t _ _ _ _ _ _ _ _ HJ) as HT. unfold get_worker in Hk.
  destruct (k_task k) as [[i rest]|] eqn:Htask; [exfalso | reflexivity].
  destruct (jt_hold _ _ _ _ _ _ _ _ HT w k i rest Hk Htask) as (Hi & Ha & Hst & _ & Hf & _).
  specialize (HS i). unfold task_settled in HS. rewrite Ha, Hf in HS. cbn in HS.
  apply orb_true_iff in HS as [HS|HS].
  - apply andb_true_iff in HS as [H0 Hw]. rewrite (HK i ltac:(lia) H0) in Hw. discriminate.
  - apply Hncc. eapply (jt_cc _ _ _ _ _ _ _ _ HT); eassumption.
Qed.

(** the stop has begun (for the oracle, hence for the pool): idle workers exit at once *)
Definition stopc (t : potr) : Prop := pt_stop_called (nth 0 (po_pools t) ptrk0) = true.

Lemma stopc_fold t e : stopc t -> stopc (fold_left pev e t).
Proof. unfold stopc. rewrite po_pools_fold_pev. auto. Qed.

Lemma stopc_state tnt x d h t : J mx kp tnt x d h t -> stopc t -> p_state (get_pool x 0) <> PRunning.
Proof. intros HJ Hs. apply (js_called _ _ _ _ _ (j_s _ _ _ _ _ _ _ _ HJ)), Hs. Qed.

(** * the worker loop: only cancelled tasks are popped *)
Definition WLI (f : nat) : Prop := forall tnt x d w acc t,
  J mx kp tnt x d (Some w) t -> quiet_off t -> G mx x (Some w) -> hole_ok x w -> ~ In w (pw_cancel_cos x) -> pw_ts x = [] ->
  TS (po_tasks t) -> TK (po_tasks t) -> stopc t ->
  exists x' out, wloop f x w acc = (x', acc, out) /\ pw_clock x' = pw_clock x /\
    (forall k, get_worker x w = Some k -> (mu x k <= f)%nat -> out = WReturn).

Lemma WLI_0 : WLI 0.
Proof.
  intros tnt x d w acc t _ _ _ _ _ _ _ _ _. exists x, WFuel. split; [reflexivity|]. split; [reflexivity|].
  intros k _ Hm. unfold mu in Hm. lia.
Qed.

Lemma WLI_S f : WLI f -> WLI (S f).
Proof.
  intros HW tnt x d w acc t HJ Hq HG Hh Hncc Hts HS HK Hsc.
  destruct Hh as (k & m & Hk & Hl & Hdead & Htp & Him & Hbody).
  pose proof (jp_cur _ _ _ _ (j_p _ _ _ _ _ _ _ _ HJ)) as Hcur.
  pose proof (jp_pools _ _ _ _ (j_p _ _ _ _ _ _ _ _ HJ)) as Hpools.
  pose proof (idle_w tnt x d _ t w k HJ HS HK Hk Hl Hncc) as Htask.
  rewrite Htask in Hbody. subst m.
  rewrite (wloop_S f x w acc k Hk). cbv zeta. rewrite Hcur, ?Htp. rewrite Htask.
  pose proof (imode_MRun _ Him) as Est.
  pose proof (jq_t _ _ (j_q _ _ _ _ _ _ _ _ HJ)) as HQt.
  destruct (lpop (pw_tq x) 0 0) as [q' r] eqn:Epop.
  destruct (Q1_lpop_cases _ _ _ _ HQt Epop) as [HQ' [(tz & -> & Hcnt)|(-> & Hnil & Hnil')]].
  - assert (In tz (all_items (pw_tq x))) as Hin.
    { apply cnt_In. specialize (Hcnt tz). rewrite one_same in Hcnt. lia. }
    pose proof (idle_q tnt x d _ t tz HJ HS Hin) as Em. rewrite Em.
    destruct (J_pop_cancel mx kp tnt x d w t k q' tz HJ Hq Hk Hl HQ' Hcnt Em) as (HJ1 & Ecc1 & Ets1 & Hk1 & Etb1).
    cbv zeta in *. set (xg := pop_cancel x 0 q' (Z.to_nat tz)) in *.
    destruct (pop_cancel_post x q' (Z.to_nat tz) Hpools) as (W0 & R0 & N0 & Hu0 & _). fold xg in Hu0.
    destruct (HW tnt xg d w acc t HJ1 Hq) as (x' & out & Ew & Ec & Hout); try assumption.
    + eapply G_idle; eassumption.
    + eapply hole_ok_intro; [exact Hk1 | exact Hl | exact Hdead | exact Htp | rewrite Est; reflexivity | rewrite Htask; reflexivity].
    + congruence.
    + congruence.
    + exists x', out. split; [exact Ew|]. split; [rewrite Ec; apply (up_clock _ _ _ _ _ _ _ Hu0)|].
      intros k0 Hk0 Hm. rewrite Hk in Hk0. injection Hk0 as <-. apply (Hout k Hk1). unfold mu in *.
      rewrite Etb1, (up_tq _ _ _ _ _ _ _ Hu0). rewrite (qsum_pop _ _ _ _ Hcnt) in Hm. lia.
  - autorewrite with pw. pose proof (stopc_state tnt x d _ t HJ Hsc) as Hst.
    assert (negb (match p_state (get_pool x 0) with PRunning => true | _ => false end) = true) as -> by (destruct (p_state (get_pool x 0)); [contradiction | reflexivity | reflexivity]).
    rewrite orb_true_r. exists (set_tq x q'), WReturn. split; [reflexivity|]. split; reflexivity.
Qed.

Theorem wloop_I : forall f, WLI f.
Proof. induction f as [|f IH]; [apply WLI_0 | apply WLI_S, IH]. Qed.

(** * a resumption: the worker drains the cancelled tasks and exits *)
Lemma k_resume_I tnt x d w t :
  J mx kp tnt x d (Some w) t -> quiet_off t -> G mx x (Some w) -> parked_ok x w -> ~ In w (pw_cancel_cos x) -> pw_ts x = [] ->
  TS (po_tasks t) -> TK (po_tasks t) -> stopc t ->
  exists x' r evs, k_resume x w = (x', r, evs) /\ Forall tinert evs /\ pw_clock x' = pw_clock x.
Proof.
  intros HJ Hq HG (k & m & Hk & Hl & Hdead & Htp & Hres & Hpm & Hbody) Hncc Hts HS HK Hsc.
  pose proof (idle_w tnt x d _ t w k HJ HS HK Hk Hl Hncc) as Htask. rewrite Htask in Hbody. destruct Hbody as [-> Est'].
  assert (exists s0, k_st k = s0 /\ (s0 = Ready \/ s0 = Suspend 0 0)) as (s0 & Est & Hs0) by (eexists; split; [reflexivity | exact Est']).
  assert (tr_running (pw_clock (k_defect x w)) s0 = Some (Some Running)) as Htr.
  { destruct Hs0 as [->| ->]; [reflexivity|]. cbn [tr_running].
    destruct (jp_keep _ _ _ _ (j_p _ _ _ _ _ _ _ _ HJ)) as (_ & Hc0 & _).
    assert (pw_clock (k_defect x w) = pw_clock x) as -> by (unfold k_defect; destruct (Nat.eqb _ _); reflexivity).
    assert (0 <=? pw_clock x = true) as -> by lia. reflexivity. }
  set (xd := k_defect x w).
  assert (J mx kp tnt xd d (Some w) t /\ get_worker xd w = Some k /\ G mx xd (Some w) /\ pw_cancel_cos xd = pw_cancel_cos x /\
          pw_ts xd = [] /\ pw_clock xd = pw_clock x) as (HJd & Hkd & HGd & Eccd & Htsd & Ecd).
  { unfold xd, k_defect. destruct (Nat.eqb _ _); [auto 10|].
    split; [apply J_add_defect, HJ|]. split; [exact Hk|]. split; [|auto].
    eapply (G_frame mx x); [reflexivity | reflexivity | reflexivity | exact HG]. }
  rewrite (k_resume_eq x w k Hkd). cbv zeta. fold xd. rewrite Est. fold xd in Htr.
  assert (match s0 with Complete r => (xd, ROk (Complete r), []) | Error m0 => (xd, ROk (Error m0), []) | _ =>
            match tr_running (pw_clock xd) s0 with
            | None => (xd, RErr, [])
            | Some chg => let '(x1, ev1) := match chg with Some new => k_change xd w new | None => (xd, []) end in
                          if k_dead k then (x1, RUnwound, ev1) else let '(x2, ev2, out) := wloop (wfuel x1) x1 w ev1 in k_finish x2 w ev2 out
            end end =
          let '(x1, ev1) := k_change xd w Running in
          if k_dead k then (x1, RUnwound, ev1) else let '(x2, ev2, out) := wloop (wfuel x1) x1 w ev1 in k_finish x2 w ev2 out) as ->.
  { rewrite Htr. destruct Hs0 as [->| ->]; reflexivity. }
  destruct (J_k_change mx kp tnt xd d w t k Running HJd Hq Hkd Hl ltac:(discriminate))
    as (x1 & Ekc & HJ1 & Hm1 & Hk1 & _ & HG1b & _).
  rewrite Est in Ekc, HJ1. rewrite Ekc, Hdead. destruct Hm1 as [M1 M2 M3 M4 M5 M6].
  set (e1 := EL 0 w (CbChanged Running) s0) in *.
  assert (hole_ok x1 w) as Hh1.
  { eapply hole_ok_intro; [exact Hk1 | reflexivity | exact Hdead | exact Htp | reflexivity|]. cbn [with_st k_task]. rewrite Htask. reflexivity. }
  assert (~ In w (pw_cancel_cos x1)) as Hncc1 by congruence.
  assert (pw_ts x1 = []) as Hts1 by congruence.
  assert (G mx x1 (Some w)) as HG1 by (apply HG1b; auto).
  assert (quiet_off (pev t e1)) as Hq1 by (unfold quiet_off; rewrite po_pools_pev; exact Hq).
  destruct (wloop_J mx kp (wfuel x1) tnt x1 d w [e1] (pev t e1) HJ1 Hq1 HG1 Hh1 Hncc1 Hts1)
    as (x2 & evs & out & Ew & HJ2 & HG2 & Ecc2 & _ & Hc2 & Hpost & _).
  assert (stopc (pev t e1)) as Hsc1 by (unfold stopc; rewrite po_pools_pev; exact Hsc).
  destruct (wloop_I (wfuel x1) tnt x1 d w [e1] (pev t e1) HJ1 Hq1 HG1 Hh1 Hncc1 Hts1 HS HK Hsc1) as (x2' & out' & Ew' & Ec2 & Hout).
  rewrite Ew in Ew'. injection Ew' as <- Eev <-. subst evs.
  rewrite Ew.
  pose proof (Hout _ Hk1 (mu_bound mx kp tnt x1 d (Some w) _ w _ HJ1 Hk1 eq_refl)) as ->.
  destruct (k_finish_J mx kp tnt x x2 d w (fold_left pev [] (pev t e1)) ([e1] ++ []) WReturn HJ2
              (quiet_off_fold _ _ Hq1) HG2 ltac:(congruence) Hpost ltac:(discriminate))
    as (x' & r & evs' & Ef & _ & _ & _ & _ & _ & _ & H7 & _).
  destruct (k_finish_inert _ _ _ _ _ _ _ Ef) as (e & Ee & Hine). apply app_inv_head in Ee. subst e.
  exists x', r, (([e1] ++ []) ++ evs'). split; [exact Ef|]. split.
  - apply Forall_app. split; [|exact Hine]. constructor; [apply tinert_EL | constructor].
  - congruence.
Qed.

End Idle.
