(** The single-pool theorems: the oracle's verdict on the model's own (canonicalised) run. *)
From OCV Require Import Base.Prelude Misc.Time Queue.PMap Queue.OWS Coroutine.Co Coroutine.CoOracle Sched.Sched Sched.Pool Sched.PoolOracle.
From OCV Require Import Sched.PoolBase Sched.PoolWf Sched.PoolJ Sched.PoolCanon Sched.PoolJSched Sched.PoolJOps2 Sched.PoolRun.
From OCV Require Sched.PoolMono Sched.PoolNoDefect.
Open Scope Z_scope.

Definition self_flags (clock : Z) (cfgs : list (Z * Z * Z)) (ops : list pop) : potr * bool :=
  judge_pool clock cfgs ops (cut_div (canon_obs [] (prun (pw0 clock cfgs) ops))).

(** the oracle on the raw (not canonicalised) observations of the model *)
Definition raw_flags (clock : Z) (cfg : Z * Z * Z) (ops : list pop) : potr * bool :=
  porun 1 [snd (fst cfg)] (potr0 clock 1) ops (cut_div (prun (pw0 clock [cfg]) ops)).

Lemma self_raw clock cfg ops :
  potr_sim (fst (self_flags clock [cfg] ops)) (fst (raw_flags clock cfg ops)) /\
  snd (self_flags clock [cfg] ops) = snd (raw_flags clock cfg ops).
Proof. apply (judge_pool_canon clock [cfg] ops (prun (pw0 clock [cfg]) ops)). Qed.

Lemma wf_split clock cfg ops : wf_pool1 clock cfg ops = true -> cfg_ok clock cfg = true /\ hist_okp (pw0 clock [cfg]) ops = true.
Proof. unfold wf_pool1. intro H. apply andb_true_iff in H. exact H. Qed.

Lemma raw_all clock cfg ops : wf_pool1 clock cfg ops = true ->
  snd (raw_flags clock cfg ops) = true /\ F3 (fst (raw_flags clock cfg ops)) /\
  (nodiv (pw0 clock [cfg]) ops = true ->
   po_c01 (fst (raw_flags clock cfg ops)) = true /\
   (stops_prompt (snd (fst cfg)) (pw0 clock [cfg]) (potr0 clock 1) ops = true -> po_c11 (fst (raw_flags clock cfg ops)) = true)).
Proof.
  intro Hwf. destruct (wf_split _ _ _ Hwf) as [Hc Hh].
  destruct (run_J (snd (fst cfg)) (snd cfg) ops (pw0 clock [cfg]) (potr0 clock 1) false (Jop_init clock cfg Hc) Hh) as (H1 & H2 & H3).
  split; [exact H1|]. split; [exact H2|]. intro Hnd. destruct (H3 Hnd) as [H4 H5]. split; [exact H4|]. intro Hs. apply H5; [reflexivity | exact Hs].
Qed.

(** P1 *)
Theorem c12_model1 : forall clock cfg ops, wf_pool1 clock cfg ops = true ->
  po_c12 (fst (self_flags clock [cfg] ops)) = true.
Proof.
  intros clock cfg ops Hwf. destruct (self_raw clock cfg ops) as [(_ & _ & _ & _ & _ & _ & E & _) _].
  rewrite E. apply (raw_all clock cfg ops Hwf).
Qed.

(** P3 *)
Theorem c02_model1 : forall clock cfg ops, wf_pool1 clock cfg ops = true ->
  po_c02 (fst (self_flags clock [cfg] ops)) = true.
Proof.
  intros clock cfg ops Hwf. destruct (self_raw clock cfg ops) as [(_ & _ & _ & _ & E & _) _].
  rewrite E. apply (raw_all clock cfg ops Hwf).
Qed.

(** P4 *)
Theorem c13_model1 : forall clock cfg ops, wf_pool1 clock cfg ops = true ->
  po_c13 (fst (self_flags clock [cfg] ops)) = true.
Proof.
  intros clock cfg ops Hwf. destruct (self_raw clock cfg ops) as [(_ & _ & _ & _ & _ & _ & _ & E) _].
  rewrite E. apply (raw_all clock cfg ops Hwf).
Qed.

(** P6 *)
Theorem pool_shape1 : forall clock cfg ops, wf_pool1 clock cfg ops = true ->
  snd (self_flags clock [cfg] ops) = true.
Proof.
  intros clock cfg ops Hwf. destruct (self_raw clock cfg ops) as [_ E]. rewrite E. apply (raw_all clock cfg ops Hwf).
Qed.

(** P5, under the extra premise that no call of the model's run diverges (runs out of fuel) *)
Theorem c01_model1_partial : forall clock cfg ops, wf_pool1 clock cfg ops = true ->
  nodiv (pw0 clock [cfg]) ops = true ->
  po_c01 (fst (self_flags clock [cfg] ops)) = true.
Proof.
  intros clock cfg ops Hwf Hnd. destruct (self_raw clock cfg ops) as [(_ & _ & _ & E & _) _].
  rewrite E. apply (raw_all clock cfg ops Hwf). exact Hnd.
Qed.

(** P2, under the extra premises that nothing diverges and that every stop that times out had
    something left to do, a worker asleep, or no time to act in (the "prompt stop" clause) *)
Theorem c11_model1_partial : forall clock cfg ops, wf_pool1 clock cfg ops = true ->
  nodiv (pw0 clock [cfg]) ops = true ->
  stops_prompt (snd (fst cfg)) (pw0 clock [cfg]) (potr0 clock 1) ops = true ->
  po_c11 (fst (self_flags clock [cfg] ops)) = true.
Proof.
  intros clock cfg ops Hwf Hnd Hs. destruct (self_raw clock cfg ops) as [(_ & _ & _ & _ & _ & E & _) _].
  rewrite E. apply (raw_all clock cfg ops Hwf); assumption.
Qed.

(** P7 and I1 (proved in PoolNoDefect / PoolMono) *)
Theorem single_pool_no_defect : forall clock cfg ops,
  ~ In defect_stolen_worker (pw_defects (pfinal (pw0 clock [cfg]) ops)) /\
  ~ In defect_result_elsewhere (pw_defects (pfinal (pw0 clock [cfg]) ops)).
Proof. exact PoolNoDefect.single_pool_no_defect. Qed.

Theorem pool_state_monotone : forall x o p,
  (PoolMono.prank (p_state (get_pool x p)) <= PoolMono.prank (p_state (get_pool (fst (pstep x o)) p)))%nat.
Proof. exact PoolMono.pstep_state_mono. Qed.

Print Assumptions c12_model1.
Print Assumptions c02_model1.
Print Assumptions c13_model1.
Print Assumptions pool_shape1.
Print Assumptions c01_model1_partial.
Print Assumptions c11_model1_partial.
Print Assumptions single_pool_no_defect.
Print Assumptions pool_state_monotone.
