(** [CoroutinePool::try_cancel_task] for a task that is running: the requester looks up the
    coroutine running the task and the thread scheduling it, then sends SIGVTALRM to that THREAD;
    the handler cancels whatever coroutine is current on the thread when the signal is delivered.
    Small-step model: the scheduling thread may switch coroutines at any moment (the running
    coroutine parks, another one is resumed), in particular between the lookup and the delivery. *)
From OCV Require Import Base.Prelude.
Open Scope Z_scope.

(** tasks are numbers; [current] = the task whose coroutine is running on the thread now *)
Record cst := {
  c_current : option nat;      (* task being run by the thread right now *)
  c_parked : list nat;         (* tasks whose coroutines are parked (suspended mid-run) *)
  c_cancelled : list nat;      (* tasks whose coroutine was cancelled *)
  c_looked_up : option nat     (* the requester has looked up this target and not yet signalled *)
}.

Inductive cev :=
| Lookup (target : nat)        (* requester: RUNNING_TASKS / RUNNING_COROUTINES lookup *)
| Switch (next : nat)          (* thread: the current coroutine parks, [next] (parked or new) runs *)
| Deliver.                     (* requester: pthread_kill; the handler runs on the thread *)

Definition remove_nat (i : nat) (l : list nat) : list nat := filter (fun j => negb (Nat.eqb i j)) l.

Definition cstep (s : cst) (e : cev) : cst :=
  match e with
  | Lookup t =>
      (* the signal path is only taken when the target's coroutine is the one being resumed *)
      match c_current s with
      | Some c => if Nat.eqb c t
                  then {| c_current := c_current s; c_parked := c_parked s; c_cancelled := c_cancelled s; c_looked_up := Some t |}
                  else s
      | None => s
      end
  | Switch n =>
      {| c_current := Some n;
         c_parked := match c_current s with Some c => c :: remove_nat n (c_parked s) | None => remove_nat n (c_parked s) end;
         c_cancelled := c_cancelled s; c_looked_up := c_looked_up s |}
  | Deliver =>
      match c_looked_up s with
      | None => s
      | Some _ =>
          match c_current s with
          | Some c => {| c_current := None; c_parked := c_parked s; c_cancelled := c :: c_cancelled s; c_looked_up := None |}
          | None => {| c_current := None; c_parked := c_parked s; c_cancelled := c_cancelled s; c_looked_up := None |}
          end
      end
  end.

Definition crun (s : cst) (es : list cev) : cst := fold_left cstep es s.
Definition c0 (running : nat) : cst := {| c_current := Some running; c_parked := []; c_cancelled := []; c_looked_up := None |}.

(** no [Switch] between a lookup and its delivery *)
Fixpoint no_switch_in_window (pending : bool) (es : list cev) : bool :=
  match es with
  | [] => true
  | Lookup _ :: r => no_switch_in_window true r
  | Deliver :: r => no_switch_in_window false r
  | Switch _ :: r => negb pending && no_switch_in_window pending r
  end.

(** the property for one cancel request aimed at [target]: nobody else is cancelled *)
Definition only_target (target : nat) (s : cst) : bool := forallb (Nat.eqb target) (c_cancelled s).

(** lookups in a history all name [target] *)
Definition lookups_are (target : nat) (es : list cev) : bool :=
  forallb (fun e => match e with Lookup t => Nat.eqb t target | _ => true end) es.

Lemma cstep_inv target s e :
  (forall t, c_looked_up s = Some t -> t = target /\ c_current s = Some target) ->
  only_target target s = true ->
  match e with Lookup t => t = target | _ => True end ->
  match e with Switch _ => c_looked_up s = None | _ => True end ->
  (forall t, c_looked_up (cstep s e) = Some t -> t = target /\ c_current (cstep s e) = Some target)
  /\ only_target target (cstep s e) = true.
Proof.
  intros Hl Ho He Hs. destruct e as [t | n |]; cbn [cstep].
  - subst t. destruct (c_current s) as [c|] eqn:Ec; [destruct (Nat.eqb c target) eqn:E|];
      (split; [|exact Ho]); cbn; intros t0 Ht0.
    + apply Nat.eqb_eq in E. subst c. inversion Ht0; subst. split; reflexivity.
    + rewrite Ec. exact (Hl t0 Ht0).
    + destruct (Hl t0 Ht0) as [_ H2]. discriminate.
  - split; [|exact Ho]. cbn. intros t Ht. rewrite Hs in Ht. discriminate.
  - destruct (c_looked_up s) as [t|] eqn:El; [|split; [intros ? H; congruence | exact Ho]].
    destruct (Hl t eq_refl) as [-> Hc]. rewrite Hc. split; [cbn; intros ? H; discriminate|].
    unfold only_target in *. cbn. rewrite Nat.eqb_refl. exact Ho.
Qed.

(** if the thread does not switch coroutine between a lookup and its delivery, a cancel of a
    running task cancels that task and nobody else — for every history *)
Theorem cancel_hits_target_without_switch : forall target running es,
  lookups_are target es = true -> no_switch_in_window false es = true ->
  only_target target (crun (c0 running) es) = true.
Proof.
  intros target running es Hlk Hns.
  assert (G : forall es s pending,
             (forall t, c_looked_up s = Some t -> t = target /\ c_current s = Some target) ->
             (pending = false -> c_looked_up s = None) ->
             only_target target s = true ->
             lookups_are target es = true -> no_switch_in_window pending es = true ->
             only_target target (crun s es) = true).
  { clear. induction es as [|e es IH]; intros s pending Hl Hp Ho Hlk Hns; [exact Ho|].
    unfold crun in *. cbn [fold_left]. cbn [lookups_are forallb] in Hlk.
    apply andb_true_iff in Hlk as [He Hlk].
    destruct e as [t | n |].
    - apply Nat.eqb_eq in He. cbn [no_switch_in_window] in Hns.
      destruct (cstep_inv target s (Lookup t) Hl Ho He I) as [Hl' Ho'].
      apply (IH (cstep s (Lookup t)) true Hl'); [discriminate | exact Ho' | exact Hlk | exact Hns].
    - cbn [no_switch_in_window] in Hns. apply andb_true_iff in Hns as [Hpn Hns].
      apply negb_true_iff in Hpn. subst pending.
      destruct (cstep_inv target s (Switch n) Hl Ho I (Hp eq_refl)) as [Hl' Ho'].
      apply (IH (cstep s (Switch n)) false Hl'); [| exact Ho' | exact Hlk | exact Hns].
      intros _. cbn [cstep c_looked_up]. apply Hp. reflexivity.
    - cbn [no_switch_in_window] in Hns.
      destruct (cstep_inv target s Deliver Hl Ho I I) as [Hl' Ho'].
      apply (IH (cstep s Deliver) false Hl'); [| exact Ho' | exact Hlk | exact Hns].
      intros _. cbn [cstep].
      destruct (c_looked_up s) eqn:E1; [destruct (c_current s) eqn:E2|]; cbn; auto; congruence. }
  apply (G es (c0 running) false); auto; cbn; intros; try discriminate; reflexivity.
Qed.

(** with a switch in the window the signal cancels an innocent task: task 0 is the target, it
    parks, task 1 runs, the signal arrives *)
Theorem cancel_hits_bystander_with_switch :
  exists target running es, lookups_are target es = true /\
    only_target target (crun (c0 running) es) = false /\
    c_cancelled (crun (c0 running) es) = [1%nat].
Proof. exists 0%nat, 0%nat, [Lookup 0; Switch 1; Deliver]. vm_compute. repeat split. Qed.
