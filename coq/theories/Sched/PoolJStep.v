(** Step lemmas of the simulation invariant: the primitive state transformers of the pool model. *)
From OCV Require Import Base.Prelude Misc.Time Queue.PMap Queue.OWS Queue.OWSOracle Queue.OWSLemmas Queue.OWSModel Queue.OWSStep.
From OCV Require Import Coroutine.Co Coroutine.CoLemmas Sched.Sched Sched.Pool Sched.PoolOracle Sched.PoolBase Sched.PoolWf Sched.PoolQ Sched.PoolJ Sched.PoolJLemmas Sched.PoolCanon Sched.PoolUnfold Sched.PoolMeasure.
From Coq Require Import ZifyBool ZifyNat.
Open Scope Z_scope.

(** * locations: extensionality *)
Lemma nowhere_ext cqi cqi' d w : cqc cqi' w = cqc cqi w -> nowhere cqi d w -> nowhere cqi' d w.
Proof. unfold nowhere. intros ->. tauto. Qed.

Lemma loc_ok_ext c c' cqi cqi' d w s :
  cqc cqi' w = cqc cqi w -> c <= c' -> loc_ok c cqi d w s -> loc_ok c' cqi' d w s.
Proof.
  intros E Hc. destruct s as [| |y ts|y n st| |r|m]; cbn [loc_ok]; try (destruct st; cbn [loc_ok]);
    try rewrite E; try tauto; try (apply nowhere_ext, E).
  intros (H1 & H2 & [H3|H3]); (split; [exact H1|]; split; [exact H2|]); [left|right]; intuition lia.
Qed.

Lemma cqc_of_cnt cqi cqi' (w v : nat) :
  (forall y, cnt y cqi' = (one y (Z.of_nat v) + cnt y cqi)%nat) -> w <> v -> cqc cqi' w = cqc cqi w.
Proof. intros H Hne. unfold cqc. rewrite H, one_diff by lia. reflexivity. Qed.

Lemma hpc_zero_of_bound l n w : (forall ts v, In (ts, v) l -> (v < n)%nat) -> (n <= w)%nat -> hpc l w = 0%nat.
Proof.
  intros Hb Hw. unfold hpc. apply count_occ_not_In. intro Hin.
  apply in_map_iff in Hin as ([ts v] & Hv & Hin). cbn [snd] in Hv. subst. specialize (Hb _ _ Hin). lia.
Qed.

Lemma cqc_zero_of_bound cqi n w :
  (forall z, In z cqi -> exists v, z = Z.of_nat v /\ (v < n)%nat) -> (n <= w)%nat -> cqc cqi w = 0%nat.
Proof.
  intros Hb Hw. unfold cqc. apply notin_cnt0. intro Hin. destruct (Hb _ Hin) as (v & Hv & Hlt). lia.
Qed.

(** a new worker is appended, [Ready], and pushed on the coroutine queue *)
Lemma JL_grow c ws cqi cqi' d h kN :
  JL c ws cqi d h -> (forall y, cnt y cqi' = (one y (Z.of_nat (length ws)) + cnt y cqi)%nat) -> k_st kN = Ready ->
  JL c (ws ++ [kN]) cqi' d h.
Proof.
  intros [Hloc Hhole Hcq Hsu Hsy [Hnd Hmap]] Hc Hst.
  assert (forall w, (w < length ws)%nat -> cqc cqi' w = cqc cqi w) as Hsame.
  { intros w Hw. apply (cqc_of_cnt _ _ _ (length ws) Hc). lia. }
  constructor.
  - intros w k Hn Hh. apply nth_error_snoc_cases in Hn as [Hn|[-> ->]].
    + apply (loc_ok_ext c c cqi); [apply Hsame; eapply nth_error_Some_lt, Hn | lia | apply Hloc; assumption].
    + rewrite Hst. cbn [loc_ok]. split; [|split; [|split]].
      * unfold cqc. rewrite Hc, one_same. fold (cqc cqi (length ws)). rewrite (cqc_zero_of_bound cqi (length ws)); auto.
      * apply (hpc_zero_of_bound _ (length ws)); auto.
      * apply (hpc_zero_of_bound _ (length ws)); auto.
      * intro Hin. specialize (Hmap _ Hin). lia.
  - intros w ->. destruct (Hhole w eq_refl) as [Hnw Hlt]. split.
    + apply (nowhere_ext cqi); [apply Hsame, Hlt | exact Hnw].
    + rewrite app_length. cbn [length]. lia.
  - intros z Hin. rewrite app_length. cbn [length]. apply cnt_In in Hin. rewrite Hc in Hin.
    destruct (Z.eq_dec z (Z.of_nat (length ws))) as [->|Hne].
    + exists (length ws). split; [reflexivity | lia].
    + rewrite one_diff in Hin by congruence.
      assert (In z cqi) as Hin' by (apply cnt_In; lia). destruct (Hcq _ Hin') as (v & -> & Hv). exists v. split; [reflexivity | lia].
  - intros ts w Hin. rewrite app_length. cbn [length]. specialize (Hsu _ _ Hin). lia.
  - intros ts w Hin. rewrite app_length. cbn [length]. specialize (Hsy _ _ Hin). lia.
  - split; [exact Hnd|]. intros w Hin. rewrite app_length. cbn [length]. specialize (Hmap _ Hin). lia.
Qed.

Lemma wst_grow ws kN w : k_st kN = Ready -> wst (ws ++ [kN]) w = wst ws w.
Proof.
  intro Hst. unfold wst. destruct (lt_dec w (length ws)) as [Hlt|Hge].
  - rewrite nth_error_app1 by exact Hlt. reflexivity.
  - rewrite nth_error_app2 by lia. assert (nth_error ws w = None) as -> by (apply nth_error_None; lia).
    destruct (w - length ws)%nat as [|n]; cbn [nth_error]; [exact Hst|]. destruct n; reflexivity.
Qed.

Lemma JT_grow ws tqi tb tk ct cc rt h kN :
  JT ws tqi tb tk ct cc rt h ->
  k_st kN = Ready -> k_task kN = None -> k_tpool kN = 0%nat -> k_dead kN = false ->
  (forall v, h = Some v -> (v < length ws)%nat) ->
  JT (ws ++ [kN]) tqi tb tk ct cc rt h.
Proof.
  intros [Hlen Hq Hta Hhold Hinj Hmode Htb Hte Ht3 Htf Hrtnd Hrt Hrts Hrt3 Hcc Hc0 Hctb Hsuf Hfin Hccnd Hccb] Hst Htask Htp Hdead Hh.
  assert (is_hole h (length ws) = false) as Hnh.
  { destruct h as [v|]; [|reflexivity]. cbn [is_hole]. specialize (Hh v eq_refl). apply Nat.eqb_neq. lia. }
  constructor; try assumption.
  - intros w k i rest Hn Hk. apply nth_error_snoc_cases in Hn as [Hn|[-> ->]]; [eapply Hhold; eassumption | congruence].
  - intros w w' k k' i r r' Hn Hn' Hk Hk'.
    apply nth_error_snoc_cases in Hn as [Hn|[-> ->]]; [|congruence].
    apply nth_error_snoc_cases in Hn' as [Hn'|[-> ->]]; [|congruence].
    eapply Hinj; eassumption.
  - intros w k Hn Hl Hhw. apply nth_error_snoc_cases in Hn as [Hn|[-> ->]]; [eapply Hmode; eassumption|].
    split; [exact Hdead|]. split; [exact Htp|]. exists MRun. rewrite Hst, Htask. cbn [pmode]. auto.
  - intros i Hi Ha Hs Hf Hc1. destruct (Htb i Hi Ha Hs Hf Hc1) as (w & k & rest & Hn & Hl & Hk).
    exists w, k, rest. split; [apply nth_error_snoc_old, Hn | auto].
  - intros w k i rest Hn Hl Hin Hk. apply nth_error_snoc_cases in Hn as [Hn|[-> ->]]; [eapply Htf; eassumption | congruence].
  - intros i w k Hin Hn Hl. apply nth_error_snoc_cases in Hn as [Hn|[-> ->]]; [eapply Hrt; eassumption|].
    destruct (Hrts _ _ Hin) as [_ Hlt]. lia.
  - intros i w Hin. destruct (Hrts _ _ Hin) as [H1 H2]. split; [exact H1|]. rewrite app_length. cbn [length]. lia.
  - intros w k i rest Hn Hl Hk. apply nth_error_snoc_cases in Hn as [Hn|[-> ->]]; [eapply Hrt3; eassumption | congruence].
  - intros w k i rest Hn Hl Hk Hc1. apply nth_error_snoc_cases in Hn as [Hn|[-> ->]]; [eapply Hcc; eassumption | congruence].
  - intros w k i rest Hn Hk. apply nth_error_snoc_cases in Hn as [Hn|[-> ->]]; [eapply Hsuf; eassumption | congruence].
  - intros v Hv. rewrite app_length. cbn [length]. specialize (Hccb v Hv). lia.
Qed.

(** * try_grow *)
Definition newk (c : Z) : worker := {| k_st := Ready; k_create := c; k_task := None; k_tpool := 0; k_dead := false |}.

Record grown (x x' : pw) : Prop := {
  gr_ws : pw_workers x' = pw_workers x ++ [newk (pw_clock x)];
  gr_cq : pw_cq x' = fst (lpush (pw_cq x) 0 0 (Z.of_nat (length (pw_workers x))));
  gr_pool : get_pool x' 0 = p_with_running (p_running (get_pool x 0) + 1) (get_pool x 0);
  gr_pools : length (pw_pools x') = 1%nat;
  gr_clock : pw_clock x' = pw_clock x;
  gr_tq : pw_tq x' = pw_tq x;
  gr_tb : pw_tbody x' = pw_tbody x;
  gr_ct : pw_cancel_tasks x' = pw_cancel_tasks x;
  gr_cc : pw_cancel_cos x' = pw_cancel_cos x;
  gr_rt : pw_running_tasks x' = pw_running_tasks x;
  gr_cur : pw_cur x' = pw_cur x;
  gr_spin : pw_spin x' = pw_spin x;
  gr_cn : pw_cn x' = pw_cn x;
  gr_ts : pw_ts x' = pw_ts x
}.

Lemma try_grow_cases x : length (pw_pools x) = 1%nat ->
  (try_grow x 0 = x /\ (full_len (pw_tq x) = 0 \/ p_max (get_pool x 0) <= p_running (get_pool x 0))) \/
  (full_len (pw_tq x) <> 0 /\ p_running (get_pool x 0) < p_max (get_pool x 0) /\ grown x (try_grow x 0)).
Proof.
  intro Hp. unfold try_grow. destruct (full_len (pw_tq x) =? 0) eqn:E1; [left; split; [reflexivity | lia]|].
  destruct (p_max (get_pool x 0) <=? p_running (get_pool x 0)) eqn:E2; [left; split; [reflexivity | lia]|].
  right. split; [lia|]. split; [lia|].
  match goal with |- grown x (upd_pool ?y 0 ?f) => set (x2 := y); set (g := f) end.
  assert (length (pw_pools x2) = 1%nat) as Hp2 by exact Hp.
  constructor; try reflexivity.
  - rewrite (get_pool_upd_pool_same x2 0 g) by lia. reflexivity.
  - rewrite pools_len_upd_pool. exact Hp2.
Qed.

(** * a worker record is replaced *)
Lemma nth_error_set_nth_cases {A} (l : list A) w x w' y :
  nth_error (set_nth w x l) w' = Some y ->
  (w' = w /\ y = x /\ (w < length l)%nat) \/ (w' <> w /\ nth_error l w' = Some y).
Proof.
  intro H. destruct (Nat.eq_dec w' w) as [->|Hne].
  - left. assert (w < length l)%nat as Hlt.
    { apply nth_error_Some_lt in H. rewrite set_nth_length in H. exact H. }
    rewrite nth_error_set_nth_same in H by exact Hlt. injection H as <-. auto.
  - right. rewrite nth_error_set_nth_other in H by exact Hne. auto.
Qed.


(** the state of a worker changes, it stays alive, its task is untouched *)
Lemma JT_set_live ws tqi tb tk ct cc rt h w k k' :
  JT ws tqi tb tk ct cc rt h ->
  nth_error ws w = Some k -> live k = true -> live k' = true ->
  k_task k' = k_task k -> k_tpool k' = k_tpool k -> k_dead k' = k_dead k ->
  (is_hole h w = false ->
   exists m, pmode (k_st k') = Some m /\
             match k_task k with
             | Some (_, rest) => body_from m rest = true
             | None => m = MRun /\ (k_st k' = Ready \/ k_st k' = Suspend 0 0)
             end) ->
  JT (set_nth w k' ws) tqi tb tk ct cc rt h.
Proof.
  intros [Hlen Hq Hta Hhold Hinj Hmode Htb Hte Ht3 Htf Hrtnd Hrt Hrts Hrt3 Hcc Hc0 Hctb Hsuf Hfin Hccnd Hccb] Hn Hl Hl' Etask Etp Edead Hm.
  constructor; try assumption.
  - intros v kv i rest Hv Hk. apply nth_error_set_nth_cases in Hv as [(-> & -> & _)|(Hne & Hv)].
    + rewrite Etask in Hk. eapply Hhold; eassumption.
    + eapply Hhold; eassumption.
  - intros v v' kv kv' i r r' Hv Hv' Hk Hk'.
    apply nth_error_set_nth_cases in Hv as [(-> & -> & _)|(Hne & Hv)];
      apply nth_error_set_nth_cases in Hv' as [(-> & -> & _)|(Hne' & Hv')]; rewrite ?Etask in *.
    + reflexivity.
    + eapply Hinj; eassumption.
    + eapply Hinj; eassumption.
    + eapply Hinj; eassumption.
  - intros v kv Hv Hlv Hhv. apply nth_error_set_nth_cases in Hv as [(-> & -> & _)|(Hne & Hv)].
    + destruct (Hmode _ _ Hn Hl Hhv) as (Hd & Ht & _). rewrite Edead, Etp, Etask. split; [exact Hd|]. split; [exact Ht|]. exact (Hm Hhv).
    + eapply Hmode; eassumption.
  - intros i Hi Ha Hs Hf Hc1. destruct (Htb i Hi Ha Hs Hf Hc1) as (v & kv & rest & Hv & Hlv & Hk).
    destruct (Nat.eq_dec v w) as [->|Hne].
    + exists w, k', rest. rewrite nth_error_set_nth_same by (eapply nth_error_Some_lt, Hn).
      rewrite Hn in Hv. injection Hv as <-. rewrite Etask. auto.
    + exists v, kv, rest. rewrite nth_error_set_nth_other by exact Hne. auto.
  - intros v kv i rest Hv Hlv Hin Hk. apply nth_error_set_nth_cases in Hv as [(-> & -> & _)|(Hne & Hv)].
    + rewrite Etask in Hk. eapply Htf; eassumption.
    + eapply Htf; eassumption.
  - intros i v kv Hin Hv Hlv. apply nth_error_set_nth_cases in Hv as [(-> & -> & _)|(Hne & Hv)].
    + rewrite Etask. eapply Hrt; eassumption.
    + eapply Hrt; eassumption.
  - intros i v Hin. rewrite set_nth_length. apply Hrts, Hin.
  - intros v kv i rest Hv Hlv Hk. apply nth_error_set_nth_cases in Hv as [(-> & -> & _)|(Hne & Hv)].
    + rewrite Etask in Hk. eapply Hrt3; eassumption.
    + eapply Hrt3; eassumption.
  - intros v kv i rest Hv Hlv Hk Hc1. apply nth_error_set_nth_cases in Hv as [(-> & -> & _)|(Hne & Hv)].
    + rewrite Etask in Hk. eapply Hcc; eassumption.
    + eapply Hcc; eassumption.
  - intros v kv i rest Hv Hk. apply nth_error_set_nth_cases in Hv as [(-> & -> & _)|(Hne & Hv)].
    + rewrite Etask in Hk. eapply Hsuf; eassumption.
    + eapply Hsuf; eassumption.
  - intros v Hv. rewrite set_nth_length. apply Hccb, Hv.
Qed.

(** the worker dies: it held no task, or a task whose cancellation was requested *)
Lemma JT_set_dead ws tqi tb tk ct cc rt h w k k' :
  JT ws tqi tb tk ct cc rt h ->
  nth_error ws w = Some k -> live k' = false -> k_task k' = k_task k ->
  (k_task k = None \/ exists i rest, k_task k = Some (i, rest) /\ tt_cancel1 (tkn tk i) = true) ->
  JT (set_nth w k' ws) tqi tb tk ct cc rt h.
Proof.
  intros [Hlen Hq Hta Hhold Hinj Hmode Htb Hte Ht3 Htf Hrtnd Hrt Hrts Hrt3 Hcc Hc0 Hctb Hsuf Hfin Hccnd Hccb] Hn Hl' Etask Hk0.
  constructor; try assumption.
  - intros v kv i rest Hv Hk. apply nth_error_set_nth_cases in Hv as [(-> & -> & _)|(Hne & Hv)].
    + rewrite Etask in Hk. eapply Hhold; eassumption.
    + eapply Hhold; eassumption.
  - intros v v' kv kv' i r r' Hv Hv' Hk Hk'.
    apply nth_error_set_nth_cases in Hv as [(-> & -> & _)|(Hne & Hv)];
      apply nth_error_set_nth_cases in Hv' as [(-> & -> & _)|(Hne' & Hv')]; rewrite ?Etask in *.
    + reflexivity.
    + eapply Hinj; eassumption.
    + eapply Hinj; eassumption.
    + eapply Hinj; eassumption.
  - intros v kv Hv Hlv Hhv. apply nth_error_set_nth_cases in Hv as [(-> & -> & _)|(Hne & Hv)]; [congruence|].
    eapply Hmode; eassumption.
  - intros i Hi Ha Hs Hf Hc1. destruct (Htb i Hi Ha Hs Hf Hc1) as (v & kv & rest & Hv & Hlv & Hk).
    destruct (Nat.eq_dec v w) as [->|Hne].
    + exfalso. rewrite Hn in Hv. injection Hv as <-. destruct Hk0 as [Hk0|(i' & rest' & Hk0 & Hc)]; [congruence|].
      rewrite Hk in Hk0. injection Hk0 as <- <-. congruence.
    + exists v, kv, rest. rewrite nth_error_set_nth_other by exact Hne. auto.
  - intros v kv i rest Hv Hlv Hin Hk. apply nth_error_set_nth_cases in Hv as [(-> & -> & _)|(Hne & Hv)]; [congruence|].
    eapply Htf; eassumption.
  - intros i v kv Hin Hv Hlv. apply nth_error_set_nth_cases in Hv as [(-> & -> & _)|(Hne & Hv)]; [congruence|].
    eapply Hrt; eassumption.
  - intros i v Hin. rewrite set_nth_length. apply Hrts, Hin.
  - intros v kv i rest Hv Hlv Hk. apply nth_error_set_nth_cases in Hv as [(-> & -> & _)|(Hne & Hv)]; [congruence|].
    eapply Hrt3; eassumption.
  - intros v kv i rest Hv Hlv Hk Hc1. apply nth_error_set_nth_cases in Hv as [(-> & -> & _)|(Hne & Hv)]; [congruence|].
    eapply Hcc; eassumption.
  - intros v kv i rest Hv Hk. apply nth_error_set_nth_cases in Hv as [(-> & -> & _)|(Hne & Hv)].
    + rewrite Etask in Hk. eapply Hsuf; eassumption.
    + eapply Hsuf; eassumption.
  - intros v Hv. rewrite set_nth_length. apply Hccb, Hv.
Qed.

(** the hole worker's record changes: locations do not look at it *)
Lemma JL_set_hole c ws cqi d w k' : JL c ws cqi d (Some w) -> JL c (set_nth w k' ws) cqi d (Some w).
Proof.
  intros [Hloc Hhole Hcq Hsu Hsy Hmap]. constructor; rewrite ?set_nth_length; try assumption.
  intros v kv Hv Hh. apply nth_error_set_nth_cases in Hv as [(-> & -> & _)|(Hne & Hv)].
  - cbn [is_hole] in Hh. rewrite Nat.eqb_refl in Hh. discriminate.
  - apply Hloc; assumption.
Qed.

Lemma wst_set ws w k' v : (w < length ws)%nat -> wst (set_nth w k' ws) v = if Nat.eqb v w then k_st k' else wst ws v.
Proof.
  intro Hlt. destruct (Nat.eqb v w) eqn:E.
  - apply Nat.eqb_eq in E. subst. apply wst_set_same, Hlt.
  - apply Nat.eqb_neq in E. apply wst_set_other. congruence.
Qed.

Definition tid (k : worker) : option nat := option_map fst (k_task k).

Lemma tid_some k i rest : k_task k = Some (i, rest) -> tid k = Some i.
Proof. unfold tid. intros ->. reflexivity. Qed.

Lemma tid_some_inv k i : tid k = Some i -> exists rest, k_task k = Some (i, rest).
Proof. unfold tid. destruct (k_task k) as [[j rest]|]; cbn; [|discriminate]. intro H. injection H as ->. eauto. Qed.

(** the record of the worker being resumed changes, it stays alive and keeps its task id *)
Lemma JT_set_hole ws tqi tb tk ct cc rt w k k' :
  JT ws tqi tb tk ct cc rt (Some w) ->
  nth_error ws w = Some k -> live k' = live k -> tid k' = tid k ->
  (forall i rest, k_task k' = Some (i, rest) ->
     body_outcome rest = body_outcome (nth i tb []) /\ (length rest <= length (nth i tb []))%nat) ->
  JT (set_nth w k' ws) tqi tb tk ct cc rt (Some w).
Proof.
  intros [Hlen Hq Hta Hhold Hinj Hmode Htb Hte Ht3 Htf Hrtnd Hrt Hrts Hrt3 Hcc Hc0 Hctb Hsuf Hfin Hccnd Hccb] Hn El Etid Hsuf'.
  assert (forall i rest, k_task k' = Some (i, rest) -> exists rest0, k_task k = Some (i, rest0)) as Hback.
  { intros i rest Hk. apply tid_some in Hk. rewrite Etid in Hk. apply tid_some_inv, Hk. }
  assert (forall i rest, k_task k = Some (i, rest) -> exists rest0, k_task k' = Some (i, rest0)) as Hfwd.
  { intros i rest Hk. apply tid_some in Hk. rewrite <- Etid in Hk. apply tid_some_inv, Hk. }
  constructor; try assumption.
  - intros v kv i rest Hv Hk. apply nth_error_set_nth_cases in Hv as [(-> & -> & _)|(Hne & Hv)].
    + destruct (Hback _ _ Hk) as [r0 Hk0]. eapply Hhold; eassumption.
    + eapply Hhold; eassumption.
  - intros v v' kv kv' i r r' Hv Hv' Hk Hk'.
    apply nth_error_set_nth_cases in Hv as [(-> & -> & _)|(Hne & Hv)];
      apply nth_error_set_nth_cases in Hv' as [(-> & -> & _)|(Hne' & Hv')].
    + reflexivity.
    + destruct (Hback _ _ Hk) as [r0 Hk0]. eapply Hinj; eassumption.
    + destruct (Hback _ _ Hk') as [r0 Hk0]. eapply Hinj; eassumption.
    + eapply Hinj; eassumption.
  - intros v kv Hv Hlv Hhv. apply nth_error_set_nth_cases in Hv as [(-> & -> & _)|(Hne & Hv)].
    + cbn [is_hole] in Hhv. rewrite Nat.eqb_refl in Hhv. discriminate.
    + eapply Hmode; eassumption.
  - intros i Hi Ha Hs Hf Hc1. destruct (Htb i Hi Ha Hs Hf Hc1) as (v & kv & rest & Hv & Hlv & Hk).
    destruct (Nat.eq_dec v w) as [->|Hne].
    + rewrite Hn in Hv. injection Hv as <-. destruct (Hfwd _ _ Hk) as [r0 Hk0].
      exists w, k', r0. rewrite nth_error_set_nth_same by (eapply nth_error_Some_lt, Hn). rewrite El. auto.
    + exists v, kv, rest. rewrite nth_error_set_nth_other by exact Hne. auto.
  - intros v kv i rest Hv Hlv Hin Hk. apply nth_error_set_nth_cases in Hv as [(-> & -> & _)|(Hne & Hv)].
    + destruct (Hback _ _ Hk) as [r0 Hk0]. rewrite El in Hlv. eapply Htf; eassumption.
    + eapply Htf; eassumption.
  - intros i v kv Hin Hv Hlv. apply nth_error_set_nth_cases in Hv as [(-> & -> & _)|(Hne & Hv)].
    + rewrite El in Hlv. destruct (Hrt _ _ _ Hin Hn Hlv) as [r0 Hk0]. apply (Hfwd _ _ Hk0).
    + eapply Hrt; eassumption.
  - intros i v Hin. rewrite set_nth_length. apply Hrts, Hin.
  - intros v kv i rest Hv Hlv Hk. apply nth_error_set_nth_cases in Hv as [(-> & -> & _)|(Hne & Hv)].
    + destruct (Hback _ _ Hk) as [r0 Hk0]. rewrite El in Hlv. eapply Hrt3; eassumption.
    + eapply Hrt3; eassumption.
  - intros v kv i rest Hv Hlv Hk Hc1. apply nth_error_set_nth_cases in Hv as [(-> & -> & _)|(Hne & Hv)].
    + destruct (Hback _ _ Hk) as [r0 Hk0]. rewrite El in Hlv. eapply Hcc; eassumption.
    + eapply Hcc; eassumption.
  - intros v kv i rest Hv Hk. apply nth_error_set_nth_cases in Hv as [(-> & -> & _)|(Hne & Hv)].
    + apply Hsuf', Hk.
    + eapply Hsuf; eassumption.
  - intros v Hv. rewrite set_nth_length. apply Hccb, Hv.
Qed.

Lemma JL_clock c c' ws cqi d h : c <= c' -> JL c ws cqi d h -> JL c' ws cqi d h.
Proof.
  intros Hc [Hloc Hhole Hcq Hsu Hsy Hmap]. constructor; try assumption.
  intros w k Hn Hh. apply (loc_ok_ext c c' cqi); [reflexivity | exact Hc | apply Hloc; assumption].
Qed.

(** * a task finishes *)
Definition fin_rec (k : ttrk) (r : tres) : ttrk :=
  {| tt_pool := tt_pool k; tt_accepted := tt_accepted k; tt_started := tt_started k; tt_fin := Some r;
     tt_fincount := S (tt_fincount k); tt_cancel0 := tt_cancel0 k; tt_cancel1 := tt_cancel1 k;
     tt_consumed := tt_consumed k; tt_cleaned := tt_cleaned k; tt_withdrawn := tt_withdrawn k |}.
Definition fin_trk (t : potr) (i : nat) (r : tres) : potr :=
  sett (flag t 1 (Nat.eqb (tt_fincount (gett t i)) 0)) i (fin_rec (gett t i) r).

Lemma pev_ret t i v : pev t (EB i (BRet v)) = fin_trk t i (TOk v). Proof. reflexivity. Qed.
Lemma pev_panic t i pk : pev t (EB i (BPanic pk)) = fin_trk t i (TErr (task_msg pk)). Proof. reflexivity. Qed.

Lemma JT_finish ws tqi tb tk ct cc rt w k i rest r :
  JT ws tqi tb tk ct cc rt (Some w) ->
  nth_error ws w = Some k -> live k = true -> k_task k = Some (i, rest) -> r = body_outcome rest ->
  JT (set_nth w (with_task k None) ws) tqi tb (set_nth i (fin_rec (tkn tk i) r) tk) ct cc (assoc_del i rt) (Some w).
Proof.
  intros HT Hn Hl Hk Hr. pose proof HT as [Hlen Hq Hta Hhold Hinj Hmode Htb Hte Ht3 Htf Hrtnd Hrt Hrts Hrt3 Hcc Hc0 Hctb Hsuf HfinJ Hccnd Hccb].
  destruct (Hhold _ _ _ _ Hn Hk) as (Hi & Hacc & Hst & Hfc & Hfin & Hnq).
  assert (i < length tk)%nat as Hi' by lia.
  assert (forall j, j <> i -> tkn (set_nth i (fin_rec (tkn tk i) r) tk) j = tkn tk j) as Ho.
  { intros j Hj. apply tkn_set_other. congruence. }
  assert (tkn (set_nth i (fin_rec (tkn tk i) r) tk) i = fin_rec (tkn tk i) r) as Hs by (apply tkn_set_same, Hi').
  assert (forall v kv j rj, nth_error ws v = Some kv -> k_task kv = Some (j, rj) -> v <> w -> j <> i) as Hother.
  { intros v kv j rj Hv Hkv Hne ->. apply Hne. eapply Hinj; eassumption. }
  constructor.
  - rewrite set_nth_length. exact Hlen.
  - intros z Hz. destruct (Hq z Hz) as (j & -> & Hj & Hc & H1 & H2 & H3 & H4 & H5 & H6).
    assert (j <> i) as Hji by (intros ->; contradiction).
    exists j. rewrite (Ho j Hji). auto 12.
  - intros j Hj. destruct (Nat.eq_dec j i) as [->|Hji].
    + rewrite Hs. cbn [fin_rec tt_started]. intros _ H0. congruence.
    + rewrite (Ho j Hji). apply Hta, Hj.
  - intros v kv j rj Hv Hkv. apply nth_error_set_nth_cases in Hv as [(-> & -> & _)|(Hne & Hv)]; [discriminate|].
    rewrite (Ho j (Hother _ _ _ _ Hv Hkv Hne)). eapply Hhold; eassumption.
  - intros v v' kv kv' j rj rj' Hv Hv' Hkv Hkv'.
    apply nth_error_set_nth_cases in Hv as [(-> & -> & _)|(Hne & Hv)]; [discriminate|].
    apply nth_error_set_nth_cases in Hv' as [(-> & -> & _)|(Hne' & Hv')]; [discriminate|].
    eapply Hinj; eassumption.
  - intros v kv Hv Hlv Hhv. apply nth_error_set_nth_cases in Hv as [(-> & -> & _)|(Hne & Hv)].
    + cbn [is_hole] in Hhv. rewrite Nat.eqb_refl in Hhv. discriminate.
    + eapply Hmode; eassumption.
  - intros j Hj. destruct (Nat.eq_dec j i) as [->|Hji].
    + rewrite Hs. cbn [fin_rec tt_fin]. intros _ _ H0. discriminate.
    + rewrite (Ho j Hji). intros Ha Hs' Hf Hc1. destruct (Htb j Hj Ha Hs' Hf Hc1) as (v & kv & rj & Hv & Hlv & Hkv).
      assert (v <> w) as Hne. { intros ->. rewrite Hn in Hv. injection Hv as <-. congruence. }
      exists v, kv, rj. rewrite nth_error_set_nth_other by exact Hne. auto.
  - intros j Hz. assert (j <> i) as Hji by (intros ->; contradiction). rewrite (Ho j Hji). apply Hte, Hz.
  - intros j Hc Hz. assert (j <> i) as Hji by (intros ->; contradiction). rewrite (Ho j Hji). apply Ht3; assumption.
  - intros v kv j rj Hv Hlv Hin Hkv. apply nth_error_set_nth_cases in Hv as [(-> & -> & _)|(Hne & Hv)]; [discriminate|].
    rewrite (Ho j (Hother _ _ _ _ Hv Hkv Hne)). eapply Htf; eassumption.
  - apply assoc_del_NoDup, Hrtnd.
  - intros j v kv Hin Hv Hlv. pose proof (assoc_del_In _ _ _ Hin) as Hin0.
    apply nth_error_set_nth_cases in Hv as [(-> & -> & _)|(Hne & Hv)].
    + exfalso. destruct (Hrt _ _ _ Hin0 Hn Hl) as [rj Hkj]. rewrite Hk in Hkj. injection Hkj as <- _.
      apply (assoc_del_NoDup_notin i rt Hrtnd). apply in_map_iff. exists (i, w). auto.
    + eapply Hrt; eassumption.
  - intros j v Hin. pose proof (assoc_del_In _ _ _ Hin) as Hin0. destruct (Hrts _ _ Hin0) as [H1 H2].
    rewrite set_nth_length. split; [|exact H2]. destruct (Nat.eq_dec j i) as [->|Hji].
    + rewrite Hs. cbn [fin_rec tt_started]. congruence.
    + rewrite (Ho j Hji). exact H1.
  - intros v kv j rj Hv Hlv Hkv. apply nth_error_set_nth_cases in Hv as [(-> & -> & _)|(Hne & Hv)]; [discriminate|].
    apply assoc_del_In_other; [|eapply Hrt3; eassumption]. pose proof (Hother _ _ _ _ Hv Hkv Hne). congruence.
  - intros v kv j rj Hv Hlv Hkv. apply nth_error_set_nth_cases in Hv as [(-> & -> & _)|(Hne & Hv)]; [discriminate|].
    rewrite (Ho j (Hother _ _ _ _ Hv Hkv Hne)). eapply Hcc; eassumption.
  - intros j. destruct (Nat.eq_dec j i) as [->|Hji].
    + rewrite Hs. cbn [fin_rec tt_cancel0 tt_accepted]. apply Hc0.
    + rewrite (Ho j Hji). apply Hc0.
  - exact Hctb.
  - intros v kv j rj Hv Hkv. apply nth_error_set_nth_cases in Hv as [(-> & -> & _)|(Hne & Hv)]; [discriminate|].
    eapply Hsuf; eassumption.
  - intros j r'. destruct (Nat.eq_dec j i) as [->|Hji].
    + rewrite Hs. cbn [fin_rec tt_fin]. intro E. injection E as <-. rewrite Hr. apply (Hsuf _ _ _ _ Hn Hk).
    + rewrite (Ho j Hji). apply HfinJ.
  - exact Hccnd.
  - intros v Hv. rewrite set_nth_length. apply Hccb, Hv.
Qed.

Lemma JR_no_result_for_held W R N pst tqi tk i r0 :
  JR W R N pst tqi tk -> tt_fin (tkn tk i) = None -> tt_started (tkn tk i) = 1%nat -> pst <> PStopped -> ~ In (i, r0) R.
Proof.
  intros HR Hfin Hst Hps Hin. destruct (jr_tg _ _ _ _ _ _ HR _ _ Hin) as [(_ & [H|(_ & _ & H & _)])|(_ & H & _)]; congruence.
Qed.

Lemma JR_held_not_consumed W R N pst tqi tk i :
  JR W R N pst tqi tk -> tt_fin (tkn tk i) = None -> tt_started (tkn tk i) = 1%nat -> pst <> PStopped ->
  tt_consumed (tkn tk i) = false.
Proof.
  intros HR Hfin Hst Hps. destruct (tt_consumed (tkn tk i)) eqn:E; [|reflexivity].
  destruct (jr_cons _ _ _ _ _ _ HR _ E) as [H|[[H _]|H]]; congruence.
Qed.

Lemma JR_finish_nowaits W R N pst tqi tk i r :
  JR W R N pst tqi tk -> In i N -> (i < length tk)%nat ->
  tt_fin (tkn tk i) = None -> tt_started (tkn tk i) = 1%nat -> pst <> PStopped ->
  JR W R (remove_nat i N) pst tqi (set_nth i (fin_rec (tkn tk i) r) tk).
Proof.
  intros HR HiN Hi Hfin Hst Hps. pose proof HR as [Hrnd Hwnd Htg Htg2 Htg3 Htn Htw Hcons].
  assert (forall j, j <> i -> tkn (set_nth i (fin_rec (tkn tk i) r) tk) j = tkn tk j) as Ho.
  { intros j Hj. apply tkn_set_other. congruence. }
  assert (tkn (set_nth i (fin_rec (tkn tk i) r) tk) i = fin_rec (tkn tk i) r) as Hs by (apply tkn_set_same, Hi).
  constructor; try assumption.
  - intros j r' Hin. destruct (Nat.eq_dec j i) as [->|Hji].
    + exfalso. eapply JR_no_result_for_held; eassumption.
    + rewrite (Ho j Hji). apply Htg, Hin.
  - intros j. destruct (Nat.eq_dec j i) as [->|Hji].
    + rewrite Hs. cbn [fin_rec tt_cleaned]. intros _ _ Hc. rewrite (Htn _ HiN) in Hc. discriminate.
    + rewrite (Ho j Hji). apply Htg2.
  - intros j. rewrite set_nth_length. destruct (Nat.eq_dec j i) as [->|Hji].
    + rewrite Hs. cbn [fin_rec tt_started]. intros _ _ H0. congruence.
    + rewrite (Ho j Hji). apply Htg3.
  - intros j Hj. apply remove_nat_In in Hj. destruct (Nat.eq_dec j i) as [->|Hji].
    + rewrite Hs. cbn [fin_rec tt_cleaned]. apply Htn, Hj.
    + rewrite (Ho j Hji). apply Htn, Hj.
  - intros j Hj. destruct (Nat.eq_dec j i) as [->|Hji].
    + rewrite Hs. cbn [fin_rec tt_cleaned tt_consumed tt_fin]. right. right. apply Htn, HiN.
    + rewrite (Ho j Hji). apply Htw, Hj.
  - intros j. destruct (Nat.eq_dec j i) as [->|Hji].
    + rewrite Hs. cbn [fin_rec tt_fin]. intros _. left. discriminate.
    + rewrite (Ho j Hji). apply Hcons.
Qed.

Lemma JR_finish_result W R N pst tqi tk i r :
  JR W R N pst tqi tk -> assoc_get i R = None -> ~ In i N -> (i < length tk)%nat ->
  tt_fin (tkn tk i) = None -> tt_started (tkn tk i) = 1%nat -> pst <> PStopped ->
  JR (remove_nat i W) (R ++ [(i, r)]) N pst tqi (set_nth i (fin_rec (tkn tk i) r) tk).
Proof.
  intros HR HiR HiN Hi Hfin Hst Hps. pose proof HR as [Hrnd Hwnd Htg Htg2 Htg3 Htn Htw Hcons].
  assert (forall j, j <> i -> tkn (set_nth i (fin_rec (tkn tk i) r) tk) j = tkn tk j) as Ho.
  { intros j Hj. apply tkn_set_other. congruence. }
  assert (tkn (set_nth i (fin_rec (tkn tk i) r) tk) i = fin_rec (tkn tk i) r) as Hs by (apply tkn_set_same, Hi).
  apply assoc_get_None in HiR.
  constructor.
  - rewrite map_app. cbn [map fst]. apply NoDup_snoc; assumption.
  - apply remove_nat_NoDup, Hwnd.
  - intros j r' Hin. apply in_app_iff in Hin as [Hin|[Hin|[]]].
    + assert (j <> i) as Hji. { intros ->. apply HiR. apply in_map_iff. exists (i, r'). auto. }
      rewrite (Ho j Hji). apply Htg, Hin.
    + injection Hin as <- <-. rewrite Hs. left. cbn [fin_rec tt_consumed tt_fin]. split; [|left; reflexivity].
      eapply JR_held_not_consumed; eassumption.
  - intros j. rewrite assoc_get_app. destruct (Nat.eq_dec j i) as [->|Hji].
    + intros _ _ _. destruct (assoc_get i R); [discriminate|]. cbn [assoc_get]. rewrite Nat.eqb_refl. discriminate.
    + rewrite (Ho j Hji). intros H1 H2 H3. specialize (Htg2 j H1 H2 H3). destruct (assoc_get j R); [discriminate | contradiction].
  - intros j. rewrite set_nth_length, assoc_get_app. destruct (Nat.eq_dec j i) as [->|Hji].
    + rewrite Hs. cbn [fin_rec tt_started]. intros _ _ H0. congruence.
    + rewrite (Ho j Hji). intros H0 H1 H2 H3 H4 H5. specialize (Htg3 j H0 H1 H2 H3 H4 H5).
      destruct (assoc_get j R); [discriminate | contradiction].
  - intros j Hj. destruct (Nat.eq_dec j i) as [->|Hji]; [contradiction|]. rewrite (Ho j Hji). apply Htn, Hj.
  - intros j Hj. assert (j <> i) as Hji. { intros ->. eapply remove_nat_NoDup_notin; eassumption. }
    rewrite (Ho j Hji). apply Htw. eapply remove_nat_In, Hj.
  - intros j. destruct (Nat.eq_dec j i) as [->|Hji].
    + rewrite Hs. cbn [fin_rec tt_fin]. intros _. left. discriminate.
    + rewrite (Ho j Hji). apply Hcons.
Qed.

(** what a composite update leaves: the components the invariant reads, the changed ones as parameters *)
Record upd_post (x xf : pw) (ws' : list worker) (tq' : sys) (ct' : list nat) (rt' : list (nat * nat)) (q' : pool) : Prop := {
  up_ws : pw_workers xf = ws';
  up_tq : pw_tq xf = tq';
  up_ct : pw_cancel_tasks xf = ct';
  up_rt : pw_running_tasks xf = rt';
  up_pool : get_pool xf 0 = q';
  up_pools : length (pw_pools xf) = 1%nat;
  up_cq : pw_cq xf = pw_cq x;
  up_clock : pw_clock xf = pw_clock x;
  up_tb : pw_tbody xf = pw_tbody x;
  up_cc : pw_cancel_cos xf = pw_cancel_cos x;
  up_cur : pw_cur xf = pw_cur x;
  up_spin : pw_spin xf = pw_spin x;
  up_cn : pw_cn xf = pw_cn x;
  up_ts : pw_ts xf = pw_ts x
}.

Lemma finish_task_post x i r : length (pw_pools x) = 1%nat ->
  let q := get_pool x 0 in
  match finish_task x 0 i r with
  | FinOk xf =>
      (mem_nat i (p_nowaits q) = true /\
       upd_post x xf (pw_workers x) (pw_tq x) (pw_cancel_tasks x) (assoc_del i (pw_running_tasks x))
                (p_with_wait (p_waits q) (p_results q) (remove_nat i (p_nowaits q)) q)) \/
      (mem_nat i (p_nowaits q) = false /\ assoc_get i (p_results q) = None /\
       upd_post x xf (pw_workers x) (pw_tq x) (pw_cancel_tasks x) (assoc_del i (pw_running_tasks x))
                (p_with_wait (remove_nat i (p_waits q)) (p_results q ++ [(i, r)]) (p_nowaits q) q))
  | FinPanic _ => mem_nat i (p_nowaits q) = false /\ assoc_get i (p_results q) <> None
  end.
Proof.
  intros Hp q. unfold finish_task.
  set (xa := if Nat.eqb (nth i (pw_tpool x) 0%nat) 0 then x else add_defect x defect_result_elsewhere).
  assert (length (pw_pools xa) = 1%nat /\ get_pool xa 0 = q /\ pw_workers xa = pw_workers x /\ pw_tq xa = pw_tq x /\
          pw_cancel_tasks xa = pw_cancel_tasks x /\ pw_running_tasks xa = pw_running_tasks x /\ pw_cq xa = pw_cq x /\
          pw_clock xa = pw_clock x /\ pw_tbody xa = pw_tbody x /\ pw_cancel_cos xa = pw_cancel_cos x /\
          pw_cur xa = pw_cur x /\ pw_spin xa = pw_spin x /\ pw_cn xa = pw_cn x /\ pw_ts xa = pw_ts x)
    as (A1 & A2 & A3 & A4 & A5 & A6 & A7 & A8 & A9 & A10 & A11 & A12 & A13 & A14).
  { unfold xa. destruct (Nat.eqb _ 0); autorewrite with pw; repeat split; assumption || reflexivity. }
  set (xc := set_globals xa (pw_cancel_tasks xa) (pw_cancel_cos xa) (assoc_del i (pw_running_tasks xa))).
  assert (get_pool xc 0 = q) as Hq by (unfold xc; autorewrite with pw; exact A2).
  assert (length (pw_pools xc) = 1%nat) as Hpc by (unfold xc; autorewrite with pw; exact A1).
  rewrite Hq. destruct (mem_nat i (p_nowaits q)) eqn:Em.
  - left. split; [reflexivity|]. constructor; autorewrite with pw; rewrite ?(get_pool_upd_pool_same xc 0 _) by lia;
      rewrite ?Hq; unfold xc; autorewrite with pw; try congruence.
    rewrite set_nth_length. exact A1.
  - destruct (assoc_get i (p_results q)) eqn:Er; [split; [reflexivity | discriminate]|].
    right. split; [reflexivity|]. split; [reflexivity|]. unfold notify.
    set (xd := upd_pool xc 0 (fun q0 => p_with_wait (p_waits q0) (p_results q0 ++ [(i, r)]) (p_nowaits q0) q0)).
    assert (length (pw_pools xd) = 1%nat) as Hpd by (unfold xd; rewrite pools_len_upd_pool; exact Hpc).
    assert (get_pool xd 0 = p_with_wait (p_waits q) (p_results q ++ [(i, r)]) (p_nowaits q) q) as Hqd.
    { unfold xd. rewrite (get_pool_upd_pool_same xc 0 _) by lia. rewrite Hq. reflexivity. }
    constructor; autorewrite with pw; rewrite ?(get_pool_upd_pool_same xd 0 _) by lia; rewrite ?Hqd;
      unfold xd; autorewrite with pw; unfold xc; autorewrite with pw; try congruence; try reflexivity.
    rewrite !set_nth_length. exact A1.
Qed.

(** * a task is popped from the task queue *)
Lemma JT_popcancel ws tqi tqi' tb tk ct ct' cc rt h i :
  JT ws tqi tb tk ct cc rt h ->
  (forall y, In y tqi' <-> In y tqi /\ y <> Z.of_nat i) -> (forall y, y <> Z.of_nat i -> cnt y tqi' = cnt y tqi) ->
  tt_cancel0 (tkn tk i) = true ->
  (forall j, j <> i -> In j ct -> In j ct') -> (forall j, In j ct' -> In j ct) ->
  JT ws tqi' tb tk ct' cc rt h.
Proof.
  intros [Hlen Hq Hta Hhold Hinj Hmode Htb Hte Ht3 Htf Hrtnd Hrt Hrts Hrt3 Hcc Hc0 Hctb Hsuf Hfin Hccnd Hccb] Hin Hcnt Hc0i Hct1 Hct2.
  constructor; try assumption.
  - intros z Hz. apply Hin in Hz as [Hz Hne]. destruct (Hq z Hz) as (j & -> & Hj & Hc & Hr). exists j.
    rewrite (Hcnt _ Hne). auto.
  - intros j Hj Ha Hs Hc. apply Hin. split; [apply Hta; assumption|]. intro E. apply Nat2Z.inj in E. subst. congruence.
  - intros v kv j rj Hv Hkv. destruct (Hhold _ _ _ _ Hv Hkv) as (H1 & H2 & H3 & H4 & H5 & H6).
    repeat (split; [assumption|]). intro Hz. apply Hin in Hz as [Hz _]. contradiction.
  - intros j Hz Hc Hw. apply Hin in Hz as [Hz Hne]. apply Hct1; [intros ->; congruence | apply Hte; assumption].
  - intros j Hj Hz. apply Hin in Hz as [Hz _]. apply Ht3; [apply Hct2, Hj | exact Hz].
  - intros j Hj. apply Hctb, Hct2, Hj.
Qed.

Lemma JS_tq pst prun tqi tqi' pk mx :
  JS mx pst prun tqi pk -> pst <> PStopped -> pt_quiet (nth 0 pk ptrk0) = false -> JS mx pst prun tqi' pk.
Proof.
  intros [S1 S2 S3 S4 S5 S6 S7] Hps Hq. constructor; try assumption; [contradiction | congruence].
Qed.

Lemma JR_consumed_false_queued W R N pst tqi tk i :
  JR W R N pst tqi tk -> tt_fin (tkn tk i) = None -> In (Z.of_nat i) tqi -> pst <> PStopped -> tt_consumed (tkn tk i) = false.
Proof.
  intros HR Hfin Hz Hps. destruct (tt_consumed (tkn tk i)) eqn:E; [|reflexivity].
  destruct (jr_cons _ _ _ _ _ _ HR _ E) as [H|[[_ H]|H]]; congruence || contradiction.
Qed.

Lemma JR_no_result_queued W R N pst tqi tk i r0 :
  JR W R N pst tqi tk -> tt_fin (tkn tk i) = None -> In (Z.of_nat i) tqi -> pst <> PStopped -> ~ In (i, r0) R.
Proof.
  intros HR Hfin Hz Hps Hin. destruct (jr_tg _ _ _ _ _ _ HR _ _ Hin) as [(_ & [H|(_ & _ & _ & H)])|(_ & H & _)]; congruence || contradiction.
Qed.

Lemma JR_popcancel_nowaits W R N pst tqi tqi' tk i :
  JR W R N pst tqi tk -> In i N ->
  (forall y, In y tqi' <-> In y tqi /\ y <> Z.of_nat i) ->
  JR W R (remove_nat i N) pst tqi' tk.
Proof.
  intros [Hrnd Hwnd Htg Htg2 Htg3 Htn Htw Hcons] HiN Hin.
  assert (forall j, j <> i -> ~ In (Z.of_nat j) tqi' -> ~ In (Z.of_nat j) tqi) as Hback.
  { intros j Hj Hn Hz. apply Hn, Hin. split; [exact Hz|]. intro E. apply Nat2Z.inj in E. congruence. }
  assert (forall j, ~ In (Z.of_nat j) tqi -> ~ In (Z.of_nat j) tqi') as Hfwd.
  { intros j Hn Hz. apply Hin in Hz as [Hz _]. contradiction. }
  constructor; try assumption.
  - intros j r Hr. destruct (Htg j r Hr) as [(H1 & [H2|(H2 & H3 & H4 & H5)])|H]; auto 8.
  - intros j Hj Ha Hs Hz Hc Hcl. destruct (Nat.eq_dec j i) as [->|Hji].
    + rewrite (Htn _ HiN) in Hcl. discriminate.
    + apply Htg3; auto.
  - intros j Hj. apply Htn. eapply remove_nat_In, Hj.
  - intros j Hc. destruct (Hcons j Hc) as [H|[[H1 H2]|H]]; auto.
Qed.

Lemma JR_popcancel_result W R N pst tqi tqi' tk i :
  JR W R N pst tqi tk -> ~ In i N -> (i < length tk)%nat ->
  (forall y, In y tqi' <-> In y tqi /\ y <> Z.of_nat i) ->
  In (Z.of_nat i) tqi -> tt_fin (tkn tk i) = None -> tt_started (tkn tk i) = 0%nat -> tt_cancel0 (tkn tk i) = true ->
  pst <> PStopped ->
  JR (remove_nat i W) (assoc_del i R ++ [(i, TErr TMCancelled)]) N pst tqi' tk.
Proof.
  intros HR HiN Hi Hin Hz Hfin Hst Hc0 Hps. pose proof HR as [Hrnd Hwnd Htg Htg2 Htg3 Htn Htw Hcons].
  assert (forall j, j <> i -> ~ In (Z.of_nat j) tqi' -> ~ In (Z.of_nat j) tqi) as Hback.
  { intros j Hj Hn Hz'. apply Hn, Hin. split; [exact Hz'|]. intro E. apply Nat2Z.inj in E. congruence. }
  assert (forall j, ~ In (Z.of_nat j) tqi -> ~ In (Z.of_nat j) tqi') as Hfwd.
  { intros j Hn Hz'. apply Hin in Hz' as [Hz' _]. contradiction. }
  assert (~ In (Z.of_nat i) tqi') as Hni. { intro Hz'. apply Hin in Hz' as [_ Hne]. congruence. }
  constructor.
  - rewrite map_app. cbn [map fst]. apply NoDup_snoc; [apply assoc_del_NoDup, Hrnd | apply assoc_del_NoDup_notin, Hrnd].
  - apply remove_nat_NoDup, Hwnd.
  - intros j r Hr. apply in_app_iff in Hr as [Hr|[Hr|[]]].
    + apply assoc_del_In in Hr. destruct (Htg j r Hr) as [(H1 & [H2|(H2 & H3 & H4 & H5)])|H]; auto 8.
    + injection Hr as <- <-. left. split; [eapply JR_consumed_false_queued; eassumption|]. right. auto.
  - intros j Hf Hc Hcl. rewrite assoc_get_app. destruct (Nat.eq_dec j i) as [->|Hji]; [congruence|].
    rewrite assoc_get_del_other by congruence. specialize (Htg2 j Hf Hc Hcl). destruct (assoc_get j R); [discriminate | contradiction].
  - intros j Hj Ha Hs Hzj Hc Hcl. rewrite assoc_get_app. destruct (Nat.eq_dec j i) as [->|Hji].
    + destruct (assoc_get i (assoc_del i R)); [discriminate|]. cbn [assoc_get]. rewrite Nat.eqb_refl. discriminate.
    + rewrite assoc_get_del_other by congruence. specialize (Htg3 j Hj Ha Hs (Hback j Hji Hzj) Hc Hcl).
      destruct (assoc_get j R); [discriminate | contradiction].
  - exact Htn.
  - intros j Hj. apply Htw. eapply remove_nat_In, Hj.
  - intros j Hc. destruct (Hcons j Hc) as [H|[[H1 H2]|H]]; auto.
Qed.

(** * a task starts *)
Definition start_rec (k : ttrk) : ttrk :=
  {| tt_pool := tt_pool k; tt_accepted := tt_accepted k; tt_started := S (tt_started k); tt_fin := tt_fin k;
     tt_fincount := tt_fincount k; tt_cancel0 := tt_cancel0 k; tt_cancel1 := tt_cancel1 k;
     tt_consumed := tt_consumed k; tt_cleaned := tt_cleaned k; tt_withdrawn := tt_withdrawn k |}.
Definition start_trk (t : potr) (i : nat) : potr :=
  sett (flag (flag t 1 (tt_accepted (gett t i) && Nat.eqb (tt_started (gett t i)) 0)) 13
             (negb (tt_cancel0 (gett t i)) || tt_withdrawn (gett t i))) i (start_rec (gett t i)).
Lemma pev_start t i p : pev t (EB i (BStart p)) = start_trk t i. Proof. reflexivity. Qed.

Lemma JT_start ws tqi tqi' tb tk ct cc rt w k k' i :
  JT ws tqi tb tk ct cc rt (Some w) ->
  nth_error ws w = Some k -> live k = true -> k_task k = None -> ~ In w cc ->
  In (Z.of_nat i) tqi ->
  (forall y, In y tqi' <-> In y tqi /\ y <> Z.of_nat i) -> (forall y, y <> Z.of_nat i -> cnt y tqi' = cnt y tqi) ->
  k_st k' = k_st k -> k_task k' = Some (i, nth i tb []) ->
  JT (set_nth w k' ws) tqi' tb (set_nth i (start_rec (tkn tk i)) tk) ct cc (assoc_del i rt ++ [(i, w)]) (Some w).
Proof.
  intros HT Hn Hl Hnone Hncc Hz Hin Hcnt Est Etask.
  pose proof HT as [Hlen Hq Hta Hhold Hinj Hmode Htb Hte Ht3 Htf Hrtnd Hrt Hrts Hrt3 Hcc Hc0 Hctb Hsuf HfinJ Hccnd Hccb].
  destruct (Hq _ Hz) as (i0 & E0 & Hi & Hc1 & Hacc & Hst & Hfin & Hfc & Hbody & Hnc1). apply Nat2Z.inj in E0. subst i0.
  assert (i < length tk)%nat as Hi' by lia.
  assert (w < length ws)%nat as Hlt by (eapply nth_error_Some_lt, Hn).
  assert (live k' = true) as Hl' by (unfold live in *; rewrite Est; exact Hl).
  assert (forall j, j <> i -> tkn (set_nth i (start_rec (tkn tk i)) tk) j = tkn tk j) as Ho.
  { intros j Hj. apply tkn_set_other. congruence. }
  assert (tkn (set_nth i (start_rec (tkn tk i)) tk) i = start_rec (tkn tk i)) as Hs by (apply tkn_set_same, Hi').
  assert (~ In (Z.of_nat i) tqi') as Hni. { intro H. apply Hin in H as [_ H]. congruence. }
  assert (forall j, j <> i -> In (Z.of_nat j) tqi -> In (Z.of_nat j) tqi') as Hkeep.
  { intros j Hj H. apply Hin. split; [exact H|]. intro E. apply Nat2Z.inj in E. congruence. }
  assert (forall v kv j rj, nth_error ws v = Some kv -> k_task kv = Some (j, rj) -> j <> i) as Hother.
  { intros v kv j rj Hv Hkv ->. destruct (Hhold _ _ _ _ Hv Hkv) as (_ & _ & _ & _ & _ & H). contradiction. }
  assert (forall v, ~ In (i, v) rt) as Hnort.
  { intros v H. destruct (Hrts _ _ H) as [H0 _]. congruence. }
  constructor.
  - rewrite set_nth_length. exact Hlen.
  - intros z Hz'. apply Hin in Hz' as [Hz' Hne]. destruct (Hq z Hz') as (j & -> & Hj & Hc & Hr).
    assert (j <> i) as Hji by congruence. exists j. rewrite (Ho j Hji), (Hcnt _ Hne). auto.
  - intros j Hj. destruct (Nat.eq_dec j i) as [->|Hji].
    + rewrite Hs. cbn [start_rec tt_started]. intros _ H0. discriminate.
    + rewrite (Ho j Hji). intros Ha Hs' Hc. apply Hkeep; [exact Hji | apply Hta; assumption].
  - intros v kv j rj Hv Hkv. apply nth_error_set_nth_cases in Hv as [(-> & -> & _)|(Hne & Hv)].
    + rewrite Etask in Hkv. injection Hkv as <- _. rewrite Hs. cbn [start_rec tt_accepted tt_started tt_fincount tt_fin].
      rewrite Hst. auto 8.
    + rewrite (Ho j (Hother _ _ _ _ Hv Hkv)). destruct (Hhold _ _ _ _ Hv Hkv) as (H1 & H2 & H3 & H4 & H5 & H6).
      repeat (split; [assumption|]). intro H. apply Hin in H as [H _]. contradiction.
  - intros v v' kv kv' j rj rj' Hv Hv' Hkv Hkv'.
    apply nth_error_set_nth_cases in Hv as [(-> & -> & _)|(Hne & Hv)];
      apply nth_error_set_nth_cases in Hv' as [(-> & -> & _)|(Hne' & Hv')].
    + reflexivity.
    + exfalso. rewrite Etask in Hkv. injection Hkv as <- _. eapply Hother; eauto.
    + exfalso. rewrite Etask in Hkv'. injection Hkv' as <- _. eapply Hother; eauto.
    + eapply Hinj; eassumption.
  - intros v kv Hv Hlv Hhv. apply nth_error_set_nth_cases in Hv as [(-> & -> & _)|(Hne & Hv)].
    + cbn [is_hole] in Hhv. rewrite Nat.eqb_refl in Hhv. discriminate.
    + eapply Hmode; eassumption.
  - intros j Hj. destruct (Nat.eq_dec j i) as [->|Hji].
    + intros _ _ _ _. exists w, k', (nth i tb []). rewrite nth_error_set_nth_same by exact Hlt. auto.
    + rewrite (Ho j Hji). intros Ha Hs' Hf Hc. destruct (Htb j Hj Ha Hs' Hf Hc) as (v & kv & rj & Hv & Hlv & Hkv).
      assert (v <> w) as Hne. { intros ->. rewrite Hn in Hv. injection Hv as <-. congruence. }
      exists v, kv, rj. rewrite nth_error_set_nth_other by exact Hne. auto.
  - intros j Hz' Hc Hw. apply Hin in Hz' as [Hz' Hne]. assert (j <> i) as Hji by congruence.
    rewrite (Ho j Hji) in *. apply Hte; assumption.
  - intros j Hj Hz'. apply Hin in Hz' as [Hz' Hne]. assert (j <> i) as Hji by congruence.
    rewrite (Ho j Hji). apply Ht3; assumption.
  - intros v kv j rj Hv Hlv Hcc' Hkv. apply nth_error_set_nth_cases in Hv as [(-> & -> & _)|(Hne & Hv)]; [contradiction|].
    rewrite (Ho j (Hother _ _ _ _ Hv Hkv)). eapply Htf; eassumption.
  - rewrite map_app. cbn [map fst]. apply NoDup_snoc; [apply assoc_del_NoDup, Hrtnd | apply assoc_del_NoDup_notin, Hrtnd].
  - intros j v kv Hrt' Hv Hlv. apply in_app_iff in Hrt' as [Hrt'|[Hrt'|[]]].
    + apply assoc_del_In in Hrt'. apply nth_error_set_nth_cases in Hv as [(-> & -> & _)|(Hne & Hv)].
      * exfalso. destruct (Hrt _ _ _ Hrt' Hn Hl) as [rj Hkj]. congruence.
      * eapply Hrt; eassumption.
    + injection Hrt' as <- <-. rewrite nth_error_set_nth_same in Hv by exact Hlt. injection Hv as <-. eauto.
  - intros j v Hrt'. rewrite set_nth_length. apply in_app_iff in Hrt' as [Hrt'|[Hrt'|[]]].
    + apply assoc_del_In in Hrt'. destruct (Hrts _ _ Hrt') as [H1 H2]. split; [|exact H2].
      assert (j <> i) as Hji by (intros ->; eapply Hnort; eassumption). rewrite (Ho j Hji). exact H1.
    + injection Hrt' as <- <-. rewrite Hs. cbn [start_rec tt_started]. split; [discriminate | exact Hlt].
  - intros v kv j rj Hv Hlv Hkv. apply in_app_iff. apply nth_error_set_nth_cases in Hv as [(-> & -> & _)|(Hne & Hv)].
    + rewrite Etask in Hkv. injection Hkv as <- _. right. left. reflexivity.
    + left. apply assoc_del_In_other; [pose proof (Hother _ _ _ _ Hv Hkv); congruence | eapply Hrt3; eassumption].
  - intros v kv j rj Hv Hlv Hkv Hc. apply nth_error_set_nth_cases in Hv as [(-> & -> & _)|(Hne & Hv)].
    + exfalso. rewrite Etask in Hkv. injection Hkv as <- _. rewrite Hs in Hc. cbn [start_rec tt_cancel1] in Hc. congruence.
    + rewrite (Ho j (Hother _ _ _ _ Hv Hkv)) in Hc. eapply Hcc; eassumption.
  - intros j. destruct (Nat.eq_dec j i) as [->|Hji].
    + rewrite Hs. cbn [start_rec tt_cancel0 tt_accepted]. apply Hc0.
    + rewrite (Ho j Hji). apply Hc0.
  - exact Hctb.
  - intros v kv j rj Hv Hkv. apply nth_error_set_nth_cases in Hv as [(-> & -> & _)|(Hne & Hv)].
    + rewrite Etask in Hkv. injection Hkv as <- <-. split; [reflexivity | lia].
    + eapply Hsuf; eassumption.
  - intros j r'. destruct (Nat.eq_dec j i) as [->|Hji].
    + rewrite Hs. cbn [start_rec tt_fin]. apply HfinJ.
    + rewrite (Ho j Hji). apply HfinJ.
  - exact Hccnd.
  - intros v Hv. rewrite set_nth_length. apply Hccb, Hv.
Qed.

Lemma JR_start W R N pst tqi tqi' tk i :
  JR W R N pst tqi tk -> (i < length tk)%nat -> In (Z.of_nat i) tqi ->
  (forall y, In y tqi' <-> In y tqi /\ y <> Z.of_nat i) ->
  tt_fin (tkn tk i) = None -> pst <> PStopped ->
  JR W R N pst tqi' (set_nth i (start_rec (tkn tk i)) tk).
Proof.
  intros HR Hi Hz Hin Hfin Hps. pose proof HR as [Hrnd Hwnd Htg Htg2 Htg3 Htn Htw Hcons].
  assert (forall j, j <> i -> tkn (set_nth i (start_rec (tkn tk i)) tk) j = tkn tk j) as Ho.
  { intros j Hj. apply tkn_set_other. congruence. }
  assert (tkn (set_nth i (start_rec (tkn tk i)) tk) i = start_rec (tkn tk i)) as Hs by (apply tkn_set_same, Hi).
  assert (forall j, j <> i -> ~ In (Z.of_nat j) tqi' -> ~ In (Z.of_nat j) tqi) as Hback.
  { intros j Hj Hn Hz'. apply Hn, Hin. split; [exact Hz'|]. intro E. apply Nat2Z.inj in E. congruence. }
  assert (forall j, ~ In (Z.of_nat j) tqi -> ~ In (Z.of_nat j) tqi') as Hfwd.
  { intros j Hn Hz'. apply Hin in Hz' as [Hz' _]. contradiction. }
  pose proof (JR_consumed_false_queued _ _ _ _ _ _ _ HR Hfin Hz Hps) as Hcf.
  constructor; try assumption.
  - intros j r Hr. destruct (Nat.eq_dec j i) as [->|Hji].
    + exfalso. eapply JR_no_result_queued; eassumption.
    + rewrite (Ho j Hji). destruct (Htg j r Hr) as [(H1 & [H2|(H2 & H3 & H4 & H5)])|H]; auto 8.
  - intros j. destruct (Nat.eq_dec j i) as [->|Hji].
    + rewrite Hs. cbn [start_rec tt_fin]. congruence.
    + rewrite (Ho j Hji). apply Htg2.
  - intros j. rewrite set_nth_length. destruct (Nat.eq_dec j i) as [->|Hji].
    + rewrite Hs. cbn [start_rec tt_started]. intros _ _ H0. discriminate.
    + rewrite (Ho j Hji). intros H0 H1 H2 H3. apply Htg3; auto.
  - intros j Hj. destruct (Nat.eq_dec j i) as [->|Hji].
    + rewrite Hs. cbn [start_rec tt_cleaned]. apply Htn, Hj.
    + rewrite (Ho j Hji). apply Htn, Hj.
  - intros j Hj. destruct (Nat.eq_dec j i) as [->|Hji].
    + rewrite Hs. cbn [start_rec tt_fin]. left. exact Hfin.
    + rewrite (Ho j Hji). apply Htw, Hj.
  - intros j. destruct (Nat.eq_dec j i) as [->|Hji].
    + rewrite Hs. cbn [start_rec tt_consumed]. congruence.
    + rewrite (Ho j Hji). intro Hc. destruct (Hcons j Hc) as [H|[[H1 H2]|H]]; auto.
Qed.

Lemma rho_grown x x' : grown x x' -> rho x' = rho x + 1.
Proof.
  intros [Ews Ecq Epool Epools Eclock Etq Etb Ect Ecc Ert Ecur Espin Ecn Ets]. unfold rho.
  rewrite Ews, Etq, Etb, wsum_app, nlive_app.
  change (wsum [newk (pw_clock x)]) with O. change (nlive [newk (pw_clock x)]) with 1. lia.
Qed.

Lemma rho_try_grow x : length (pw_pools x) = 1%nat -> rho x <= rho (try_grow x 0) <= rho x + 1.
Proof.
  intro Hp. destruct (try_grow_cases x Hp) as [[-> _]|(_ & _ & Hg)]; [lia|]. rewrite (rho_grown _ _ Hg). lia.
Qed.

Lemma rho_upd_pool x p f : rho (upd_pool x p f) = rho x.
Proof. reflexivity. Qed.

Section Steps.
Variable mx : Z.
Variable kp : Z.

Definition quiet_off (t : potr) : Prop := pt_quiet (nth 0 (po_pools t) ptrk0) = false.

Lemma Jc_try_grow tnt cc x d h t :
  Jc mx kp tnt cc x d h t -> quiet_off t -> Jc mx kp tnt cc (try_grow x 0) d h t /\ G mx (try_grow x 0) None.
Proof.
  intros HJ Hq. pose proof HJ as [[HQt HQc] HL HP HS HT HR HW].
  destruct (try_grow_cases x (jp_pools _ _ _ _ HP)) as [[-> Hc]|(Hfull & Hlt & Hg)].
  - split; [exact HJ|]. destruct Hc as [Hc|Hc].
    + left. rewrite (Q1_full_len _ HQt) in Hc. destruct (all_items (pw_tq x)); [reflexivity | cbn [length] in Hc; lia].
    + right. left. rewrite <- (jp_max _ _ _ _ HP). exact Hc.
  - set (x' := try_grow x 0) in *. destruct Hg as [Ews Ecq Epool Epools Eclock Etq Etb Ect Ecc Ert Ecur Espin Ecn Ets].
    destruct (Q1_lpush (pw_cq x) 0 (Z.of_nat (length (pw_workers x))) HQc) as [HQc' Hcnt].
    assert (forall v, h = Some v -> (v < length (pw_workers x))%nat) as Hh.
    { intros v ->. destruct (jl_hole _ _ _ _ _ HL v eq_refl) as [_ Hv]; exact Hv. }
    split.
    + constructor.
      * rewrite Etq, Ecq. constructor; assumption.
      * rewrite Eclock, Ews, Ecq. apply (JL_grow _ _ (all_items (pw_cq x))); [exact HL | exact Hcnt | reflexivity].
      * destruct HP as [P1 P2 P3 P4 P5 P6 P7 P8 P9 P10 P11 P12].
        constructor; rewrite ?Epool, ?Ecur, ?Espin, ?Eclock, ?Ecn, ?Ews; autorewrite with pw; try assumption.
        -- destruct P3 as (Ek & Hc0 & Hcr & Hpf). split; [exact Ek|]. split; [exact Hc0|]. split; [apply CR_snoc; [exact Hcr | cbn; lia] | exact Hpf].
        -- rewrite nlive_app, P7. cbn. lia.
        -- lia.
      * rewrite Epool, Etq. autorewrite with pw. destruct HS as [S1 S2 S3 S4 S5 S6 S7]. constructor; try assumption.
        -- intro Hst. destruct (S6 Hst) as [_ Hnil]. rewrite (Q1_full_len _ HQt), Hnil in Hfull. cbn in Hfull. lia.
        -- intro Hqt. unfold quiet_off in Hq. congruence.
      * rewrite Ews, Etq, Etb, Ect, Ert. apply JT_grow; try reflexivity; assumption.
      * rewrite Epool, Etq. autorewrite with pw. exact HR.
      * destruct HW as [W1 W2 W3 W4 W5 W6]. constructor; try assumption.
        intro w. rewrite Ews, wst_grow by reflexivity. apply W1.
    + right. right. exists (length (pw_workers x)), (newk (pw_clock x)). rewrite Ews.
      split; [rewrite nth_error_app2 by lia; rewrite Nat.sub_diag; reflexivity|].
      split; [reflexivity|]. left. reflexivity.
Qed.

Lemma JW_set ws t tnt w k' old l :
  JW ws t tnt -> (w < length ws)%nat -> JW (set_nth w k' ws) (pev t (EL l w (CbChanged (k_st k')) old)) tnt.
Proof.
  intros [W1 W2 W3 W4 W5 W6] Hlt. constructor; try assumption.
  intro v. cbn [pev po_workers]. rewrite (wst_set _ _ _ _ Hlt). destruct (Nat.eqb v w) eqn:E.
  - apply Nat.eqb_eq in E. subst. apply nth_set_same.
  - apply Nat.eqb_neq in E. rewrite nth_set_other by congruence. apply W1.
Qed.

Lemma pev_EL_tasks t l w c old : po_tasks (pev t (EL l w c old)) = po_tasks t.
Proof. destruct c; reflexivity. Qed.
Lemma pev_EL_clock t l w c old : po_clock (pev t (EL l w c old)) = po_clock t.
Proof. destruct c; reflexivity. Qed.

(** the worker being resumed changes state and stays alive *)
Lemma Jc_set_live tnt cc x d w t k new :
  Jc mx kp tnt cc x d (Some w) t -> get_worker x w = Some k -> live k = true -> terminal new = false ->
  Jc mx kp tnt cc (upd_worker x w (with_st k new)) d (Some w) (pev t (EL 0 w (CbChanged new) (k_st k))).
Proof.
  intros [HQ HL HP HS HT HR HW] Hk Hl Hnew. unfold get_worker in Hk.
  assert (w < length (pw_workers x))%nat as Hlt by (eapply nth_error_Some_lt, Hk).
  assert (live (with_st k new) = true) as Hl' by (unfold live; cbn [with_st k_st]; rewrite Hnew; reflexivity).
  constructor; autorewrite with pw; rewrite ?pev_EL_tasks, ?pev_EL_clock, ?po_pools_pev; try assumption.
  - apply JL_set_hole, HL.
  - destruct HP as [P1 P2 P3 P4 P5 P6 P7 P8 P9 P10 P11 P12]. constructor; autorewrite with pw; try assumption.
    + destruct P3 as (Ek & Hc0 & Hcr & Hpf). split; [exact Ek|]. split; [exact Hc0|]. split; [eapply CR_set_same; [exact Hcr | exact Hk | reflexivity] | exact Hpf].
    + rewrite (nlive_set_nth _ _ _ _ Hk), Hl, Hl'. lia.
  - eapply JT_set_live; try eassumption; try reflexivity.
    cbn [is_hole]. rewrite Nat.eqb_refl. discriminate.
  - change new with (k_st (with_st k new)) at 2. apply JW_set; assumption.
Qed.

(** the worker being resumed reaches a terminal state; the creator lowers the count *)
Lemma Jc_set_dead tnt cc x d w t k new :
  Jc mx kp tnt cc x d (Some w) t -> quiet_off t -> get_worker x w = Some k -> live k = true -> terminal new = true ->
  (k_task k = None \/ exists i rest, k_task k = Some (i, rest) /\ tt_cancel1 (tkn (po_tasks t) i) = true) ->
  Jc mx kp tnt cc (upd_pool (upd_worker x w (with_st k new)) 0 (fun q => p_with_running (sat_sub (p_running q) 1) q)) d (Some w)
    (pev t (EL 0 w (CbChanged new) (k_st k))).
Proof.
  intros [HQ HL HP HS HT HR HW] Hq Hk Hl Hnew Htask. unfold get_worker in Hk.
  assert (w < length (pw_workers x))%nat as Hlt by (eapply nth_error_Some_lt, Hk).
  assert (live (with_st k new) = false) as Hl' by (unfold live; cbn [with_st k_st]; rewrite Hnew; reflexivity).
  pose proof (nlive_pos _ _ _ Hk Hl) as Hpos.
  assert (length (pw_pools (upd_worker x w (with_st k new))) = 1%nat) as Hlen by (autorewrite with pw; apply (jp_pools _ _ _ _ HP)).
  constructor; autorewrite with pw; rewrite ?pev_EL_tasks, ?pev_EL_clock, ?po_pools_pev;
    rewrite ?(get_pool_upd_pool_same _ 0 _) by lia; autorewrite with pw; try assumption.
  - apply JL_set_hole, HL.
  - destruct HP as [P1 P2 P3 P4 P5 P6 P7 P8 P9 P10 P11 P12].
    constructor; autorewrite with pw; rewrite ?(get_pool_upd_pool_same _ 0 _) by lia; autorewrite with pw; try assumption.
    + rewrite set_nth_length. exact P1.
    + destruct P3 as (Ek & Hc0 & Hcr & Hpf). split; [exact Ek|]. split; [exact Hc0|]. split; [eapply CR_set_same; [exact Hcr | exact Hk | reflexivity] | exact Hpf].
    + rewrite (nlive_set_nth _ _ _ _ Hk), Hl, Hl', P7. unfold sat_sub. lia.
    + unfold sat_sub. lia.
  - destruct HS as [S1 S2 S3 S4 S5 S6 S7]. constructor; try assumption.
    + intro Hst. destruct (S6 Hst) as [H0 _]. rewrite (jp_run _ _ _ _ HP) in H0. lia.
    + intro Hqt. unfold quiet_off in Hq. congruence.
  - eapply JT_set_dead; try eassumption; reflexivity.
  - change new with (k_st (with_st k new)) at 2. apply JW_set; assumption.
Qed.

(** what the helpers of a pass leave alone *)
Record same_misc (x x' : pw) : Prop := {
  sm_cc : pw_cancel_cos x' = pw_cancel_cos x;
  sm_ts : pw_ts x' = pw_ts x;
  sm_cn : pw_cn x' = pw_cn x;
  sm_clock : pw_clock x' = pw_clock x;
  sm_tq : pw_tq x' = pw_tq x;
  sm_tb : pw_tbody x' = pw_tbody x
}.

Lemma same_misc_refl x : same_misc x x.
Proof. constructor; reflexivity. Qed.

Lemma same_misc_trans x y z : same_misc x y -> same_misc y z -> same_misc x z.
Proof. intros [] []. constructor; congruence. Qed.

Lemma try_grow_misc x : length (pw_pools x) = 1%nat -> same_misc x (try_grow x 0).
Proof.
  intro Hp. destruct (try_grow_cases x Hp) as [[-> _]|(_ & _ & Hg)]; [apply same_misc_refl|].
  destruct Hg. constructor; assumption.
Qed.

Lemma try_grow_worker x w k : length (pw_pools x) = 1%nat -> get_worker x w = Some k -> get_worker (try_grow x 0) w = Some k.
Proof.
  intros Hp Hk. destruct (try_grow_cases x Hp) as [[-> _]|(_ & _ & Hg)]; [exact Hk|].
  unfold get_worker in *. rewrite (gr_ws _ _ Hg). apply nth_error_snoc_old, Hk.
Qed.

Lemma G_set_nonsys x h w k new :
  G mx x h -> get_worker x w = Some k -> live k = true -> terminal new = false -> is_sys new = false ->
  G mx (upd_worker x w (with_st k new)) h.
Proof.
  intros HG Hk Hl Hnew Hsys. unfold get_worker in Hk.
  assert (w < length (pw_workers x))%nat as Hlt by (eapply nth_error_Some_lt, Hk).
  destruct HG as [HG|[HG|(v & kv & Hv & Hlv & Hc)]]; [left; exact HG | right; left; exact HG|].
  right. right. autorewrite with pw. destruct (Nat.eq_dec v w) as [->|Hne].
  - exists w, (with_st k new). rewrite nth_error_set_nth_same by exact Hlt.
    rewrite Hk in Hv. injection Hv as <-. split; [reflexivity|]. split; [unfold live; cbn [with_st k_st]; rewrite Hnew; reflexivity|].
    destruct Hc as [Hc|[Hc _]]; [left; exact Hc | right; split; [exact Hc | exact Hsys]].
  - exists v, kv. rewrite nth_error_set_nth_other by exact Hne. auto.
Qed.

Lemma G_tq_nil x' h : all_items (pw_tq x') = [] -> G mx x' h.
Proof. intro H. left. exact H. Qed.

Lemma G_None_any x h : G mx x None -> G mx x h.
Proof.
  intros [H|[H|(v & kv & Hv & Hl & [Hc|[Hc _]])]]; [left; exact H | right; left; exact H | | discriminate].
  right. right. exists v, kv. auto.
Qed.

Definition creator_grows (new : cstate) : bool :=
  match new with Suspend _ _ | Syscall _ _ _ | Cancelled | Error _ => true | _ => false end.

(** [k_change] on the worker being resumed *)
Lemma Jc_k_change tnt cc x d w t k new :
  Jc mx kp tnt cc x d (Some w) t -> quiet_off t -> get_worker x w = Some k -> live k = true ->
  (terminal new = true ->
   k_task k = None \/ exists i rest, k_task k = Some (i, rest) /\ tt_cancel1 (tkn (po_tasks t) i) = true) ->
  exists x', k_change x w new = (x', [EL 0 w (CbChanged new) (k_st k)]) /\
    Jc mx kp tnt cc x' d (Some w) (pev t (EL 0 w (CbChanged new) (k_st k))) /\
    same_misc x x' /\ get_worker x' w = Some (with_st k new) /\
    (creator_grows new = true -> G mx x' None) /\
    (G mx x (Some w) -> terminal new = false -> is_sys new = false -> G mx x' (Some w)) /\
    (all_items (pw_tq x) = [] -> G mx x' None).
Proof.
  intros HJ Hq Hk Hl Hdead. unfold k_change. rewrite Hk.
  change {| k_st := new; k_create := k_create k; k_task := k_task k; k_tpool := k_tpool k; k_dead := k_dead k |} with (with_st k new).
  set (x1 := upd_worker x w (with_st k new)). set (e := EL 0 w (CbChanged new) (k_st k)).
  eexists. split; [reflexivity|].
  assert (pw_cur x1 = 0%nat) as Hcur by (unfold x1; autorewrite with pw; apply (jp_cur _ _ _ _ (j_p _ _ _ _ _ _ _ _ HJ))).
  assert (length (pw_pools x1) = 1%nat) as Hp1 by (unfold x1; autorewrite with pw; apply (jp_pools _ _ _ _ (j_p _ _ _ _ _ _ _ _ HJ))).
  assert (same_misc x x1) as Hm1 by (unfold x1; constructor; autorewrite with pw; reflexivity).
  assert (get_worker x1 w = Some (with_st k new)) as Hw1.
  { unfold x1. apply get_worker_upd_worker_same. eapply get_worker_lt, Hk. }
  assert (quiet_off (pev t e)) as Hq' by (unfold quiet_off; rewrite po_pools_pev; exact Hq).
  destruct (terminal new) eqn:Hterm.
  - (* the worker ends *)
    pose proof (Jc_set_dead tnt cc x d w t k new HJ Hq Hk Hl Hterm (Hdead eq_refl)) as HJ2. fold x1 e in HJ2.
    set (x2 := upd_pool x1 0 (fun q => p_with_running (sat_sub (p_running q) 1) q)) in *.
    assert (same_misc x x2) as Hm2 by (unfold x2, x1; constructor; autorewrite with pw; reflexivity).
    assert (get_worker x2 w = Some (with_st k new)) as Hw2 by (unfold x2; autorewrite with pw; exact Hw1).
    assert (length (pw_pools x2) = 1%nat) as Hp2 by (unfold x2; rewrite pools_len_upd_pool; exact Hp1).
    destruct new as [| |y ts|y n st| |r|m]; try discriminate; unfold creator; rewrite Hcur; fold x2.
    + destruct (Jc_try_grow tnt cc x2 d (Some w) (pev t e) HJ2 Hq') as [HJ3 HG3].
      split; [exact HJ3|]. split; [eapply same_misc_trans; [exact Hm2 | apply try_grow_misc, Hp2]|].
      split; [apply try_grow_worker; assumption|].
      split; [intros _; exact HG3 | split; [discriminate | intros _; exact HG3]].
    + split; [exact HJ2|]. split; [exact Hm2|]. split; [exact Hw2|].
      split; [discriminate | split; [discriminate|]]. intro Hc. apply G_tq_nil. rewrite (sm_tq _ _ Hm2). exact Hc.
    + destruct (Jc_try_grow tnt cc x2 d (Some w) (pev t e) HJ2 Hq') as [HJ3 HG3].
      split; [exact HJ3|]. split; [eapply same_misc_trans; [exact Hm2 | apply try_grow_misc, Hp2]|].
      split; [apply try_grow_worker; assumption|].
      split; [intros _; exact HG3 | split; [discriminate | intros _; exact HG3]].
  - pose proof (Jc_set_live tnt cc x d w t k new HJ Hk Hl Hterm) as HJ2. fold x1 e in HJ2.
    destruct new as [| |y ts|y n st| |r|m]; try discriminate; unfold creator; rewrite ?Hcur.
    + split; [exact HJ2|]. split; [exact Hm1|]. split; [exact Hw1|].
      split; [discriminate|]. split; [intros HG _ _; apply G_set_nonsys; auto|].
      intro Hc. apply G_tq_nil. rewrite (sm_tq _ _ Hm1). exact Hc.
    + split; [exact HJ2|]. split; [exact Hm1|]. split; [exact Hw1|].
      split; [discriminate|]. split; [intros HG _ _; apply G_set_nonsys; auto|].
      intro Hc. apply G_tq_nil. rewrite (sm_tq _ _ Hm1). exact Hc.
    + destruct (Jc_try_grow tnt cc x1 d (Some w) (pev t e) HJ2 Hq') as [HJ3 HG3].
      split; [exact HJ3|]. split; [eapply same_misc_trans; [exact Hm1 | apply try_grow_misc, Hp1]|].
      split; [apply try_grow_worker; assumption|].
      split; [intros _; exact HG3 | split; [intros _ _ _; apply G_None_any, HG3 | intros _; exact HG3]].
    + destruct (Jc_try_grow tnt cc x1 d (Some w) (pev t e) HJ2 Hq') as [HJ3 HG3].
      split; [exact HJ3|]. split; [eapply same_misc_trans; [exact Hm1 | apply try_grow_misc, Hp1]|].
      split; [apply try_grow_worker; assumption|].
      split; [intros _; exact HG3 | split; [intros _ _ _; apply G_None_any, HG3 | intros _; exact HG3]].
Qed.

(** the same with the state's own set of cancelled coroutines *)
Lemma J_try_grow tnt x d h t :
  J mx kp tnt x d h t -> quiet_off t -> J mx kp tnt (try_grow x 0) d h t /\ G mx (try_grow x 0) None.
Proof.
  intros HJ Hq. destruct (Jc_try_grow tnt _ x d h t HJ Hq) as [H1 H2]. split; [|exact H2]. unfold J.
  rewrite (sm_cc _ _ (try_grow_misc x (jp_pools _ _ _ _ (j_p _ _ _ _ _ _ _ _ HJ)))). exact H1.
Qed.

Lemma J_set_live tnt x d w t k new :
  J mx kp tnt x d (Some w) t -> get_worker x w = Some k -> live k = true -> terminal new = false ->
  J mx kp tnt (upd_worker x w (with_st k new)) d (Some w) (pev t (EL 0 w (CbChanged new) (k_st k))).
Proof. intros HJ Hk Hl Hn. apply (Jc_set_live tnt _ x d w t k new HJ Hk Hl Hn). Qed.

Lemma J_k_change tnt x d w t k new :
  J mx kp tnt x d (Some w) t -> quiet_off t -> get_worker x w = Some k -> live k = true ->
  (terminal new = true ->
   k_task k = None \/ exists i rest, k_task k = Some (i, rest) /\ tt_cancel1 (tkn (po_tasks t) i) = true) ->
  exists x', k_change x w new = (x', [EL 0 w (CbChanged new) (k_st k)]) /\
    J mx kp tnt x' d (Some w) (pev t (EL 0 w (CbChanged new) (k_st k))) /\
    same_misc x x' /\ get_worker x' w = Some (with_st k new) /\
    (creator_grows new = true -> G mx x' None) /\
    (G mx x (Some w) -> terminal new = false -> is_sys new = false -> G mx x' (Some w)) /\
    (all_items (pw_tq x) = [] -> G mx x' None).
Proof.
  intros HJ Hq Hk Hl Hd. destruct (Jc_k_change tnt _ x d w t k new HJ Hq Hk Hl Hd) as (x' & E & HJ' & Hm & H).
  exists x'. split; [exact E|]. split; [|split; [exact Hm | exact H]]. unfold J. rewrite (sm_cc _ _ Hm). exact HJ'.
Qed.

(** the record of the worker being resumed changes; same state, same task id *)
Lemma J_hole_upd tnt x d w t k k' :
  J mx kp tnt x d (Some w) t -> get_worker x w = Some k -> k_st k' = k_st k -> k_create k' = k_create k -> tid k' = tid k ->
  (forall i rest, k_task k' = Some (i, rest) ->
     body_outcome rest = body_outcome (nth i (pw_tbody x) []) /\ (length rest <= length (nth i (pw_tbody x) []))%nat) ->
  J mx kp tnt (upd_worker x w k') d (Some w) t.
Proof.
  intros [HQ HL HP HS HT HR HW] Hk Est Ecr Etid Hsuf'. unfold get_worker in Hk.
  assert (w < length (pw_workers x))%nat as Hlt by (eapply nth_error_Some_lt, Hk).
  assert (live k' = live k) as El by (unfold live; rewrite Est; reflexivity).
  constructor; autorewrite with pw; try assumption.
  - apply JL_set_hole, HL.
  - destruct HP as [P1 P2 P3 P4 P5 P6 P7 P8 P9 P10 P11 P12]. constructor; autorewrite with pw; try assumption.
    + destruct P3 as (Ek & Hc0 & Hcr & Hpf). split; [exact Ek|]. split; [exact Hc0|]. split; [eapply CR_set_same; [exact Hcr | exact Hk | exact Ecr] | exact Hpf].
    + rewrite (nlive_set_nth _ _ _ _ Hk), El. lia.
  - eapply JT_set_hole; eassumption.
  - destruct HW as [W1 W2 W3 W4 W5 W6]. constructor; try assumption.
    intro v. rewrite (wst_set _ _ _ _ Hlt), W1. destruct (Nat.eqb v w) eqn:E; [|reflexivity].
    apply Nat.eqb_eq in E. subst. unfold wst. rewrite Hk. symmetry. exact Est.
Qed.

(** the clock advances (a tick of a task body) *)
Lemma J_tick tnt x d h t i dd :
  J mx kp tnt x d h t -> 0 <= dd ->
  J mx kp tnt (set_clockp x (sat_add64 (pw_clock x) dd)) d h (pev t (EB i (BTick dd))).
Proof.
  intros [HQ HL HP HS HT HR HW] Hd.
  destruct HP as [P1 P2 P3 P4 P5 P6 P7 P8 P9 P10 P11 P12].
  destruct (sat_add64_mono (pw_clock x) dd P10 Hd) as [Hm1 Hm2].
  constructor; autorewrite with pw; try assumption.
  - eapply JL_clock; [exact Hm1 | exact HL].
  - constructor; autorewrite with pw; try assumption.
    + destruct P3 as (Ek & Hc0 & Hcr & Hpf). split; [exact Ek|]. split; [lia|]. split; [eapply CR_mono; [exact Hcr | exact Hm1] | exact Hpf].
    + cbn [pev po_clock]. apply sat_add64_le, P11.
  - destruct HW as [W1 W2 W3 W4 W5 W6]. constructor; assumption.
Qed.

(** assembling the invariant after a composite update *)
Lemma J_of_post tnt x xg d h t' ws' tq' ct' rt' q' :
  upd_post x xg ws' tq' ct' rt' q' ->
  JP mx kp x (po_clock t') ->
  p_min q' = p_min (get_pool x 0) -> p_keep q' = p_keep (get_pool x 0) -> p_max q' = p_max (get_pool x 0) ->
  p_running q' = nlive ws' -> p_running q' <= mx ->
  Q1 tq' ->
  JL (pw_clock x) ws' (all_items (pw_cq x)) d h ->
  JS mx (p_state q') (p_running q') (all_items tq') (po_pools t') ->
  JT ws' (all_items tq') (pw_tbody x) (po_tasks t') ct' (pw_cancel_cos x) rt' h ->
  JR (p_waits q') (p_results q') (p_nowaits q') (p_state q') (all_items tq') (po_tasks t') ->
  JW ws' t' tnt ->
  Q1 (pw_cq x) ->
  CR (pw_clock x) ws' /\ 0 <= p_popfail q' ->
  J mx kp tnt xg d h t'.
Proof.
  intros [U1 U2 U3 U4 U5 U6 U7 U8 U9 U10 U11 U12 U13 U14] HP E1 E2 E3 E4 E5 HQt HL HS HT HR HW HQc [Hcr' Hpf'].
  destruct HP as [P1 P2 P3 P4 P5 P6 P7 P8 P9 P10 P11 P12].
  constructor; rewrite ?U1, ?U2, ?U3, ?U4, ?U5, ?U7, ?U8, ?U9, ?U10; try assumption.
  - constructor; assumption.
  - constructor; rewrite ?U1, ?U5, ?U8, ?U11, ?U12, ?U13; try assumption; try congruence; try lia.
    destruct P3 as (Ek & Hc0 & _). split; [congruence|]. split; [assumption|]. split; assumption.
Qed.

Lemma J_pst_not_stopped tnt x d h t w k :
  J mx kp tnt x d h t -> get_worker x w = Some k -> live k = true -> p_state (get_pool x 0) <> PStopped.
Proof.
  intros HJ Hk Hl Hst. destruct (js_stopped _ _ _ _ _ (j_s _ _ _ _ _ _ _ _ HJ) Hst) as [H0 _].
  rewrite (jp_run _ _ _ _ (j_p _ _ _ _ _ _ _ _ HJ)) in H0. pose proof (nlive_pos _ _ _ Hk Hl). lia.
Qed.

Lemma G_idle x h w k : get_worker x w = Some k -> live k = true -> k_task k = None -> G mx x h.
Proof. intros Hk Hl Ht. right. right. exists w, k. auto. Qed.

(** a task finishes in the worker being resumed *)
Lemma J_finish tnt x d w t k i rest r :
  J mx kp tnt x d (Some w) t -> quiet_off t -> get_worker x w = Some k -> live k = true -> k_task k = Some (i, rest) ->
  r = body_outcome rest ->
  exists xf, finish_task (upd_worker x w (with_task k None)) 0 i r = FinOk xf /\
    let xg := upd_pool xf 0 (p_with_popfail 0) in
    J mx kp tnt xg d (Some w) (fin_trk t i r) /\ same_misc x xg /\ get_worker xg w = Some (with_task k None) /\
    G mx xg (Some w).
Proof.
  intros HJ Hq Hk Hl Htask Hrout. pose proof HJ as [[HQt HQc] HL HP HS HT HR HW].
  pose proof (J_pst_not_stopped _ _ _ _ _ _ _ HJ Hk Hl) as Hps. unfold get_worker in Hk.
  destruct (jt_hold _ _ _ _ _ _ _ _ HT _ _ _ _ Hk Htask) as (Hi & Hacc & Hst & Hfc & Hfin & Hnq).
  assert (i < length (po_tasks t))%nat as Hi' by (rewrite (jt_len _ _ _ _ _ _ _ _ HT); exact Hi).
  assert (w < length (pw_workers x))%nat as Hlt by (eapply nth_error_Some_lt, Hk).
  set (xa := upd_worker x w (with_task k None)).
  assert (length (pw_pools xa) = 1%nat) as Hpa by (unfold xa; autorewrite with pw; apply (jp_pools _ _ _ _ HP)).
  pose proof (finish_task_post xa i r Hpa) as Hpost. cbn zeta in Hpost.
  assert (get_pool xa 0 = get_pool x 0) as Hqa by (unfold xa; autorewrite with pw; reflexivity).
  rewrite Hqa in Hpost. set (q := get_pool x 0) in *.
  destruct (finish_task xa 0 i r) as [xf|xf].
  2:{ exfalso. destruct Hpost as [_ Hr]. destruct (assoc_get i (p_results q)) as [r0|] eqn:Er; [|congruence].
      apply assoc_get_In in Er. eapply JR_no_result_for_held; eassumption. }
  exists xf. split; [reflexivity|]. cbn zeta. set (xg := upd_pool xf 0 (p_with_popfail 0)).
  assert (forall W R N, upd_post xa xf (pw_workers xa) (pw_tq xa) (pw_cancel_tasks xa) (assoc_del i (pw_running_tasks xa)) (p_with_wait W R N q) ->
          upd_post x xg (set_nth w (with_task k None) (pw_workers x)) (pw_tq x) (pw_cancel_tasks x)
                   (assoc_del i (pw_running_tasks x)) (p_with_popfail 0 (p_with_wait W R N q))) as Hup.
  { intros W R N [U1 U2 U3 U4 U5 U6 U7 U8 U9 U10 U11 U12 U13 U14].
    unfold xg. constructor; autorewrite with pw; rewrite ?(get_pool_upd_pool_same xf 0 _) by lia;
      rewrite ?U1, ?U2, ?U3, ?U4, ?U5, ?U7, ?U8, ?U9, ?U10, ?U11, ?U12, ?U13, ?U14; unfold xa; autorewrite with pw; try reflexivity.
    rewrite set_nth_length. exact U6. }
  assert (JP mx kp x (po_clock (fin_trk t i r))) as HP' by exact HP.
  assert (nlive (set_nth w (with_task k None) (pw_workers x)) = nlive (pw_workers x)) as Hnl.
  { rewrite (nlive_set_nth _ _ _ _ Hk). unfold live at 2. cbn [with_task k_st]. fold (live k). lia. }
  assert (JW (set_nth w (with_task k None) (pw_workers x)) (fin_trk t i r) tnt) as HW'.
  { destruct HW as [W1 W2 W3 W4 W5 W6]. constructor; unfold fin_trk; autorewrite with potr; try assumption.
    - intro v. rewrite (wst_set _ _ _ _ Hlt), W1. destruct (Nat.eqb v w) eqn:E; [|reflexivity].
      apply Nat.eqb_eq in E. subst. unfold wst. rewrite Hk. reflexivity.
    - cbn [Nat.eqb]. rewrite W3. rewrite gett_tkn, Hfc. reflexivity. }
  assert (JT (set_nth w (with_task k None) (pw_workers x)) (all_items (pw_tq x)) (pw_tbody x) (po_tasks (fin_trk t i r))
             (pw_cancel_tasks x) (pw_cancel_cos x) (assoc_del i (pw_running_tasks x)) (Some w)) as HT'.
  { unfold fin_trk. autorewrite with potr. rewrite gett_tkn. eapply JT_finish; eassumption. }
  assert (forall W R N, upd_post x xg (set_nth w (with_task k None) (pw_workers x)) (pw_tq x) (pw_cancel_tasks x)
                   (assoc_del i (pw_running_tasks x)) (p_with_popfail 0 (p_with_wait W R N q)) ->
          JR W R N (p_state q) (all_items (pw_tq x)) (po_tasks (fin_trk t i r)) ->
          J mx kp tnt xg d (Some w) (fin_trk t i r) /\ same_misc x xg /\ get_worker xg w = Some (with_task k None) /\ G mx xg (Some w)) as Hfin'.
  { intros W R N Hu HR'. pose proof Hu as [U1 U2 U3 U4 U5 U6 U7 U8 U9 U10 U11 U12 U13 U14].
    assert (get_worker xg w = Some (with_task k None)) as Hwg.
    { unfold get_worker. rewrite U1. apply nth_error_set_nth_same, Hlt. }
    split; [|split; [constructor; congruence | split; [exact Hwg|]]].
    - eapply (J_of_post tnt x xg d (Some w) (fin_trk t i r)); try eassumption; autorewrite with pw; try reflexivity.
      + rewrite Hnl. apply (jp_run _ _ _ _ HP).
      + apply (jp_le _ _ _ _ HP).
      + apply JL_set_hole, HL.
      + destruct (jp_keep _ _ _ _ HP) as (_ & _ & Hcr & _). split; [eapply CR_set_same; [exact Hcr | exact Hk | reflexivity] | cbn; lia].
    - eapply G_idle; [exact Hwg | exact Hl | reflexivity]. }
  destruct Hpost as [(Hm & Hu)|(Hm & Hr & Hu)].
  - apply (Hfin' _ _ _ (Hup _ _ _ Hu)). unfold fin_trk. autorewrite with potr. rewrite gett_tkn.
    apply JR_finish_nowaits; try assumption. apply mem_nat_In, Hm.
  - apply (Hfin' _ _ _ (Hup _ _ _ Hu)). unfold fin_trk. autorewrite with potr. rewrite gett_tkn.
    apply JR_finish_result; try assumption. apply mem_nat_false, Hm.
Qed.

Lemma pop_cancel_post x q' i : length (pw_pools x) = 1%nat ->
  let q := get_pool x 0 in
  exists W R N,
    upd_post x (pop_cancel x 0 q' i) (pw_workers x) q' (remove_nat i (pw_cancel_tasks x)) (pw_running_tasks x)
             (p_with_popfail 0 (p_with_wait W R N q)) /\
    ((mem_nat i (p_nowaits q) = true /\ W = p_waits q /\ R = p_results q /\ N = remove_nat i (p_nowaits q)) \/
     (mem_nat i (p_nowaits q) = false /\ W = remove_nat i (p_waits q) /\
      R = assoc_del i (p_results q) ++ [(i, TErr TMCancelled)] /\ N = p_nowaits q)).
Proof.
  intros Hp q. unfold pop_cancel.
  set (x2 := set_globals (set_tq x q') (remove_nat i (pw_cancel_tasks (set_tq x q'))) (pw_cancel_cos (set_tq x q')) (pw_running_tasks (set_tq x q'))).
  assert (length (pw_pools x2) = 1%nat) as Hp2 by exact Hp.
  assert (get_pool x2 0 = q) as Hq2 by reflexivity.
  cbv zeta. rewrite Hq2. destruct (mem_nat i (p_nowaits q)) eqn:Em.
  - exists (p_waits q), (p_results q), (remove_nat i (p_nowaits q)). split; [|left; auto].
    set (x3 := upd_pool x2 0 _).
    assert (length (pw_pools x3) = 1%nat) as Hp3 by (unfold x3; rewrite pools_len_upd_pool; exact Hp2).
    assert (get_pool x3 0 = p_with_wait (p_waits q) (p_results q) (remove_nat i (p_nowaits q)) q) as Hq3.
    { unfold x3. rewrite (get_pool_upd_pool_same x2 0 _) by lia. rewrite Hq2. reflexivity. }
    constructor; autorewrite with pw; rewrite ?(get_pool_upd_pool_same x3 0 _) by lia; rewrite ?Hq3;
      unfold x3; autorewrite with pw; unfold x2; autorewrite with pw; try reflexivity.
    rewrite !set_nth_length. exact Hp.
  - exists (remove_nat i (p_waits q)), (assoc_del i (p_results q) ++ [(i, TErr TMCancelled)]), (p_nowaits q).
    split; [|right; auto]. unfold notify.
    set (x3 := upd_pool x2 0 (fun q0 => p_with_wait (p_waits q0) (assoc_del i (p_results q0) ++ [(i, TErr TMCancelled)]) (p_nowaits q0) q0)).
    assert (length (pw_pools x3) = 1%nat) as Hp3 by (unfold x3; rewrite pools_len_upd_pool; exact Hp2).
    assert (get_pool x3 0 = p_with_wait (p_waits q) (assoc_del i (p_results q) ++ [(i, TErr TMCancelled)]) (p_nowaits q) q) as Hq3.
    { unfold x3. rewrite (get_pool_upd_pool_same x2 0 _) by lia. rewrite Hq2. reflexivity. }
    set (x4 := upd_pool x3 0 _).
    assert (length (pw_pools x4) = 1%nat) as Hp4 by (unfold x4; rewrite pools_len_upd_pool; exact Hp3).
    assert (get_pool x4 0 = p_with_wait (remove_nat i (p_waits q)) (assoc_del i (p_results q) ++ [(i, TErr TMCancelled)]) (p_nowaits q) q) as Hq4.
    { unfold x4. rewrite (get_pool_upd_pool_same x3 0 _) by lia. rewrite Hq3. reflexivity. }
    constructor; autorewrite with pw; rewrite ?(get_pool_upd_pool_same x4 0 _) by lia; rewrite ?Hq4;
      unfold x4; autorewrite with pw; unfold x3; autorewrite with pw; unfold x2; autorewrite with pw; try reflexivity.
    rewrite !set_nth_length. exact Hp.
Qed.

(** a queued task whose cancellation was requested is popped and dropped by the worker being resumed *)
Lemma J_pop_cancel tnt x d w t k q' tz :
  J mx kp tnt x d (Some w) t -> quiet_off t -> get_worker x w = Some k -> live k = true ->
  Q1 q' -> (forall y, cnt y (all_items (pw_tq x)) = (one y tz + cnt y (all_items q'))%nat) ->
  mem_nat (Z.to_nat tz) (pw_cancel_tasks x) = true ->
  let xg := pop_cancel x 0 q' (Z.to_nat tz) in
  J mx kp tnt xg d (Some w) t /\ pw_cancel_cos xg = pw_cancel_cos x /\ pw_ts xg = pw_ts x /\
  get_worker xg w = Some k /\ pw_tbody xg = pw_tbody x.
Proof.
  intros HJ Hq Hk Hl HQ' Hcnt Hmem. pose proof HJ as [[HQt HQc] HL HP HS HT HR HW].
  pose proof (J_pst_not_stopped _ _ _ _ _ _ _ HJ Hk Hl) as Hps.
  assert (In tz (all_items (pw_tq x))) as Hz.
  { apply cnt_In. specialize (Hcnt tz). rewrite one_same in Hcnt. lia. }
  destruct (jt_q _ _ _ _ _ _ _ _ HT _ Hz) as (i & -> & Hi & Hc1 & Hacc & Hst & Hfin & Hfc & Hbody & Hnc1).
  rewrite Nat2Z.id in *. apply mem_nat_In in Hmem.
  pose proof (jt_t3 _ _ _ _ _ _ _ _ HT _ Hmem Hz) as Hc0.
  destruct (popped_In _ _ _ Hcnt Hc1) as (Hnz & Hin & Hcnt').
  destruct (pop_cancel_post x q' i (jp_pools _ _ _ _ HP)) as (W & R & N & Hu & Hcase). cbv zeta in Hu.
  set (q := get_pool x 0) in *. cbv zeta. set (xg := pop_cancel x 0 q' i) in *.
  pose proof Hu as [U1 U2 U3 U4 U5 U6 U7 U8 U9 U10 U11 U12 U13 U14].
  assert (i < length (po_tasks t))%nat as Hi' by (rewrite (jt_len _ _ _ _ _ _ _ _ HT); exact Hi).
  split; [|split; [exact U10 | split; [exact U14 | split; [unfold get_worker; rewrite U1; exact Hk | exact U9]]]].
  eapply (J_of_post tnt x xg d (Some w) t); try eassumption; autorewrite with pw; try reflexivity.
  - apply (jp_run _ _ _ _ HP).
  - apply (jp_le _ _ _ _ HP).
  - eapply JS_tq; [exact HS | exact Hps | exact Hq].
  - eapply JT_popcancel; try eassumption.
    + intros j Hj Hin'. apply remove_nat_In_other; assumption || congruence.
    + intros j Hj. eapply remove_nat_In, Hj.
  - destruct Hcase as [(Hm & -> & -> & ->)|(Hm & -> & -> & ->)].
    + apply JR_popcancel_nowaits with (tqi := all_items (pw_tq x)); try assumption. apply mem_nat_In, Hm.
    + apply JR_popcancel_result with (tqi := all_items (pw_tq x)); try assumption. apply mem_nat_false, Hm.
  - destruct (jp_keep _ _ _ _ HP) as (_ & _ & Hcr & _). split; [exact Hcr | cbn; lia].
Qed.

(** a queued task is popped and started by the worker being resumed *)
Lemma J_pop_start tnt x d w t k q' tz :
  J mx kp tnt x d (Some w) t -> quiet_off t -> get_worker x w = Some k -> live k = true -> k_task k = None ->
  ~ In w (pw_cancel_cos x) ->
  Q1 q' -> (forall y, cnt y (all_items (pw_tq x)) = (one y tz + cnt y (all_items q'))%nat) ->
  mem_nat (Z.to_nat tz) (pw_cancel_tasks x) = false ->
  let i := Z.to_nat tz in
  let xg := pop_start x 0 q' i w k in
  J mx kp tnt xg d (Some w) (start_trk t i) /\ pw_cancel_cos xg = pw_cancel_cos x /\ pw_ts xg = pw_ts x /\
  pw_tbody xg = pw_tbody x /\
  get_worker xg w = Some {| k_st := k_st k; k_create := k_create k; k_task := Some (i, nth i (pw_tbody x) []); k_tpool := 0%nat; k_dead := k_dead k |} /\
  body_from MRun (nth i (pw_tbody x) []) = true.
Proof.
  intros HJ Hq Hk Hl Hnone Hncc HQ' Hcnt Hmem. pose proof HJ as [[HQt HQc] HL HP HS HT HR HW].
  pose proof (J_pst_not_stopped _ _ _ _ _ _ _ HJ Hk Hl) as Hps.
  assert (In tz (all_items (pw_tq x))) as Hz.
  { apply cnt_In. specialize (Hcnt tz). rewrite one_same in Hcnt. lia. }
  destruct (jt_q _ _ _ _ _ _ _ _ HT _ Hz) as (i & -> & Hi & Hc1 & Hacc & Hst & Hfin & Hfc & Hbody & Hnc1).
  cbv zeta. rewrite Nat2Z.id in *. apply mem_nat_false in Hmem.
  destruct (popped_In _ _ _ Hcnt Hc1) as (Hnz & Hin & Hcnt').
  assert (i < length (po_tasks t))%nat as Hi' by (rewrite (jt_len _ _ _ _ _ _ _ _ HT); exact Hi).
  unfold get_worker in Hk. assert (w < length (pw_workers x))%nat as Hlt by (eapply nth_error_Some_lt, Hk).
  set (k' := {| k_st := k_st k; k_create := k_create k; k_task := Some (i, nth i (pw_tbody x) []); k_tpool := 0%nat; k_dead := k_dead k |}).
  set (xg := pop_start x 0 q' i w k).
  assert (upd_post x xg (set_nth w k' (pw_workers x)) q' (pw_cancel_tasks x) (assoc_del i (pw_running_tasks x) ++ [(i, w)]) (get_pool x 0)) as Hu.
  { unfold xg, pop_start. constructor; autorewrite with pw; try reflexivity. apply (jp_pools _ _ _ _ HP). }
  pose proof Hu as [U1 U2 U3 U4 U5 U6 U7 U8 U9 U10 U11 U12 U13 U14].
  assert (get_worker xg w = Some k') as Hwg by (unfold get_worker; rewrite U1; apply nth_error_set_nth_same, Hlt).
  split; [|split; [exact U10 | split; [exact U14 | split; [exact U9 | split; [exact Hwg | exact Hbody]]]]].
  assert (nlive (set_nth w k' (pw_workers x)) = nlive (pw_workers x)) as Hnl.
  { rewrite (nlive_set_nth _ _ _ _ Hk). unfold live at 2. cbn [k' k_st]. fold (live k). lia. }
  eapply (J_of_post tnt x xg d (Some w) (start_trk t i)); try eassumption; try reflexivity.
  - rewrite Hnl. apply (jp_run _ _ _ _ HP).
  - apply (jp_le _ _ _ _ HP).
  - apply JL_set_hole, HL.
  - unfold start_trk. autorewrite with potr. eapply JS_tq; [exact HS | exact Hps | exact Hq].
  - unfold start_trk. autorewrite with potr. rewrite gett_tkn.
    eapply JT_start; try eassumption; reflexivity.
  - unfold start_trk. autorewrite with potr. rewrite gett_tkn.
    eapply JR_start; try eassumption.
  - destruct HW as [W1 W2 W3 W4 W5 W6]. constructor; unfold start_trk; autorewrite with potr; try assumption.
    + intro v. rewrite (wst_set _ _ _ _ Hlt), W1. destruct (Nat.eqb v w) eqn:E; [|reflexivity].
      apply Nat.eqb_eq in E. subst v. unfold wst. rewrite Hk. reflexivity.
    + cbn [Nat.eqb]. rewrite W3, gett_tkn, Hacc, Hst. reflexivity.
    + cbn [Nat.eqb]. rewrite W6, gett_tkn. cbn [andb].
      destruct (tt_cancel0 (tkn (po_tasks t) i)) eqn:E0; [|reflexivity].
      destruct (tt_withdrawn (tkn (po_tasks t) i)) eqn:Ew; [reflexivity|].
      exfalso. apply Hmem. eapply (jt_te _ _ _ _ _ _ _ _ HT); eassumption.
  - destruct (jp_keep _ _ _ _ HP) as (_ & _ & Hcr & Hpf). split; [eapply CR_set_same; [exact Hcr | exact Hk | reflexivity] | exact Hpf].
Qed.

(** the task queue is found empty *)
Lemma J_pop_none tnt x d h t q' :
  J mx kp tnt x d h t -> Q1 q' -> all_items (pw_tq x) = [] -> all_items q' = [] ->
  J mx kp tnt (set_tq x q') d h t.
Proof.
  intros [[HQt HQc] HL HP HS HT HR HW] HQ' E E'.
  constructor; autorewrite with pw; rewrite ?E'; rewrite ?E in *; try assumption.
  - constructor; assumption.
  - destruct HP as [P1 P2 P3 P4 P5 P6 P7 P8 P9 P10 P11 P12]. constructor; autorewrite with pw; assumption.
Qed.

(** * how the measure moves *)
Lemma k_change_rho x w k new x' e :
  length (pw_pools x) = 1%nat -> pw_cur x = 0%nat -> get_worker x w = Some k -> live k = true ->
  k_change x w new = (x', e) ->
  rho x' + (if terminal new then 1 + 3 * Z.of_nat (tasklen k) else 0) <= rho x + (if creator_grows new then 1 else 0) /\
  rho x <= rho x' + (if terminal new then 1 + 3 * Z.of_nat (tasklen k) else 0).
Proof.
  intros Hp Hcur Hk Hl E. unfold k_change in E. rewrite Hk in E. injection E as <- _.
  change {| k_st := new; k_create := k_create k; k_task := k_task k; k_tpool := k_tpool k; k_dead := k_dead k |} with (with_st k new).
  set (x1 := upd_worker x w (with_st k new)).
  pose proof (rho_upd_worker x w k (with_st k new) Hk) as H1. fold x1 in H1.
  rewrite (wwork_live k Hl), Hl in H1. unfold wwork, live in H1. cbn [with_st k_st] in H1.
  change (tasklen (with_st k new)) with (tasklen k) in H1. cbn [b2z] in H1.
  assert (pw_cur x1 = 0%nat) as Hc1 by exact Hcur.
  assert (length (pw_pools x1) = 1%nat) as Hp1 by exact Hp.
  unfold creator. rewrite Hc1.
  destruct new as [| |y ts|y n st| |r|m]; cbn [terminal negb creator_grows b2z] in *.
  - lia.
  - lia.
  - pose proof (rho_try_grow x1 Hp1). lia.
  - pose proof (rho_try_grow x1 Hp1). lia.
  - set (x2 := upd_pool x1 0 _). assert (length (pw_pools x2) = 1%nat) as Hp2 by (unfold x2; rewrite pools_len_upd_pool; exact Hp1).
    pose proof (rho_try_grow x2 Hp2) as H. change (rho x2) with (rho x1) in H. lia.
  - rewrite rho_upd_pool. lia.
  - set (x2 := upd_pool x1 0 _). assert (length (pw_pools x2) = 1%nat) as Hp2 by (unfold x2; rewrite pools_len_upd_pool; exact Hp1).
    pose proof (rho_try_grow x2 Hp2) as H. change (rho x2) with (rho x1) in H. lia.
Qed.

Lemma rho_of_post x xg ws' tq' ct' rt' q' :
  upd_post x xg ws' tq' ct' rt' q' ->
  rho xg = 3 * Z.of_nat (qsum (pw_tbody x) (all_items tq') + wsum ws') + nlive ws'.
Proof. intros [U1 U2 U3 U4 U5 U6 U7 U8 U9 U10 U11 U12 U13 U14]. unfold rho. rewrite U1, U2, U9. reflexivity. Qed.

Lemma finish_rho x w k i r xf :
  length (pw_pools x) = 1%nat -> get_worker x w = Some k -> live k = true ->
  finish_task (upd_worker x w (with_task k None)) 0 i r = FinOk xf ->
  rho (upd_pool xf 0 (p_with_popfail 0)) + 3 * Z.of_nat (tasklen k) = rho x.
Proof.
  intros Hp Hk Hl E. rewrite rho_upd_pool. set (xa := upd_worker x w (with_task k None)) in *.
  assert (length (pw_pools xa) = 1%nat) as Hpa by exact Hp.
  pose proof (finish_task_post xa i r Hpa) as Hpost. cbv zeta in Hpost. rewrite E in Hpost.
  assert (rho xf = rho xa) as ->.
  { destruct Hpost as [(_ & Hu)|(_ & _ & Hu)]; rewrite (rho_of_post _ _ _ _ _ _ _ Hu); reflexivity. }
  pose proof (rho_upd_worker x w k (with_task k None) Hk) as H1. fold xa in H1.
  rewrite (wwork_live k Hl) in H1. unfold wwork in H1. change (live (with_task k None)) with (live k) in H1. rewrite Hl in H1.
  change (tasklen (with_task k None)) with O in H1. lia.
Qed.

Lemma pop_cancel_rho x q' tz :
  length (pw_pools x) = 1%nat ->
  (forall y, cnt y (all_items (pw_tq x)) = (one y tz + cnt y (all_items q'))%nat) ->
  rho (pop_cancel x 0 q' (Z.to_nat tz)) + 3 * Z.of_nat (blen (pw_tbody x) (Z.to_nat tz) + 2) = rho x.
Proof.
  intros Hp Hcnt. destruct (pop_cancel_post x q' (Z.to_nat tz) Hp) as (W & R & N & Hu & _).
  rewrite (rho_of_post _ _ _ _ _ _ _ Hu). unfold rho. rewrite (qsum_pop _ _ _ _ Hcnt). lia.
Qed.

Lemma pop_start_rho x q' tz w k :
  get_worker x w = Some k -> live k = true -> k_task k = None ->
  (forall y, cnt y (all_items (pw_tq x)) = (one y tz + cnt y (all_items q'))%nat) ->
  rho (pop_start x 0 q' (Z.to_nat tz) w k) + 3 = rho x.
Proof.
  intros Hk Hl Ht Hcnt. unfold pop_start.
  set (k' := {| k_st := k_st k; k_create := k_create k; k_task := Some (Z.to_nat tz, nth (Z.to_nat tz) (pw_tbody _) []); k_tpool := 0%nat; k_dead := k_dead k |}).
  set (x2 := set_globals _ _ _ _).
  assert (get_worker x2 w = Some k) as Hk2 by exact Hk.
  pose proof (rho_upd_worker x2 w k k' Hk2) as H1.
  assert (rho x2 + 3 * Z.of_nat (blen (pw_tbody x) (Z.to_nat tz) + 2) = rho x) as H2.
  { unfold rho, x2. autorewrite with pw. rewrite (qsum_pop _ _ _ _ Hcnt). lia. }
  assert (wwork k = O) as E0 by (apply wwork_idle, Ht).
  assert (live k' = true) as Hl' by exact Hl.
  assert (wwork k' = S (blen (pw_tbody x) (Z.to_nat tz))) as E1 by (rewrite (wwork_live k' Hl'); reflexivity).
  rewrite E0, E1, Hl, Hl' in H1. cbn [b2z] in H1. lia.
Qed.

(** * the idle steps of the worker loop: the pop-fail count changes, the clock advances by a nap *)
Lemma J_popfail tnt x d h t v : J mx kp tnt x d h t -> 0 <= v -> J mx kp tnt (upd_pool x 0 (p_with_popfail v)) d h t.
Proof.
  intros HJ Hv. pose proof HJ as [[HQt HQc] HL HP HS HT HR HW].
  assert (length (pw_pools x) = 1%nat) as Hp by apply (jp_pools _ _ _ _ HP).
  assert (upd_post x (upd_pool x 0 (p_with_popfail v)) (pw_workers x) (pw_tq x) (pw_cancel_tasks x) (pw_running_tasks x)
                   (p_with_popfail v (get_pool x 0))) as Hu.
  { constructor; autorewrite with pw; try reflexivity; [apply get_pool_upd_pool_same; lia | rewrite set_nth_length; exact Hp]. }
  eapply (J_of_post tnt x _ d h t _ _ _ _ _ Hu); try eassumption; try reflexivity.
  - apply (jp_run _ _ _ _ HP).
  - apply (jp_le _ _ _ _ HP).
  - destruct (jp_keep _ _ _ _ HP) as (_ & _ & Hcr & _). split; [exact Hcr | exact Hv].
Qed.

Lemma J_clockp tnt x d h t c : J mx kp tnt x d h t -> pw_clock x <= c -> c <= U64MAX -> J mx kp tnt (set_clockp x c) d h t.
Proof.
  intros [HQ HL HP HS HT HR HW] H1 H2. constructor; autorewrite with pw; try assumption.
  - eapply JL_clock; [exact H1 | exact HL].
  - destruct HP as [P1 P2 P3 P4 P5 P6 P7 P8 P9 P10 P11 P12]. constructor; autorewrite with pw; try assumption; try lia.
    destruct P3 as (Ek & Hc0 & Hcr & Hpf). split; [exact Ek|]. split; [lia|]. split; [eapply CR_mono; [exact Hcr | exact H1] | exact Hpf].
Qed.

(** with nothing queued the creator listener has nothing to do *)
Lemma k_change_quiet x w k new :
  length (pw_pools x) = 1%nat -> pw_cur x = 0%nat -> get_worker x w = Some k -> Q1 (pw_tq x) -> all_items (pw_tq x) = [] ->
  terminal new = false ->
  k_change x w new = (upd_worker x w (with_st k new), [EL 0 w (CbChanged new) (k_st k)]).
Proof.
  intros Hp Hcur Hk HQ Hnil Hg. unfold k_change. rewrite Hk.
  change {| k_st := new; k_create := k_create k; k_task := k_task k; k_tpool := k_tpool k; k_dead := k_dead k |} with (with_st k new).
  set (x1 := upd_worker x w (with_st k new)).
  assert (try_grow x1 0 = x1) as Eg.
  { unfold try_grow. change (pw_tq x1) with (pw_tq x). rewrite (Q1_full_len _ HQ), Hnil. reflexivity. }
  f_equal. unfold creator. change (pw_cur x1) with (pw_cur x). rewrite Hcur.
  destruct new; try discriminate; try reflexivity; exact Eg.
Qed.

End Steps.
