(** C10 for the scheduler model: every well-formed history ([SchedWf.wf_sched]) of the model is
    accepted by the oracle ([SchedOracle.judge_sched]).  Also: a pass never diverges, fails or
    unwinds, and [try_resume] always returns [Ok(())], on well-formed histories. *)
From OCV Require Import Base.Prelude Misc.Time Queue.PMap Queue.OWS Coroutine.Co Coroutine.CoOracle
  Coroutine.CoLemmas Sched.Sched Sched.SchedOracle Sched.SchedWf Sched.SchedQueue Sched.SchedBase
  Sched.SchedTrk Sched.SchedRun Sched.SchedInv Sched.SchedCheck Sched.SchedPass.
From Coq Require Import ZifyBool ZifyNat.
Open Scope Z_scope.

Definition model_sjudge (clock : Z) (nl : nat) (ops : list sop) : bool * bool :=
  judge_sched clock ops (srun (sched0 clock nl) ops).

(** what the model never observes on a well-formed history *)
Definition obs_ok (ob : sobs) : Prop :=
  match ob with
  | SUnit => True
  | SPass r _ => exists lft results, r = PassOk lft results
  | SCall r _ => r = RUnit
  end.

(** * small facts *)

Lemma list_eqb_refl {A} (eqb : A -> A -> bool) (l : list A) :
  (forall x, eqb x x = true) -> list_eqb eqb l l = true.
Proof. intro H. induction l as [|a l IH]; [reflexivity|]. cbn [list_eqb]. rewrite H, IH. reflexivity. Qed.

Lemma idres_eqb_refl x : idres_eqb x x = true.
Proof. unfold idres_eqb. rewrite Nat.eqb_refl, res_eqb_refl. reflexivity. Qed.

Lemma change_events_no_body nl i old new :
  forallb (fun e => match e with EB _ _ => false | _ => true end) (change_events nl i old new) = true.
Proof.
  unfold change_events. rewrite forallb_app. apply andb_true_iff. split; apply forallb_forall; intros e Hin;
    apply in_map_iff in Hin as (l & <- & _); reflexivity.
Qed.

Definition kcan (k : strk) : strk :=
  {| q_st := q_st k; q_wake := q_wake k; q_fin := q_fin k; q_cancel := true; q_mal := q_mal k |}.

Lemma costat_setcancel s clk j c k : costat s clk j c k -> In j (S_C s) -> costat s clk j c (kcan k).
Proof.
  intros H Hin.
  assert (common s j c k -> common s j c (kcan k)) as Hcm.
  { intros (A1 & A2 & A3 & A4). unfold common. cbn [kcan q_fin q_cancel]. repeat split; auto. }
  destruct H as [Hp Ht Hf | Hp Hc Hr Hw | y ts Hp Hc Hs Hi Hw | y n ts Hp Hc Hs Hi Hw].
  - apply CS_inactive; assumption.
  - apply CS_ready; auto.
  - eapply CS_heap; eauto.
  - eapply CS_sys; eauto.
Qed.

(** * the initial state *)

Lemma ginv_init nl clock : clock <= U64MAX -> ginv nl (sched0 clock nl) clock [].
Proof.
  intro Hu. destruct qok_init as [Hq Hit].
  constructor; try reflexivity; try assumption.
  intro j. unfold coinv, sched0, S_cos. cbn [sc_w w_thr mk_thr t_cos map].
  assert (nth_error (@nil co) j = None) as -> by (destruct j; reflexivity).
  unfold at_place, S_R, S_H, S_Y, rdy. cbn [sc_w sc_d w_q sdata0 sd_suspend sd_syscall map].
  rewrite Hit. repeat split; reflexivity.
Qed.

(** * the ops other than [Pass] *)

Lemma try_resume_sim nl s clk ks i :
  (1 <= nl)%nat -> ginv nl s clk ks ->
  exists w' d' e ks',
    try_resume world w_state w_change w_push (sc_w s) (sc_d s) i = (w', d', RUnit, e) /\
    (forall fins, fold_left sev e (mkT clk ks, fins) = (mkT clk ks', fins)) /\
    forallb (fun e => match e with EB _ _ => false | _ => true end) e = true /\
    length ks' = length ks /\
    ginv nl {| sc_w := w'; sc_d := d' |} clk ks'.
Proof.
  intros Hnl G.
  assert ({| sc_w := sc_w s; sc_d := sc_d s |} = s) as Es by (destruct s; reflexivity).
  unfold try_resume. fold (S_Y s).
  destruct (mem_nat i (S_Y s)) eqn:Hmem.
  - apply mem_nat_cn in Hmem.
    set (d1 := {| sd_suspend := sd_suspend (sc_d s); sd_syscall := remove_nat i (S_Y s);
                  sd_sys_suspend := sd_sys_suspend (sc_d s); sd_gone := sd_gone (sc_d s) |}).
    destruct (sys_wake nl s clk ks i SCallback d1 Hnl G Hmem (or_intror eq_refl) eq_refl eq_refl)
      as (c & y & n & t' & Hn & Hs & Hfold & G' & _).
    { intros j t _ Ht. exact Ht. }
    change (w_state (sc_w s) i) with (option_map c_st (nth_error (t_cos (w_thr (sc_w s))) i)).
    unfold S_cos in Hn. rewrite Hn. cbn [option_map]. rewrite Hs.
    rewrite (w_change_some _ _ _ _ Hn).
    pose proof (g_nl _ _ _ _ G) as Hnl'. unfold S_thr in Hnl'. rewrite Hnl'.
    eexists _, _, _, _. split; [reflexivity|]. split; [exact Hfold|]. split; [apply change_events_no_body|].
    split; [apply set_nth_length|]. exact G'.
  - exists (sc_w s), (sc_d s), [], ks. rewrite Es. split; [reflexivity|]. split; [reflexivity|].
    split; [reflexivity|]. split; [reflexivity | exact G].
Qed.

Lemma submit_sim nl s clk ks body prio :
  ginv nl s clk ks -> bwf Running body = true ->
  ginv nl (submit s body prio) clk (ks ++ [strk0]).
Proof.
  intros G Hb. pose proof G as [G1 G2 G3 G4 G5 G6 G7 G8].
  set (c0 := {| c_st := Ready; c_body := body; c_started := false; c_dead := false |}).
  set (n := length (S_cos s)).
  unfold submit. fold (S_cos s). fold n. fold c0.
  match goal with |- ginv _ {| sc_w := w_push ?W n; sc_d := _ |} _ _ => set (w1 := W) end.
  assert (qok (w_q w1)) as Hq1 by exact G7.
  destruct (w_push_spec w1 n Hq1) as [Hq2 Hcn].
  set (s' := {| sc_w := w_push w1 n; sc_d := sc_d s |}).
  assert (S_cos s' = S_cos s ++ [c0]) as Hcos by reflexivity.
  assert (forall j, j <> n -> agree j s s') as Hag.
  { intros j Hne. unfold agree, s'. views. rewrite (Hcn j), one_if_diff by congruence.
    repeat split; auto. }
  constructor; try assumption.
  - rewrite Hcos, !app_length. cbn [length]. lia.
  - intro j. destruct (Nat.eq_dec j n) as [->|Hne].
    + unfold coinv. rewrite Hcos. unfold n at 1. rewrite nth_error_app_last.
      unfold gk. rewrite app_nth2 by lia. replace (n - length ks)%nat with 0%nat by lia. cbn [nth].
      split; [reflexivity|]. split; [reflexivity|].
      pose proof (G8 n) as Hold. unfold coinv in Hold.
      assert (nth_error (S_cos s) n = None) as E by (apply nth_error_None; lia). rewrite E in Hold.
      destruct Hold as (P1 & P2 & P3).
      apply CS_ready.
      * unfold at_place, s'. views. rewrite (Hcn n), one_if_same.
        change (rdy w1) with (rdy (sc_w s)). repeat split; try assumption. lia.
      * unfold common. cbn [strk0 q_fin q_cancel c0 c_dead c_st c_body nxt]. repeat split; try assumption.
        discriminate.
      * exact I.
      * cbn [strk0 q_wake]. discriminate.
    + eapply coinv_frame; [apply G8 | apply Hag, Hne | lia | | ].
      * rewrite Hcos. destruct (Nat.lt_ge_cases j n) as [Hlt|Hge].
        -- apply nth_error_app1. exact Hlt.
        -- assert (nth_error (S_cos s) j = None) as -> by (apply nth_error_None; lia).
           apply nth_error_None. rewrite app_length. cbn [length]. lia.
      * unfold gk. destruct (Nat.lt_ge_cases j (length ks)) as [Hlt|Hge].
        -- apply app_nth1. exact Hlt.
        -- rewrite !nth_overflow; [reflexivity | lia | rewrite app_length; cbn [length]; lia].
Qed.

Definition cancel_w (w : world) (i : nat) : world :=
  {| w_thr := w_thr w; w_q := w_q w; w_prio := w_prio w;
     w_cancel := if mem_nat i (w_cancel w) then w_cancel w else i :: w_cancel w |}.

Lemma cancel_agree s i j : agree j s {| sc_w := cancel_w (sc_w s) i; sc_d := sc_d s |}.
Proof.
  unfold agree, cancel_w. views. cbn [w_cancel]. repeat split; auto.
  intro H. destruct (mem_nat i (w_cancel (sc_w s))); [exact H | right; exact H].
Qed.

Lemma cancel_in s i : In i (S_C {| sc_w := cancel_w (sc_w s) i; sc_d := sc_d s |}).
Proof.
  unfold cancel_w. views. cbn [w_cancel]. destruct (mem_nat i (w_cancel (sc_w s))) eqn:E.
  - apply mem_nat_In, E.
  - left. reflexivity.
Qed.

Lemma cancel_sim nl s clk ks i :
  ginv nl s clk ks ->
  exists ks',
    fst (sostep (mkT clk ks) (length ks) (Cancel i) SUnit) = mkT clk ks' /\ length ks' = length ks /\
    ginv nl {| sc_w := cancel_w (sc_w s) i; sc_d := sc_d s |} clk ks'.
Proof.
  intro G. set (s' := {| sc_w := cancel_w (sc_w s) i; sc_d := sc_d s |}).
  assert (ginv nl s' clk ks) as Gsame.
  { eapply (ginv_frame nl s clk ks s' clk G); try reflexivity; try lia.
    - apply (g_clock _ _ _ _ G).
    - apply (g_u64 _ _ _ _ G).
    - apply (g_ts _ _ _ _ G).
    - apply (g_cn _ _ _ _ G).
    - apply (g_nl _ _ _ _ G).
    - apply (g_q _ _ _ _ G).
    - intro j. apply cancel_agree. }
  cbn [sostep]. unfold getq. cbn [mkT r_cos]. fold (gk ks i).
  destruct (Nat.ltb i (length ks)) eqn:Elt; cbn [andb]; [|exists ks; split; [reflexivity | split; [reflexivity | exact Gsame]]].
  destruct (q_fin (gk ks i)) as [r|] eqn:Ef; cbn [is_none]; [exists ks; split; [reflexivity | split; [reflexivity | exact Gsame]]|].
  apply Nat.ltb_lt in Elt. pose proof (g_len _ _ _ _ G) as Hlen.
  destruct (nth_error (S_cos s) i) as [c|] eqn:Hn; [|apply nth_error_None in Hn; lia].
  destruct (ginv_co _ _ _ _ _ _ G Hn) as (Hst & Hm & Hco).
  exists (set_nth i (kcan (gk ks i)) ks). split; [|split; [apply set_nth_length|]].
  - cbn [fst]. unfold setq, mkT, kcan. cbn [r_clock r_cos r_ok r_anymal q_mal]. rewrite ?Hm, ?Ef. reflexivity.
  - eapply (ginv_update nl s clk ks s' clk i c (kcan (gk ks i)) G); try reflexivity; try lia; try assumption.
    + apply (g_clock _ _ _ _ G).
    + apply (g_u64 _ _ _ _ G).
    + apply (g_ts _ _ _ _ G).
    + apply (g_cn _ _ _ _ G).
    + apply (g_nl _ _ _ _ G).
    + change (S_cos s') with (S_cos s). symmetry. apply set_nth_id, Hn.
    + apply (g_q _ _ _ _ G).
    + intros j _. apply cancel_agree.
    + apply costat_setcancel; [|apply cancel_in].
      eapply costat_frame; [exact Hco | apply cancel_agree | lia].
Qed.

Lemma clock_sim nl s clk ks c :
  ginv nl s clk ks -> clk <= c -> c <= U64MAX ->
  ginv nl {| sc_w := with_thr (sc_w s) (upd_clock (w_thr (sc_w s)) c); sc_d := sc_d s |} c ks.
Proof.
  intros G H1 H2.
  eapply (ginv_frame nl s clk ks _ c G); try reflexivity; try assumption.
  - apply (g_ts _ _ _ _ G).
  - apply (g_cn _ _ _ _ G).
  - apply (g_nl _ _ _ _ G).
  - apply (g_q _ _ _ _ G).
  - intro j. unfold agree. views. repeat split; auto.
Qed.

(** * one op *)

Lemma sstep_sim nl s clk ks o :
  (1 <= nl)%nat -> ginv nl s clk ks -> wf_op s o = true ->
  exists clk' ks',
    sostep (mkT clk ks) (length ks) o (snd (sstep s o)) = (mkT clk' ks', length ks') /\
    ginv nl (fst (sstep s o)) clk' ks' /\ obs_ok (snd (sstep s o)).
Proof.
  intros Hnl G Hwf. destruct o as [body prio|deadline|i|i|c]; cbn [wf_op] in Hwf.
  - (* Submit *)
    cbn [sstep fst snd sostep]. exists clk, (ks ++ [strk0]).
    split; [|split; [apply submit_sim; assumption | exact I]].
    unfold mkT. cbn [r_clock r_cos r_ok r_anymal]. rewrite app_length. cbn [length].
    replace (length ks + 1)%nat with (S (length ks)) by lia. reflexivity.
  - (* Pass *)
    cbn [sstep].
    destruct (ds_sim nl Hnl (pass_fuel s) s clk ks deadline [] G (pass_fuel_mu s))
      as (w' & d' & lft & fa & e & clk' & ks' & Hds & Hfold & G' & Hset & Hlen).
    rewrite Hds. cbn [fst snd sostep app] in *. rewrite Hfold.
    exists clk', ks'. split; [|split; [exact G' | cbn [obs_ok]; eauto]].
    rewrite (list_eqb_refl idres_eqb _ idres_eqb_refl).
    unfold need, mkT. cbn [r_clock r_cos r_ok r_anymal andb].
    destruct (0 <? lft) eqn:El.
    + rewrite (Hset ltac:(lia)). rewrite Hlen. reflexivity.
    + rewrite Hlen. reflexivity.
  - (* TryResume *)
    cbn [sstep].
    destruct (try_resume_sim nl s clk ks i Hnl G) as (w' & d' & e & ks' & Htr & Hfold & Hnb & Hlen & G').
    rewrite Htr. cbn [fst snd sostep]. rewrite (Hfold []).
    exists clk, ks'. split; [|split; [exact G' | reflexivity]].
    rewrite Hnb. cbn [is_nil res_eqb mkT r_anymal orb andb]. unfold need, mkT.
    cbn [r_clock r_cos r_ok r_anymal andb]. rewrite Hlen. reflexivity.
  - (* Cancel *)
    cbn [sstep fst snd].
    destruct (cancel_sim nl s clk ks i G) as (ks' & Hso & Hlen & G').
    exists clk, ks'. split; [|split; [exact G' | exact I]].
    destruct (sostep (mkT clk ks) (length ks) (Cancel i) SUnit) as [t n] eqn:E.
    cbn [fst] in Hso. subst t. rewrite Hlen.
    assert (snd (sostep (mkT clk ks) (length ks) (Cancel i) SUnit) = length ks) as Hsn
        by (cbn [sostep]; destruct (_ && _); reflexivity).
    rewrite E in Hsn. cbn [snd] in Hsn. subst n. reflexivity.
  - (* Clock *)
    apply andb_true_iff in Hwf as [H1 H2].
    pose proof (g_clock _ _ _ _ G) as Hclk. unfold w_clock in H1. unfold S_thr in Hclk. rewrite Hclk in H1.
    cbn [sstep fst snd sostep]. exists c, ks.
    split; [reflexivity|]. split; [apply (clock_sim nl s clk ks c G); lia | exact I].
Qed.

(** * whole histories *)

Lemma srun_cons s o ops : srun s (o :: ops) = snd (sstep s o) :: srun (fst (sstep s o)) ops.
Proof. cbn [srun]. destruct (sstep s o) as [s' r]. reflexivity. Qed.

Lemma sorun_sim nl : (1 <= nl)%nat -> forall ops s clk ks,
  ginv nl s clk ks -> wf_run s ops = true ->
  (exists clk' ks', sorun (mkT clk ks) (length ks) ops (srun s ops) = (mkT clk' ks', true)) /\
  Forall obs_ok (srun s ops).
Proof.
  intro Hnl. induction ops as [|o ops IH]; intros s clk ks G Hwf.
  - split; [exists clk, ks; reflexivity | constructor].
  - cbn [wf_run] in Hwf. apply andb_true_iff in Hwf as [Hwo Hwr].
    destruct (sstep_sim nl s clk ks o Hnl G Hwo) as (clk' & ks' & Hso & G' & Hob).
    destruct (IH _ _ _ G' Hwr) as [(clk'' & ks'' & Hrun) Hall].
    rewrite srun_cons. split.
    + exists clk'', ks''. cbn [sorun]. rewrite Hso. exact Hrun.
    + constructor; assumption.
Qed.

(** C10 for the model, any number [nl >= 1] of listeners per coroutine *)
Theorem c10_model_gen : forall nl clock ops,
  (1 <= nl)%nat -> wf_gen nl clock ops = true -> model_sjudge clock nl ops = (true, true).
Proof.
  intros nl clock ops Hnl Hwf. unfold wf_gen in Hwf. apply andb_true_iff in Hwf as [Hc Hr].
  destruct (sorun_sim nl Hnl ops (sched0 clock nl) clock [] (ginv_init nl clock ltac:(lia)) Hr)
    as [(clk' & ks' & Hrun) _].
  unfold model_sjudge, judge_sched. change {| r_clock := clock; r_cos := []; r_ok := true; r_anymal := false |}
    with (mkT clock []). change 0%nat with (length (@nil strk)). rewrite Hrun. reflexivity.
Qed.

(** the recording harness uses exactly one listener *)
Theorem c10_model : forall clock ops, wf_sched clock ops = true -> model_sjudge clock 1 ops = (true, true).
Proof. intros clock ops H. apply c10_model_gen; [lia | exact H]. Qed.

(** on a well-formed history every pass returns [Ok] (never [Err], a panic, or a divergence of the
    model's loop with [pass_fuel]) and every [try_resume] returns [Ok(())] *)
Theorem wf_obs_ok : forall nl clock ops,
  (1 <= nl)%nat -> wf_gen nl clock ops = true -> Forall obs_ok (srun (sched0 clock nl) ops).
Proof.
  intros nl clock ops Hnl Hwf. unfold wf_gen in Hwf. apply andb_true_iff in Hwf as [Hc Hr].
  apply (sorun_sim nl Hnl ops (sched0 clock nl) clock [] (ginv_init nl clock ltac:(lia)) Hr).
Qed.

Theorem pass_never_diverges : forall nl clock ops evs,
  (1 <= nl)%nat -> wf_gen nl clock ops = true -> ~ In (SPass PassDiverged evs) (srun (sched0 clock nl) ops).
Proof.
  intros nl clock ops evs Hnl Hwf Hin. pose proof (wf_obs_ok nl clock ops Hnl Hwf) as Hall.
  rewrite Forall_forall in Hall. specialize (Hall _ Hin). cbn [obs_ok] in Hall.
  destruct Hall as (l & r & E). discriminate.
Qed.

(** the state-level form: from any state that satisfies the simulation invariant, one pass with
    [pass_fuel] ends with [PassOk] *)
Theorem pass_ok_from_inv : forall nl s clk ks deadline,
  (1 <= nl)%nat -> ginv nl s clk ks ->
  exists lft results evs, snd (sstep s (Pass deadline)) = SPass (PassOk lft results) evs.
Proof.
  intros nl s clk ks deadline Hnl G. cbn [sstep].
  destruct (ds_sim nl Hnl (pass_fuel s) s clk ks deadline [] G (pass_fuel_mu s))
    as (w' & d' & lft & fa & e & clk' & ks' & Hds & _). rewrite Hds. cbn [snd]. eauto.
Qed.

(** * a non-trivial well-formed history *)

Definition hooked_sleep (n t : Z) : list instr :=
  [ISyscall 0 n SExecuting; ISyscall 0 n (SSuspend t); IUntil 0 t; ISyscall 0 n SExecuting; IRunning].

(** six coroutines: delays, an until, two hooked sleeps (the second coroutine is woken by
    [try_resume] and sleeps again while its old syscall-suspend entry is still in the heap), a
    self-cancel, an external cancel of a delayed coroutine, a panic; two deadline-cut passes *)
Definition ex_ops : list sop :=
  [Submit [IDelay 0 5001; ITick 2000; IReturn 7] (Some 1);
   Submit (hooked_sleep 2 4003 ++ [ILog 3; IReturn 1]) None;
   Submit [IUntil 0 9002; IPanic (PStatic 5)] (Some (-1));
   Submit [ISuspend 0; ITick 1000; ISuspend 0; ICancel] (Some 2);
   Submit [IDelay 0 20004; IReturn 9] None;
   Submit (hooked_sleep 1 6005 ++ hooked_sleep 1 50006 ++ [IReturn 4]) None;
   Pass 1500;
   Cancel 4;
   Clock 5000; Pass U64MAX;
   TryResume 5;
   Clock 7000; Pass 7000; Pass U64MAX;
   Clock 30000; Pass U64MAX;
   Clock 60000; Pass U64MAX; Pass U64MAX].

Example ex_wf : wf_sched 1000 ex_ops = true.
Proof. vm_compute. reflexivity. Qed.

Example ex_verdict : model_sjudge 1000 1 ex_ops = (true, true).
Proof. vm_compute. reflexivity. Qed.

Example ex_passes :
  map (fun o => match o with SPass r _ => Some r | _ => None end) (srun (sched0 1000 1) ex_ops)
  = [None; None; None; None; None; None; Some (PassOk 0 []); None; None;
     Some (PassOk 18446744073709546615 [(1%nat, ROk (Complete 1))]); None;
     None; Some (PassOk 0 []);
     Some (PassOk 18446744073709542615 [(0%nat, ROk (Complete 7))]); None;
     Some (PassOk 18446744073709521615 [(2%nat, ROk (Error (MStr 5)))]);
     None; Some (PassOk 18446744073709491615 [(5%nat, ROk (Complete 4))]);
     Some (PassOk 18446744073709491615 [])].
Proof. vm_compute. reflexivity. Qed.

(** the theorem applies to it *)
Example ex_by_theorem : model_sjudge 1000 1 ex_ops = (true, true).
Proof. apply c10_model, ex_wf. Qed.

(** * the clock clause of [wf_sched] is needed: histories the generator can produce in which a
    [Clock] op is smaller than the clock the bodies' ticks have reached (COUNTEREXAMPLES.md) *)

Definition cx1 : list sop :=
  [Submit [ITick 10000; IUntil 0 3001; IReturn 7] None; Pass 2000; Clock 1000; Pass U64MAX].
Definition cx2 : list sop :=
  [Submit [IDelay 0 1001; IReturn 1] (Some 1); Pass U64MAX;
   Submit [ITick 10000; ISuspend 0; ITick 10000; ITick 10000; ISuspend 0; IReturn 2] (Some 0);
   Pass 30000; Clock 1000; Pass U64MAX].

Example cx1_rejected : wf_sched 0 cx1 = false /\ model_sjudge 0 1 cx1 = (false, true).
Proof. split; vm_compute; reflexivity. Qed.
Example cx2_rejected : wf_sched 0 cx2 = false /\ model_sjudge 0 1 cx2 = (false, true).
Proof. split; vm_compute; reflexivity. Qed.

Print Assumptions c10_model.
Print Assumptions c10_model_gen.
Print Assumptions wf_obs_ok.
Print Assumptions pass_never_diverges.
Print Assumptions pass_ok_from_inv.
Print Assumptions ex_by_theorem.
