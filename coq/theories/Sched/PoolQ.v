(** What the pool proofs need to know of the shared queues: one handle, multiset conservation. *)
From OCV Require Import Base.Prelude Queue.PMap Queue.OWS Queue.OWSOracle Queue.OWSLemmas Queue.OWSModel Queue.OWSInv Queue.OWSStep.
From OCV Require Import Coroutine.Co Sched.Sched Sched.Pool.
From Coq Require Import ZifyBool ZifyNat.
Open Scope Z_scope.

(** a queue with exactly one handle, as a single pool has *)
Record Q1 (s : sys) : Prop := { q1_inv : Inv 1 queue_cap s; q1_h : length (s_handles s) = 1%nat }.

Lemma Q1_handle s : Q1 s -> exists hd, nth_error (s_handles s) 0 = Some hd.
Proof.
  intros [_ H]. destruct (s_handles s) as [|hd l]; [discriminate|]. exists hd. reflexivity.
Qed.

Lemma Q1_init : Q1 (add_handles 1 (OWS.init 1 queue_cap)).
Proof.
  cbn [add_handles]. pose proof (Inv_init 1 queue_cap) as HI.
  destruct (new_handle_spec 1 queue_cap _ HI) as (HI' & _ & _ & _ & [[H _]|(_ & ix & _ & Hh & _)]); [discriminate|].
  constructor; [exact HI'|]. rewrite Hh. reflexivity.
Qed.

Lemma Q1_full_len s : Q1 s -> full_len s = Z.of_nat (length (all_items s)).
Proof. intros [HI _]. apply full_len_eq, (inv_I2 _ _ _ HI). Qed.

Lemma Q1_lpush s p z : Q1 s ->
  Q1 (fst (lpush s 0 p z)) /\ forall y, cnt y (all_items (fst (lpush s 0 p z))) = (one y z + cnt y (all_items s))%nat.
Proof.
  intros HQ. destruct (Q1_handle s HQ) as [hd Hn]. destruct HQ as [HI Hh].
  destruct (lpush_spec 1 queue_cap s 0 hd p z HI Hn) as (_ & HI' & Ht).
  split; [|exact Ht]. constructor; [exact HI'|].
  pose proof (ticks_lpush 1 queue_cap s 0 p z HI) as Hk. apply (f_equal (@length Z)) in Hk.
  rewrite !map_length in Hk. lia.
Qed.

Lemma Q1_lpush_In s p z y : Q1 s -> In y (all_items (fst (lpush s 0 p z))) <-> y = z \/ In y (all_items s).
Proof.
  intro HQ. destruct (Q1_lpush s p z HQ) as [_ Hc]. rewrite !cnt_In, Hc. unfold one.
  destruct (Z.eq_dec z y) as [->|Hne]; split; intro H; try lia; auto;
    try (destruct H as [->|H]; [congruence | lia]).
Qed.

(** one pop on handle 0 *)
Lemma Q1_lpop s start : Q1 s ->
  Q1 (fst (lpop s 0 start)) /\
  exists ox, snd (lpop s 0 start) = OItem ox /\
    (forall y, cnt y (all_items s) = (cnt y (olist ox) + cnt y (all_items (fst (lpop s 0 start))))%nat) /\
    (ox = None -> all_items s = []).
Proof.
  intros HQ. destruct (Q1_handle s HQ) as [hd Hn]. destruct HQ as [HI Hh].
  destruct (lpop_spec 1 queue_cap s 0 start hd HI Hn) as [HI' (ox & Hr & Ht & _ & Hnone) Hticks _].
  split.
  - constructor; [exact HI'|]. apply (f_equal (@length Z)) in Hticks.
    rewrite map_length in Hticks. rewrite Hticks.
    change (length (OWS.set_nth 0 (fst (tick (h_tick hd))) (map h_tick (s_handles s))) = 1%nat).
    rewrite OWSLemmas.set_nth_length, map_length. exact Hh.
  - exists ox. split; [exact Hr|]. split; [exact Ht | exact Hnone].
Qed.

Lemma cnt_nil_all (l : list Z) : (forall y, cnt y l = 0%nat) -> l = [].
Proof. apply cnt_all0_nil. Qed.

Lemma In_cnt_pos (l : list Z) y : In y l -> (1 <= cnt y l)%nat.
Proof. intro H. apply cnt_In in H. lia. Qed.

Lemma cnt0_notin (l : list Z) y : cnt y l = 0%nat -> ~ In y l.
Proof. intros H Hin. apply cnt_In in Hin. lia. Qed.

Lemma notin_cnt0 (l : list Z) y : ~ In y l -> cnt y l = 0%nat.
Proof. intro H. destruct (cnt y l) eqn:E; [reflexivity|]. exfalso. apply H, cnt_In. lia. Qed.

Lemma Q1_lpop_cases s start q' r : Q1 s -> lpop s 0 start = (q', r) ->
  Q1 q' /\
  ((exists tz, r = OItem (Some tz) /\ forall y, cnt y (all_items s) = (one y tz + cnt y (all_items q'))%nat) \/
   (r = OItem None /\ all_items s = [] /\ all_items q' = [])).
Proof.
  intros HQ E. destruct (Q1_lpop s start HQ) as [HQ' (ox & Hr & Hc & Hn)]. rewrite E in *. cbn [fst snd] in *.
  split; [exact HQ'|]. destruct ox as [tz|].
  - left. exists tz. split; [exact Hr|]. intro y. rewrite (Hc y). cbn [olist]. rewrite cnt_cons, cnt_nil. lia.
  - right. split; [exact Hr|]. specialize (Hn eq_refl). split; [exact Hn|].
    apply cnt_all0_nil. intro y. specialize (Hc y). rewrite Hn in Hc. cbn [olist] in Hc. rewrite !cnt_nil in Hc. lia.
Qed.

(** the items left after one was taken out *)
Lemma popped_In (l l' : list Z) tz : (forall y, cnt y l = (one y tz + cnt y l')%nat) -> cnt tz l = 1%nat ->
  ~ In tz l' /\ (forall y, In y l' <-> In y l /\ y <> tz) /\ (forall y, y <> tz -> cnt y l' = cnt y l).
Proof.
  intros Hc H1. assert (cnt tz l' = 0%nat) as H0 by (specialize (Hc tz); rewrite one_same in Hc; lia).
  split; [apply cnt0_notin, H0|]. split.
  - intro y. rewrite !cnt_In. destruct (Z.eq_dec y tz) as [->|Hne].
    + split; [lia | intros [_ H]; congruence].
    + specialize (Hc y). rewrite one_diff in Hc by congruence. split; [intro; split; [lia | exact Hne] | intros [H _]; lia].
  - intros y Hne. specialize (Hc y). rewrite one_diff in Hc by congruence. lia.
Qed.
