(** The bystander invariant through a worker's resumption ([k_finish], [k_resume]). *)
From OCV Require Import Base.Prelude Misc.Time Queue.PMap Queue.OWS Queue.OWSOracle Queue.OWSLemmas Queue.OWSModel Queue.OWSStep.
From OCV Require Import Coroutine.Co Coroutine.CoOracle Coroutine.CoLemmas Sched.Sched Sched.Pool Sched.PoolOracle Sched.PoolBystander Sched.PoolBase Sched.PoolWf Sched.PoolQ Sched.PoolJ Sched.PoolJLemmas Sched.PoolUnfold Sched.PoolMeasure Sched.PoolJStep Sched.PoolJLoop Sched.PoolCount Sched.PoolBound Sched.PoolJPass Sched.PoolBy Sched.PoolByLoop.
From Coq Require Import ZifyBool ZifyNat.
Open Scope Z_scope.

Lemma k_change_B x w new x' e b :
  length (pw_pools x) = 1%nat -> pw_cur x = 0%nat -> k_change x w new = (x', e) -> new <> Cancelled ->
  BI (pw_workers x) b -> BI (pw_workers x') (fold_left by_ev e b).
Proof.
  intros Hp Hcur E Hnew HB. pose proof (k_change_tids x w new x' e Hp Hcur E) as Ht.
  unfold k_change in E. destruct (get_worker x w) as [k|]; injection E as _ <-; cbn [fold_left].
  - rewrite by_inert_EL by exact Hnew. eapply BI_tids; eassumption.
  - eapply BI_tids; eassumption.
Qed.

Section ByPass.
Variable mx : Z.
Variable kp : Z.

Lemma k_finish_B tnt x2 d w t b evs out :
  J mx kp tnt x2 d (Some w) t -> wl_post x2 w out -> BI (pw_workers x2) b ->
  exists x' r evs', k_finish x2 w evs out = (x', r, evs ++ evs') /\ BI (pw_workers x') (fold_left by_ev evs' b).
Proof.
  intros HJ Hpost HB. unfold k_finish. destruct out; cbn [wl_post] in Hpost; try contradiction.
  pose proof (jp_pools _ _ _ _ (j_p _ _ _ _ _ _ _ _ HJ)) as Hpools. pose proof (jp_cur _ _ _ _ (j_p _ _ _ _ _ _ _ _ HJ)) as Hcur.
  3:{ eexists _, _, []. rewrite app_nil_r. split; [reflexivity | exact HB]. }
  - destruct Hpost as [(k & i & rest & Hk & Hl & Hdead & Htp & Hts & Htask & Hcase)|(k & Hk & Hl & Hdead & Htp & Hts & Htask & Est & Hnil)].
    2:{ rewrite Hk, Est. rewrite (jp_cn _ _ _ _ (j_p _ _ _ _ _ _ _ _ HJ)). cbn [pop_front].
        destruct (pop_front 0 (pw_ts x2)) as [ts ts'] eqn:Ep.
        match goal with |- context [k_change ?a ?b ?c] => destruct (k_change a b c) as [x3 e3] eqn:Ekc end.
        eexists _, _, _. split; [reflexivity|].
        eapply (k_change_B _ _ _ _ _ b _ _ Ekc); [discriminate | exact HB]. }
    destruct Hcase as [[Est Hb]|(y & n & ts & Est & Hb)].
    + rewrite Hk, Est. rewrite (jp_cn _ _ _ _ (j_p _ _ _ _ _ _ _ _ HJ)). cbn [pop_front].
      destruct (pop_front 0 (pw_ts x2)) as [ts ts'] eqn:Ep.
      match goal with |- context [k_change ?a ?b ?c] => destruct (k_change a b c) as [x3 e3] eqn:Ekc end.
      eexists _, _, _. split; [reflexivity|].
      eapply (k_change_B _ _ _ _ _ b _ _ Ekc); [discriminate | exact HB].
    + rewrite Hk, Est. rewrite (jp_cn _ _ _ _ (j_p _ _ _ _ _ _ _ _ HJ)). cbn [pop_front].
      destruct (pop_front 0 (pw_ts x2)) as [ts0 ts'] eqn:Ep.
      eexists _, _, []. rewrite app_nil_r. split; [reflexivity|]. exact HB.
  - pose proof (jp_pools _ _ _ _ (j_p _ _ _ _ _ _ _ _ HJ)) as Hpools. pose proof (jp_cur _ _ _ _ (j_p _ _ _ _ _ _ _ _ HJ)) as Hcur.
    destruct Hpost as (k & Hk & Hl & Est & Htask & Hdead & Htp & Hnil & Hts).
    rewrite Hk, Est. unfold k_dead_mark. rewrite Hk.
    destruct (k_change (upd_worker x2 w (with_dead k)) w (Complete (-1))) as [x3 e3] eqn:Ekc.
    eexists _, _, _. split; [reflexivity|].
    eapply (k_change_B _ _ _ _ _ b _ _ Ekc); [discriminate|].
    eapply BI_tids; [exact HB|]. autorewrite with pw. unfold get_worker in Hk. eapply tids_same_set; [exact Hk | reflexivity].
  Unshelve. all: try exact Hpools; try exact Hcur.
Qed.

Lemma k_resume_B tnt x d w t b :
  J mx kp tnt x d (Some w) t -> quiet_off t -> G mx x (Some w) -> parked_ok x w -> ~ In w (pw_cancel_cos x) -> pw_ts x = [] ->
  BI (pw_workers x) b ->
  exists x' r evs, k_resume x w = (x', r, evs) /\ BI (pw_workers x') (fold_left by_ev evs b).
Proof.
  intros HJ Hq HG (k & m & Hk & Hl & Hdead & Htp & Hres & Hpm & Hbody) Hncc Hts HB.
  set (xd := k_defect x w).
  assert (J mx kp tnt xd d (Some w) t /\ get_worker xd w = Some k /\ G mx xd (Some w) /\ pw_cancel_cos xd = pw_cancel_cos x /\
          pw_ts xd = [] /\ pw_clock xd = pw_clock x /\ pw_workers xd = pw_workers x) as (HJd & Hkd & HGd & Eccd & Htsd & Ecd & Ewd).
  { unfold xd, k_defect. destruct (Nat.eqb _ _); [auto 10|].
    split; [apply J_add_defect, HJ|]. split; [exact Hk|]. split; [|auto 10].
    eapply (G_frame mx x); [reflexivity | reflexivity | reflexivity | exact HG]. }
  rewrite (k_resume_eq x w k Hkd). cbv zeta. fold xd.
  assert (forall x1 ev1 m1,
            J mx kp tnt x1 d (Some w) (fold_left pev ev1 t) -> G mx x1 (Some w) -> pw_cancel_cos x1 = pw_cancel_cos x ->
            pw_ts x1 = [] -> BI (pw_workers x1) (fold_left by_ev ev1 b) ->
            forall k1, get_worker x1 w = Some k1 -> live k1 = true -> k_dead k1 = false -> k_tpool k1 = 0%nat ->
            imode (k_st k1) = Some m1 -> match k_task k1 with Some (_, rest) => body_from m1 rest = true | None => m1 = MRun end ->
            exists x' r evs, (let '(x2, ev2, out) := wloop (wfuel x1) x1 w ev1 in k_finish x2 w ev2 out) = (x', r, evs) /\
                             BI (pw_workers x') (fold_left by_ev evs b)) as Htail.
  { intros x1 ev1 m1 HJ1 HG1 Ecc1 Hts1 HB1 k1 Hk1 Hl1 Hd1 Htp1 Him1 Hb1.
    assert (hole_ok x1 w) as Hh1 by (eapply hole_ok_intro; eassumption).
    assert (~ In w (pw_cancel_cos x1)) as Hncc1 by (rewrite Ecc1; exact Hncc).
    destruct (wloop_J mx kp (wfuel x1) tnt x1 d w ev1 (fold_left pev ev1 t) HJ1 (quiet_off_fold _ _ Hq) HG1 Hh1 Hncc1 Hts1)
      as (x2 & evs & out & Ew & HJ2 & HG2 & Ecc2 & _ & Hc2 & Hpost & _).
    destruct (wloop_BI mx kp (wfuel x1) tnt x1 d w ev1 (fold_left pev ev1 t) (fold_left by_ev ev1 b) HJ1 (quiet_off_fold _ _ Hq) HG1 Hh1 Hncc1 Hts1 HB1)
      as (x2' & evsb & out' & Ewb & HB2).
    rewrite Ew in Ewb. injection Ewb as <- Eev <-. apply app_inv_head in Eev. subst evsb.
    rewrite Ew.
    destruct (k_finish_B tnt x2 d w (fold_left pev evs (fold_left pev ev1 t)) (fold_left by_ev evs (fold_left by_ev ev1 b)) (ev1 ++ evs) out HJ2 Hpost HB2)
      as (x' & r & evs' & Ef & HB').
    exists x', r, ((ev1 ++ evs) ++ evs'). split; [exact Ef|]. rewrite !fold_left_app. exact HB'. }
  pose proof (jp_pools _ _ _ _ (j_p _ _ _ _ _ _ _ _ HJd)) as Hpools. pose proof (jp_cur _ _ _ _ (j_p _ _ _ _ _ _ _ _ HJd)) as Hcur.
  assert (BI (pw_workers xd) b) as HBd by (rewrite Ewd; exact HB).
  destruct Hres as [Est|[(y & ts & Est & Hle)|(y & n & Est)]]; rewrite Est in *.
  - cbn [tr_running].
    destruct (J_k_change mx kp tnt xd d w t k Running HJd Hq Hkd Hl ltac:(discriminate))
      as (x1 & Ekc & HJ1 & Hm1 & Hk1 & _ & HG1b & _).
    pose proof (k_change_B _ _ _ _ _ b Hpools Hcur Ekc ltac:(discriminate) HBd) as HB1.
    rewrite Ekc, Hdead. rewrite Est. destruct Hm1 as [M1 M2 M3 M4 M5 M6].
    eapply (Htail x1 _ MRun); [exact HJ1 | apply HG1b; auto | congruence | congruence | exact HB1 | exact Hk1 | reflexivity | exact Hdead | exact Htp | reflexivity|].
    cbn [with_st k_task]. cbn [pmode] in Hpm. injection Hpm as <-. destruct (k_task k) as [[i rest]|]; [exact Hbody | apply Hbody].
  - cbn [tr_running]. rewrite Ecd. assert (ts <=? pw_clock x = true) as -> by lia.
    destruct (J_k_change mx kp tnt xd d w t k Running HJd Hq Hkd Hl ltac:(discriminate))
      as (x1 & Ekc & HJ1 & Hm1 & Hk1 & _ & HG1b & _).
    pose proof (k_change_B _ _ _ _ _ b Hpools Hcur Ekc ltac:(discriminate) HBd) as HB1.
    rewrite Ekc, Hdead. rewrite Est. destruct Hm1 as [M1 M2 M3 M4 M5 M6].
    eapply (Htail x1 _ MRun); [exact HJ1 | apply HG1b; auto | congruence | congruence | exact HB1 | exact Hk1 | reflexivity | exact Hdead | exact Htp | reflexivity|].
    cbn [with_st k_task]. cbn [pmode] in Hpm. injection Hpm as <-. destruct (k_task k) as [[i rest]|]; [exact Hbody | apply Hbody].
  - cbn [tr_running]. rewrite Hdead. cbn [pmode] in Hpm. injection Hpm as <-.
    eapply (Htail xd [] (MWoken n)); [exact HJd | exact HGd | exact Eccd | exact Htsd | exact HBd | exact Hkd | exact Hl | exact Hdead | exact Htp | rewrite Est; reflexivity|].
    destruct (k_task k) as [[i rest]|]; [exact Hbody|]. destruct Hbody as [Hb _]. discriminate.
Qed.

End ByPass.
