(** The simulation invariant along a whole history, and the oracle's verdict on the model's own run. *)
From OCV Require Import Base.Prelude Misc.Time Queue.PMap Queue.OWS Queue.OWSOracle Queue.OWSLemmas Queue.OWSModel Queue.OWSStep.
From OCV Require Import Coroutine.Co Coroutine.CoOracle Coroutine.CoLemmas Sched.Sched Sched.Pool Sched.PoolOracle Sched.PoolBase Sched.PoolWf Sched.PoolQ Sched.PoolJ Sched.PoolJLemmas Sched.PoolCanon Sched.PoolUnfold Sched.PoolJStep Sched.PoolJLoop Sched.PoolJPass Sched.PoolJHole Sched.PoolJSched Sched.PoolJOps Sched.PoolCount Sched.PoolJOps2.
From Coq Require Import ZifyBool ZifyNat.
Open Scope Z_scope.

(** * one operation *)
Lemma op_step mx kp tnt x t o :
  Jop mx kp tnt x t -> op_ok x o = true ->
  let x' := fst (pstep x o) in let ob := snd (pstep x o) in let t' := postep 1 [mx] t o ob in
  if is_div ob then F3 t' else Jop mx kp (tnt || negb (stop_clause t o ob)) x' t'.
Proof.
  intros HJ Hok. destruct o as [p body prio|p dl|p i|p i|p i|i|p dur|p|p|p|c]; cbn [op_ok] in Hok;
    try (apply andb_true_iff in Hok as [Hp Hok]); try (apply Nat.eqb_eq in Hp; subst p); try (apply Nat.eqb_eq in Hok; subst p).
  - cbv zeta. replace (is_div (snd (pstep x (PSubmit 0 body prio)))) with false.
    + cbn [stop_clause negb]. rewrite orb_false_r. apply op_submit; assumption.
    + cbn [pstep]. destruct (p_state (get_pool x 0)); reflexivity.
  - replace (stop_clause t (PPass 0 dl) (snd (pstep x (PPass 0 dl)))) with true by (destruct (snd (pstep x (PPass 0 dl))); reflexivity).
    cbn [negb]. rewrite orb_false_r. apply op_pass, HJ.
  - apply Nat.ltb_lt in Hok. cbv zeta. replace (is_div (snd (pstep x (PWait 0 i)))) with false.
    + replace (stop_clause t (PWait 0 i) (snd (pstep x (PWait 0 i)))) with true by (destruct (snd (pstep x (PWait 0 i))); reflexivity).
      cbn [negb]. rewrite orb_false_r. apply op_wait; assumption.
    + cbn [pstep]. destruct (pwait x 0 i) as [x' r]. reflexivity.
  - apply Nat.ltb_lt in Hok. cbv zeta. replace (is_div (snd (pstep x (PTake 0 i)))) with false.
    + replace (stop_clause t (PTake 0 i) (snd (pstep x (PTake 0 i)))) with true by (destruct (snd (pstep x (PTake 0 i))); reflexivity).
      cbn [negb]. rewrite orb_false_r. apply op_take; assumption.
    + cbn [pstep]. destruct (take x 0 i) as [x' [r|]]; reflexivity.
  - apply Nat.ltb_lt in Hok. cbv zeta. cbn [pstep snd is_div stop_clause negb]. rewrite orb_false_r. apply op_clean; assumption.
  - apply Nat.ltb_lt in Hok. cbv zeta. cbn [pstep snd is_div stop_clause negb]. rewrite orb_false_r. apply op_cancel; assumption.
  - apply op_stop, HJ.
  - cbv zeta. cbn [pstep snd is_div stop_clause negb]. rewrite orb_false_r. apply op_getrunning, HJ.
  - cbv zeta. cbn [pstep snd is_div stop_clause negb]. rewrite orb_false_r. apply op_size, HJ.
  - cbv zeta. cbn [pstep snd is_div stop_clause negb]. rewrite orb_false_r. apply op_getstate, HJ.
  - cbv zeta. cbn [pstep snd is_div stop_clause negb]. rewrite orb_false_r. apply op_clock; [exact HJ | lia | lia].
Qed.

(** * the initial state *)
Lemma all_items_add1 cap : all_items (add_handles 1 (OWS.init 1 cap)) = [].
Proof.
  cbn [add_handles]. destruct (new_handle_spec 1 cap _ (OWSInv.Inv_init 1 cap)) as (_ & -> & _). reflexivity.
Qed.

Definition potr0 (clock : Z) (n : nat) : potr :=
  {| po_clock := clock; po_tasks := []; po_workers := []; po_pools := repeat ptrk0 n;
     po_c01 := true; po_c02 := true; po_c11 := true; po_c12 := true; po_c13 := true |}.

Lemma Jop_init clock cfg :
  cfg_ok clock cfg = true -> Jop (snd (fst cfg)) (snd cfg) false (pw0 clock [cfg]) (potr0 clock 1).
Proof.
  destruct cfg as [[mn mx] keep]. unfold cfg_ok. cbn [fst snd]. intro H.
  apply andb_true_iff in H as [H H4]. apply andb_true_iff in H as [H H3]. apply andb_true_iff in H as [H1 H2].
  split; [|reflexivity].
  assert (all_items (pw_tq (pw0 clock [(mn, mx, keep)])) = []) as Etq by apply all_items_add1.
  assert (all_items (pw_cq (pw0 clock [(mn, mx, keep)])) = []) as Ecq by apply all_items_add1.
  constructor; rewrite ?Etq, ?Ecq.
  - constructor; apply Q1_init.
  - constructor.
    + intros w k Hn. destruct w; discriminate.
    + intros w Hw. discriminate.
    + intros z [].
    + intros ts w [].
    + intros ts w [].
    + split; [constructor | intros w []].
  - constructor; cbn; try reflexivity; try lia.
    split; [reflexivity|]. split; [lia|]. split; [|lia]. intros w k Hn. destruct w; discriminate.
  - constructor; cbn; try reflexivity; try discriminate; try lia. split; discriminate.
  - constructor.
    + reflexivity.
    + intros z [].
    + cbn. intros i Hi. lia.
    + intros w k i rest Hn. destruct w; discriminate.
    + intros w w' k k' i r r' Hn. destruct w; discriminate.
    + intros w k Hn. destruct w; discriminate.
    + cbn. intros i Hi. lia.
    + intros i [].
    + intros i [].
    + intros w k i rest Hn. destruct w; discriminate.
    + constructor.
    + intros i w k [].
    + intros i w [].
    + intros w k i rest Hn. destruct w; discriminate.
    + intros w k i rest Hn. destruct w; discriminate.
    + intros i. unfold tkn. destruct i; cbn; discriminate.
    + intros i [].
    + intros w k i rest Hn. destruct w; discriminate.
    + intros i r. unfold tkn. destruct i; cbn; discriminate.
    + constructor.
    + intros v [].
  - constructor.
    + constructor.
    + constructor.
    + intros i r [].
    + intros i. unfold tkn. destruct i; cbn; congruence.
    + cbn. intros i Hi. lia.
    + intros i [].
    + intros i [].
    + intros i. unfold tkn. destruct i; cbn; discriminate.
  - constructor; cbn; try reflexivity. intro w. unfold wst. destruct w; reflexivity.
Qed.

(** * the whole history *)
Fixpoint stops_prompt (mx : Z) (x : pw) (t : potr) (ops : list pop) : bool :=
  match ops with
  | [] => true
  | o :: r =>
      let x' := fst (pstep x o) in let ob := snd (pstep x o) in
      stop_clause t o ob && (if is_div ob then true else stops_prompt mx x' (postep 1 [mx] t o ob) r)
  end.

Definition nodiv (x : pw) (ops : list pop) : bool := forallb (fun ob => negb (is_div ob)) (prun x ops).

Lemma prun_cons x o r : prun x (o :: r) = snd (pstep x o) :: prun (fst (pstep x o)) r.
Proof. cbn [prun]. destruct (pstep x o) as [x' ob]. reflexivity. Qed.

Lemma cut_div_cons ob l : cut_div (ob :: l) = if is_div ob then [ob] else ob :: cut_div l.
Proof. destruct ob as [ok|r e|r|r e|n|s|]; try reflexivity; destruct r; reflexivity. Qed.

Lemma porun_cons n maxes t o r ob l :
  porun n maxes t (o :: r) (ob :: l) =
  if is_div ob then (postep n maxes t o ob, is_nil l) else porun n maxes (postep n maxes t o ob) r l.
Proof. cbn [porun]. destruct ob as [ok|rr e|rr|rr e|nn|s|]; try reflexivity; destruct rr; reflexivity. Qed.

Lemma run_J mx kp : forall ops x t tnt,
  Jop mx kp tnt x t -> hist_okp x ops = true ->
  let res := porun 1 [mx] t ops (cut_div (prun x ops)) in
  snd res = true /\ F3 (fst res) /\
  (nodiv x ops = true ->
   po_c01 (fst res) = true /\ (tnt = false -> stops_prompt mx x t ops = true -> po_c11 (fst res) = true)).
Proof.
  induction ops as [|o r IH]; intros x t tnt HJ Hok; cbv zeta.
  - cbn [prun cut_div porun fst snd]. destruct HJ as [HJ _]. pose proof (j_w _ _ _ _ _ _ _ _ HJ) as [W1 W2 W3 W4 W5 W6].
    split; [reflexivity|]. split; [unfold F3; auto|]. intros _. split; [exact W3|]. intros Ht _. apply W4, Ht.
  - cbn [hist_okp] in Hok. apply andb_true_iff in Hok as [Hok1 Hok2].
    pose proof (op_step mx kp tnt x t o HJ Hok1) as Hstep. cbv zeta in Hstep.
    rewrite prun_cons, cut_div_cons. unfold nodiv. rewrite prun_cons. cbn [forallb stops_prompt].
    set (x' := fst (pstep x o)) in *. set (ob := snd (pstep x o)) in *. set (t' := postep 1 [mx] t o ob) in *.
    destruct (is_div ob) eqn:Ediv.
    + rewrite porun_cons, Ediv. cbn [fst snd is_nil negb andb]. split; [reflexivity|]. split; [exact Hstep|]. discriminate.
    + rewrite porun_cons, Ediv. cbn [negb andb].
      destruct (IH x' t' _ Hstep Hok2) as (H1 & H2 & H3). cbv zeta in H1, H2, H3.
      split; [exact H1|]. split; [exact H2|]. intro Hnd. destruct (H3 Hnd) as [H4 H5]. split; [exact H4|].
      intros Ht Hsp. apply andb_true_iff in Hsp as [Hs1 Hs2]. apply H5; [rewrite Ht, Hs1; reflexivity | exact Hs2].
Qed.
