(** Invariant I1: the state of every pool is monotone (PRunning -> PStopping -> PStopped) along any
    history of the pool model, for any number of pools and any operation arguments. *)
From OCV Require Import Base.Prelude Misc.Time Queue.PMap Queue.OWS Coroutine.Co Coroutine.CoLemmas Sched.Sched Sched.Pool Sched.PoolBase.
From Coq Require Import ZifyBool ZifyNat.
Open Scope Z_scope.

Definition prank (s : pstate) : nat := match s with PRunning => 0 | PStopping => 1 | PStopped => 2 end.

(** * 1. A generic invariant principle for the generic scheduler *)
Section GenericInv.
  Variable X : Type.
  Variable x_clock : X -> Z.
  Variable x_state : X -> nat -> option cstate.
  Variable x_change : X -> nat -> cstate -> X * list ev.
  Variable x_resume : X -> nat -> X * res * list ev.
  Variable x_push : X -> nat -> X.
  Variable x_pop : X -> X * option nat.
  Variable x_cancelled : X -> nat -> bool.
  Variable x_uncancel : X -> nat -> X.

  Variable P : X -> Prop.
  Hypothesis P_change : forall x i s, P x -> P (fst (x_change x i s)).
  Hypothesis P_resume : forall x i, P x -> P (fst (fst (x_resume x i))).
  Hypothesis P_push : forall x i, P x -> P (x_push x i).
  Hypothesis P_pop : forall x, P x -> P (fst (x_pop x)).
  Hypothesis P_uncancel : forall x i, P x -> P (x_uncancel x i).

  Definition cres_inv (r : cres X) : Prop :=
    match r with COk _ x _ _ => P x | CErr _ x _ _ => P x | CPanic _ x _ _ => P x end.

  Lemma co_ready_inv : forall x i,
    P x -> match co_ready X x_clock x_state x_change x i with Some (x', _) => P x' | None => True end.
  Proof.
    intros x i HP. unfold co_ready.
    destruct (x_state x i) as [s|]; [|exact I].
    destruct (tr_ready (x_clock x) s) as [[new|]|]; [|exact HP|exact I].
    generalize (P_change x i new HP). destruct (x_change x i new) as [x' e]. cbn [fst]. intro H. exact H.
  Qed.

  Lemma check_suspend_inv : forall fuel x d acc,
    P x -> cres_inv (check_suspend X x_clock x_state x_change x_push fuel x d acc).
  Proof.
    induction fuel as [|f IH]; intros x d acc HP; cbn [check_suspend]; [exact HP|].
    destruct (heap_min (sd_suspend d)) as [[ts i]|]; [|exact HP].
    destruct (x_clock x <? ts); [exact HP|].
    generalize (co_ready_inv x i HP).
    destruct (co_ready X x_clock x_state x_change x i) as [[x2 e]|]; intro H2; [|exact HP].
    apply IH. apply P_push. exact H2.
  Qed.

  Lemma check_sys_inv : forall fuel x d acc,
    P x -> cres_inv (check_sys X x_clock x_state x_change x_push fuel x d acc).
  Proof.
    induction fuel as [|f IH]; intros x d acc HP; cbn [check_sys]; [exact HP|].
    destruct (heap_min (sd_sys_suspend d)) as [[ts i]|]; [|exact HP].
    destruct (x_clock x <? ts); [exact HP|].
    cbn [sd_syscall sd_suspend sd_sys_suspend sd_gone].
    destruct (mem_nat i (sd_syscall d)); [|apply IH; exact HP].
    destruct (x_state x i) as [s|]; [|exact HP].
    destruct s as [| | | y n st | | |]; try exact HP.
    destruct st as [| tt | |]; try exact HP.
    generalize (P_change x i (Syscall y n STimeout) HP).
    destruct (x_change x i (Syscall y n STimeout)) as [x' e]. cbn [fst]. intro H'.
    apply IH. apply P_push. exact H'.
  Qed.

  Lemma check_ready_inv : forall x d acc,
    P x -> cres_inv (check_ready X x_clock x_state x_change x_push x d acc).
  Proof.
    intros x d acc HP. unfold check_ready.
    generalize (check_suspend_inv (S (length (sd_suspend d))) x d acc HP).
    destruct (check_suspend X x_clock x_state x_change x_push (S (length (sd_suspend d))) x d acc) as [x1 d1 acc1|x1 d1 acc1|x1 d1 acc1];
      cbn [cres_inv]; intro H1; [|exact H1|exact H1].
    apply check_sys_inv. exact H1.
  Qed.

  Lemma do_schedule_inv : forall fuel x d deadline results acc,
    P x ->
    P (fst (fst (fst (do_schedule X x_clock x_state x_change x_resume x_push x_pop x_cancelled x_uncancel
                                  fuel x d deadline results acc)))).
  Proof.
    induction fuel as [|f IH]; intros x d deadline results acc HP; cbn [do_schedule]; [exact HP|].
    destruct (sat_sub deadline (x_clock x) =? 0); [exact HP|].
    generalize (check_ready_inv x d acc HP).
    destruct (check_ready X x_clock x_state x_change x_push x d acc) as [x1 d1 acc1|x1 d1 acc1|x1 d1 acc1];
      cbn [cres_inv]; intro H1; [|exact H1|exact H1].
    generalize (P_pop x1 H1). destruct (x_pop x1) as [x2 [i|]]; cbn [fst]; intro H2; [|exact H2].
    destruct (x_cancelled x2 i).
    - generalize (P_change (x_uncancel x2 i) i Cancelled (P_uncancel x2 i H2)).
      destruct (x_change (x_uncancel x2 i) i Cancelled) as [x3 e]. cbn [fst]. intro H3.
      apply IH. exact H3.
    - generalize (P_resume x2 i H2). destruct (x_resume x2 i) as [[x3 r] e]. cbn [fst]. intro H3.
      destruct r as [s| | | |]; try exact H3.
      destruct s as [| | y ts | y n st | | v | m]; try exact H3; try (apply IH; exact H3).
      destruct (x_clock x3 <? ts); apply IH; [exact H3 | apply P_push; exact H3].
  Qed.
End GenericInv.


(** * 2. Everything except [pstop] leaves the state of every pool unchanged *)

Definition same_states (x x' : pw) : Prop := forall p, p_state (get_pool x' p) = p_state (get_pool x p).

Lemma ss_refl x : same_states x x.
Proof. intro p. reflexivity. Qed.

Lemma ss_trans x y z : same_states x y -> same_states y z -> same_states x z.
Proof. intros Hxy Hyz p. rewrite (Hyz p). apply Hxy. Qed.

Lemma ss_pools x y : pw_pools y = pw_pools x -> same_states x y.
Proof. intros E p. unfold get_pool. rewrite E. reflexivity. Qed.

Lemma ss_upd_pool x p f : (forall q, p_state (f q) = p_state q) -> same_states x (upd_pool x p f).
Proof.
  intros Hf i. destruct (Nat.eq_dec p i) as [E|Hne].
  - subst i. destruct (lt_dec p (length (pw_pools x))) as [Hlt|Hge].
    + rewrite get_pool_upd_pool_same by exact Hlt. apply Hf.
    + unfold get_pool at 1. rewrite upd_pool_out by lia. reflexivity.
  - rewrite get_pool_upd_pool_other by exact Hne. reflexivity.
Qed.

(** right extensions: one lemma per record update *)
Lemma ss_x_upd_pool x y p f : (forall q, p_state (f q) = p_state q) -> same_states x y -> same_states x (upd_pool y p f).
Proof. intros Hf H. eapply ss_trans; [exact H | apply ss_upd_pool, Hf]. Qed.
Lemma ss_x_pools x y z : pw_pools z = pw_pools y -> same_states x y -> same_states x z.
Proof. intros E H. eapply ss_trans; [exact H | apply ss_pools, E]. Qed.
Lemma ss_x_set_workers x y ws : same_states x y -> same_states x (set_workers y ws).
Proof. apply ss_x_pools. reflexivity. Qed.
Lemma ss_x_set_tq x y q : same_states x y -> same_states x (set_tq y q).
Proof. apply ss_x_pools. reflexivity. Qed.
Lemma ss_x_set_cq x y q : same_states x y -> same_states x (set_cq y q).
Proof. apply ss_x_pools. reflexivity. Qed.
Lemma ss_x_set_clockp x y c : same_states x y -> same_states x (set_clockp y c).
Proof. apply ss_x_pools. reflexivity. Qed.
Lemma ss_x_set_req x y ts cn : same_states x y -> same_states x (set_req y ts cn).
Proof. apply ss_x_pools. reflexivity. Qed.
Lemma ss_x_set_cur x y p : same_states x y -> same_states x (set_cur y p).
Proof. apply ss_x_pools. reflexivity. Qed.
Lemma ss_x_set_globals x y ct cc rt : same_states x y -> same_states x (set_globals y ct cc rt).
Proof. apply ss_x_pools. reflexivity. Qed.
Lemma ss_x_set_spin x y : same_states x y -> same_states x (set_spin y).
Proof. apply ss_x_pools. reflexivity. Qed.
Lemma ss_x_add_defect x y d : same_states x y -> same_states x (add_defect y d).
Proof. apply ss_x_pools. reflexivity. Qed.
Lemma ss_x_upd_worker x y w k : same_states x y -> same_states x (upd_worker y w k).
Proof. apply ss_x_pools. reflexivity. Qed.
Lemma ss_x_notify x y p t : same_states x y -> same_states x (notify y p t).
Proof. intro H. unfold notify. apply ss_x_upd_pool; [intro q; reflexivity | exact H]. Qed.

(** the structural part of the proofs: peel record updates off the right-hand side *)
Ltac ss_peel1 :=
  lazymatch goal with
  | |- same_states ?x ?x => apply ss_refl
  | H : same_states ?x ?y |- same_states ?x ?y => exact H
  | |- same_states _ (set_workers _ _) => apply ss_x_set_workers
  | |- same_states _ (set_tq _ _) => apply ss_x_set_tq
  | |- same_states _ (set_cq _ _) => apply ss_x_set_cq
  | |- same_states _ (set_clockp _ _) => apply ss_x_set_clockp
  | |- same_states _ (set_req _ _ _) => apply ss_x_set_req
  | |- same_states _ (set_cur _ _) => apply ss_x_set_cur
  | |- same_states _ (set_globals _ _ _ _) => apply ss_x_set_globals
  | |- same_states _ (set_spin _) => apply ss_x_set_spin
  | |- same_states _ (add_defect _ _) => apply ss_x_add_defect
  | |- same_states _ (upd_worker _ _ _) => apply ss_x_upd_worker
  | |- same_states _ (notify _ _ _) => apply ss_x_notify
  | |- same_states _ (upd_pool _ _ _) => apply ss_x_upd_pool; [intro; reflexivity|]
  end.
Ltac ss_peel := repeat ss_peel1.

Lemma try_grow_same_states : forall x p, same_states x (try_grow x p).
Proof.
  intros x p. unfold try_grow.
  destruct (full_len (pw_tq x) =? 0); [apply ss_refl|].
  destruct (p_max (get_pool x p) <=? p_running (get_pool x p)); [apply ss_refl|].
  cbv zeta. ss_peel. apply ss_pools. reflexivity.
Qed.

Lemma ss_x_try_grow x y p : same_states x y -> same_states x (try_grow y p).
Proof. intro H. eapply ss_trans; [exact H | apply try_grow_same_states]. Qed.

Lemma creator_same_states : forall x new, same_states x (creator x new).
Proof.
  intros x new. unfold creator. cbv zeta.
  destruct new; first [apply ss_refl | apply ss_x_try_grow; ss_peel | ss_peel].
Qed.

Lemma k_change_same_states : forall x w new, same_states x (fst (k_change x w new)).
Proof.
  intros x w new. unfold k_change.
  destruct (get_worker x w) as [k|]; cbn [fst]; [|apply ss_refl].
  cbv zeta. cbn [fst]. eapply ss_trans; [|apply creator_same_states]. ss_peel.
Qed.

Definition fin_pw (r : fin) : pw := match r with FinOk x => x | FinPanic x => x end.

Lemma finish_task_same_states : forall x p t r, same_states x (fin_pw (finish_task x p t r)).
Proof.
  intros x p t r. unfold finish_task.
  assert (H0 : same_states x (if Nat.eqb (nth t (pw_tpool x) p) p then x else add_defect x defect_result_elsewhere))
    by (destruct (Nat.eqb (nth t (pw_tpool x) p) p); ss_peel).
  revert H0. generalize (if Nat.eqb (nth t (pw_tpool x) p) p then x else add_defect x defect_result_elsewhere).
  intros x0 H0. cbv zeta.
  destruct (mem_nat t _); cbn [fin_pw]; [ss_peel|].
  destruct (assoc_get t _); cbn [fin_pw]; ss_peel.
Qed.

Lemma finish_task_same_states_FinOk : forall x p t r x', finish_task x p t r = FinOk x' -> same_states x x'.
Proof. intros x p t r x' E. generalize (finish_task_same_states x p t r). rewrite E. exact (fun H => H). Qed.
Lemma finish_task_same_states_FinPanic : forall x p t r x', finish_task x p t r = FinPanic x' -> same_states x x'.
Proof. intros x p t r x' E. generalize (finish_task_same_states x p t r). rewrite E. exact (fun H => H). Qed.

(** generic case analysis on the scrutinee at the head of the right-hand side; the scrutinees
    that are themselves calls of the model bring their own lemma *)
Ltac ss_case e :=
  lazymatch e with
  | finish_task ?x ?p ?t ?r =>
      let H := fresh "Hfin" in
      generalize (finish_task_same_states x p t r); destruct e; cbn [fin_pw]; intro H
  | k_change ?x ?w ?n =>
      let H := fresh "Hchg" in
      generalize (k_change_same_states x w n); destruct e as [? ?]; cbn [fst]; intro H
  | _ => destruct e
  end.

Ltac ss_head :=
  lazymatch goal with
  | |- same_states _ (match ?e with _ => _ end) => ss_case e
  | |- same_states _ (fst (match ?e with _ => _ end)) => ss_case e
  | |- same_states _ (fst (fst (match ?e with _ => _ end))) => ss_case e
  | |- same_states _ (if ?e then _ else _) => ss_case e
  | |- same_states _ (fst (if ?e then _ else _)) => ss_case e
  | |- same_states _ (fst (fst (if ?e then _ else _))) => ss_case e
  end.

(** close [same_states x z] through a hypothesis [same_states y z] *)
Ltac ss_via :=
  lazymatch goal with
  | H : same_states ?y ?z |- same_states _ ?z => apply (ss_trans _ y z); [|exact H]
  end.

Ltac ss_go := repeat first [ progress cbn [fst snd] | ss_peel1 | ss_head | ss_via ].

Lemma wloop_same_states : forall fuel x w acc, same_states x (fst (fst (wloop fuel x w acc))).
Proof.
  induction fuel as [|f IH]; intros x w acc; cbn [wloop]; [apply ss_refl|].
  repeat first
    [ progress cbn [fst snd] | ss_peel1 | ss_head | ss_via
    | lazymatch goal with
      | |- same_states ?x0 (fst (fst (wloop f ?y _ _))) => apply (ss_trans x0 y); [|apply IH]
      end ].
Qed.

Ltac ss_case2 e :=
  lazymatch e with
  | match ?e' with _ => _ end => ss_case2 e'
  | wloop ?f ?x ?w ?a =>
      let H := fresh "Hwl" in
      generalize (wloop_same_states f x w a); destruct e as [[? ?] ?]; cbn [fst]; intro H
  | _ => ss_case e
  end.

Ltac ss_head2 :=
  lazymatch goal with
  | |- same_states _ (match ?e with _ => _ end) => ss_case2 e
  | |- same_states _ (fst (match ?e with _ => _ end)) => ss_case2 e
  | |- same_states _ (fst (fst (match ?e with _ => _ end))) => ss_case2 e
  | |- same_states _ (if ?e then _ else _) => ss_case2 e
  | |- same_states _ (fst (if ?e then _ else _)) => ss_case2 e
  | |- same_states _ (fst (fst (if ?e then _ else _))) => ss_case2 e
  end.

Ltac ss_go2 := repeat first [ progress cbn [fst snd] | ss_peel1 | ss_head2 | ss_via ].

Lemma k_resume_same_states : forall x w, same_states x (fst (fst (k_resume x w))).
Proof.
  intros x w. unfold k_resume.
  assert (H0 : same_states x (if Nat.eqb (nth w (pw_wpool x) (pw_cur x)) (pw_cur x) then x else add_defect x defect_stolen_worker))
    by (destruct (Nat.eqb (nth w (pw_wpool x) (pw_cur x)) (pw_cur x)); ss_peel).
  revert H0. generalize (if Nat.eqb (nth w (pw_wpool x) (pw_cur x)) (pw_cur x) then x else add_defect x defect_stolen_worker).
  intros x0 H0. cbv zeta. apply (ss_trans x x0); [exact H0|]. clear H0.
  ss_go2.
Qed.

Lemma k_push_same_states : forall p x w, same_states x (k_push p x w).
Proof. intros p x w. unfold k_push. ss_peel. Qed.

Lemma k_pop_same_states : forall p x, same_states x (fst (k_pop p x)).
Proof. intros p x. unfold k_pop. ss_go. Qed.

Lemma k_uncancel_same_states : forall x w, same_states x (k_uncancel x w).
Proof. intros x w. unfold k_uncancel. ss_peel. Qed.

Lemma ppass_same_states : forall x p dl, same_states x (fst (fst (ppass x p dl))).
Proof.
  intros x p dl. unfold ppass.
  assert (Hds : forall x1 d, same_states x x1 ->
            same_states x (fst (fst (fst (do_schedule pw pw_clock k_state k_change k_resume (k_push p) (k_pop p)
                                                      k_cancelled k_uncancel (pass_fuel_p x1) x1 d dl [] []))))).
  { intros x1 d H1.
    apply (do_schedule_inv pw pw_clock k_state k_change k_resume (k_push p) (k_pop p) k_cancelled k_uncancel
                           (same_states x)); [| | | | |exact H1].
    - intros y i s Hy. eapply ss_trans; [exact Hy | apply k_change_same_states].
    - intros y i Hy. eapply ss_trans; [exact Hy | apply k_resume_same_states].
    - intros y i Hy. eapply ss_trans; [exact Hy | apply k_push_same_states].
    - intros y Hy. eapply ss_trans; [exact Hy | apply k_pop_same_states].
    - intros y i Hy. eapply ss_trans; [exact Hy | apply k_uncancel_same_states]. }
  destruct (p_state (get_pool x p)); cbv zeta; cbn [fst]; [| |apply ss_refl].
  - generalize (Hds (set_cur (try_grow x p) p) (p_sd (get_pool (set_cur (try_grow x p) p) p))
                    (ss_x_set_cur _ _ p (try_grow_same_states x p))).
    destruct (do_schedule pw pw_clock k_state k_change k_resume (k_push p) (k_pop p) k_cancelled k_uncancel
                          (pass_fuel_p (set_cur (try_grow x p) p)) (set_cur (try_grow x p) p)
                          (p_sd (get_pool (set_cur (try_grow x p) p) p)) dl [] []) as [[[x2 d2] r] e].
    cbn [fst]. intro H2. ss_go.
  - generalize (Hds (set_cur (try_grow x p) p) (p_sd (get_pool (set_cur (try_grow x p) p) p))
                    (ss_x_set_cur _ _ p (try_grow_same_states x p))).
    destruct (do_schedule pw pw_clock k_state k_change k_resume (k_push p) (k_pop p) k_cancelled k_uncancel
                          (pass_fuel_p (set_cur (try_grow x p) p)) (set_cur (try_grow x p) p)
                          (p_sd (get_pool (set_cur (try_grow x p) p) p)) dl [] []) as [[[x2 d2] r] e].
    cbn [fst]. intro H2. ss_go.
Qed.

Lemma take_same_states : forall x p t, same_states x (fst (take x p t)).
Proof. intros x p t. unfold take. ss_go. Qed.

Lemma pwait_same_states : forall x p t, same_states x (fst (pwait x p t)).
Proof.
  intros x p t. unfold pwait. generalize (take_same_states x p t).
  destruct (take x p t) as [x1 [r|]]; cbn [fst]; intro H1; cbv zeta; ss_go.
Qed.

Lemma pclean_same_states : forall x p t, same_states x (pclean x p t).
Proof.
  intros x p t. unfold pclean. generalize (take_same_states x p t).
  destruct (take x p t) as [x1 [r|]]; cbn [fst]; intro H1; cbv zeta; ss_go.
Qed.

Lemma pcancel_same_states : forall x t, same_states x (pcancel x t).
Proof. intros x t. unfold pcancel. ss_go. Qed.

Lemma do_clean_fold_same_states : forall p l x y,
  same_states x y ->
  same_states x (fold_left (fun x t =>
                   notify (upd_pool x p (fun q => p_with_wait (p_waits q) (assoc_del t (p_results q) ++ [(t, TErr TMStopped)])
                                                              (p_nowaits q) q)) p t) l y).
Proof.
  intros p l. induction l as [|t l IH]; intros x y Hy; cbn [fold_left]; [exact Hy|].
  apply IH. ss_peel.
Qed.

Lemma do_clean_same_states : forall x p, same_states x (do_clean x p).
Proof. intros x p. unfold do_clean. apply do_clean_fold_same_states, ss_refl. Qed.

(** * 3. Monotonicity *)

Definition mono_states (x x' : pw) : Prop :=
  forall p, (prank (p_state (get_pool x p)) <= prank (p_state (get_pool x' p)))%nat.

Lemma ms_refl x : mono_states x x.
Proof. intro p. apply Nat.le_refl. Qed.

Lemma ms_trans x y z : mono_states x y -> mono_states y z -> mono_states x z.
Proof. intros Hxy Hyz p. eapply Nat.le_trans; [apply Hxy | apply Hyz]. Qed.

Lemma ss_ms x y : same_states x y -> mono_states x y.
Proof. intros H p. rewrite (H p). apply Nat.le_refl. Qed.

Lemma ms_upd_pool_state x p s :
  (prank (p_state (get_pool x p)) <= prank s)%nat -> mono_states x (upd_pool x p (p_with_state s)).
Proof.
  intros Hle i. destruct (Nat.eq_dec p i) as [E|Hne].
  - subst i. destruct (lt_dec p (length (pw_pools x))) as [Hlt|Hge].
    + rewrite get_pool_upd_pool_same by exact Hlt. rewrite p_state_p_with_state. exact Hle.
    + unfold get_pool at 2. rewrite upd_pool_out by lia. apply Nat.le_refl.
  - rewrite get_pool_upd_pool_other by exact Hne. apply Nat.le_refl.
Qed.

Lemma prank_le_stopped s : (prank s <= prank PStopped)%nat.
Proof. destruct s; cbn [prank]; lia. Qed.

Lemma stop_loop_mono : forall fuel x p dl acc, mono_states x (fst (fst (stop_loop fuel x p dl acc))).
Proof.
  induction fuel as [|f IH]; intros x p dl acc; cbn [stop_loop]; [apply ms_refl|].
  generalize (ppass_same_states x p dl). destruct (ppass x p dl) as [[x1 r] e]. cbn [fst]. intro H1.
  apply ss_ms in H1.
  destruct r as [l| | | |]; cbn [fst]; try exact H1.
  destruct ((p_running (get_pool x1 p) =? 0) || (sat_sub dl (pw_clock x1) =? 0)).
  - destruct (0 <? p_running (get_pool x1 p)); cbn [fst]; [exact H1|].
    apply (ms_trans x x1); [exact H1|].
    apply (ms_trans x1 (upd_pool x1 p (p_with_state PStopped))); [apply ms_upd_pool_state, prank_le_stopped|].
    apply ss_ms, do_clean_same_states.
  - apply (ms_trans x x1); [exact H1|].
    apply (ms_trans x1 (set_clockp x1 (sat_add64 (pw_clock x1) 1000000))); [apply ss_ms; ss_peel | apply IH].
Qed.

Lemma pstop_mono : forall x p dur, mono_states x (fst (fst (pstop x p dur))).
Proof.
  intros x p dur. unfold pstop.
  destruct (p_state (get_pool x p)) eqn:Est; cbv zeta; cbn [fst].
  - apply (ms_trans x (upd_pool x p (p_with_state PStopping))); [|apply stop_loop_mono].
    apply ms_upd_pool_state. rewrite Est. cbn [prank]. lia.
  - apply (ms_trans x (upd_pool x p (p_with_state PStopping))); [|apply stop_loop_mono].
    apply ms_upd_pool_state. rewrite Est. cbn [prank]. lia.
  - apply ss_ms, do_clean_same_states.
Qed.

Lemma pstep_mono : forall x o, mono_states x (fst (pstep x o)).
Proof.
  intros x o. destruct o as [p body prio|p dl|p t|p t|p t|t|p dur|p|p|p|c]; cbn [pstep].
  - destruct (p_state (get_pool x p)); cbv zeta; cbn [fst]; apply ss_ms, ss_pools; reflexivity.
  - generalize (ppass_same_states x p dl). destruct (ppass x p dl) as [[x' r] e]. cbn [fst]. intro H. apply ss_ms, H.
  - generalize (pwait_same_states x p t). destruct (pwait x p t) as [x' r]. cbn [fst]. intro H. apply ss_ms, H.
  - generalize (take_same_states x p t). destruct (take x p t) as [x' [r|]]; cbn [fst]; intro H; apply ss_ms, H.
  - cbn [fst]. apply ss_ms, pclean_same_states.
  - cbn [fst]. apply ss_ms, pcancel_same_states.
  - generalize (pstop_mono x p dur). destruct (pstop x p dur) as [[x' r] e]. cbn [fst]. intro H. exact H.
  - apply ms_refl.
  - apply ms_refl.
  - apply ms_refl.
  - cbn [fst]. apply ss_ms. ss_peel.
Qed.

Theorem pstep_state_mono : forall x o p,
  (prank (p_state (get_pool x p)) <= prank (p_state (get_pool (fst (pstep x o)) p)))%nat.
Proof. intros x o p. apply pstep_mono. Qed.

Theorem pfinal_state_mono : forall ops x p,
  (prank (p_state (get_pool x p)) <= prank (p_state (get_pool (pfinal x ops) p)))%nat.
Proof.
  induction ops as [|o ops IH]; intros x p; cbn [pfinal]; [apply Nat.le_refl|].
  eapply Nat.le_trans; [apply pstep_state_mono | apply IH].
Qed.

Corollary pfinal_stopped_stays : forall ops x p,
  p_state (get_pool x p) = PStopped -> p_state (get_pool (pfinal x ops) p) = PStopped.
Proof.
  intros ops x p H. generalize (pfinal_state_mono ops x p). rewrite H.
  destruct (p_state (get_pool (pfinal x ops) p)); cbn [prank]; intro Hle; [lia | lia | reflexivity].
Qed.

Corollary pfinal_not_running_stays : forall ops x p,
  p_state (get_pool x p) <> PRunning -> p_state (get_pool (pfinal x ops) p) <> PRunning.
Proof.
  intros ops x p H E. generalize (pfinal_state_mono ops x p). rewrite E.
  destruct (p_state (get_pool x p)); cbn [prank]; intro Hle; [apply H; reflexivity | lia | lia].
Qed.

Print Assumptions do_schedule_inv.
Print Assumptions ppass_same_states.
Print Assumptions pstep_state_mono.
Print Assumptions pfinal_state_mono.
