(** One resumption of a contract-abiding coroutine, in lock step with the oracle's tracker:
    the model's [resume] result and what [fold_left sev] makes of the emitted events. *)
From OCV Require Import Base.Prelude Misc.Time Queue.PMap Queue.OWS Coroutine.Co Coroutine.CoOracle
  Coroutine.CoLemmas Coroutine.CoExec Coroutine.CoResume
  Sched.Sched Sched.SchedOracle Sched.SchedWf Sched.SchedQueue Sched.SchedBase Sched.SchedTrk.
From Coq Require Import ZifyBool ZifyNat.
Open Scope Z_scope.

Definition runE (body : list instr) (t : thr) (i : nat) (c : co) : thr * res * list ev :=
  let '(t2, c2, ev2, out) := exec body t i c [] in finish (upd_co t2 i c2) i c2 ev2 out.

Definition pre_ev (p : list ev) (r : thr * res * list ev) : thr * res * list ev :=
  let '(t, x, e) := r in (t, x, p ++ e).

Lemma finish_pre t i c p evs out : finish t i c (p ++ evs) out = pre_ev p (finish t i c evs out).
Proof.
  unfold finish, pre_ev. destruct out as [y|v|k].
  - destruct (c_st c); try reflexivity.
    + destruct (pop_front false (t_cn t)) as [cancel cn']. destruct cancel.
      * unfold apply_change. rewrite app_assoc. reflexivity.
      * destruct (pop_front 0 (t_ts t)) as [ts ts']. unfold apply_change. rewrite app_assoc. reflexivity.
    + destruct (pop_front false (t_cn t)) as [? cn']. destruct (pop_front 0 (t_ts t)) as [? ts']. reflexivity.
  - destruct (tr_from_running (c_st c) (Complete v)); [unfold apply_change; rewrite app_assoc|]; reflexivity.
  - destruct (tr_from_running (c_st c) (Error (panic_msg k))); [unfold apply_change; rewrite app_assoc|]; reflexivity.
Qed.

Lemma runE_step ins rest t i c t' c' new :
  (forall acc, exec (ins :: rest) t i c acc = exec rest t' i c' (acc ++ new)) ->
  runE (ins :: rest) t i c = pre_ev new (runE rest t' i c').
Proof.
  intro H. unfold runE. rewrite H. cbn [app]. rewrite exec_acc.
  destruct (exec rest t' i c' []) as [[[t2 c2] ev2] out]. apply finish_pre.
Qed.

(** what one resumption ends in *)
Inductive rres (i : nat) (c' : co) (k' : strk) (blen : nat) : res -> list (nat * res) -> Prop :=
| RR_susp y ts :
    c_st c' = Suspend y ts -> (forall w, q_wake k' = Some w -> w = ts) -> q_fin k' = None ->
    bwf Running (c_body c') = true -> c_dead c' = false -> (length (c_body c') < blen)%nat ->
    rres i c' k' blen (ROk (Suspend y ts)) []
| RR_sys y n ts :
    c_st c' = Syscall y n (SSuspend ts) -> q_wake k' = None -> q_fin k' = None ->
    bwf (Syscall y n STimeout) (c_body c') = true -> c_dead c' = false -> (length (c_body c') < blen)%nat ->
    rres i c' k' blen (ROk (Syscall y n (SSuspend ts))) []
| RR_cancel :
    c_st c' = Cancelled -> q_fin k' = None -> rres i c' k' blen (ROk Cancelled) []
| RR_done r :
    (exists v, r = Complete v) \/ (exists m, r = Error m) -> c_st c' = r -> q_fin k' = Some (ROk r) ->
    rres i c' k' blen (ROk r) [(i, ROk r)].

Lemma rres_mono i c' k' n m r fa : rres i c' k' n r fa -> (n <= m)%nat -> rres i c' k' m r fa.
Proof.
  intros H Hle. destruct H.
  - eapply RR_susp; eauto; lia.
  - eapply RR_sys; eauto; lia.
  - apply RR_cancel; assumption.
  - apply RR_done; assumption.
Qed.

Definition run_post (i : nat) (ks : list strk) (fins : list (nat * res)) (clk : Z) (cos : list co) (nl : nat)
           (blen : nat) (out : thr * res * list ev) : Prop :=
  let '(T', r, evs) := out in
  exists c' k' clk' fa,
    fold_left sev evs (mkT clk ks, fins) = (mkT clk' (set_nth i k' ks), fins ++ fa) /\
    T' = {| t_clock := clk'; t_ts := []; t_cn := []; t_cos := set_nth i c' cos; t_nl := nl |} /\
    clk <= clk' <= U64MAX /\ q_st k' = c_st c' /\ q_mal k' = false /\ q_cancel k' = false /\
    rres i c' k' blen r fa.

Definition run_pre (i : nat) (ks : list strk) (clk : Z) (t : thr) (c : co) (body : list instr) : Prop :=
  (i < length ks)%nat /\ q_st (gk ks i) = c_st c /\ q_mal (gk ks i) = false /\ q_cancel (gk ks i) = false /\
  q_fin (gk ks i) = None /\ bwf (c_st c) body = true /\ c_dead c = false /\
  t_clock t = clk /\ clk <= U64MAX /\ t_ts t = [] /\ t_cn t = [] /\ (1 <= t_nl t)%nat.

Lemma run_sim_cons i ins rest t c t' c' new ks fins clk clk1 k1 :
  (forall t c ks fins clk, run_pre i ks clk t c rest ->
     run_post i ks fins clk (t_cos t) (t_nl t) (length rest) (runE rest t i c)) ->
  (forall acc, exec (ins :: rest) t i c acc = exec rest t' i c' (acc ++ new)) ->
  (i < length ks)%nat ->
  fold_left sev new (mkT clk ks, fins) = (mkT clk1 (set_nth i k1 ks), fins) ->
  run_pre i (set_nth i k1 ks) clk1 t' c' rest -> clk <= clk1 -> t_cos t' = t_cos t -> t_nl t' = t_nl t ->
  run_post i ks fins clk (t_cos t) (t_nl t) (length (ins :: rest)) (runE (ins :: rest) t i c).
Proof.
  intros IH Hex Hi Hnew Hpre Hle Hcos Hnl.
  rewrite (runE_step _ _ _ _ _ _ _ _ Hex).
  specialize (IH _ _ _ fins _ Hpre).
  destruct (runE rest t' i c') as [[T1 r1] e1]. cbn [pre_ev run_post] in *.
  destruct IH as (c2 & k2 & clk2 & fa & Hfold & HT & Hclk & Hst & Hm & Hc & Hr).
  exists c2, k2, clk2, fa. rewrite fold_left_app, Hnew, Hfold, set_nth_twice.
  rewrite Hcos, Hnl in HT.
  repeat split; try assumption; try lia.
  eapply rres_mono; [exact Hr | cbn [length]; lia].
Qed.

Lemma sat_add64_mono clk d : clk <= U64MAX -> 0 <= d -> clk <= sat_add64 clk d <= U64MAX.
Proof. unfold sat_add64. lia. Qed.

Definition cnext (c : co) (rest : list instr) : co :=
  {| c_st := c_st c; c_body := rest; c_started := true; c_dead := c_dead c |}.

(** a step that reports only a log line or the result of a refused / idle transition *)
Lemma step_same i ins rest t c b ks fins clk :
  (forall t c ks fins clk, run_pre i ks clk t c rest ->
     run_post i ks fins clk (t_cos t) (t_nl t) (length rest) (runE rest t i c)) ->
  run_pre i ks clk t c (ins :: rest) ->
  match b with BLog _ | BRes _ => True | _ => False end ->
  (forall acc, exec (ins :: rest) t i c acc = exec rest t i (cnext c rest) (acc ++ [EB i b])) ->
  bwf (c_st c) rest = true ->
  run_post i ks fins clk (t_cos t) (t_nl t) (length (ins :: rest)) (runE (ins :: rest) t i c).
Proof.
  intros IH (Hi & Hst & Hm & Hc & Hf & _ & Hd & Hclk & Hu & Hts & Hcn & Hnl) Hb Hex Hbw.
  eapply (run_sim_cons i ins rest t c t (cnext c rest) [EB i b] ks fins clk clk (gk ks i));
    [exact IH | exact Hex | exact Hi | | | lia | reflexivity | reflexivity].
  - cbn [fold_left]. rewrite set_gk_id by exact Hi.
    destruct b; try contradiction; [apply sev_res | apply sev_log]; assumption.
  - rewrite set_gk_id by exact Hi. unfold run_pre, cnext. cbn [c_st c_dead]. repeat split; assumption.
Qed.

(** a step that changes the state (syscall / running) and reports success *)
Lemma step_change i ins rest t c sn ks fins clk :
  (forall t c ks fins clk, run_pre i ks clk t c rest ->
     run_post i ks fins clk (t_cos t) (t_nl t) (length rest) (runE rest t i c)) ->
  run_pre i ks clk t c (ins :: rest) ->
  (forall acc, exec (ins :: rest) t i c acc
               = exec rest t i (with_st (cnext c rest) sn)
                      (acc ++ change_events (t_nl t) i (c_st c) sn ++ [EB i (BRes true)])) ->
  bwf sn rest = true ->
  run_post i ks fins clk (t_cos t) (t_nl t) (length (ins :: rest)) (runE (ins :: rest) t i c).
Proof.
  intros IH (Hi & Hst & Hm & Hc & Hf & _ & Hd & Hclk & Hu & Hts & Hcn & Hnl) Hex Hbw.
  eapply (run_sim_cons i ins rest t c t (with_st (cnext c rest) sn) _ ks fins clk clk (kst (gk ks i) sn));
    [exact IH | exact Hex | exact Hi | | | lia | reflexivity | reflexivity].
  - rewrite fold_left_app, sev_change_events by assumption. cbn [fold_left].
    apply sev_res; rewrite gk_set_same by exact Hi; assumption.
  - unfold run_pre, with_st, cnext. cbn [c_st c_dead]. rewrite set_nth_length, gk_set_same by exact Hi.
    cbn [kst q_st q_mal q_cancel q_fin]. repeat split; assumption.
Qed.

Lemma fin_yield_running i ks fins clk t2 c1 y req ts blen :
  (i < length ks)%nat -> q_st (gk ks i) = Running -> q_mal (gk ks i) = false -> q_cancel (gk ks i) = false ->
  q_fin (gk ks i) = None ->
  c_st c1 = Running -> t_cn t2 = [] -> pop_front 0 (t_ts t2) = (ts, []) -> t_clock t2 = clk -> clk <= U64MAX ->
  (1 <= t_nl t2)%nat ->
  match req with RUntil _ | RDelay _ => expected_time clk req = ts | RNone => True | RCancel => False end ->
  bwf Running (c_body c1) = true -> c_dead c1 = false -> (length (c_body c1) < blen)%nat ->
  run_post i ks fins clk (t_cos t2) (t_nl t2) blen (finish (upd_co t2 i c1) i c1 [EB i (BYield y req)] (OYield y)).
Proof.
  intros Hi Hst Hm Hc Hf Ec Hcn Hts Hclk Hu Hnl Hreq Hbw Hd Hlen.
  unfold finish. rewrite Ec. change (t_cn (upd_co t2 i c1)) with (t_cn t2).
  change (t_ts (upd_co t2 i c1)) with (t_ts t2). rewrite Hcn. cbn [pop_front].
  rewrite Hts. unfold apply_change. cbn [run_post].
  eexists _, _, clk, []. split; [|split].
  - cbn [app fold_left]. rewrite sev_yield_running by assumption.
    rewrite sev_change_events; [| cbn [upd_req upd_co t_nl]; exact Hnl | rewrite set_nth_length; exact Hi
                                | rewrite gk_set_same by exact Hi; reflexivity].
    rewrite gk_set_same by exact Hi. rewrite set_nth_twice, app_nil_r. reflexivity.
  - unfold upd_co, upd_req, with_st. cbn [t_nl t_cos t_clock t_ts t_cn]. rewrite set_nth_twice, Hclk. reflexivity.
  - cbn [kst kwf q_st q_mal q_cancel c_st with_st]. repeat split; try assumption; try lia.
    apply RR_susp; cbn [with_st c_st c_body c_dead kst kwf q_wake q_fin]; try assumption; try reflexivity.
    intros w Hw. destruct req; try discriminate; try contradiction; congruence.
Qed.

Lemma fin_yield_syscall i ks fins clk t2 c1 y req y' n tsu blen :
  (i < length ks)%nat -> q_st (gk ks i) = Syscall y' n (SSuspend tsu) -> q_mal (gk ks i) = false ->
  q_cancel (gk ks i) = false -> q_fin (gk ks i) = None ->
  c_st c1 = Syscall y' n (SSuspend tsu) -> t_cn t2 = [] -> (length (t_ts t2) <= 1)%nat -> t_clock t2 = clk ->
  clk <= U64MAX -> req <> RCancel ->
  bwf (Syscall y' n STimeout) (c_body c1) = true -> c_dead c1 = false -> (length (c_body c1) < blen)%nat ->
  run_post i ks fins clk (t_cos t2) (t_nl t2) blen (finish (upd_co t2 i c1) i c1 [EB i (BYield y req)] (OYield y)).
Proof.
  intros Hi Hst Hm Hc Hf Ec Hcn Hts Hclk Hu Hreq Hbw Hd Hlen.
  unfold finish. rewrite Ec. change (t_cn (upd_co t2 i c1)) with (t_cn t2).
  change (t_ts (upd_co t2 i c1)) with (t_ts t2). rewrite Hcn. cbn [pop_front].
  assert (snd (pop_front 0 (t_ts t2)) = []) as Hs.
  { destruct (t_ts t2) as [|a [|b l]]; cbn [length] in Hts; try lia; reflexivity. }
  destruct (pop_front 0 (t_ts t2)) as [a ts']. cbn [snd] in Hs. subst ts'. cbn [run_post].
  eexists c1, _, clk, []. split; [|split].
  - cbn [fold_left]. rewrite (sev_yield_syscall clk ks fins i Hm Hc Hf y req y' n (SSuspend tsu) Hst Hreq).
    rewrite app_nil_r. reflexivity.
  - unfold upd_co, upd_req. cbn [t_nl t_cos t_clock t_ts t_cn]. rewrite Hclk. reflexivity.
  - cbn [kwf q_st q_mal q_cancel]. repeat split; try assumption; try lia; try congruence.
    apply RR_sys; cbn [kwf q_wake q_fin]; try assumption; reflexivity.
Qed.

Lemma run_sim i : forall body t c ks fins clk,
  run_pre i ks clk t c body ->
  run_post i ks fins clk (t_cos t) (t_nl t) (length body) (runE body t i c).
Proof.
  induction body as [|ins rest IH]; intros t c ks fins clk Hpre;
    pose proof Hpre as Hpre0;
    destruct Hpre as (Hi & Hst & Hm & Hc & Hf & Hb & Hd & Hclk & Hu & Hts & Hcn & Hnl).
  - (* the body falls off its end: an implicit return 0 *)
    cbn [bwf] in Hb. destruct (c_st c) eqn:Ec; try discriminate.
    unfold runE. cbn [exec app finish c_st]. rewrite Ec. cbn [tr_from_running]. unfold apply_change.
    cbn [run_post c_st with_st upd_co t_nl t_cos t_clock t_ts t_cn].
    eexists _, _, clk, _. split; [|split].
    + cbn [fold_left]. rewrite sev_ret by assumption.
      rewrite sev_change_events; [| exact Hnl | rewrite set_nth_length; exact Hi | rewrite gk_set_same by exact Hi; reflexivity].
      rewrite gk_set_same by exact Hi. rewrite set_nth_twice. reflexivity.
    + unfold upd_co, with_st. cbn [t_nl t_cos t_clock t_ts t_cn]. rewrite set_nth_twice, Hclk, Hts, Hcn. reflexivity.
    + cbn [kst kwf q_st q_mal q_cancel c_st]. repeat split; try assumption; try lia.
      apply RR_done; [left; eexists; reflexivity | reflexivity | reflexivity].
  - destruct ins as [y|y d|y tt| |y n st| |d|x|v|pk|].
    + (* ISuspend *)
      cbn [bwf] in Hb. unfold runE. cbn [exec app].
      destruct (c_st c) as [| | |y0 n0 [|tsu| |]| | |] eqn:Ec; try discriminate.
      * match goal with |- context [finish (upd_co ?T _ _)] => apply fin_yield_running with (t2 := T) (ts := 0) end; cbn [c_st c_body c_dead]; try assumption; try reflexivity;
          try (cbn [length]; lia); try exact I; rewrite Hts; reflexivity.
      * match goal with |- context [finish (upd_co ?T _ _)] => eapply fin_yield_syscall with (t2 := T) end; cbn [c_st c_body c_dead]; try eassumption; try reflexivity;
          try (cbn [length]; lia); try discriminate.
        rewrite Hts. cbn [length]. lia.
    + (* IDelay *)
      cbn [bwf] in Hb. unfold runE. cbn [exec app].
      destruct (c_st c) as [| | |y0 n0 [|tsu| |]| | |] eqn:Ec; try discriminate.
      * match goal with |- context [finish (upd_co ?T _ _)] => apply fin_yield_running with (t2 := T) (ts := timeout_of clk d) end; cbn [c_st c_body c_dead upd_req t_cn t_ts t_clock t_nl];
          try assumption; try reflexivity; try (cbn [length]; lia); rewrite Hts, Hclk; reflexivity.
      * match goal with |- context [finish (upd_co ?T _ _)] => eapply fin_yield_syscall with (t2 := T) end; cbn [c_st c_body c_dead upd_req t_cn t_ts t_clock t_nl]; try eassumption;
          try reflexivity; try (cbn [length]; lia); try discriminate.
        rewrite Hts. cbn [length]. lia.
    + (* IUntil *)
      cbn [bwf] in Hb. unfold runE. cbn [exec app].
      destruct (c_st c) as [| | |y0 n0 [|tsu| |]| | |] eqn:Ec; try discriminate.
      * match goal with |- context [finish (upd_co ?T _ _)] => apply fin_yield_running with (t2 := T) (ts := tt) end; cbn [c_st c_body c_dead upd_req t_cn t_ts t_clock t_nl];
          try assumption; try reflexivity; try (cbn [length]; lia); rewrite Hts; reflexivity.
      * match goal with |- context [finish (upd_co ?T _ _)] => eapply fin_yield_syscall with (t2 := T) end; cbn [c_st c_body c_dead upd_req t_cn t_ts t_clock t_nl]; try eassumption;
          try reflexivity; try (cbn [length]; lia); try discriminate.
        rewrite Hts. cbn [length]. lia.
    + (* ICancel *)
      cbn [bwf] in Hb. destruct (c_st c) eqn:Ec; try discriminate.
      unfold runE. cbn [exec app finish c_st]. rewrite Ec.
      change (t_cn (upd_co ?a ?b ?c)) with (t_cn a). cbn [upd_req t_cn]. cbn [pop_front].
      unfold apply_change. cbn [run_post].
      eexists _, _, clk, []. split; [|split].
      * cbn [fold_left]. rewrite sev_yield_running by (try assumption; congruence).
        rewrite sev_change_events; [| cbn [upd_req upd_co t_nl]; exact Hnl | rewrite set_nth_length; exact Hi
                                    | rewrite gk_set_same by exact Hi; reflexivity].
        rewrite gk_set_same by exact Hi. rewrite set_nth_twice, app_nil_r. reflexivity.
      * unfold upd_co, upd_req, with_st. cbn [t_nl t_cos t_clock t_ts t_cn]. rewrite set_nth_twice, Hclk, Hts, Hcn.
        reflexivity.
      * cbn [kst kwf q_st q_mal q_cancel c_st with_st]. repeat split; try assumption; try lia.
        apply RR_cancel; reflexivity.
    + (* ISyscall *)
      cbn [bwf] in Hb. destruct (c_st c) as [| | |y0 n0 s0| | |] eqn:Ec; try discriminate.
      * eapply (step_change i _ rest t c (Syscall y n st)); [exact IH | exact Hpre0 | | exact Hb].
        intro acc. unfold cnext. cbn [exec c_st]. rewrite Ec. cbn [tr_syscall]. reflexivity.
      * destruct (n0 =? n) eqn:En.
        -- eapply (step_change i _ rest t c (Syscall y n st)); [exact IH | exact Hpre0 | | exact Hb].
           intro acc. unfold cnext. cbn [exec c_st]. rewrite Ec. cbn [tr_syscall]. rewrite En. reflexivity.
        -- eapply (step_same i _ rest t c (BRes false)); [exact IH | exact Hpre0 | exact I | | rewrite Ec; exact Hb].
           intro acc. unfold cnext. cbn [exec c_st]. rewrite Ec. cbn [tr_syscall]. rewrite En. reflexivity.
    + (* IRunning *)
      cbn [bwf] in Hb. destruct (c_st c) as [| | |y0 n0 s0| | |] eqn:Ec; try discriminate.
      * eapply (step_same i _ rest t c (BRes true)); [exact IH | exact Hpre0 | exact I | | rewrite Ec; exact Hb].
        intro acc. unfold cnext. cbn [exec c_st]. rewrite Ec. cbn [tr_running]. reflexivity.
      * destruct s0 as [|tsu| |].
        -- eapply (step_change i _ rest t c Running); [exact IH | exact Hpre0 | | exact Hb].
           intro acc. unfold cnext. cbn [exec c_st]. rewrite Ec. cbn [tr_running]. reflexivity.
        -- eapply (step_same i _ rest t c (BRes false)); [exact IH | exact Hpre0 | exact I | | rewrite Ec; exact Hb].
           intro acc. unfold cnext. cbn [exec c_st]. rewrite Ec. cbn [tr_running]. reflexivity.
        -- eapply (step_same i _ rest t c (BRes true)); [exact IH | exact Hpre0 | exact I | | rewrite Ec; exact Hb].
           intro acc. unfold cnext. cbn [exec c_st]. rewrite Ec. cbn [tr_running]. reflexivity.
        -- eapply (step_same i _ rest t c (BRes true)); [exact IH | exact Hpre0 | exact I | | rewrite Ec; exact Hb].
           intro acc. unfold cnext. cbn [exec c_st]. rewrite Ec. cbn [tr_running]. reflexivity.
    + (* ITick *)
      cbn [bwf] in Hb. apply andb_true_iff in Hb as [Hd0 Hb].
      pose proof (sat_add64_mono clk d Hu ltac:(lia)) as Hmono.
      eapply (run_sim_cons i _ rest t c (upd_clock t (sat_add64 (t_clock t) d)) (cnext c rest) [EB i (BTick d)]
                ks fins clk (sat_add64 clk d) (gk ks i));
        [exact IH | intro acc; reflexivity | exact Hi | | | lia | reflexivity | reflexivity].
      * cbn [fold_left]. rewrite set_gk_id by exact Hi. apply sev_tick; assumption.
      * rewrite set_gk_id by exact Hi. unfold run_pre, cnext. cbn [c_st c_dead upd_clock t_clock t_ts t_cn t_nl].
        rewrite Hclk. repeat split; try assumption; lia.
    + (* ILog *)
      cbn [bwf] in Hb.
      eapply (step_same i _ rest t c (BLog x)); [exact IH | exact Hpre0 | exact I | | exact Hb].
      intro acc. reflexivity.
    + (* IReturn *)
      cbn [bwf] in Hb. destruct (c_st c) eqn:Ec; try discriminate.
      unfold runE. cbn [exec app finish c_st]. rewrite Ec. cbn [tr_from_running]. unfold apply_change.
      cbn [run_post c_st with_st upd_co t_nl t_cos t_clock t_ts t_cn].
      eexists _, _, clk, _. split; [|split].
      * cbn [fold_left]. rewrite sev_ret by assumption.
        rewrite sev_change_events; [| exact Hnl | rewrite set_nth_length; exact Hi | rewrite gk_set_same by exact Hi; reflexivity].
        rewrite gk_set_same by exact Hi. rewrite set_nth_twice. reflexivity.
      * unfold upd_co, with_st. cbn [t_nl t_cos t_clock t_ts t_cn]. rewrite set_nth_twice, Hclk, Hts, Hcn. reflexivity.
      * cbn [kst kwf q_st q_mal q_cancel c_st]. repeat split; try assumption; try lia.
        apply RR_done; [left; eexists; reflexivity | reflexivity | reflexivity].
    + (* IPanic *)
      cbn [bwf] in Hb. destruct (c_st c) eqn:Ec; try discriminate.
      unfold runE. cbn [exec app finish c_st]. rewrite Ec. cbn [tr_from_running]. unfold apply_change.
      cbn [run_post c_st with_st upd_co t_nl t_cos t_clock t_ts t_cn].
      eexists _, _, clk, _. split; [|split].
      * cbn [fold_left]. rewrite sev_panic by assumption.
        rewrite sev_change_events; [| exact Hnl | rewrite set_nth_length; exact Hi | rewrite gk_set_same by exact Hi; reflexivity].
        rewrite gk_set_same by exact Hi. rewrite set_nth_twice. reflexivity.
      * unfold upd_co, with_st. cbn [t_nl t_cos t_clock t_ts t_cn]. rewrite set_nth_twice, Hclk, Hts, Hcn. reflexivity.
      * cbn [kst kwf q_st q_mal q_cancel c_st]. repeat split; try assumption; try lia.
        apply RR_done; [right; eexists; reflexivity | reflexivity | reflexivity].
    + (* IUnreachable *)
      cbn [bwf] in Hb. discriminate.
Qed.

(** * the whole [resume] *)

Definition nxt (s : cstate) : cstate :=
  match s with Syscall y n _ => Syscall y n STimeout | _ => Running end.

Definition runnable (clk : Z) (s : cstate) : Prop :=
  match s with
  | Ready => True
  | Suspend _ ts => ts <= clk
  | Syscall _ _ SCallback | Syscall _ _ STimeout => True
  | _ => False
  end.

Lemma run_post_pre i ks fins clk cos nl blen p k1 out :
  fold_left sev p (mkT clk ks, fins) = (mkT clk (set_nth i k1 ks), fins) ->
  run_post i (set_nth i k1 ks) fins clk cos nl blen out ->
  run_post i ks fins clk cos nl blen (pre_ev p out).
Proof.
  intros Hp H. destruct out as [[T1 r1] e1]. cbn [pre_ev run_post] in *.
  destruct H as (c2 & k2 & clk2 & fa & Hfold & HT & Hclk & Hst & Hm & Hc & Hr).
  exists c2, k2, clk2, fa. rewrite fold_left_app, Hp, Hfold, set_nth_twice.
  repeat split; try assumption; lia.
Qed.

Lemma run_post_cos i ks fins clk cos c1 nl blen out :
  run_post i ks fins clk (set_nth i c1 cos) nl blen out -> run_post i ks fins clk cos nl blen out.
Proof.
  destruct out as [[T1 r1] e1]. cbn [run_post]. intros (c2 & k2 & clk2 & fa & Hfold & HT & H).
  exists c2, k2, clk2, fa. rewrite set_nth_twice in HT. split; [exact Hfold|]. split; [exact HT | exact H].
Qed.

Lemma first_ev_bwf i c1 arg s :
  bwf s (c_body c1) = true ->
  first_ev i c1 arg = [if c_started c1 then EB i (BGot arg) else EB i (BStart arg)].
Proof.
  unfold first_ev. destruct (c_body c1) as [|[] rest]; try reflexivity. cbn [bwf]. discriminate.
Qed.

Lemma enter_sim i T1 c1 ks fins clk :
  run_pre i ks clk T1 c1 (c_body c1) -> (forall w, q_wake (gk ks i) = Some w -> w <= clk) ->
  run_post i ks fins clk (t_cos T1) (t_nl T1) (length (c_body c1))
           (pre_ev (first_ev i c1 clk) (runE (c_body c1) T1 i c1)).
Proof.
  intros (Hi & Hst & Hm & Hc & Hf & Hb & Hd & Hclk & Hu & Hts & Hcn & Hnl) Hw.
  rewrite (first_ev_bwf i c1 clk _ Hb).
  apply run_post_pre with (k1 := kwf (gk ks i) None None).
  - cbn [fold_left]. apply sev_first; assumption.
  - apply run_sim. unfold run_pre. rewrite set_nth_length, gk_set_same by exact Hi.
    cbn [kwf q_st q_mal q_cancel q_fin]. repeat split; assumption.
Qed.

Lemma pre_ev_app a b r : pre_ev (a ++ b) r = pre_ev a (pre_ev b r).
Proof. destruct r as [[t x] e]. cbn [pre_ev]. rewrite app_assoc. reflexivity. Qed.

Lemma resume_sim i T c ks fins clk :
  nth_error (t_cos T) i = Some c -> (i < length ks)%nat ->
  q_st (gk ks i) = c_st c -> q_mal (gk ks i) = false -> q_cancel (gk ks i) = false -> q_fin (gk ks i) = None ->
  (forall w, q_wake (gk ks i) = Some w -> w <= clk) ->
  runnable clk (c_st c) -> bwf (nxt (c_st c)) (c_body c) = true -> c_dead c = false ->
  t_clock T = clk -> clk <= U64MAX -> t_ts T = [] -> t_cn T = [] -> (1 <= t_nl T)%nat ->
  run_post i ks fins clk (t_cos T) (t_nl T) (length (c_body c)) (resume T i clk).
Proof.
  intros Hn Hi Hst Hm Hc Hf Hw Hrun Hb Hd Hclk Hu Hts Hcn Hnl.
  assert (forall old, c_st c = old -> tr_running (t_clock T) old = Some (Some Running) -> nxt old = Running ->
            run_post i ks fins clk (t_cos T) (t_nl T) (length (c_body c)) (resume T i clk)) as Hchg.
  { intros old Eo Htr Hnx. rewrite <- Eo in Htr.
    rewrite (resume_unfold T i clk c (Some Running) Hn Htr). cbv zeta.
    cbn [enter_T enter_c enter_ev with_st c_dead c_body]. rewrite Hd.
    change (c_body c) with (c_body (with_st c Running)) at 2.
    set (c1 := with_st c Running). set (T1 := upd_co T i c1).
    pose proof (finish_pre) as Hfp.
    assert (forall p, (let '(t2, c2, evx, out) := exec (c_body c1) T1 i c1 [] in
                       finish (upd_co t2 i c2) i c2 (p ++ evx) out) = pre_ev p (runE (c_body c1) T1 i c1)) as Hr.
    { intro p. unfold runE. destruct (exec (c_body c1) T1 i c1 []) as [[[t2 c2] evx] out]. apply finish_pre. }
    rewrite Hr, pre_ev_app.
    apply run_post_pre with (k1 := kst (gk ks i) Running).
    - apply sev_change_events; assumption.
    - apply run_post_cos with (c1 := c1).
      change (set_nth i c1 (t_cos T)) with (t_cos T1). change (t_nl T) with (t_nl T1).
      change (length (c_body c)) with (length (c_body c1)).
      apply enter_sim.
      + unfold run_pre. rewrite set_nth_length, gk_set_same by exact Hi.
        cbn [kst q_st q_mal q_cancel q_fin c1 with_st c_st c_body c_dead T1 upd_co t_clock t_ts t_cn t_nl].
        rewrite Eo, Hnx in Hb. repeat split; assumption.
      + rewrite gk_set_same by exact Hi. cbn [kst q_wake]. exact Hw. }
  assert (forall y n st, c_st c = Syscall y n st -> tr_running (t_clock T) (Syscall y n st) = Some None ->
            bwf (Syscall y n st) (c_body c) = true ->
            run_post i ks fins clk (t_cos T) (t_nl T) (length (c_body c)) (resume T i clk)) as Hsame.
  { intros y n st Eo Htr Hbw. rewrite <- Eo in Htr.
    rewrite (resume_unfold T i clk c None Hn Htr). cbv zeta.
    cbn [enter_T enter_c enter_ev]. rewrite Hd. cbn [app].
    assert (forall p, (let '(t2, c2, evx, out) := exec (c_body c) T i c [] in
                       finish (upd_co t2 i c2) i c2 (p ++ evx) out) = pre_ev p (runE (c_body c) T i c)) as Hr.
    { intro p. unfold runE. destruct (exec (c_body c) T i c []) as [[[t2 c2] evx] out]. apply finish_pre. }
    rewrite Hr. apply enter_sim; [|exact Hw].
    unfold run_pre. rewrite Eo. repeat split; try assumption. congruence. }
  destruct (c_st c) as [| |y ts|y n st| | |] eqn:Ec; cbn [runnable] in Hrun; try contradiction.
  - apply (Hchg Ready eq_refl); reflexivity.
  - apply (Hchg (Suspend y ts) eq_refl); [|reflexivity]. cbn [tr_running].
    assert (ts <=? t_clock T = true) as -> by lia. reflexivity.
  - destruct st; try contradiction.
    + apply (Hsame y n SCallback eq_refl); [reflexivity|]. cbn [nxt] in Hb.
      rewrite (bwf_woken n (c_body c) y y). exact Hb.
    + apply (Hsame y n STimeout eq_refl); [reflexivity|]. exact Hb.
Qed.
