(** [JoinHandle] (core/src/net/join.rs): the handle remembers the event loop the task was submitted
    to and the task id; [timeout_at_join deadline] waits on that loop's pool for
    [deadline - now] (saturating), [timeout_join dur] for [dur], [join] without limit. Function-level
    summary of one handle over a sequence of joins: what each join returns, given whether the task
    finishes by that join's deadline. The wait itself is the protocol of [Sched/Join.v]. *)
From OCV Require Import Base.Prelude Misc.Time Coroutine.Co Sched.Pool.
Open Scope Z_scope.

Inductive jhres := JHVal (r : tres) | JHTimedOut | JHInvalid.

(** the time handed to [wait_task_result] *)
Definition jh_wait_time (deadline now : Z) : Z := sat_sub deadline now.

Record jhjoin := {
  jj_deadline : Z;               (* absolute, ns; U64MAX for [join] *)
  jj_now : Z;                    (* clock when the call is made *)
  jj_fin_at : option Z           (* when the task's result is published; None = not within this wait *)
}.

Definition finished_by_deadline (j : jhjoin) : bool :=
  match jj_fin_at j with
  | Some f => (f <=? jj_now j) || (f <=? jj_deadline j)
  | None => false
  end.

(** state of a handle: has its result been handed out already *)
Definition jh_step (valid : bool) (r : tres) (consumed : bool) (j : jhjoin) : jhres * bool :=
  if negb valid then (JHInvalid, consumed)
  else if finished_by_deadline j && negb consumed then (JHVal r, true)
  else (JHTimedOut, consumed).

Fixpoint jh_run (valid : bool) (r : tres) (consumed : bool) (js : list jhjoin) : list jhres :=
  match js with
  | [] => []
  | j :: rest => let '(o, c) := jh_step valid r consumed j in o :: jh_run valid r c rest
  end.

(** the property at this layer *)
Theorem jh_finished_returns_own : forall r j,
  finished_by_deadline j = true -> fst (jh_step true r false j) = JHVal r.
Proof. intros r j H. unfold jh_step. cbn. rewrite H. reflexivity. Qed.

Theorem jh_timeout_only_if_unfinished : forall r j,
  fst (jh_step true r false j) = JHTimedOut -> finished_by_deadline j = false.
Proof. intros r j. unfold jh_step. cbn. destruct (finished_by_deadline j); cbn; [discriminate | reflexivity]. Qed.

(** in particular an expired or zero deadline does not turn a finished task into a timeout *)
Theorem jh_expired_deadline_still_returns : forall r now deadline f,
  f <= now -> fst (jh_step true r false {| jj_deadline := deadline; jj_now := now; jj_fin_at := Some f |}) = JHVal r.
Proof.
  intros r now deadline f H. apply jh_finished_returns_own. unfold finished_by_deadline. cbn.
  apply orb_true_iff. left. apply Z.leb_le. exact H.
Qed.

(** the result is handed out once *)
Theorem jh_at_most_once : forall r js consumed,
  (List.length (filter (fun o => match o with JHVal _ => true | _ => false end) (jh_run true r consumed js)) <= 1)%nat.
Proof.
  intros r js0.
  assert (H1 : forall js, filter (fun o => match o with JHVal _ => true | _ => false end) (jh_run true r true js) = []).
  { intro js. induction js as [|j js IH]; [reflexivity|]. cbn [jh_run]. unfold jh_step. cbn [negb].
    rewrite andb_false_r. cbn. exact IH. }
  induction js0 as [|j js IH]; intro consumed; [cbn; lia|].
  destruct consumed; [rewrite H1; cbn; lia|].
  cbn [jh_run]. unfold jh_step. cbn [negb]. rewrite andb_true_r.
  destruct (finished_by_deadline j); cbn [filter List.length].
  - rewrite H1. cbn. lia.
  - apply IH.
Qed.
