(** C15 proofs, layer 2: the invariant that ties a canonical pool state to the oracle's tracker,
    and its preservation by the primitive moves of the model. *)
From OCV Require Import Base.Prelude Misc.Time Queue.PMap Queue.OWS Queue.OWSOracle Queue.OWSLemmas Coroutine.Co
  Sched.Sched Sched.Pool Sched.PoolOracle Sched.C15Oracle Sched.C15Lemmas Sched.C15Queue Sched.C15State.
From Coq Require Import ZifyBool ZifyNat Permutation.
Open Scope Z_scope.

(** * Tracker facts *)
Lemma status_set_same k t st : (t < length (k_tasks k))%nat -> status (set_status k t st) t = st.
Proof. intro H. unfold status, set_status. cbn [k_tasks]. rewrite set_nth_same_def. apply nth_set_nth_eq, H. Qed.

Lemma status_set_other k t st t' : t <> t' -> status (set_status k t st) t' = status k t'.
Proof. intro H. unfold status, set_status. cbn [k_tasks]. rewrite set_nth_same_def. apply nth_set_nth_neq, H. Qed.

Lemma len_set_status k t st : length (k_tasks (set_status k t st)) = length (k_tasks k).
Proof. unfold set_status. cbn [k_tasks]. rewrite set_nth_same_def. apply set_nth_length. Qed.

Lemma status_ge k t : (length (k_tasks k) <= t)%nat -> status k t = Finished.
Proof. intro H. unfold status. apply nth_overflow, H. Qed.

Lemma nth_set_nth_ext {A} (d : A) w x l w' :
  nth w' (set_nth_ext d w x l) d = if Nat.eqb w' w then x else nth w' l d.
Proof.
  revert l w'. induction w as [|w IH]; intros [|a l] [|w']; cbn [set_nth_ext nth Nat.eqb]; try reflexivity.
  - destruct w'; reflexivity.
  - rewrite IH. destruct (Nat.eqb w' w); [reflexivity|]. destruct w'; reflexivity.
  - apply IH.
Qed.

Lemma len_set_nth_ext {A} (d : A) w x l : length (set_nth_ext d w x l) = Nat.max (S w) (length l).
Proof.
  revert l. induction w as [|w IH]; intros [|a l]; cbn [set_nth_ext length]; try reflexivity.
  - rewrite IH. cbn [length]. lia.
  - rewrite IH. lia.
Qed.

(** * The invariant *)
Record hold (k : worker) (t : nat) (n : Z) (lg : list Z) : Prop := {
  h_task : k_task k = Some (t, sleep_tail n ++ map ILog lg);
  h_dead : k_dead k = false;
  h_tpool : k_tpool k = O
}.

Definition spec_sleeper (specs : list tspec) (t : nat) (n T : Z) (lg : list Z) : Prop :=
  nth_error specs t = Some {| ts_sleep := Some (n, T); ts_logs := lg |}.

Definition slp (specs : list tspec) (t : nat) : bool :=
  match nth_error specs t with
  | Some sp => match ts_sleep sp with Some _ => true | None => false end
  | None => false
  end.
Definition nslp (specs : list tspec) (l : list nat) : nat := length (filter (slp specs) l).
Definition cslp (specs : list tspec) (ct : option nat) : nat :=
  match ct with Some t => if slp specs t then 1%nat else 0%nat | None => 0%nat end.

Definition wokenb (s : cst) (w : nat) : bool :=
  match nth_error (c_ws s) w with
  | Some k => match k_st k with Syscall _ _ STimeout => true | _ => false end
  | None => false
  end.
Definition nwk (s : cst) (l : list nat) : nat := length (filter (wokenb s) l).

Definition wtask (s : cst) (w : nat) : option nat :=
  match nth_error (c_ws s) w with Some k => option_map fst (k_task k) | None => None end.

Definition curw (cur : option nat) : list nat := match cur with Some w => [w] | None => [] end.
Definition parked_ws (d : sdata) : list nat := map snd (sd_sys_suspend d).
Definition allw (cur : option nat) (R : list nat) (d : sdata) : list nat := curw cur ++ R ++ parked_ws d.

Record INV (mx : Z) (specs : list tspec) (s : cst) (d : sdata) (tr : trk) (cur ct : option nat) (Q R : list nat) : Prop := {
  i_tq : QOK (c_tq s);
  i_cq : QOK (c_cq s);
  i_tqi : Permutation (all_items (c_tq s)) (map Z.of_nat Q);
  i_cqi : Permutation (all_items (c_cq s)) (map Z.of_nat R);
  i_ts : c_ts s = [];
  i_tb : c_tb s = map body_of specs;
  i_tp : forall t, nth t (c_tp s) O = O;
  i_wp : forall w, nth w (c_wp s) O = O;
  i_nd : NoDup (allw cur R d);
  i_lt : forall w, In w (allw cur R d) -> (w < length (c_ws s))%nat;
  i_Qnd : NoDup Q;
  i_Qst : forall t, In t Q <-> ((t < length specs)%nat /\ status tr t = NotStarted);
  i_len : length (k_tasks tr) = length specs;
  i_runnable : forall w, In w R -> exists k, nth_error (c_ws s) w = Some k /\
      ((k_st k = Ready /\ k_task k = None /\ k_dead k = false) \/
       (exists t n T lg, k_st k = Syscall 0 n STimeout /\ hold k t n lg /\ spec_sleeper specs t n T lg /\ status tr t = Asleep T));
  i_parked : forall T w, In (T, w) (sd_sys_suspend d) -> exists k t n lg, nth_error (c_ws s) w = Some k /\
      k_st k = Syscall 0 n (SSuspend T) /\ hold k t n lg /\ spec_sleeper specs t n T lg /\ status tr t = Asleep T;
  i_other : forall w k, nth_error (c_ws s) w = Some k -> In w (allw cur R d) \/ exists r, k_st k = Complete r;
  i_scnd : NoDup (sd_syscall d);
  i_sc : forall w, In w (sd_syscall d) <-> In w (parked_ws d);
  i_susp : sd_suspend d = [];
  i_run : c_run s = Z.of_nat (length (allw cur R d));
  i_res : forall t r, assoc_get t (c_res s) = Some r -> (t < length specs)%nat /\ status tr t = Finished;
  i_act : forall t, status tr t = Active -> ct = Some t;
  i_asleep : forall t T, status tr t = Asleep T -> exists w k n lg,
      (In w (curw cur) \/ In w R \/ In (T, w) (sd_sys_suspend d)) /\ nth_error (c_ws s) w = Some k /\ hold k t n lg;
  i_inj : forall w1 w2 t, In w1 (allw cur R d) -> In w2 (allw cur R d) -> wtask s w1 = Some t -> wtask s w2 = Some t -> w1 = w2;
  i_trk : forall w, nth w (k_workers tr) Ready = match nth_error (c_ws s) w with Some k => k_st k | None => Ready end;
  i_trklen : (length (k_workers tr) <= length (c_ws s))%nat;
  i_clock : k_clock tr = c_clock s;
  i_nsl : (nwk s R + length (sd_sys_suspend d) + nslp specs Q + cslp specs ct <= nslp specs (seq 0 (length specs)))%nat
}.

(** the pass keeps going while there is work it can do: what holds whenever a worker gives up the thread *)
Definition GG (mx : Z) (s : cst) (Q R : list nat) : Prop := Q = [] \/ R <> [] \/ mx <= c_run s.

(** * Generic list facts *)
Lemma in_allw cur R d w : In w (allw cur R d) <-> In w (curw cur) \/ In w R \/ In w (parked_ws d).
Proof. unfold allw. rewrite !in_app_iff. tauto. Qed.

Lemma nwk_ext s s' l : (forall w, In w l -> wokenb s' w = wokenb s w) -> nwk s' l = nwk s l.
Proof.
  intro H. unfold nwk. f_equal. apply filter_ext_in. exact H.
Qed.

Lemma nwk_app s l1 l2 : nwk s (l1 ++ l2) = (nwk s l1 + nwk s l2)%nat.
Proof. unfold nwk. rewrite filter_app, app_length. reflexivity. Qed.

Lemma perm_map_snoc (R : list nat) n l :
  Permutation l (Z.of_nat n :: map Z.of_nat R) -> Permutation l (map Z.of_nat (R ++ [n])).
Proof.
  intro H. rewrite H, map_app. cbn [map]. apply Permutation_cons_append.
Qed.

(** * [try_grow] *)
Lemma inv_grow mx specs s d tr cur ct Q R :
  INV mx specs s d tr cur ct Q R ->
  exists R', INV mx specs (grow mx s) d tr cur ct Q R' /\
             (R' = R \/ R' = R ++ [length (c_ws s)]) /\ GG mx (grow mx s) Q R'.
Proof.
  intro H. unfold grow.
  destruct (full_len (c_tq s) =? 0) eqn:E1.
  { exists R. split; [exact H|]. split; [left; reflexivity|]. left.
    rewrite (q_len _ (i_tq _ _ _ _ _ _ _ _ _ H)) in E1.
    pose proof (Permutation_length (i_tqi _ _ _ _ _ _ _ _ _ H)) as HL. rewrite map_length in HL.
    destruct Q; [reflexivity|]. cbn [length] in HL. lia. }
  destruct (mx <=? c_run s) eqn:E2.
  { exists R. split; [exact H|]. split; [left; reflexivity|]. right. right. lia. }
  set (n := length (c_ws s)).
  exists (R ++ [n]). split; [|split; [right; reflexivity|]].
  2:{ right. left. destruct R; discriminate. }
  destruct H as [Htq Hcq Htqi Hcqi Hts Htb Htp Hwp Hnd Hlt HQnd HQst Hlen Hrun Hpark Hoth Hscnd Hsc Hsusp Hr Hres Hact Hasl Hinj Htrk Htrkl Hclk Hnsl].
  destruct (q_push (c_cq s) 0 (Z.of_nat n) Hcq) as [Hcq' Hperm].
  assert (forall w, (w < n)%nat -> nth_error (c_ws s ++ [neww (c_clock s)]) w = nth_error (c_ws s) w) as Hold.
  { intros w Hw. apply nth_error_app1. exact Hw. }
  assert (~ In n (allw cur R d)) as Hfresh.
  { intro Hin. apply Hlt in Hin. unfold n in Hin. lia. }
  assert (Permutation (allw cur (R ++ [n]) d) (n :: allw cur R d)) as Hpa.
  { unfold allw. rewrite <- (app_assoc R [n]). cbn [app].
    rewrite (app_assoc (curw cur) R (n :: parked_ws d)), (app_assoc (curw cur) R (parked_ws d)).
    apply Permutation_sym, Permutation_middle. }
  constructor; cbn [c_clock c_ts c_ws c_wp c_tq c_cq c_tb c_tpr c_d c_run c_pf c_res c_rt c_tp]; try assumption.
  - apply perm_map_snoc. rewrite Hperm. apply perm_skip, Hcqi.
  - intro w. destruct (lt_dec w (length (c_wp s))) as [Hl|Hl].
    + rewrite app_nth1 by exact Hl. apply Hwp.
    + rewrite app_nth2 by lia. destruct (w - length (c_wp s))%nat as [|[|?]]; reflexivity.
  - eapply Permutation_NoDup; [apply Permutation_sym, Hpa|]. constructor; assumption.
  - intros w Hin. rewrite app_length. cbn [length]. apply (Permutation_in _ Hpa) in Hin.
    destruct Hin as [<-|Hin]; [fold n; lia|]. apply Hlt in Hin. lia.
  - intros w Hin. apply in_app_iff in Hin as [Hin|[<-|[]]].
    + destruct (Hrun w Hin) as (k & Hk & Hc). exists k. split; [|exact Hc].
      rewrite Hold; [exact Hk|]. apply Hlt, in_allw. right; left; exact Hin.
    + exists (neww (c_clock s)). split.
      * rewrite nth_error_app2 by (unfold n; lia). replace (n - length (c_ws s))%nat with O by (unfold n; lia). reflexivity.
      * left. repeat split.
  - intros T w Hin. destruct (Hpark T w Hin) as (k & t & m & lg & Hk & Hrest).
    exists k, t, m, lg. split; [|exact Hrest]. rewrite Hold; [exact Hk|].
    apply Hlt, in_allw. right; right. unfold parked_ws. apply (in_map snd) in Hin. exact Hin.
  - intros w k Hk. destruct (lt_dec w n) as [Hl|Hl].
    + rewrite Hold in Hk by exact Hl. destruct (Hoth w k Hk) as [Hin|Hc]; [|right; exact Hc].
      left. apply (Permutation_in _ (Permutation_sym Hpa)). right. exact Hin.
    + left. apply (Permutation_in _ (Permutation_sym Hpa)). left.
      assert (w < length (c_ws s ++ [neww (c_clock s)]))%nat as Hw by (apply nth_error_Some; congruence).
      rewrite app_length in Hw. cbn [length] in Hw. unfold n in *. lia.
  - rewrite (Permutation_length Hpa). cbn [length]. lia.
  - intros t T Ht. destruct (Hasl t T Ht) as (w & k & m & lg & Hw & Hk & Hh).
    exists w, k, m, lg. split; [|split; [|exact Hh]].
    + destruct Hw as [Hw|[Hw|Hw]]; [left; exact Hw | right; left; apply in_app_iff; left; exact Hw | right; right; exact Hw].
    + rewrite Hold; [exact Hk|]. apply nth_error_Some. congruence.
  - intros w1 w2 t H1 H2 Ht1 Ht2.
    assert (forall w, wtask {| c_clock := c_clock s; c_ts := c_ts s; c_ws := c_ws s ++ [neww (c_clock s)]; c_wp := c_wp s ++ [0%nat];
                   c_tq := c_tq s; c_cq := fst (lpush (c_cq s) 0 0 (Z.of_nat n)); c_tb := c_tb s; c_tpr := c_tpr s;
                   c_d := c_d s; c_run := c_run s + 1; c_pf := c_pf s; c_res := c_res s; c_rt := c_rt s; c_tp := c_tp s |} w = Some t ->
                      wtask s w = Some t /\ w <> n) as Hwt.
    { intros w. unfold wtask. cbn [c_ws]. destruct (lt_dec w n) as [Hl|Hl].
      - rewrite Hold by exact Hl. intro Hx. split; [exact Hx | lia].
      - destruct (Nat.eq_dec w n) as [->|Hne].
        + rewrite nth_error_app2 by (unfold n; lia). replace (n - length (c_ws s))%nat with O by (unfold n; lia).
          cbn [nth_error neww k_task option_map]. discriminate.
        + assert (nth_error (c_ws s ++ [neww (c_clock s)]) w = None) as ->; [|discriminate].
          apply nth_error_None. rewrite app_length. cbn [length]. unfold n in *. lia. }
    destruct (Hwt _ Ht1) as [Ht1' Hn1]. destruct (Hwt _ Ht2) as [Ht2' Hn2].
    apply (Permutation_in _ Hpa) in H1, H2. destruct H1 as [H1|H1]; [congruence|]. destruct H2 as [H2|H2]; [congruence|].
    exact (Hinj w1 w2 t H1 H2 Ht1' Ht2').
  - intro w. destruct (lt_dec w n) as [Hl|Hl].
    + rewrite Hold by exact Hl. apply Htrk.
    + rewrite nth_overflow by (unfold n in Hl; lia).
      destruct (Nat.eq_dec w n) as [->|Hne].
      * rewrite nth_error_app2 by (unfold n; lia). replace (n - length (c_ws s))%nat with O by (unfold n; lia). reflexivity.
      * assert (nth_error (c_ws s ++ [neww (c_clock s)]) w = None) as ->; [|reflexivity].
        apply nth_error_None. rewrite app_length. cbn [length]. unfold n in *. lia.
  - rewrite app_length. cbn [length]. lia.
  - rewrite nwk_app.
    assert (nwk {| c_clock := c_clock s; c_ts := c_ts s; c_ws := c_ws s ++ [neww (c_clock s)]; c_wp := c_wp s ++ [0%nat];
                   c_tq := c_tq s; c_cq := fst (lpush (c_cq s) 0 0 (Z.of_nat n)); c_tb := c_tb s; c_tpr := c_tpr s;
                   c_d := c_d s; c_run := c_run s + 1; c_pf := c_pf s; c_res := c_res s; c_rt := c_rt s; c_tp := c_tp s |} R
            = nwk s R) as ->.
    { apply nwk_ext. intros w Hin. unfold wokenb. cbn [c_ws]. rewrite Hold; [reflexivity|].
      apply Hlt, in_allw. right; left; exact Hin. }
    unfold nwk at 2. cbn [filter]. unfold wokenb at 1. cbn [c_ws].
    rewrite nth_error_app2 by (unfold n; lia). replace (n - length (c_ws s))%nat with O by (unfold n; lia).
    cbn [nth_error neww k_st length]. lia.
Qed.

(** * The current worker changes (its record, and what the listener reported for it) *)
Lemma nodup_cur w R d : NoDup (allw (Some w) R d) -> ~ In w R /\ ~ In w (parked_ws d).
Proof.
  unfold allw. cbn [curw app]. intro H. inversion H as [|? ? Hn _]. subst.
  rewrite in_app_iff in Hn. tauto.
Qed.

Lemma wtask_upd_same s w k : (w < length (c_ws s))%nat -> wtask (upd_w s w k) w = option_map fst (k_task k).
Proof. intro H. unfold wtask. rewrite nth_error_upd_w by exact H. reflexivity. Qed.

Lemma wtask_upd_other s w k w' : w <> w' -> wtask (upd_w s w k) w' = wtask s w'.
Proof. intro H. unfold wtask. rewrite nth_error_upd_w_other by exact H. reflexivity. Qed.

Lemma hold_wtask s w k t n lg : nth_error (c_ws s) w = Some k -> hold k t n lg -> wtask s w = Some t.
Proof. intros Hk [Ht _ _]. unfold wtask. rewrite Hk, Ht. reflexivity. Qed.

Lemma len_upd_w s w k : length (c_ws (upd_w s w k)) = length (c_ws s).
Proof. unfold upd_w. cbn [c_ws s_ws]. rewrite set_nth_same_def. apply set_nth_length. Qed.

Lemma inv_upd_cur mx specs s d tr tr' w ct Q R k k' :
  INV mx specs s d tr (Some w) ct Q R ->
  nth_error (c_ws s) w = Some k ->
  (forall t, option_map fst (k_task k') = Some t -> option_map fst (k_task k) = Some t) ->
  (forall t T n lg, status tr t = Asleep T -> hold k t n lg -> hold k' t n lg) ->
  k_tasks tr' = k_tasks tr -> k_clock tr' = k_clock tr ->
  (forall w', nth w' (k_workers tr') Ready = if Nat.eqb w' w then k_st k' else nth w' (k_workers tr) Ready) ->
  (length (k_workers tr') <= length (c_ws s))%nat ->
  INV mx specs (upd_w s w k') d tr' (Some w) ct Q R.
Proof.
  intros H Hk Htask Hnas Hts Hcl Hws Hwl.
  destruct H as [Htq Hcq Htqi Hcqi Hcts Htb Htp Hwp Hnd Hlt HQnd HQst Hlen Hrun Hpark Hoth Hscnd Hsc Hsusp Hr Hres Hact Hasl Hinj Htrk Htrkl Hclk Hnsl].
  destruct (nodup_cur _ _ _ Hnd) as [HnR HnP].
  assert (w < length (c_ws s))%nat as Hwlt by (apply nth_error_Some; congruence).
  assert (forall t, status tr' t = status tr t) as Hst by (intro t; unfold status; rewrite Hts; reflexivity).
  assert (forall w', In w' R -> nth_error (c_ws (upd_w s w k')) w' = nth_error (c_ws s) w') as HoR.
  { intros w' Hin. apply nth_error_upd_w_other. intros ->. contradiction. }
  assert (forall w', In w' (parked_ws d) -> nth_error (c_ws (upd_w s w k')) w' = nth_error (c_ws s) w') as HoP.
  { intros w' Hin. apply nth_error_upd_w_other. intros ->. contradiction. }
  constructor; try assumption.
  - intros w' Hin. rewrite len_upd_w. apply Hlt, Hin.
  - intro t. rewrite Hst. apply HQst.
  - rewrite Hts. exact Hlen.
  - intros w' Hin. destruct (Hrun w' Hin) as (k0 & Hk0 & Hc). exists k0. rewrite HoR by exact Hin.
    split; [exact Hk0|]. destruct Hc as [Hc|(t & n & T & lg & Hc)]; [left; exact Hc|right].
    exists t, n, T, lg. rewrite Hst. exact Hc.
  - intros T w' Hin. destruct (Hpark T w' Hin) as (k0 & t & n & lg & Hk0 & Hc).
    exists k0, t, n, lg. rewrite Hst. rewrite HoP by (unfold parked_ws; apply (in_map snd) in Hin; exact Hin).
    split; [exact Hk0 | exact Hc].
  - intros w' k0 Hk0. destruct (Nat.eq_dec w w') as [<-|Hne].
    + left. apply in_allw. left. left. reflexivity.
    + rewrite nth_error_upd_w_other in Hk0 by exact Hne. apply Hoth in Hk0. exact Hk0.
  - intros t r. rewrite Hst. apply Hres.
  - intro t. rewrite Hst. apply Hact.
  - intros t T. rewrite Hst. intro Ht. destruct (Hasl t T Ht) as (w0 & k0 & n & lg & Hw0 & Hk0 & Hh).
    destruct (Nat.eq_dec w w0) as [<-|Hne].
    + rewrite Hk in Hk0. injection Hk0 as <-. exists w, k', n, lg. split; [exact Hw0|].
      split; [apply nth_error_upd_w, Hwlt | apply (Hnas t T n lg Ht Hh)].
    + exists w0, k0, n, lg. split; [exact Hw0|]. split; [|exact Hh].
      rewrite nth_error_upd_w_other by exact Hne. exact Hk0.
  - intros w1 w2 t H1 H2 Ht1 Ht2.
    assert (forall w0, wtask (upd_w s w k') w0 = Some t -> wtask s w0 = Some t) as Hwt.
    { intros w0. destruct (Nat.eq_dec w w0) as [<-|Hne].
      - rewrite wtask_upd_same by exact Hwlt. intro Hx. unfold wtask. rewrite Hk. apply Htask, Hx.
      - rewrite wtask_upd_other by exact Hne. tauto. }
    apply (Hinj w1 w2 t H1 H2); apply Hwt; assumption.
  - intro w'. rewrite Hws. destruct (Nat.eqb w' w) eqn:E.
    + apply Nat.eqb_eq in E. subst w'. rewrite nth_error_upd_w by exact Hwlt. reflexivity.
    + apply Nat.eqb_neq in E. rewrite nth_error_upd_w_other by (intro; apply E; congruence). apply Htrk.
  - rewrite len_upd_w. exact Hwl.
  - rewrite Hcl. exact Hclk.
  - rewrite (nwk_ext s (upd_w s w k') R); [exact Hnsl|].
    intros w' Hin. unfold wokenb. rewrite HoR by exact Hin. reflexivity.
Qed.

(** components the invariant does not look at *)
Lemma inv_same mx specs s s' d tr cur ct Q R :
  c_tq s' = c_tq s -> c_cq s' = c_cq s -> c_ts s' = c_ts s -> c_tb s' = c_tb s -> c_tp s' = c_tp s -> c_wp s' = c_wp s ->
  c_ws s' = c_ws s -> c_run s' = c_run s -> c_res s' = c_res s -> c_clock s' = c_clock s ->
  INV mx specs s d tr cur ct Q R -> INV mx specs s' d tr cur ct Q R.
Proof.
  intros E1 E2 E3 E4 E5 E6 E7 E8 E9 E10 H.
  destruct H as [Htq Hcq Htqi Hcqi Hcts Htb Htp Hwp Hnd Hlt HQnd HQst Hlen Hrun Hpark Hoth Hscnd Hsc Hsusp Hr Hres Hact Hasl Hinj Htrk Htrkl Hclk Hnsl].
  assert (forall w, wtask s' w = wtask s w) as Hwt by (intro w; unfold wtask; rewrite E7; reflexivity).
  constructor; rewrite ?E1, ?E2, ?E3, ?E4, ?E5, ?E6, ?E7, ?E8, ?E9, ?E10; try assumption.
  - intros w1 w2 t. rewrite !Hwt. apply Hinj.
  - rewrite (nwk_ext s s' R); [exact Hnsl|]. intros w _. unfold wokenb. rewrite E7. reflexivity.
Qed.

(** * The current task's status changes *)
Lemma inv_status mx specs s d tr w t Q R new :
  INV mx specs s d tr (Some w) (Some t) Q R ->
  wtask s w = Some t -> (t < length specs)%nat ->
  status tr t <> NotStarted -> status tr t <> Finished ->
  (new = Active \/ new = Finished \/
   exists T k n lg, new = Asleep T /\ nth_error (c_ws s) w = Some k /\ hold k t n lg) ->
  INV mx specs s d (set_status tr t new) (Some w) (Some t) Q R.
Proof.
  intros H Hwt Htl Hn1 Hn2 Hnew.
  destruct H as [Htq Hcq Htqi Hcqi Hcts Htb Htp Hwp Hnd Hlt HQnd HQst Hlen Hrun Hpark Hoth Hscnd Hsc Hsusp Hr Hres Hact Hasl Hinj Htrk Htrkl Hclk Hnsl].
  destruct (nodup_cur _ _ _ Hnd) as [HnR HnP].
  assert (t < length (k_tasks tr))%nat as Htl' by (rewrite Hlen; exact Htl).
  assert (forall t', t' <> t -> status (set_status tr t new) t' = status tr t') as Hoth_st.
  { intros t' Hne. apply status_set_other. congruence. }
  assert (status (set_status tr t new) t = new) as Hnew_st by (apply status_set_same, Htl').
  assert (new <> NotStarted) as HnewNS.
  { destruct Hnew as [->|[->|(T & k & n & lg & -> & _)]]; discriminate. }
  (* nobody else holds t *)
  assert (forall w' k' t' n lg, (In w' R \/ In w' (parked_ws d)) -> nth_error (c_ws s) w' = Some k' -> hold k' t' n lg -> t' <> t) as Hothers.
  { intros w' k' t' n lg Hin Hk' Hh ->. assert (w' = w) as ->.
    { apply (Hinj w' w t).
      - apply in_allw. right. exact Hin.
      - apply in_allw. left. left. reflexivity.
      - apply (hold_wtask s w' k' t n lg Hk' Hh).
      - exact Hwt. }
    destruct Hin; contradiction. }
  constructor; try assumption.
  - intro t'. destruct (Nat.eq_dec t' t) as [->|Hne].
    + rewrite Hnew_st. rewrite HQst. split; [intros [_ Hx]; contradiction | intros [_ Hx]; contradiction].
    + rewrite Hoth_st by exact Hne. apply HQst.
  - rewrite len_set_status. exact Hlen.
  - intros w' Hin. destruct (Hrun w' Hin) as (k0 & Hk0 & Hc). exists k0. split; [exact Hk0|].
    destruct Hc as [Hc|(t' & n & T & lg & Hs & Hh & Hsp & Hst)]; [left; exact Hc|right].
    exists t', n, T, lg. split; [exact Hs|]. split; [exact Hh|]. split; [exact Hsp|].
    rewrite Hoth_st; [exact Hst|]. apply (Hothers w' k0 t' n lg); [left; exact Hin | exact Hk0 | exact Hh].
  - intros T w' Hin. destruct (Hpark T w' Hin) as (k0 & t' & n & lg & Hk0 & Hs & Hh & Hsp & Hst).
    exists k0, t', n, lg. split; [exact Hk0|]. split; [exact Hs|]. split; [exact Hh|]. split; [exact Hsp|].
    rewrite Hoth_st; [exact Hst|]. apply (Hothers w' k0 t' n lg); [right | exact Hk0 | exact Hh].
    unfold parked_ws. apply (in_map snd) in Hin. exact Hin.
  - intros t' r Hr'. destruct (Nat.eq_dec t' t) as [->|Hne].
    + exfalso. apply Hn2. apply (Hres _ _ Hr').
    + rewrite Hoth_st by exact Hne. apply (Hres _ _ Hr').
  - intros t'. destruct (Nat.eq_dec t' t) as [->|Hne]; [reflexivity|].
    rewrite Hoth_st by exact Hne. apply Hact.
  - intros t' T. destruct (Nat.eq_dec t' t) as [->|Hne].
    + rewrite Hnew_st. intro Hx. destruct Hnew as [->|[->|(T' & k & n & lg & -> & Hk & Hh)]]; try discriminate.
      exists w, k, n, lg. split; [left; left; reflexivity|]. split; assumption.
    + rewrite Hoth_st by exact Hne. apply Hasl.
Qed.

(** * A task starts *)
Lemma nslp_perm specs l l' : Permutation l l' -> nslp specs l = nslp specs l'.
Proof.
  unfold nslp. induction 1 as [|x l l' _ IH|x y l|l l' l'' _ IH1 _ IH2]; cbn [filter].
  - reflexivity.
  - destruct (slp specs x); cbn [length]; lia.
  - destruct (slp specs x), (slp specs y); reflexivity.
  - lia.
Qed.

Lemma nslp_cons specs t l : nslp specs (t :: l) = ((if slp specs t then 1 else 0) + nslp specs l)%nat.
Proof. unfold nslp. cbn [filter]. destruct (slp specs t); reflexivity. Qed.

(** a worker that is not the current one and holds a task: that task is asleep *)
Lemma inv_wtask_asleep mx specs s d tr cur ct Q R w t :
  INV mx specs s d tr cur ct Q R -> In w R \/ In w (parked_ws d) -> wtask s w = Some t ->
  exists T, status tr t = Asleep T.
Proof.
  intros H Hin Hwt. destruct Hin as [Hin|Hin].
  - destruct (i_runnable _ _ _ _ _ _ _ _ _ H w Hin) as (k & Hk & [(_ & Hn & _)|(t' & n & T & lg & _ & Hh & _ & Hst)]).
    + unfold wtask in Hwt. rewrite Hk, Hn in Hwt. discriminate.
    + rewrite (hold_wtask s w k t' n lg Hk Hh) in Hwt. injection Hwt as <-. eauto.
  - unfold parked_ws in Hin. apply in_map_iff in Hin as ([T w'] & Hs & Hin). cbn [snd] in Hs. subst w'.
    destruct (i_parked _ _ _ _ _ _ _ _ _ H T w Hin) as (k & t' & n & lg & Hk & _ & Hh & _ & Hst).
    rewrite (hold_wtask s w k t' n lg Hk Hh) in Hwt. injection Hwt as <-. eauto.
Qed.

Lemma in_map_of_nat (l : list nat) z : In z (map Z.of_nat l) -> In (Z.to_nat z) l /\ z = Z.of_nat (Z.to_nat z).
Proof.
  intro H. apply in_map_iff in H as (t & <- & Hin). rewrite Nat2Z.id. split; [exact Hin | reflexivity].
Qed.

Lemma inv_start mx specs s d tr w Q R q' tz k body :
  INV mx specs s d tr (Some w) None Q R ->
  QOK q' -> Permutation (all_items (c_tq s)) (tz :: all_items q') ->
  nth_error (c_ws s) w = Some k -> k_task k = None ->
  exists Q', Permutation Q (Z.to_nat tz :: Q') /\ (Z.to_nat tz < length specs)%nat /\
    INV mx specs (upd_w (s_tq s q') w {| k_st := k_st k; k_create := k_create k; k_task := Some (Z.to_nat tz, body);
                                         k_tpool := O; k_dead := k_dead k |})
        d (set_status tr (Z.to_nat tz) Active) (Some w) (Some (Z.to_nat tz)) Q' R.
Proof.
  intros H Hq' Hperm Hk Hnone. set (t := Z.to_nat tz).
  pose proof H as H0.
  destruct H as [Htq Hcq Htqi Hcqi Hcts Htb Htp Hwp Hnd Hlt HQnd HQst Hlen Hrun Hpark Hoth Hscnd Hsc Hsusp Hr Hres Hact Hasl Hinj Htrk Htrkl Hclk Hnsl].
  destruct (nodup_cur _ _ _ Hnd) as [HnR HnP].
  assert (w < length (c_ws s))%nat as Hwlt by (apply nth_error_Some; congruence).
  assert (In tz (map Z.of_nat Q)) as Hin.
  { apply (Permutation_in _ Htqi). apply (Permutation_in _ (Permutation_sym Hperm)). left. reflexivity. }
  apply in_map_of_nat in Hin as [HinQ Htz]. fold t in HinQ, Htz.
  destruct (in_split _ _ HinQ) as (A & B & HQ).
  set (Q' := A ++ B).
  assert (Permutation Q (t :: Q')) as HpQ by (rewrite HQ; apply Permutation_sym, Permutation_middle).
  assert (~ In t Q') as HnQ'.
  { rewrite HQ in HQnd. apply NoDup_remove_2 in HQnd. exact HQnd. }
  assert (NoDup Q') as HndQ' by (rewrite HQ in HQnd; apply NoDup_remove_1 in HQnd; exact HQnd).
  destruct (proj1 (HQst t) HinQ) as [Htl HtNS].
  assert (t < length (k_tasks tr))%nat as Htl' by (rewrite Hlen; exact Htl).
  exists Q'. split; [exact HpQ|]. split; [exact Htl|].
  set (k' := {| k_st := k_st k; k_create := k_create k; k_task := Some (t, body); k_tpool := 0; k_dead := k_dead k |}).
  set (s1 := s_tq s q').
  assert (c_ws s1 = c_ws s) as Hws1 by reflexivity.
  assert (forall t', t' <> t -> status (set_status tr t Active) t' = status tr t') as Hoth_st.
  { intros t' Hne. apply status_set_other. congruence. }
  assert (status (set_status tr t Active) t = Active) as Hnew_st by (apply status_set_same, Htl').
  assert (forall w', w' <> w -> nth_error (c_ws (upd_w s1 w k')) w' = nth_error (c_ws s) w') as Hnw.
  { intros w' Hne. rewrite nth_error_upd_w_other by congruence. reflexivity. }
  assert (forall w' t', (In w' R \/ In w' (parked_ws d)) -> wtask s w' = Some t' -> t' <> t) as Hothers.
  { intros w' t' Hin Hwt ->. destruct (inv_wtask_asleep _ _ _ _ _ _ _ _ _ _ _ H0 Hin Hwt) as [T HT]. congruence. }
  constructor; try assumption.
  - (* tq items *)
    change (c_tq (upd_w s1 w k')) with q'.
    apply (Permutation_cons_inv (a := tz)). rewrite <- Hperm, Htqi, Htz. fold t.
    change (Z.of_nat t :: map Z.of_nat Q') with (map Z.of_nat (t :: Q')). apply Permutation_map, HpQ.
  - intros w' Hin. rewrite len_upd_w. apply Hlt, Hin.
  - intro t'. destruct (Nat.eq_dec t' t) as [->|Hne].
    + rewrite Hnew_st. split; [intro; contradiction | intros [_ Hx]; discriminate].
    + rewrite Hoth_st by exact Hne. rewrite <- HQst. split.
      * intro Hx. apply (Permutation_in _ (Permutation_sym HpQ)). right. exact Hx.
      * intro Hx. apply (Permutation_in _ HpQ) in Hx. destruct Hx as [Hx|Hx]; [congruence | exact Hx].
  - rewrite len_set_status. exact Hlen.
  - intros w' Hin. destruct (Hrun w' Hin) as (k0 & Hk0 & Hc). exists k0.
    rewrite Hnw by (intros ->; contradiction). split; [exact Hk0|].
    destruct Hc as [Hc|(t' & n & T & lg & Hs & Hh & Hsp & Hst)]; [left; exact Hc|right].
    exists t', n, T, lg. split; [exact Hs|]. split; [exact Hh|]. split; [exact Hsp|].
    rewrite Hoth_st; [exact Hst|]. intros ->. congruence.
  - intros T w' Hin. destruct (Hpark T w' Hin) as (k0 & t' & n & lg & Hk0 & Hs & Hh & Hsp & Hst).
    exists k0, t', n, lg. rewrite Hnw.
    + split; [exact Hk0|]. split; [exact Hs|]. split; [exact Hh|]. split; [exact Hsp|].
      rewrite Hoth_st; [exact Hst|]. intros ->. congruence.
    + intros ->. apply HnP. unfold parked_ws. apply (in_map snd) in Hin. exact Hin.
  - intros w' k0 Hk0. destruct (Nat.eq_dec w' w) as [->|Hne].
    + left. apply in_allw. left. left. reflexivity.
    + rewrite Hnw in Hk0 by exact Hne. apply Hoth in Hk0. exact Hk0.
  - intros t' r Hr'. change (c_res (upd_w s1 w k')) with (c_res s) in Hr'. destruct (Nat.eq_dec t' t) as [->|Hne].
    + apply Hres in Hr'. destruct Hr'. congruence.
    + rewrite Hoth_st by exact Hne. apply (Hres _ _ Hr').
  - intros t'. destruct (Nat.eq_dec t' t) as [->|Hne]; [reflexivity|].
    rewrite Hoth_st by exact Hne. intro Hx. apply Hact in Hx. discriminate.
  - intros t' T. destruct (Nat.eq_dec t' t) as [->|Hne].
    + rewrite Hnew_st. discriminate.
    + rewrite Hoth_st by exact Hne. intro Ht'. destruct (Hasl t' T Ht') as (w0 & k0 & n & lg & Hw0 & Hk0 & Hh).
      destruct (Nat.eq_dec w0 w) as [->|Hne0].
      * exfalso. rewrite Hk in Hk0. injection Hk0 as <-. destruct Hh as [Hx _ _]. congruence.
      * exists w0, k0, n, lg. split; [exact Hw0|]. split; [|exact Hh]. rewrite Hnw by exact Hne0. exact Hk0.
  - intros w1 w2 t0 H1 H2 Ht1 Ht2.
    destruct (Nat.eq_dec w1 w) as [->|Hn1]; destruct (Nat.eq_dec w2 w) as [->|Hn2]; try reflexivity.
    + exfalso. rewrite wtask_upd_same in Ht1 by (rewrite Hws1; exact Hwlt). cbn [k' k_task option_map fst] in Ht1.
      injection Ht1 as <-. rewrite wtask_upd_other in Ht2 by congruence.
      apply in_allw in H2. destruct H2 as [[H2|[]]|H2]; [congruence|].
      exact (Hothers w2 t H2 Ht2 eq_refl).
    + exfalso. rewrite wtask_upd_same in Ht2 by (rewrite Hws1; exact Hwlt). cbn [k' k_task option_map fst] in Ht2.
      injection Ht2 as <-. rewrite wtask_upd_other in Ht1 by congruence.
      apply in_allw in H1. destruct H1 as [[H1|[]]|H1]; [congruence|].
      exact (Hothers w1 t H1 Ht1 eq_refl).
    + rewrite wtask_upd_other in Ht1, Ht2 by congruence. exact (Hinj w1 w2 t0 H1 H2 Ht1 Ht2).
  - intro w'. destruct (Nat.eq_dec w' w) as [->|Hne].
    + rewrite nth_error_upd_w by (rewrite Hws1; exact Hwlt). cbn [k' k_st]. rewrite Htrk, Hk. reflexivity.
    + rewrite Hnw by exact Hne. apply Htrk.
  - rewrite len_upd_w. exact Htrkl.
  - rewrite (nwk_ext s (upd_w s1 w k') R).
    + rewrite (nslp_perm specs Q (t :: Q') HpQ), nslp_cons in Hnsl. cbn [cslp] in *. lia.
    + intros w' Hin. unfold wokenb. rewrite Hnw by (intros ->; contradiction). reflexivity.
Qed.

(** * Heaps and sets of the scheduler *)
Lemma heap_min_in l e : heap_min l = Some e -> In e l.
Proof.
  revert e. induction l as [|[t i] l IH]; intros e; cbn [heap_min]; [discriminate|].
  destruct (heap_min l) as [[t' i']|].
  - destruct (t' <? t); intro H; injection H as <-; [right; apply IH; reflexivity | left; reflexivity].
  - intro H; injection H as <-. left. reflexivity.
Qed.

Lemma heap_min_le l e : heap_min l = Some e -> forall e', In e' l -> fst e <= fst e'.
Proof.
  revert e. induction l as [|[t i] l IH]; intros e; cbn [heap_min]; [discriminate|].
  destruct (heap_min l) as [[t' i']|] eqn:E.
  - specialize (IH _ eq_refl). destruct (t' <? t) eqn:El; intro H; injection H as <-; intros e' [<-|Hin]; cbn [fst] in *.
    + lia.
    + apply IH, Hin.
    + lia.
    + specialize (IH e' Hin). cbn [fst] in IH. lia.
  - intro H; injection H as <-. intros e' [<-|Hin]; [lia|]. destruct l as [|[? ?] ?]; [destruct Hin|].
    cbn [heap_min] in E. destruct (heap_min l); [destruct p; destruct (_ <? _)|]; discriminate.
Qed.

Lemma heap_min_none l : heap_min l = None -> l = [].
Proof.
  destruct l as [|[t i] l]; [reflexivity|]. cbn [heap_min]. destruct (heap_min l) as [[t' i']|]; [destruct (t' <? t)|]; discriminate.
Qed.

Lemma heap_remove_perm e l : In e l -> Permutation l (e :: heap_remove e l).
Proof.
  induction l as [|[t i] l IH]; intros Hin; [destruct Hin|]. cbn [heap_remove].
  destruct ((t =? fst e) && Nat.eqb i (snd e)) eqn:E.
  - apply andb_true_iff in E as [E1 E2]. apply Z.eqb_eq in E1. apply Nat.eqb_eq in E2.
    destruct e as [t0 i0]. cbn [fst snd] in *. subst. reflexivity.
  - destruct Hin as [<-|Hin].
    + cbn [fst snd] in E. rewrite Z.eqb_refl, Nat.eqb_refl in E. discriminate.
    + rewrite (IH Hin) at 1. apply perm_swap.
Qed.

Lemma mem_nat_In i l : mem_nat i l = true <-> In i l.
Proof.
  unfold mem_nat. rewrite existsb_exists. split.
  - intros (x & Hin & E). apply Nat.eqb_eq in E. subst. exact Hin.
  - intro H. exists i. split; [exact H | apply Nat.eqb_refl].
Qed.

Lemma remove_nat_in i l x : NoDup l -> (In x (remove_nat i l) <-> In x l /\ x <> i).
Proof.
  induction l as [|j l IH]; intro Hnd; cbn [remove_nat].
  - cbn [In]. tauto.
  - inversion Hnd as [|? ? Hn Hnd']. subst. destruct (Nat.eqb i j) eqn:E.
    + apply Nat.eqb_eq in E. subst j. cbn [In]. split.
      * intro H. split; [right; exact H|]. intros ->. contradiction.
      * intros [[->|H] Hne]; [contradiction | exact H].
    + apply Nat.eqb_neq in E. cbn [In]. rewrite (IH Hnd'). split.
      * intros [->|[H Hne]]; [split; [left; reflexivity | congruence] | split; [right; exact H | exact Hne]].
      * intros [[->|H] Hne]; [left; reflexivity | right; split; assumption].
Qed.

Lemma remove_nat_nodup i l : NoDup l -> NoDup (remove_nat i l).
Proof.
  induction l as [|j l IH]; intro Hnd; cbn [remove_nat]; [constructor|].
  inversion Hnd as [|? ? Hn Hnd']. subst. destruct (Nat.eqb i j); [exact Hnd'|].
  constructor; [|apply IH, Hnd']. intro H. apply (remove_nat_in i l j Hnd') in H. tauto.
Qed.

Lemma assoc_get_snoc {A} k (l : list (nat * A)) k' v :
  assoc_get k (l ++ [(k', v)]) = match assoc_get k l with Some x => Some x | None => if Nat.eqb k k' then Some v else None end.
Proof.
  induction l as [|[a b] l IH]; cbn [app assoc_get]; [reflexivity|].
  destruct (Nat.eqb k a); [reflexivity | exact IH].
Qed.

(** * The current task finishes: its result is stored *)
Lemma inv_result mx specs s d tr w t Q R r :
  INV mx specs s d tr (Some w) (Some t) Q R -> status tr t = Finished -> (t < length specs)%nat ->
  INV mx specs (s_res s (c_res s ++ [(t, r)])) d tr (Some w) None Q R.
Proof.
  intros H Hfin Htl.
  destruct H as [Htq Hcq Htqi Hcqi Hcts Htb Htp Hwp Hnd Hlt HQnd HQst Hlen Hrun Hpark Hoth Hscnd Hsc Hsusp Hr Hres Hact Hasl Hinj Htrk Htrkl Hclk Hnsl].
  constructor; try assumption.
  - intros t' r'. cbn [c_res s_res]. rewrite assoc_get_snoc. destruct (assoc_get t' (c_res s)) eqn:E.
    + intros _. apply (Hres _ _ E).
    + destruct (Nat.eqb t' t) eqn:E2; [|discriminate]. apply Nat.eqb_eq in E2. subst. intros _. split; assumption.
  - intros t' Ht'. pose proof (Hact t' Ht') as Hx. injection Hx as ->. congruence.
  - cbn [cslp] in *. assert (nwk (s_res s (c_res s ++ [(t, r)])) R = nwk s R) as -> by reflexivity. lia.
Qed.

(** * The current worker parks in its hooked wait *)
Lemma perm_allw_park w R d T :
  Permutation (allw (Some w) R d) (allw None R (d_park d T w)).
Proof.
  unfold allw, parked_ws, d_park. cbn [curw app sd_sys_suspend]. rewrite map_app. cbn [map snd].
  rewrite app_assoc. apply Permutation_cons_append.
Qed.

Lemma inv_park mx specs s d tr w t Q R k n T lg :
  INV mx specs s d tr (Some w) (Some t) Q R ->
  nth_error (c_ws s) w = Some k -> k_st k = Syscall 0 n (SSuspend T) -> hold k t n lg ->
  spec_sleeper specs t n T lg -> status tr t = Asleep T ->
  INV mx specs s (d_park d T w) tr None None Q R.
Proof.
  intros H Hk Hst Hh Hsp Hasleep.
  destruct H as [Htq Hcq Htqi Hcqi Hcts Htb Htp Hwp Hnd Hlt HQnd HQst Hlen Hrun Hpark Hoth Hscnd Hsc Hsusp Hr Hres Hact Hasl Hinj Htrk Htrkl Hclk Hnsl].
  destruct (nodup_cur _ _ _ Hnd) as [HnR HnP].
  pose proof (perm_allw_park w R d T) as Hpa.
  assert (~ In w (sd_syscall d)) as Hnsc by (rewrite Hsc; exact HnP).
  assert (mem_nat w (sd_syscall d) = false) as Hmem.
  { destruct (mem_nat w (sd_syscall d)) eqn:E; [|reflexivity]. apply mem_nat_In in E. contradiction. }
  assert (sd_sys_suspend (d_park d T w) = sd_sys_suspend d ++ [(T, w)]) as HL by reflexivity.
  assert (sd_syscall (d_park d T w) = w :: sd_syscall d) as HS by (unfold d_park; cbn [sd_syscall]; rewrite Hmem; reflexivity).
  assert (parked_ws (d_park d T w) = parked_ws d ++ [w]) as HP by (unfold parked_ws; rewrite HL, map_app; reflexivity).
  constructor; try assumption.
  - eapply Permutation_NoDup; [exact Hpa | exact Hnd].
  - intros w' Hin. apply Hlt. apply (Permutation_in _ (Permutation_sym Hpa)), Hin.
  - intros T' w' Hin. rewrite HL in Hin. apply in_app_iff in Hin as [Hin|[Hin|[]]].
    + apply Hpark, Hin.
    + injection Hin as <- <-. exists k, t, n, lg. repeat (split; try assumption).
  - intros w' k' Hk'. destruct (Hoth w' k' Hk') as [Hin|Hc]; [left | right; exact Hc].
    apply (Permutation_in _ Hpa), Hin.
  - rewrite HS. constructor; assumption.
  - intro w'. rewrite HS, HP. cbn [In]. rewrite in_app_iff, Hsc. cbn [In]. tauto.
  - rewrite <- (Permutation_length Hpa). exact Hr.
  - intros t' Ht'. pose proof (Hact t' Ht') as Hx. injection Hx as ->. congruence.
  - intros t' T' Ht'. destruct (Hasl t' T' Ht') as (w0 & k0 & n0 & lg0 & Hw0 & Hk0 & Hh0).
    exists w0, k0, n0, lg0. split; [|split; assumption]. rewrite HL.
    destruct Hw0 as [[<-|[]]|[Hw0|Hw0]].
    + right. right. rewrite Hk in Hk0. injection Hk0 as <-.
      assert (t' = t) as ->. { destruct Hh as [E1 _ _], Hh0 as [E2 _ _]. congruence. }
      assert (T' = T) as -> by congruence. apply in_app_iff. right. left. reflexivity.
    + right. left. exact Hw0.
    + right. right. apply in_app_iff. left. exact Hw0.
  - intros w1 w2 t0 H1 H2. apply Hinj; apply (Permutation_in _ (Permutation_sym Hpa)); assumption.
  - rewrite HL, app_length. cbn [length cslp] in *.
    assert (slp specs t = true) as Hs. { unfold slp. unfold spec_sleeper in Hsp. rewrite Hsp. reflexivity. }
    rewrite Hs in Hnsl. lia.
Qed.

(** * The current worker leaves (its coroutine completed) *)
Lemma inv_drop_cur mx specs s d tr w Q R k r :
  INV mx specs s d tr (Some w) None Q R ->
  nth_error (c_ws s) w = Some k -> k_st k = Complete r -> k_task k = None ->
  INV mx specs (s_run s (sat_sub (c_run s) 1)) d tr None None Q R.
Proof.
  intros H Hk Hst Hnone.
  destruct H as [Htq Hcq Htqi Hcqi Hcts Htb Htp Hwp Hnd Hlt HQnd HQst Hlen Hrun Hpark Hoth Hscnd Hsc Hsusp Hr Hres Hact Hasl Hinj Htrk Htrkl Hclk Hnsl].
  assert (forall w', In w' (allw None R d) -> In w' (allw (Some w) R d)) as Hsub.
  { intros w' Hin. unfold allw in *. cbn [curw app] in *. right. exact Hin. }
  constructor; try assumption.
  - unfold allw in *. cbn [curw app] in *. inversion Hnd. assumption.
  - intros w' Hin. apply Hlt, Hsub, Hin.
  - intros w' k' Hk'. cbn [c_ws s_run] in Hk'. destruct (Hoth w' k' Hk') as [Hin|Hc]; [|right; exact Hc].
    unfold allw in Hin. cbn [curw app] in Hin. destruct Hin as [<-|Hin]; [|left; exact Hin].
    right. exists r. congruence.
  - cbn [c_run s_run]. rewrite Hr. unfold allw. cbn [curw app length]. unfold sat_sub. lia.
  - intros t T Ht. destruct (Hasl t T Ht) as (w0 & k0 & n0 & lg0 & Hw0 & Hk0 & Hh0).
    exists w0, k0, n0, lg0. split; [|split; assumption].
    destruct Hw0 as [[<-|[]]|Hw0]; [|right; exact Hw0].
    exfalso. rewrite Hk in Hk0. injection Hk0 as <-. destruct Hh0 as [E _ _]. congruence.
  - intros w1 w2 t0 H1 H2. apply Hinj; apply Hsub; assumption.
Qed.

(** * A runnable worker is taken from the ready queue *)
Lemma nwk_perm s l l' : Permutation l l' -> nwk s l = nwk s l'.
Proof.
  unfold nwk. induction 1 as [|x l l' _ IH|x y l|l l' l'' _ IH1 _ IH2]; cbn [filter].
  - reflexivity.
  - destruct (wokenb s x); cbn [length]; lia.
  - destruct (wokenb s x), (wokenb s y); reflexivity.
  - lia.
Qed.

Lemma nwk_cons s w l : nwk s (w :: l) = ((if wokenb s w then 1 else 0) + nwk s l)%nat.
Proof. unfold nwk. cbn [filter]. destruct (wokenb s w); reflexivity. Qed.

Lemma slp_of_spec specs t n T lg : spec_sleeper specs t n T lg -> slp specs t = true.
Proof. unfold slp, spec_sleeper. intros ->. reflexivity. Qed.

Lemma inv_take mx specs s d tr Q R q' v :
  INV mx specs s d tr None None Q R ->
  QOK q' -> Permutation (all_items (c_cq s)) (v :: all_items q') ->
  exists R', Permutation R (Z.to_nat v :: R') /\
             INV mx specs (s_cq s q') d tr (Some (Z.to_nat v)) (wtask s (Z.to_nat v)) Q R'.
Proof.
  intros H Hq' Hperm. set (w := Z.to_nat v).
  destruct H as [Htq Hcq Htqi Hcqi Hcts Htb Htp Hwp Hnd Hlt HQnd HQst Hlen Hrun Hpark Hoth Hscnd Hsc Hsusp Hr Hres Hact Hasl Hinj Htrk Htrkl Hclk Hnsl].
  assert (In v (map Z.of_nat R)) as Hin.
  { apply (Permutation_in _ Hcqi). apply (Permutation_in _ (Permutation_sym Hperm)). left. reflexivity. }
  apply in_map_of_nat in Hin as [HinR Hv]. fold w in HinR, Hv.
  destruct (in_split _ _ HinR) as (A & B & HR).
  set (R' := A ++ B).
  assert (Permutation R (w :: R')) as HpR by (rewrite HR; apply Permutation_sym, Permutation_middle).
  assert (Permutation (allw None R d) (allw (Some w) R' d)) as Hpa.
  { unfold allw. cbn [curw app]. change (w :: R' ++ parked_ws d) with ((w :: R') ++ parked_ws d).
    apply Permutation_app_tail, HpR. }
  exists R'. split; [exact HpR|].
  assert (forall w', wtask (s_cq s q') w' = wtask s w') as Hwt by reflexivity.
  constructor; try assumption.
  - change (c_cq (s_cq s q')) with q'.
    apply (Permutation_cons_inv (a := v)). rewrite <- Hperm, Hcqi, Hv.
    change (Z.of_nat w :: map Z.of_nat R') with (map Z.of_nat (w :: R')). apply Permutation_map, HpR.
  - eapply Permutation_NoDup; [exact Hpa | exact Hnd].
  - intros w' Hin. apply Hlt. apply (Permutation_in _ (Permutation_sym Hpa)), Hin.
  - intros w' Hin. apply Hrun. apply (Permutation_in _ (Permutation_sym HpR)). right. exact Hin.
  - intros w' k' Hk'. destruct (Hoth w' k' Hk') as [Hin|Hc]; [left | right; exact Hc].
    apply (Permutation_in _ Hpa), Hin.
  - rewrite <- (Permutation_length Hpa). exact Hr.
  - intros t Ht. apply Hact in Ht. discriminate.
  - intros t T Ht. destruct (Hasl t T Ht) as (w0 & k0 & n0 & lg0 & Hw0 & Hk0 & Hh0).
    exists w0, k0, n0, lg0. split; [|split; assumption].
    destruct Hw0 as [[]|[Hw0|Hw0]]; [|right; right; exact Hw0].
    apply (Permutation_in _ HpR) in Hw0. destruct Hw0 as [<-|Hw0]; [left; left; reflexivity | right; left; exact Hw0].
  - intros w1 w2 t0 H1 H2. rewrite !Hwt. apply Hinj; apply (Permutation_in _ (Permutation_sym Hpa)); assumption.
  - assert (nwk (s_cq s q') R' = nwk s R') as -> by reflexivity.
    rewrite (nwk_perm s R (w :: R') HpR), nwk_cons in Hnsl. cbn [cslp] in Hnsl.
    destruct (wokenb s w) eqn:Ew.
    + destruct (Hrun w HinR) as (k & Hk & [(Hs & _)|(t & n & T & lg & Hs & Hh & Hsp & _)]).
      * unfold wokenb in Ew. rewrite Hk, Hs in Ew. discriminate.
      * rewrite (hold_wtask s w k t n lg Hk Hh). cbn [cslp]. rewrite (slp_of_spec _ _ _ _ _ Hsp). lia.
    + destruct (Hrun w HinR) as (k & Hk & [(_ & Hn & _)|(t & n & T & lg & Hs & _)]).
      * unfold wtask. rewrite Hk, Hn. cbn [option_map cslp]. lia.
      * unfold wokenb in Ew. rewrite Hk, Hs in Ew. discriminate.
Qed.

(** * A parked worker whose time has come leaves the heap *)
Lemma inv_unpark mx specs s d tr Q R T w :
  INV mx specs s d tr None None Q R -> In (T, w) (sd_sys_suspend d) ->
  INV mx specs s (d_wake d (T, w)) tr (Some w) (wtask s w) Q R.
Proof.
  intros H Hin.
  destruct H as [Htq Hcq Htqi Hcqi Hcts Htb Htp Hwp Hnd Hlt HQnd HQst Hlen Hrun Hpark Hoth Hscnd Hsc Hsusp Hr Hres Hact Hasl Hinj Htrk Htrkl Hclk Hnsl].
  set (L := sd_sys_suspend d) in *. set (L' := heap_remove (T, w) L).
  assert (sd_sys_suspend (d_wake d (T, w)) = L') as HL by reflexivity.
  assert (sd_syscall (d_wake d (T, w)) = remove_nat w (sd_syscall d)) as HS by reflexivity.
  pose proof (heap_remove_perm (T, w) L Hin) as HpL. fold L' in HpL.
  assert (Permutation (parked_ws d) (w :: parked_ws (d_wake d (T, w)))) as HpP.
  { unfold parked_ws. rewrite HL. fold L. change (w :: map snd L') with (map snd ((T, w) :: L')). apply Permutation_map, HpL. }
  assert (Permutation (allw None R d) (allw (Some w) R (d_wake d (T, w)))) as Hpa.
  { unfold allw. cbn [curw app]. rewrite HpP. apply Permutation_sym, Permutation_middle. }
  assert (NoDup (allw (Some w) R (d_wake d (T, w)))) as Hnd' by (eapply Permutation_NoDup; [exact Hpa | exact Hnd]).
  destruct (nodup_cur _ _ _ Hnd') as [HnR HnP].
  constructor; try assumption.
  - intros w' Hin'. apply Hlt. apply (Permutation_in _ (Permutation_sym Hpa)), Hin'.
  - intros T' w' Hin'. rewrite HL in Hin'. apply Hpark. apply (Permutation_in _ (Permutation_sym HpL)). right. exact Hin'.
  - intros w' k' Hk'. destruct (Hoth w' k' Hk') as [Hin'|Hc]; [left | right; exact Hc].
    apply (Permutation_in _ Hpa), Hin'.
  - rewrite HS. apply remove_nat_nodup, Hscnd.
  - intro w'. rewrite HS, (remove_nat_in w _ w' Hscnd), Hsc. split.
    + intros [Hx Hne]. apply (Permutation_in _ HpP) in Hx. destruct Hx as [Hx|Hx]; [congruence | exact Hx].
    + intro Hx. split; [apply (Permutation_in _ (Permutation_sym HpP)); right; exact Hx | intros ->; contradiction].
  - rewrite <- (Permutation_length Hpa). exact Hr.
  - intros t Ht. apply Hact in Ht. discriminate.
  - intros t T' Ht. destruct (Hasl t T' Ht) as (w0 & k0 & n0 & lg0 & Hw0 & Hk0 & Hh0).
    exists w0, k0, n0, lg0. split; [|split; assumption].
    destruct Hw0 as [[]|[Hw0|Hw0]]; [right; left; exact Hw0|].
    apply (Permutation_in _ HpL) in Hw0. destruct Hw0 as [Hw0|Hw0].
    + injection Hw0 as <- <-. left. left. reflexivity.
    + right. right. rewrite HL. exact Hw0.
  - intros w1 w2 t0 H1 H2. apply Hinj; apply (Permutation_in _ (Permutation_sym Hpa)); assumption.
  - rewrite HL. rewrite (Permutation_length HpL) in Hnsl. cbn [length cslp] in Hnsl.
    destruct (Hpark T w Hin) as (k & t & n & lg & Hk & _ & Hh & Hsp & _).
    rewrite (hold_wtask s w k t n lg Hk Hh). cbn [cslp]. rewrite (slp_of_spec _ _ _ _ _ Hsp). lia.
Qed.

(** * A woken worker goes to the ready queue *)
Lemma inv_release mx specs s d tr w t Q R k n T lg cq' :
  INV mx specs s d tr (Some w) (Some t) Q R ->
  nth_error (c_ws s) w = Some k -> k_st k = Syscall 0 n STimeout -> hold k t n lg ->
  spec_sleeper specs t n T lg -> status tr t = Asleep T ->
  QOK cq' -> Permutation (all_items cq') (Z.of_nat w :: all_items (c_cq s)) ->
  INV mx specs (s_cq s cq') d tr None None Q (R ++ [w]).
Proof.
  intros H Hk Hst Hh Hsp Hasleep Hq' Hperm.
  destruct H as [Htq Hcq Htqi Hcqi Hcts Htb Htp Hwp Hnd Hlt HQnd HQst Hlen Hrun Hpark Hoth Hscnd Hsc Hsusp Hr Hres Hact Hasl Hinj Htrk Htrkl Hclk Hnsl].
  destruct (nodup_cur _ _ _ Hnd) as [HnR HnP].
  assert (Permutation (allw (Some w) R d) (allw None (R ++ [w]) d)) as Hpa.
  { unfold allw. cbn [curw app]. rewrite <- app_assoc. cbn [app]. apply Permutation_middle. }
  assert (forall w', wtask (s_cq s cq') w' = wtask s w') as Hwt by reflexivity.
  constructor; try assumption.
  - change (c_cq (s_cq s cq')) with cq'. apply perm_map_snoc. rewrite Hperm. apply perm_skip, Hcqi.
  - eapply Permutation_NoDup; [exact Hpa | exact Hnd].
  - intros w' Hin. apply Hlt. apply (Permutation_in _ (Permutation_sym Hpa)), Hin.
  - intros w' Hin. apply in_app_iff in Hin as [Hin|[<-|[]]]; [apply Hrun, Hin|].
    exists k. split; [exact Hk|]. right. exists t, n, T, lg. repeat (split; try assumption).
  - intros w' k' Hk'. destruct (Hoth w' k' Hk') as [Hin|Hc]; [left | right; exact Hc].
    apply (Permutation_in _ Hpa), Hin.
  - rewrite <- (Permutation_length Hpa). exact Hr.
  - intros t' Ht'. pose proof (Hact t' Ht') as Hx. injection Hx as ->. congruence.
  - intros t' T' Ht'. destruct (Hasl t' T' Ht') as (w0 & k0 & n0 & lg0 & Hw0 & Hk0 & Hh0).
    exists w0, k0, n0, lg0. split; [|split; assumption].
    destruct Hw0 as [[<-|[]]|[Hw0|Hw0]].
    + right. left. apply in_app_iff. right. left. reflexivity.
    + right. left. apply in_app_iff. left. exact Hw0.
    + right. right. exact Hw0.
  - intros w1 w2 t0 H1 H2. rewrite !Hwt. apply Hinj; apply (Permutation_in _ (Permutation_sym Hpa)); assumption.
  - assert (nwk (s_cq s cq') (R ++ [w]) = nwk s (R ++ [w])) as -> by reflexivity.
    rewrite nwk_app. unfold nwk at 2. cbn [filter]. unfold wokenb at 1. rewrite Hk, Hst. cbn [length cslp] in *.
    rewrite (slp_of_spec _ _ _ _ _ Hsp) in Hnsl. lia.
Qed.

(** * Operations between the passes *)
Definition trk_submit (tr : trk) : trk :=
  {| k_clock := k_clock tr; k_tasks := k_tasks tr ++ [NotStarted]; k_workers := k_workers tr;
     k_judged := k_judged tr; k_ok := k_ok tr |}.
Definition trk_clock (tr : trk) (c : Z) : trk :=
  {| k_clock := c; k_tasks := k_tasks tr; k_workers := k_workers tr; k_judged := k_judged tr; k_ok := k_ok tr |}.

Lemma nslp_ext specs specs' l : (forall t, In t l -> slp specs' t = slp specs t) -> nslp specs' l = nslp specs l.
Proof. intro H. unfold nslp. f_equal. apply filter_ext_in, H. Qed.

Lemma nslp_app specs l1 l2 : nslp specs (l1 ++ l2) = (nslp specs l1 + nslp specs l2)%nat.
Proof. unfold nslp. rewrite filter_app, app_length. reflexivity. Qed.

Lemma NoDup_app_snoc {A} (l : list A) x : NoDup l -> ~ In x l -> NoDup (l ++ [x]).
Proof.
  intros Hnd Hn. eapply Permutation_NoDup; [apply Permutation_cons_append|]. constructor; assumption.
Qed.

Lemma inv_submit mx specs s d tr Q R body sp :
  INV mx specs s d tr None None Q R -> parse_body body = Some sp ->
  INV mx (specs ++ [sp]) (submit_c s body) d (trk_submit tr) None None (Q ++ [length specs]) R.
Proof.
  intros H Hparse. apply parse_body_sound in Hparse.
  destruct H as [Htq Hcq Htqi Hcqi Hcts Htb Htp Hwp Hnd Hlt HQnd HQst Hlen Hrun Hpark Hoth Hscnd Hsc Hsusp Hr Hres Hact Hasl Hinj Htrk Htrkl Hclk Hnsl].
  set (K := length specs).
  assert (length (c_tb s) = K) as HK by (rewrite Htb, map_length; reflexivity).
  destruct (q_push (c_tq s) 0 (Z.of_nat K) Htq) as [Htq' Hperm].
  assert (forall t, (t < K)%nat -> status (trk_submit tr) t = status tr t) as Hst.
  { intros t Ht. unfold status, trk_submit. cbn [k_tasks]. apply app_nth1. rewrite Hlen. exact Ht. }
  assert (status (trk_submit tr) K = NotStarted) as HstK.
  { unfold status, trk_submit. cbn [k_tasks]. rewrite app_nth2 by (rewrite Hlen; unfold K; lia).
    rewrite Hlen. replace (K - length specs)%nat with O by (unfold K; lia). reflexivity. }
  assert (forall t, (K < t)%nat -> status (trk_submit tr) t = Finished) as HstGt.
  { intros t Ht. apply status_ge. unfold trk_submit. cbn [k_tasks]. rewrite app_length, Hlen. cbn [length]. unfold K in *. lia. }
  assert (forall t, (K <= t)%nat -> status tr t = Finished) as HstOld by (intros t Ht; apply status_ge; rewrite Hlen; exact Ht).
  assert (forall t n T lg, spec_sleeper specs t n T lg -> spec_sleeper (specs ++ [sp]) t n T lg) as Hspec.
  { intros t n T lg Hs. unfold spec_sleeper in *. rewrite nth_error_app1; [exact Hs|]. apply nth_error_Some. congruence. }
  assert (forall t, (t < K)%nat -> slp (specs ++ [sp]) t = slp specs t) as Hslp.
  { intros t Ht. unfold slp. rewrite nth_error_app1 by exact Ht. reflexivity. }
  assert (forall t T, status tr t = Asleep T -> (t < K)%nat) as Hasl_lt.
  { intros t T Ht. destruct (lt_dec t K) as [Hl|Hl]; [exact Hl|]. rewrite HstOld in Ht by lia. discriminate. }
  constructor; try assumption.
  - cbn [c_tq submit_c]. rewrite HK. exact Htq'.
  - cbn [c_tq submit_c]. rewrite HK. apply perm_map_snoc. rewrite Hperm. apply perm_skip, Htqi.
  - cbn [c_tb submit_c]. rewrite map_app, Htb, Hparse. reflexivity.
  - intro t. cbn [c_tp submit_c]. destruct (lt_dec t (length (c_tp s))) as [Hl|Hl].
    + rewrite app_nth1 by exact Hl. apply Htp.
    + rewrite app_nth2 by lia. destruct (t - length (c_tp s))%nat as [|[|?]]; reflexivity.
  - apply NoDup_app_snoc; [exact HQnd|]. intro Hin. apply HQst in Hin. unfold K in Hin. lia.
  - intro t. rewrite in_app_iff, app_length. cbn [In length]. destruct (lt_dec t K) as [Hl|Hl].
    + rewrite Hst by exact Hl. rewrite HQst. fold K. split; [intros [[_ Hx]|[Hx|[]]]; [split; [lia|exact Hx] | lia] | intros [_ Hx]; left; split; assumption].
    + destruct (Nat.eq_dec t K) as [->|Hne].
      * rewrite HstK. split; [intros _; split; [unfold K; lia | reflexivity] | intros _; right; left; reflexivity].
      * rewrite HstGt by lia. rewrite HQst. fold K. split; [intros [[Hx _]|[Hx|[]]]; lia | intros [_ Hx]; discriminate].
  - unfold trk_submit. cbn [k_tasks]. rewrite !app_length, Hlen. reflexivity.
  - intros w Hin. destruct (Hrun w Hin) as (k & Hk & Hc). exists k. split; [exact Hk|].
    destruct Hc as [Hc|(t & n & T & lg & Hs & Hh & Hsp & Hstt)]; [left; exact Hc | right].
    exists t, n, T, lg. split; [exact Hs|]. split; [exact Hh|]. split; [apply Hspec, Hsp|].
    rewrite Hst; [exact Hstt | eapply Hasl_lt, Hstt].
  - intros T w Hin. destruct (Hpark T w Hin) as (k & t & n & lg & Hk & Hs & Hh & Hsp & Hstt).
    exists k, t, n, lg. split; [exact Hk|]. split; [exact Hs|]. split; [exact Hh|]. split; [apply Hspec, Hsp|].
    rewrite Hst; [exact Hstt | eapply Hasl_lt, Hstt].
  - intros t r Hr'. cbn [c_res submit_c] in Hr'. destruct (Hres t r Hr') as [Hl Hf]. rewrite app_length. cbn [length].
    split; [lia|]. rewrite Hst by exact Hl. exact Hf.
  - intros t Ht. destruct (lt_dec t K) as [Hl|Hl].
    + rewrite Hst in Ht by exact Hl. apply Hact, Ht.
    + destruct (Nat.eq_dec t K) as [->|Hne]; [rewrite HstK in Ht; discriminate | rewrite HstGt in Ht by lia; discriminate].
  - intros t T Ht. destruct (lt_dec t K) as [Hl|Hl].
    + rewrite Hst in Ht by exact Hl. apply Hasl, Ht.
    + destruct (Nat.eq_dec t K) as [->|Hne]; [rewrite HstK in Ht; discriminate | rewrite HstGt in Ht by lia; discriminate].
  - assert (nwk (submit_c s body) R = nwk s R) as -> by reflexivity.
    rewrite app_length. cbn [length]. rewrite Nat.add_1_r, seq_S. cbn [plus]. rewrite !nslp_app. fold K.
    rewrite (nslp_ext specs (specs ++ [sp]) Q) by (intros t Hin; apply Hslp, HQst, Hin).
    rewrite (nslp_ext specs (specs ++ [sp]) (seq 0 K)) by (intros t Hin; apply Hslp; apply in_seq in Hin; lia).
    cbn [cslp] in *. unfold K in *. lia.
Qed.

Lemma inv_clock mx specs s d tr Q R c :
  INV mx specs s d tr None None Q R -> INV mx specs (s_clock s c) d (trk_clock tr c) None None Q R.
Proof.
  intro H.
  destruct H as [Htq Hcq Htqi Hcqi Hcts Htb Htp Hwp Hnd Hlt HQnd HQst Hlen Hrun Hpark Hoth Hscnd Hsc Hsusp Hr Hres Hact Hasl Hinj Htrk Htrkl Hclk Hnsl].
  constructor; try assumption. reflexivity.
Qed.

Lemma inv_init mx c : INV mx [] (cst0 c) sdata0 (trk0 c) None None [] [].
Proof.
  constructor; cbn [cst0 c_tq c_cq c_ts c_tb c_tp c_wp c_ws c_run c_res c_clock sdata0 sd_sys_suspend sd_syscall sd_suspend
                    trk0 k_tasks k_workers k_clock allw curw parked_ws map app length]; try reflexivity.
  - apply QOK_init.
  - apply QOK_init.
  - intro t; destruct t; reflexivity.
  - intro w; destruct w; reflexivity.
  - constructor.
  - intros w [].
  - constructor.
  - intro t. cbn [In length]. split; [tauto | intros [Hx _]; lia].
  - intros w [].
  - intros T w [].
  - intros w k Hk. destruct w; discriminate.
  - constructor.
  - intros t r Hx. discriminate.
  - intros t. unfold status. cbn [k_tasks]. destruct t; discriminate.
  - intros t T. unfold status. cbn [k_tasks]. destruct t; discriminate.
  - intros w1 w2 t [].
  - intro w. destruct w; reflexivity.
Qed.

Lemma inv_set_tq mx specs s d tr cur ct Q R q' :
  INV mx specs s d tr cur ct Q R -> QOK q' -> Permutation (all_items q') (map Z.of_nat Q) ->
  INV mx specs (s_tq s q') d tr cur ct Q R.
Proof.
  intros H Hq Hp.
  destruct H as [Htq Hcq Htqi Hcqi Hcts Htb Htp Hwp Hnd Hlt HQnd HQst Hlen Hrun Hpark Hoth Hscnd Hsc Hsusp Hr Hres Hact Hasl Hinj Htrk Htrkl Hclk Hnsl].
  constructor; try assumption.
Qed.

Lemma inv_set_cq mx specs s d tr cur ct Q R q' :
  INV mx specs s d tr cur ct Q R -> QOK q' -> Permutation (all_items q') (map Z.of_nat R) ->
  INV mx specs (s_cq s q') d tr cur ct Q R.
Proof.
  intros H Hq Hp.
  destruct H as [Htq Hcq Htqi Hcqi Hcts Htb Htp Hwp Hnd Hlt HQnd HQst Hlen Hrun Hpark Hoth Hscnd Hsc Hsusp Hr Hres Hact Hasl Hinj Htrk Htrkl Hclk Hnsl].
  constructor; try assumption.
Qed.

(** the invariant reads the tracker only through its task statuses, worker states and clock *)
Lemma inv_trk_ext mx specs s d tr tr' cur ct Q R :
  k_tasks tr' = k_tasks tr -> k_workers tr' = k_workers tr -> k_clock tr' = k_clock tr ->
  INV mx specs s d tr cur ct Q R -> INV mx specs s d tr' cur ct Q R.
Proof.
  intros E1 E2 E3 H.
  assert (forall t, status tr' t = status tr t) as Hst by (intro t; unfold status; rewrite E1; reflexivity).
  destruct H as [Htq Hcq Htqi Hcqi Hcts Htb Htp Hwp Hnd Hlt HQnd HQst Hlen Hrun Hpark Hoth Hscnd Hsc Hsusp Hr Hres Hact Hasl Hinj Htrk Htrkl Hclk Hnsl].
  constructor; try assumption.
  - intro t. rewrite Hst. apply HQst.
  - rewrite E1. exact Hlen.
  - intros w Hin. destruct (Hrun w Hin) as (k & Hk & Hc). exists k. split; [exact Hk|].
    destruct Hc as [Hc|(t & n & T & lg & Hc)]; [left; exact Hc | right; exists t, n, T, lg; rewrite Hst; exact Hc].
  - intros T w Hin. destruct (Hpark T w Hin) as (k & t & n & lg & Hc). exists k, t, n, lg. rewrite Hst. exact Hc.
  - intros t r. rewrite Hst. apply Hres.
  - intro t. rewrite Hst. apply Hact.
  - intros t T. rewrite Hst. apply Hasl.
  - intro w. rewrite E2. apply Htrk.
  - rewrite E2. exact Htrkl.
  - rewrite E3. exact Hclk.
Qed.
