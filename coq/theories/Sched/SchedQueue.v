(** The ready queue of the stand-alone scheduler seen as a multiset of coroutine indices:
    [w_push] adds one occurrence, [w_pop] removes one or reports that the queue is empty.
    Built on the conservation facts of Queue/OWSStep.v; no capacity premise is needed. *)
From OCV Require Import Base.Prelude Queue.PMap Queue.OWS Queue.OWSOracle Queue.OWSLemmas Queue.OWSModel
  Queue.OWSInv Queue.OWSStep Queue.OWSProofs.
From OCV Require Import Coroutine.Co Sched.Sched.
From Coq Require Import ZifyBool ZifyNat Permutation.
Open Scope Z_scope.

Definition cn (j : nat) (l : list nat) : nat := count_occ Nat.eq_dec l j.
Definition one_if (i j : nat) : nat := if Nat.eq_dec i j then 1%nat else 0%nat.

Lemma cn_nil j : cn j [] = 0%nat. Proof. reflexivity. Qed.
Lemma cn_cons j i l : cn j (i :: l) = (one_if i j + cn j l)%nat.
Proof. unfold cn, one_if. cbn [count_occ]. destruct (Nat.eq_dec i j); lia. Qed.
Lemma cn_app j l1 l2 : cn j (l1 ++ l2) = (cn j l1 + cn j l2)%nat.
Proof. apply count_occ_app. Qed.
Lemma cn_In j l : In j l <-> (cn j l > 0)%nat.
Proof. apply count_occ_In. Qed.
Lemma cn_not_In j l : ~ In j l <-> cn j l = 0%nat.
Proof. apply count_occ_not_In. Qed.
Lemma one_if_same i : one_if i i = 1%nat.
Proof. unfold one_if. destruct (Nat.eq_dec i i); congruence. Qed.
Lemma one_if_diff i j : i <> j -> one_if i j = 0%nat.
Proof. unfold one_if. destruct (Nat.eq_dec i j); congruence. Qed.

Definition qok (q : sys) : Prop := OWSInv.Inv 1 ready_cap q /\ length (s_handles q) = 1%nat.

Definition rdy (w : world) : list nat := map Z.to_nat (all_items (w_q w)).

Lemma qok_handle q : qok q -> exists hd, nth_error (s_handles q) 0 = Some hd.
Proof.
  intros [_ Hl]. destruct (s_handles q) as [|hd l]; [discriminate|]. exists hd. reflexivity.
Qed.

Lemma qok_init : qok (fst (new_handle (OWS.init 1 ready_cap))) /\
                 all_items (fst (new_handle (OWS.init 1 ready_cap))) = [].
Proof.
  split; [split|].
  - apply (new_handle_spec 1 ready_cap). apply Inv_init.
  - reflexivity.
  - reflexivity.
Qed.

Lemma cnt_to_cn (l l' : list Z) (i : nat) :
  (forall z, cnt z l' = (one z (Z.of_nat i) + cnt z l)%nat) ->
  forall j, cn j (map Z.to_nat l') = (one_if i j + cn j (map Z.to_nat l))%nat.
Proof.
  intros H j.
  assert (Permutation l' (Z.of_nat i :: l)) as HP.
  { apply cnt_perm. intro z. rewrite cnt_cons. apply H. }
  apply (Permutation_map Z.to_nat) in HP. cbn [map] in HP. rewrite Nat2Z.id in HP.
  unfold cn. rewrite (proj1 (Permutation_count_occ Nat.eq_dec _ _) HP j).
  fold (cn j (i :: map Z.to_nat l)). apply cn_cons.
Qed.

Lemma w_push_spec w i :
  qok (w_q w) ->
  qok (w_q (w_push w i)) /\
  (forall j, cn j (rdy (w_push w i)) = (one_if i j + cn j (rdy w))%nat).
Proof.
  intros [HI Hl]. destruct (qok_handle _ (conj HI Hl)) as [hd Hn].
  unfold w_push, rdy. cbn [w_q].
  destruct (lpush_spec 1 ready_cap (w_q w) 0 hd (prio_of w i) (Z.of_nat i) HI Hn) as (_ & HI' & Ht).
  split; [split; [exact HI'|]|].
  - pose proof (handles_len_step 1 ready_cap (w_q w) (LPush 0 (prio_of w i) (Z.of_nat i)) HI) as Hh.
    cbn [step nh_next] in Hh. rewrite Hh. exact Hl.
  - apply cnt_to_cn. intro z. apply (Ht z).
Qed.

Lemma w_push_thr w i : w_thr (w_push w i) = w_thr w. Proof. reflexivity. Qed.
Lemma w_push_cancel w i : w_cancel (w_push w i) = w_cancel w. Proof. reflexivity. Qed.

Lemma w_pop_spec w w' r :
  qok (w_q w) -> w_pop w = (w', r) ->
  qok (w_q w') /\ w_thr w' = w_thr w /\ w_cancel w' = w_cancel w /\ w_prio w' = w_prio w /\
  match r with
  | Some i => forall j, cn j (rdy w) = (one_if i j + cn j (rdy w'))%nat
  | None => rdy w = [] /\ rdy w' = []
  end.
Proof.
  intros [HI Hl] Hp. destruct (qok_handle _ (conj HI Hl)) as [hd Hn].
  pose proof (lpop_spec 1 ready_cap (w_q w) 0 0 hd HI Hn) as [HI' (ox & Hr & Ht & _ & Hnone) _ _].
  pose proof (handles_len_step 1 ready_cap (w_q w) (LPop 0 0) HI) as Hh. cbn [step nh_next] in Hh.
  unfold w_pop in Hp. destruct (lpop (w_q w) 0 0) as [q ob] eqn:El. cbn [fst snd] in *.
  subst ob.
  destruct ox as [x|].
  - injection Hp as <- <-. cbn [w_q w_thr w_cancel w_prio].
    split; [split; [exact HI' | lia]|]. do 3 (split; [reflexivity|]).
    assert (Permutation (all_items (w_q w)) (x :: all_items q)) as HP.
    { apply cnt_perm. intro z. rewrite cnt_cons. specialize (Ht z). unfold tot in Ht. cbn [olist] in Ht.
      rewrite cnt_cons, cnt_nil in Ht. lia. }
    intro j. unfold rdy. cbn [w_q]. apply (Permutation_map Z.to_nat) in HP. cbn [map] in HP.
    unfold cn. rewrite (proj1 (Permutation_count_occ Nat.eq_dec _ _) HP j).
    fold (cn j (Z.to_nat x :: map Z.to_nat (all_items q))). apply cn_cons.
  - injection Hp as <- <-. cbn [w_q w_thr w_cancel w_prio].
    split; [split; [exact HI' | lia]|]. do 3 (split; [reflexivity|]).
    unfold rdy. cbn [w_q]. rewrite (Hnone eq_refl). split; [reflexivity|].
    assert (all_items q = []) as ->; [|reflexivity].
    apply cnt_all0_nil. intro z. specialize (Ht z). unfold tot in Ht. rewrite (Hnone eq_refl) in Ht.
    cbn [olist] in Ht. rewrite !cnt_nil in Ht. lia.
Qed.

Lemma w_pop_form w :
  exists q r, w_pop w = ({| w_thr := w_thr w; w_q := q; w_prio := w_prio w; w_cancel := w_cancel w |}, r).
Proof.
  unfold w_pop. destruct (lpop (w_q w) 0 0) as [q [|[x|]| | |]]; eauto.
Qed.
