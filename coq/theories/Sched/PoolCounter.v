(** Counterexamples, all by [vm_compute] on the model's own run. [verdict] prints
    ((wf_pool1, wf_pool1t, wf_pool1c), (c01, c02, c11, c12, c13, shape)). See COUNTEREXAMPLES.md. *)
From OCV Require Import Base.Prelude Misc.Time Queue.PMap Queue.OWS Coroutine.Co Coroutine.CoOracle Sched.Sched Sched.Pool Sched.PoolOracle.
From OCV Require Import Sched.PoolWf Sched.PoolRun Sched.PoolProofs Sched.PoolTerm Sched.PoolIdleRun.
Open Scope Z_scope.

Definition verdict (clock : Z) (cfg : Z * Z * Z) (ops : list pop) :=
  let r := self_flags clock [cfg] ops in
  ((wf_pool1 clock cfg ops, wf_pool1t clock cfg ops, wf_pool1c clock cfg ops),
   (po_c01 (fst r), po_c02 (fst r), po_c11 (fst r), po_c12 (fst r), po_c13 (fst r), snd r)).

(** * A. well-formed histories on which an earlier version of the oracle raised a false alarm
    (fixed in the oracle: [task_settled], the saturation excuse); they pass now *)

(** A1: a cancel-before-start withdrawn by a clean: the stop's pass legitimately runs the task *)
Definition cx_withdrawn : list pop :=
  [PSubmit 0 [ITick 10000000; ISuspend 0; IReturn 1] None; PCancel 0; PClean 0 0; PStop 0 5].
Example cx_withdrawn_ok : verdict 0 (0, 2, 0) cx_withdrawn = ((true, true, true), (true, true, true, true, true, true)).
Proof. vm_compute. reflexivity. Qed.
Example cx_withdrawn_obs : nth 3 (prun (pw0 0 [(0, 2, 0)]) cx_withdrawn) OUnitP =
  OStop StopTimeout [EL 0 0 (CbChanged Running) Ready; EB 0 (BStart 0); EB 0 (BTick 10000000); EB 0 (BYield 0 RNone);
                     EL 0 0 (CbChanged (Suspend 0 0)) Running].
Proof. vm_compute. reflexivity. Qed.

(** A2: a stop issued at clock = u64::MAX: its deadline saturates to "now" *)
Definition cx_saturated : list pop :=
  [PSubmit 0 [ITick 100; IReturn 1] None; PPass 0 0; PPass 0 50; PClock U64MAX; PStop 0 5].
Example cx_saturated_ok : verdict 0 (0, 2, 0) cx_saturated = ((true, true, false), (true, true, true, true, true, true)).
Proof. vm_compute. reflexivity. Qed.

(** * B. P2 (c11) is false under [wf_pool1t] alone: the tracker cannot see the 1 ms naps of a stop,
    so its clock lags the model's and the saturation excuse does not fire. [wf_pool1c] excludes it. *)
Definition cx_c0 : Z := U64MAX - 3500000.
Definition cx_lag : list pop :=
  [PClock cx_c0;
   PSubmit 0 [IUntil 0 (cx_c0 + 500000); ITick 2500000; IReturn 1] None;
   PSubmit 0 [IUntil 0 (U64MAX - 2000000); IReturn 2] None;
   PPass 0 (cx_c0 + 100);
   PStop 0 2000000;
   PCancel 1;
   PStop 0 1].
Example cx_lag_c11 : verdict 0 (0, 2, 0) cx_lag = ((true, true, false), (true, true, false, true, true, true)).
Proof. vm_compute. reflexivity. Qed.
Example cx_lag_obs : nth 6 (prun (pw0 0 [(0, 2, 0)]) cx_lag) OUnitP = OStop StopTimeout [].
Proof. vm_compute. reflexivity. Qed.

(** * C. histories outside [wf_pool1]: why each conjunct is there *)

(** keep-alive > 0 is inside [wf_pool1] now (the idle worker's 1 ms naps advance the virtual clock until the
    keep-alive expires); this history used to diverge in the model *)
Example cx_keep : verdict 0 (0, 1, 1000) [PSubmit 0 [IReturn 1] None; PPass 0 100]
  = ((true, true, true), (true, true, true, true, true, true)).
Proof. vm_compute. reflexivity. Qed.

(** two workers with a keep-alive of 3 ms alternate idle yields and naps, then retire; the stop finds nobody *)
Example ex_keepalive : verdict 0 (0, 2, 3000000)
  [PSubmit 0 [ISuspend 0; IReturn 1] None; PSubmit 0 [IReturn 2] None; PPass 0 10000000; PGetRunning 0; PStop 0 1000000]
  = ((true, true, true), (true, true, true, true, true, true)).
Proof. vm_compute. reflexivity. Qed.

(** a nap at the end of time: the keep-alive (5 ms) is pending when the saturating clock reaches u64::MAX, the
    idle worker naps for ever, in the code as in the model; excluded by [naps_low] in [wf_pool1t] *)
Definition cx_nap : list pop := [PSubmit 0 [IReturn 1] None; PClock (U64MAX - 2000000); PPass 0 U64MAX].
Example cx_nap_saturates : verdict 0 (0, 1, 5000000) cx_nap = ((true, false, false), (false, true, false, true, true, true)).
Proof. vm_compute. reflexivity. Qed.
Example cx_nap_obs : nth 2 (prun (pw0 0 [(0, 1, 5000000)]) cx_nap) OUnitP =
  OPass PDiverged [EL 0 0 (CbChanged Running) Ready; EB 0 (BStart 0); EB 0 (BRet 1)].
Proof. vm_compute. reflexivity. Qed.

(** a negative initial clock is outside [cfg_ok] (an idle yield, [Suspend 0 0], must be due at once) *)
Example cx_negclock : verdict (-5) (0, 1, 0) [PSubmit 0 [IReturn 1] None; PPass 0 100]
  = ((false, false, false), (true, true, true, true, true, true)).
Proof. vm_compute. reflexivity. Qed.

(** min > 0: the last worker never exits: it naps until the model's fuel runs out, the code for ever *)
Example cx_min : verdict 0 (1, 1, 0) [PSubmit 0 [IReturn 1] None; PPass 0 100]
  = ((false, false, false), (false, true, false, true, true, true)).
Proof. vm_compute. reflexivity. Qed.

(** max = 0: nothing can ever run, yet the stop succeeds with the task still queued *)
Example cx_max0 : verdict 0 (0, 0, 0) [PSubmit 0 [] None; PStop 0 0]
  = ((false, false, false), (true, true, true, false, true, true)).
Proof. vm_compute. reflexivity. Qed.

(** a pool index out of range: the default pool takes the task, the phantom pool stops *)
Example cx_index : verdict 0 (0, 1, 0) [PSubmit 1 [] None; PStop 1 0]
  = ((false, false, false), (true, true, true, false, true, true)).
Proof. vm_compute. reflexivity. Qed.

(** [PClock] moving the model clock backwards (behind an [ITick]): a queued worker is resumed too early *)
Example cx_clock : verdict 0 (0, 2, 0) [PSubmit 0 [ITick 100; IDelay 0 0; IReturn 1] None; PPass 0 50; PClock 60; PPass 0 1000]
  = ((false, false, false), (false, true, true, true, true, true)).
Proof. vm_compute. reflexivity. Qed.

(** a body that calls [cancel()] on itself *)
Example cx_selfcancel : verdict 0 (0, 1, 0) [PSubmit 0 [ICancel; ISuspend 0; IReturn 1] None; PPass 0 100; PPass 0 100]
  = ((false, false, false), (false, true, true, true, true, true)).
Proof. vm_compute. reflexivity. Qed.

(** a task id used before it was submitted *)
Example cx_taskid : verdict 0 (0, 1, 0)
  [PCancel 3; PSubmit 0 [] None; PSubmit 0 [] None; PSubmit 0 [] None; PSubmit 0 [IReturn 1] None; PPass 0 100; PWait 0 3]
  = ((false, false, false), (false, false, true, true, true, true)).
Proof. vm_compute. reflexivity. Qed.
