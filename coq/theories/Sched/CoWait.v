(** [CoroutinePool::wait_task_result] called FROM a task (a task joining another task of its pool): the
    caller does not block; it runs queued tasks inline ([try_run]) until the result it wants is there or
    its time is up. Model: the queue is a list of (task id, outcome); each round of the loop runs the head
    of the queue inline, stores its result, then looks for the wanted one; an empty queue lets time pass
    (one round per remaining time unit). *)
From OCV Require Import Base.Prelude Misc.Time Coroutine.Co Sched.Pool.
Open Scope Z_scope.

Record cwst := { cw_queue : list (nat * tres); cw_results : list (nat * tres); cw_ran : list nat }.

Fixpoint cw_lookup (t : nat) (rs : list (nat * tres)) : option tres :=
  match rs with [] => None | (k, r) :: rest => if Nat.eqb t k then Some r else cw_lookup t rest end.

Inductive cwres := CWVal (r : tres) | CWTimedOut.

(** [fuel] = the rounds of the loop that fit before the deadline: the deadline is looked at AFTER each
    round, so a zero wait time still makes one round; a long wait makes as many as it takes *)
Fixpoint co_wait (fuel : nat) (target : nat) (s : cwst) : cwres * cwst :=
  match cw_lookup target (cw_results s) with
  | Some r => (CWVal r, s)
  | None =>
      match fuel with
      | O => (CWTimedOut, s)
      | S f =>
          match cw_queue s with
          | (k, r) :: q =>
              co_wait f target {| cw_queue := q; cw_results := (k, r) :: cw_results s; cw_ran := cw_ran s ++ [k] |}
          | [] => co_wait f target s
          end
      end
  end.

Fixpoint before (target : nat) (q : list (nat * tres)) : list nat :=
  match q with
  | [] => []
  | (k, _) :: rest => if Nat.eqb target k then [k] else k :: before target rest
  end.

(** if the wanted task is queued and the wait is long enough for the queue in front of it, the wait
    returns ITS outcome, having run exactly the tasks queued in front of it and the task itself *)
Lemma co_wait_queued : forall q rs ran f target r,
  cw_lookup target rs = None ->
  cw_lookup target q = Some r ->
  (List.length (before target q) <= f)%nat ->
  exists s', co_wait f target {| cw_queue := q; cw_results := rs; cw_ran := ran |} = (CWVal r, s')
             /\ cw_ran s' = ran ++ before target q.
Proof.
  induction q as [|[k o] q IH]; intros rs ran f target r Hn Hq Hf; [discriminate|].
  cbn [cw_lookup] in Hq. cbn [before] in Hf |- *.
  destruct (Nat.eqb target k) eqn:E.
  - inversion Hq; subst o. destruct f as [|f]; [cbn in Hf; lia|].
    cbn [co_wait cw_results cw_queue cw_ran]. rewrite Hn.
    destruct f as [|f]; cbn [co_wait cw_results cw_lookup]; rewrite E; eexists; split; reflexivity.
  - destruct f as [|f]; [cbn in Hf; lia|].
    cbn [co_wait cw_results cw_queue cw_ran]. rewrite Hn.
    destruct (IH ((k, o) :: rs) (ran ++ [k]) f target r) as (s' & H1 & H2).
    + cbn [cw_lookup]. rewrite E. exact Hn.
    + exact Hq.
    + cbn in Hf. lia.
    + exists s'. split; [exact H1|]. rewrite H2, <- app_assoc. reflexivity.
Qed.

Theorem co_wait_returns_own_result : forall q target r fuel,
  cw_lookup target q = Some r -> (List.length (before target q) <= fuel)%nat ->
  exists s', co_wait fuel target {| cw_queue := q; cw_results := []; cw_ran := [] |} = (CWVal r, s')
             /\ cw_ran s' = before target q.
Proof.
  intros q target r fuel Hq Hf.
  destruct (co_wait_queued q [] [] fuel target r eq_refl Hq Hf) as (s' & H1 & H2).
  exists s'. split; [exact H1 | exact H2].
Qed.

(** a result that is already there is returned without running anything, whatever the wait time *)
Theorem co_wait_finished_runs_nothing : forall fuel target r s,
  cw_lookup target (cw_results s) = Some r -> co_wait fuel target s = (CWVal r, s).
Proof. intros fuel target r s H. destruct fuel; cbn; rewrite H; reflexivity. Qed.

(** with time for the whole queue, a timeout is reported only when the wanted result is neither there
    nor queued *)
Theorem co_wait_timeout_only_if_absent : forall q target fuel s',
  (List.length q <= fuel)%nat ->
  co_wait fuel target {| cw_queue := q; cw_results := []; cw_ran := [] |} = (CWTimedOut, s') ->
  cw_lookup target q = None.
Proof.
  intros q target fuel s' Hf H. destruct (cw_lookup target q) as [r|] eqn:E; [|reflexivity].
  assert (Hb : (List.length (before target q) <= List.length q)%nat).
  { clear. induction q as [|[k o] q IH]; cbn; [lia|]. destruct (Nat.eqb target k); cbn; lia. }
  destruct (co_wait_returns_own_result q target r fuel E) as (s2 & H1 & _); [lia|].
  rewrite H1 in H. discriminate.
Qed.

(** a zero wait time makes exactly one round: the head of the queue is run, nothing more *)
Theorem co_wait_zero_time_one_round : forall k o q target,
  Nat.eqb target k = false -> cw_lookup target [] = None ->
  fst (co_wait 1 target {| cw_queue := (k, o) :: q; cw_results := []; cw_ran := [] |}) = CWTimedOut.
Proof. intros k o q target E _. cbn. rewrite E. reflexivity. Qed.
