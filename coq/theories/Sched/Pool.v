(** Model of core/src/co_pool/{mod,creator,state,task}.rs: one or several [CoroutinePool]s living
    on one thread and sharing the process-global task queue, coroutine queue and cancel sets.
    Worker coroutines run the loop of [try_grow]; task bodies are instruction lists (as in
    [Coroutine.Co]) executed inside the worker that popped them. The scheduling pass is the
    generic [Sched.do_schedule]. Tasks are identified by submission index, workers by creation
    index. *)
From OCV Require Import Base.Prelude Misc.Time Queue.PMap Queue.OWS Coroutine.Co Sched.Sched.
Open Scope Z_scope.

Inductive pstate := PRunning | PStopping | PStopped.

(** task results: Ok(Some v) / Err(message) *)
Inductive tmsg := TM (m : msg) | TMStopped | TMCancelled.
Inductive tres := TOk (v : Z) | TErr (m : tmsg).

Record worker := {
  k_st : cstate;
  k_create : Z;                            (* create_time *)
  k_task : option (nat * list instr);      (* task being run and what is left of its body *)
  k_tpool : nat;                           (* the pool whose try_run popped that task: its result goes there *)
  k_dead : bool                            (* the inner coroutine has returned *)
}.

Record pool := {
  p_state : pstate;
  p_sd : sdata;                 (* the scheduler's own containers *)
  p_running : Z;
  p_popfail : Z;
  p_min : Z; p_max : Z; p_keep : Z;
  p_waits : list nat;           (* tasks with a registered waiter *)
  p_results : list (nat * tres);
  p_nowaits : list nat
}.

Record pw := {
  pw_clock : Z;
  pw_ts : list Z; pw_cn : list bool;       (* the thread's request deques *)
  pw_workers : list worker;
  pw_wpool : list nat;                     (* pool that created worker i (its listeners and queue entry priority none) *)
  pw_tq : sys;                             (* task queue, handle p belongs to pool p *)
  pw_cq : sys;                             (* coroutine queue, handle p belongs to pool p's scheduler *)
  pw_tbody : list (list instr);            (* task bodies, by id *)
  pw_tprio : list Z;
  pw_pools : list pool;
  pw_cur : nat;                            (* CoroutinePool::current(): the pool whose pass is running *)
  pw_cancel_tasks : list nat;
  pw_cancel_cos : list nat;
  pw_running_tasks : list (nat * nat);     (* RUNNING_TASKS: task -> worker *)
  pw_spin : bool;                          (* a worker entered its endless idle nap: the pass never returns *)
  pw_tpool : list nat;                     (* pool each task was submitted to *)
  pw_defects : list nat                    (* defect tags raised on the branches that misbehave (see below) *)
}.

Definition queue_cap : Z := 256.

Fixpoint add_handles (n : nat) (s : sys) : sys :=
  match n with O => s | S n' => add_handles n' (fst (new_handle s)) end.

Definition mk_pool (mn mx keep : Z) : pool :=
  {| p_state := PRunning; p_sd := sdata0; p_running := 0; p_popfail := 0; p_min := mn; p_max := mx; p_keep := keep;
     p_waits := []; p_results := []; p_nowaits := [] |}.

(** [cfgs] = (min, max, keep_alive) per pool, in creation order *)
Definition pw0 (clock : Z) (cfgs : list (Z * Z * Z)) : pw :=
  let n := length cfgs in
  {| pw_clock := clock; pw_ts := []; pw_cn := []; pw_workers := []; pw_wpool := [];
     pw_tq := add_handles n (OWS.init (Nat.max n 1) queue_cap);
     pw_cq := add_handles n (OWS.init (Nat.max n 1) queue_cap);
     pw_tbody := []; pw_tprio := [];
     pw_pools := map (fun c => mk_pool (fst (fst c)) (snd (fst c)) (snd c)) cfgs;
     pw_cur := O; pw_cancel_tasks := []; pw_cancel_cos := []; pw_running_tasks := []; pw_spin := false; pw_tpool := []; pw_defects := [] |}.

(* ---- record updates ---- *)
Definition set_pools (x : pw) (ps : list pool) : pw :=
  {| pw_clock := pw_clock x; pw_ts := pw_ts x; pw_cn := pw_cn x; pw_workers := pw_workers x; pw_wpool := pw_wpool x;
     pw_tq := pw_tq x; pw_cq := pw_cq x; pw_tbody := pw_tbody x; pw_tprio := pw_tprio x; pw_pools := ps;
     pw_cur := pw_cur x; pw_cancel_tasks := pw_cancel_tasks x; pw_cancel_cos := pw_cancel_cos x;
     pw_running_tasks := pw_running_tasks x; pw_spin := pw_spin x; pw_tpool := pw_tpool x; pw_defects := pw_defects x |}.
Definition set_workers (x : pw) (ws : list worker) : pw :=
  {| pw_clock := pw_clock x; pw_ts := pw_ts x; pw_cn := pw_cn x; pw_workers := ws; pw_wpool := pw_wpool x;
     pw_tq := pw_tq x; pw_cq := pw_cq x; pw_tbody := pw_tbody x; pw_tprio := pw_tprio x; pw_pools := pw_pools x;
     pw_cur := pw_cur x; pw_cancel_tasks := pw_cancel_tasks x; pw_cancel_cos := pw_cancel_cos x;
     pw_running_tasks := pw_running_tasks x; pw_spin := pw_spin x; pw_tpool := pw_tpool x; pw_defects := pw_defects x |}.
Definition set_tq (x : pw) (q : sys) : pw :=
  {| pw_clock := pw_clock x; pw_ts := pw_ts x; pw_cn := pw_cn x; pw_workers := pw_workers x; pw_wpool := pw_wpool x;
     pw_tq := q; pw_cq := pw_cq x; pw_tbody := pw_tbody x; pw_tprio := pw_tprio x; pw_pools := pw_pools x;
     pw_cur := pw_cur x; pw_cancel_tasks := pw_cancel_tasks x; pw_cancel_cos := pw_cancel_cos x;
     pw_running_tasks := pw_running_tasks x; pw_spin := pw_spin x; pw_tpool := pw_tpool x; pw_defects := pw_defects x |}.
Definition set_cq (x : pw) (q : sys) : pw :=
  {| pw_clock := pw_clock x; pw_ts := pw_ts x; pw_cn := pw_cn x; pw_workers := pw_workers x; pw_wpool := pw_wpool x;
     pw_tq := pw_tq x; pw_cq := q; pw_tbody := pw_tbody x; pw_tprio := pw_tprio x; pw_pools := pw_pools x;
     pw_cur := pw_cur x; pw_cancel_tasks := pw_cancel_tasks x; pw_cancel_cos := pw_cancel_cos x;
     pw_running_tasks := pw_running_tasks x; pw_spin := pw_spin x; pw_tpool := pw_tpool x; pw_defects := pw_defects x |}.
Definition set_clockp (x : pw) (c : Z) : pw :=
  {| pw_clock := c; pw_ts := pw_ts x; pw_cn := pw_cn x; pw_workers := pw_workers x; pw_wpool := pw_wpool x;
     pw_tq := pw_tq x; pw_cq := pw_cq x; pw_tbody := pw_tbody x; pw_tprio := pw_tprio x; pw_pools := pw_pools x;
     pw_cur := pw_cur x; pw_cancel_tasks := pw_cancel_tasks x; pw_cancel_cos := pw_cancel_cos x;
     pw_running_tasks := pw_running_tasks x; pw_spin := pw_spin x; pw_tpool := pw_tpool x; pw_defects := pw_defects x |}.
Definition set_req (x : pw) (ts : list Z) (cn : list bool) : pw :=
  {| pw_clock := pw_clock x; pw_ts := ts; pw_cn := cn; pw_workers := pw_workers x; pw_wpool := pw_wpool x;
     pw_tq := pw_tq x; pw_cq := pw_cq x; pw_tbody := pw_tbody x; pw_tprio := pw_tprio x; pw_pools := pw_pools x;
     pw_cur := pw_cur x; pw_cancel_tasks := pw_cancel_tasks x; pw_cancel_cos := pw_cancel_cos x;
     pw_running_tasks := pw_running_tasks x; pw_spin := pw_spin x; pw_tpool := pw_tpool x; pw_defects := pw_defects x |}.
Definition set_cur (x : pw) (p : nat) : pw :=
  {| pw_clock := pw_clock x; pw_ts := pw_ts x; pw_cn := pw_cn x; pw_workers := pw_workers x; pw_wpool := pw_wpool x;
     pw_tq := pw_tq x; pw_cq := pw_cq x; pw_tbody := pw_tbody x; pw_tprio := pw_tprio x; pw_pools := pw_pools x;
     pw_cur := p; pw_cancel_tasks := pw_cancel_tasks x; pw_cancel_cos := pw_cancel_cos x;
     pw_running_tasks := pw_running_tasks x; pw_spin := pw_spin x; pw_tpool := pw_tpool x; pw_defects := pw_defects x |}.
Definition set_globals (x : pw) (ct : list nat) (cc : list nat) (rt : list (nat * nat)) : pw :=
  {| pw_clock := pw_clock x; pw_ts := pw_ts x; pw_cn := pw_cn x; pw_workers := pw_workers x; pw_wpool := pw_wpool x;
     pw_tq := pw_tq x; pw_cq := pw_cq x; pw_tbody := pw_tbody x; pw_tprio := pw_tprio x; pw_pools := pw_pools x;
     pw_cur := pw_cur x; pw_cancel_tasks := ct; pw_cancel_cos := cc; pw_running_tasks := rt; pw_spin := pw_spin x; pw_tpool := pw_tpool x; pw_defects := pw_defects x |}.

Definition set_spin (x : pw) : pw :=
  {| pw_clock := pw_clock x; pw_ts := pw_ts x; pw_cn := pw_cn x; pw_workers := pw_workers x; pw_wpool := pw_wpool x;
     pw_tq := pw_tq x; pw_cq := pw_cq x; pw_tbody := pw_tbody x; pw_tprio := pw_tprio x; pw_pools := pw_pools x;
     pw_cur := pw_cur x; pw_cancel_tasks := pw_cancel_tasks x; pw_cancel_cos := pw_cancel_cos x;
     pw_running_tasks := pw_running_tasks x; pw_spin := true; pw_tpool := pw_tpool x; pw_defects := pw_defects x |}.

(** defect tags: 1 (historic, repaired: the drop is now reported as Cancelled) a worker was dropped by a cancel; 2 a worker created by one pool was resumed by
    another pool's pass; 3 a task's result was stored in a pool other than the one it was
    submitted to *)
Definition defect_dropped := 1%nat. Definition defect_stolen_worker := 2%nat. Definition defect_result_elsewhere := 3%nat.
Definition add_defect (x : pw) (d : nat) : pw :=
  {| pw_clock := pw_clock x; pw_ts := pw_ts x; pw_cn := pw_cn x; pw_workers := pw_workers x; pw_wpool := pw_wpool x;
     pw_tq := pw_tq x; pw_cq := pw_cq x; pw_tbody := pw_tbody x; pw_tprio := pw_tprio x; pw_pools := pw_pools x;
     pw_cur := pw_cur x; pw_cancel_tasks := pw_cancel_tasks x; pw_cancel_cos := pw_cancel_cos x;
     pw_running_tasks := pw_running_tasks x; pw_spin := pw_spin x; pw_tpool := pw_tpool x;
     pw_defects := if existsb (Nat.eqb d) (pw_defects x) then pw_defects x else d :: pw_defects x |}.

Definition get_pool (x : pw) (p : nat) : pool := nth p (pw_pools x) (mk_pool 0 0 0).
Definition upd_pool (x : pw) (p : nat) (f : pool -> pool) : pw :=
  set_pools x (set_nth p (f (get_pool x p)) (pw_pools x)).
Definition get_worker (x : pw) (w : nat) : option worker := nth_error (pw_workers x) w.
Definition upd_worker (x : pw) (w : nat) (k : worker) : pw := set_workers x (set_nth w k (pw_workers x)).

Definition p_with_running (n : Z) (q : pool) : pool :=
  {| p_state := p_state q; p_sd := p_sd q; p_running := n; p_popfail := p_popfail q; p_min := p_min q; p_max := p_max q;
     p_keep := p_keep q; p_waits := p_waits q; p_results := p_results q; p_nowaits := p_nowaits q |}.
Definition p_with_popfail (n : Z) (q : pool) : pool :=
  {| p_state := p_state q; p_sd := p_sd q; p_running := p_running q; p_popfail := n; p_min := p_min q; p_max := p_max q;
     p_keep := p_keep q; p_waits := p_waits q; p_results := p_results q; p_nowaits := p_nowaits q |}.
Definition p_with_sd (d : sdata) (q : pool) : pool :=
  {| p_state := p_state q; p_sd := d; p_running := p_running q; p_popfail := p_popfail q; p_min := p_min q; p_max := p_max q;
     p_keep := p_keep q; p_waits := p_waits q; p_results := p_results q; p_nowaits := p_nowaits q |}.
Definition p_with_state (s : pstate) (q : pool) : pool :=
  {| p_state := s; p_sd := p_sd q; p_running := p_running q; p_popfail := p_popfail q; p_min := p_min q; p_max := p_max q;
     p_keep := p_keep q; p_waits := p_waits q; p_results := p_results q; p_nowaits := p_nowaits q |}.
Definition p_with_wait (ws : list nat) (rs : list (nat * tres)) (nw : list nat) (q : pool) : pool :=
  {| p_state := p_state q; p_sd := p_sd q; p_running := p_running q; p_popfail := p_popfail q; p_min := p_min q; p_max := p_max q;
     p_keep := p_keep q; p_waits := ws; p_results := rs; p_nowaits := nw |}.

Fixpoint assoc_get {A} (k : nat) (l : list (nat * A)) : option A :=
  match l with [] => None | (k', v) :: r => if Nat.eqb k k' then Some v else assoc_get k r end.
Fixpoint assoc_del {A} (k : nat) (l : list (nat * A)) : list (nat * A) :=
  match l with [] => [] | (k', v) :: r => if Nat.eqb k k' then r else (k', v) :: assoc_del k r end.

(** [try_grow] on pool [p] *)
Definition try_grow (x : pw) (p : nat) : pw :=
  if full_len (pw_tq x) =? 0 then x            (* task_queue.is_empty() looks at every queue *)
  else
    let q := get_pool x p in
    if p_max q <=? p_running q then x          (* submit_co: maximum size reached *)
    else
      let w := length (pw_workers x) in
      let x1 := {| pw_clock := pw_clock x; pw_ts := pw_ts x; pw_cn := pw_cn x;
                   pw_workers := pw_workers x ++ [{| k_st := Ready; k_create := pw_clock x; k_task := None; k_tpool := p; k_dead := false |}];
                   pw_wpool := pw_wpool x ++ [p];
                   pw_tq := pw_tq x; pw_cq := pw_cq x; pw_tbody := pw_tbody x; pw_tprio := pw_tprio x;
                   pw_pools := pw_pools x; pw_cur := pw_cur x; pw_cancel_tasks := pw_cancel_tasks x;
                   pw_cancel_cos := pw_cancel_cos x; pw_running_tasks := pw_running_tasks x; pw_spin := pw_spin x; pw_tpool := pw_tpool x; pw_defects := pw_defects x |} in
      let x2 := set_cq x1 (fst (lpush (pw_cq x1) p 0 (Z.of_nat w))) in
      upd_pool x2 p (fun q => p_with_running (p_running q + 1) q).

(** the creator listener, run on every state change of a worker; acts on the CURRENT pool *)
Definition creator (x : pw) (new : cstate) : pw :=
  let p := pw_cur x in
  match new with
  | Suspend _ _ | Syscall _ _ _ => try_grow x p
  | Complete _ => upd_pool x p (fun q => p_with_running (sat_sub (p_running q) 1) q)
  | Cancelled | Error _ =>
      try_grow (upd_pool x p (fun q => p_with_running (sat_sub (p_running q) 1) q)) p
  | _ => x
  end.

(** change a worker's state: the recording listener sees it, then the creator acts *)
Definition k_change (x : pw) (w : nat) (new : cstate) : pw * list ev :=
  match get_worker x w with
  | None => (x, [])
  | Some k =>
      let x1 := upd_worker x w {| k_st := new; k_create := k_create k; k_task := k_task k; k_tpool := k_tpool k; k_dead := k_dead k |} in
      (creator x1 new, [EL 0 w (CbChanged new) (k_st k)])
  end.

(** [notify(task)] on pool [p] *)
Definition notify (x : pw) (p : nat) (t : nat) : pw :=
  upd_pool x p (fun q => p_with_wait (remove_nat t (p_waits q)) (p_results q) (p_nowaits q) q).

(** what [try_run] does once a task produced [r] *)
Inductive fin := FinOk (x : pw) | FinPanic (x : pw).
Definition finish_task (x : pw) (p : nat) (t : nat) (r : tres) : fin :=
  let x := if Nat.eqb (nth t (pw_tpool x) p) p then x else add_defect x defect_result_elsewhere in
  let x := set_globals x (pw_cancel_tasks x) (pw_cancel_cos x) (assoc_del t (pw_running_tasks x)) in
  let q := get_pool x p in
  if mem_nat t (p_nowaits q) then
    FinOk (upd_pool x p (fun q => p_with_wait (p_waits q) (p_results q) (remove_nat t (p_nowaits q)) q))
  else
    match assoc_get t (p_results q) with
    | Some _ => FinPanic x          (* assert!(results.insert(..).is_none()) *)
    | None =>
        FinOk (notify (upd_pool x p (fun q => p_with_wait (p_waits q) (p_results q ++ [(t, r)]) (p_nowaits q) q)) p t)
    end.

Definition task_msg (k : pkind) : tmsg := TM (panic_msg k).

Inductive wout := WYield | WReturn | WPanic (k : pkind) | WSpin | WFuel.

(** the worker loop of [try_grow], from wherever worker [w] is, up to its next yield / return.
    One unit of fuel per task instruction, per popped task and per idle decision (a 1 ms nap of
    the idle loop is one idle decision). [WSpin] is no longer produced (kept so that the type is
    unchanged): a worker that naps for ever now runs out of fuel, [WFuel]. *)
Fixpoint wloop (fuel : nat) (x : pw) (w : nat) (acc : list ev) : pw * list ev * wout :=
  match fuel with
  | O => (x, acc, WFuel)
  | S f =>
      match get_worker x w with
      | None => (x, acc, WFuel)
      | Some k =>
          let p := pw_cur x in
          match k_task k with
          | Some (t, []) =>
              let acc := acc ++ [EB t (BRet 0)] in
              let x := upd_worker x w {| k_st := k_st k; k_create := k_create k; k_task := None; k_tpool := k_tpool k; k_dead := k_dead k |} in
              match finish_task x (k_tpool k) t (TOk 0) with
              | FinOk x' => wloop f (upd_pool x' (k_tpool k) (p_with_popfail 0)) w acc
              | FinPanic x' => (x', acc, WPanic POther)
              end
          | Some (t, ins :: rest) =>
              let setk (x : pw) (tk : option (nat * list instr)) :=
                match get_worker x w with
                | Some k' => upd_worker x w {| k_st := k_st k'; k_create := k_create k'; k_task := tk; k_tpool := k_tpool k'; k_dead := k_dead k' |}
                | None => x
                end in
              let x0 := setk x (Some (t, rest)) in
              match ins with
              | ISuspend y => (x0, acc ++ [EB t (BYield y RNone)], WYield)
              | IDelay y d =>
                  (set_req x0 (get_timeout_time (pw_clock x0) d :: pw_ts x0) (pw_cn x0), acc ++ [EB t (BYield y (RDelay d))], WYield)
              | IUntil y ts => (set_req x0 (ts :: pw_ts x0) (pw_cn x0), acc ++ [EB t (BYield y (RUntil ts))], WYield)
              | ICancel =>
                  (set_req (setk x (Some (t, [IUnreachable]))) (pw_ts x) (true :: pw_cn x),
                   acc ++ [EB t (BYield 0 RCancel)], WYield)
              | ISyscall y name st =>
                  match tr_syscall (k_st k) y name st with
                  | Some new =>
                      let '(x1, e) := k_change x0 w new in wloop f x1 w (acc ++ e ++ [EB t (BRes true)])
                  | None => wloop f x0 w (acc ++ [EB t (BRes false)])
                  end
              | IRunning =>
                  match tr_running (pw_clock x0) (k_st k) with
                  | Some (Some new) =>
                      let '(x1, e) := k_change x0 w new in wloop f x1 w (acc ++ e ++ [EB t (BRes true)])
                  | Some None => wloop f x0 w (acc ++ [EB t (BRes true)])
                  | None => wloop f x0 w (acc ++ [EB t (BRes false)])
                  end
              | ITick d => wloop f (set_clockp x0 (sat_add64 (pw_clock x0) d)) w (acc ++ [EB t (BTick d)])
              | ILog n => wloop f x0 w (acc ++ [EB t (BLog n)])
              | IReturn v =>
                  let acc := acc ++ [EB t (BRet v)] in
                  match finish_task (setk x None) (k_tpool k) t (TOk v) with
                  | FinOk x' => wloop f (upd_pool x' (k_tpool k) (p_with_popfail 0)) w acc
                  | FinPanic x' => (x', acc, WPanic POther)
                  end
              | IPanic pk =>
                  let acc := acc ++ [EB t (BPanic pk)] in
                  match finish_task (setk x None) (k_tpool k) t (TErr (task_msg pk)) with
                  | FinOk x' => wloop f (upd_pool x' (k_tpool k) (p_with_popfail 0)) w acc
                  | FinPanic x' => (x', acc, WPanic POther)
                  end
              | IUnreachable =>
                  match finish_task (setk x None) (k_tpool k) t (TErr (task_msg PUnreachable)) with
                  | FinOk x' => wloop f (upd_pool x' (k_tpool k) (p_with_popfail 0)) w acc
                  | FinPanic x' => (x', acc, WPanic POther)
                  end
              end
          | None =>
              (* pool.try_run() *)
              match lpop (pw_tq x) p 0 with
              | (q', OItem (Some tz)) =>
                  let t := Z.to_nat tz in
                  let x1 := set_tq x q' in
                  if mem_nat t (pw_cancel_tasks x1) then
                    let x2 := set_globals x1 (remove_nat t (pw_cancel_tasks x1)) (pw_cancel_cos x1) (pw_running_tasks x1) in
                    let pq := get_pool x2 p in
                    let x3 :=
                      if mem_nat t (p_nowaits pq)
                      then upd_pool x2 p (fun q => p_with_wait (p_waits q) (p_results q) (remove_nat t (p_nowaits q)) q)
                      else notify (upd_pool x2 p (fun q => p_with_wait (p_waits q)
                                                                 (assoc_del t (p_results q) ++ [(t, TErr TMCancelled)])
                                                                 (p_nowaits q) q)) p t in
                    wloop f (upd_pool x3 p (p_with_popfail 0)) w acc
                  else
                    let x2 := set_globals x1 (pw_cancel_tasks x1) (pw_cancel_cos x1)
                                          (assoc_del t (pw_running_tasks x1) ++ [(t, w)]) in
                    let x3 := upd_worker x2 w {| k_st := k_st k; k_create := k_create k;
                                                 k_task := Some (t, nth t (pw_tbody x2) []); k_tpool := p; k_dead := k_dead k |} in
                    wloop f x3 w (acc ++ [EB t (BStart (Z.of_nat w))])
              | (q', _) =>
                  let x1 := set_tq x q' in
                  let pq := get_pool x1 p in
                  let running := p_running pq in
                  if ((p_keep pq <=? sat_sub (pw_clock x1) (k_create k)) && (p_min pq <? running))
                     || negb (match p_state pq with PRunning => true | _ => false end)
                  then (x1, acc, WReturn)
                  else
                    let pf := p_popfail pq + 1 in
                    if pf <? running
                    then (upd_pool x1 p (p_with_popfail pf), acc, WYield)
                    else
                      (* the verification hook: instead of blocking for 1 ms, the virtual clock advances by
                         1 ms (saturating), the pop-fail count is reset, and the loop goes round again *)
                      wloop f (set_clockp (upd_pool x1 p (p_with_popfail 0)) (sat_add64 (pw_clock x1) 1000000)) w acc
              end
          end
      end
  end.

(** the number of 1 ms naps after which the keep-alive of a worker of the current pool has surely
    expired (0 when there is no keep-alive) *)
Definition keep_rounds (x : pw) : nat :=
  let keep := p_keep (get_pool x (pw_cur x)) in
  if keep <=? 0 then O else Z.to_nat (keep / 1000000 + 2).

Definition wfuel (x : pw) : nat :=
  (S (S (length (pw_tbody x))) + fold_right Nat.add O (map (fun b => S (S (length b))) (pw_tbody x)) + length (pw_workers x)
  + keep_rounds x)%nat.

(** worker coroutine resume *)
Definition k_resume (x : pw) (w : nat) : pw * res * list ev :=
  let x := if Nat.eqb (nth w (pw_wpool x) (pw_cur x)) (pw_cur x) then x else add_defect x defect_stolen_worker in
  match get_worker x w with
  | None => (x, RBad, [])
  | Some k =>
      match k_st k with
      | Complete r => (x, ROk (Complete r), [])
      | Error m => (x, ROk (Error m), [])
      | _ =>
          match tr_running (pw_clock x) (k_st k) with
          | None => (x, RErr, [])
          | Some chg =>
              let '(x1, ev1) := match chg with Some new => k_change x w new | None => (x, []) end in
              if k_dead k then (x1, RUnwound, ev1)
              else
                let '(x2, ev2, out) := wloop (wfuel x1) x1 w ev1 in
                let st2 := match get_worker x2 w with Some k2 => k_st k2 | None => Ready end in
                let dead (x : pw) := match get_worker x w with
                                     | Some k' => upd_worker x w {| k_st := k_st k'; k_create := k_create k';
                                                                   k_task := k_task k'; k_tpool := k_tpool k'; k_dead := true |}
                                     | None => x end in
                match out with
                | WYield =>
                    match st2 with
                    | Running =>
                        let '(cancel, cn') := pop_front false (pw_cn x2) in
                        if cancel then
                          let '(x3, e) := k_change (set_req x2 (pw_ts x2) cn') w Cancelled in
                          (x3, ROk Cancelled, ev2 ++ e)
                        else
                          let '(ts, ts') := pop_front 0 (pw_ts x2) in
                          let '(x3, e) := k_change (set_req x2 ts' cn') w (Suspend 0 ts) in
                          (x3, ROk (Suspend 0 ts), ev2 ++ e)
                    | Syscall y' n s =>
                        let '(_, cn') := pop_front false (pw_cn x2) in
                        let '(_, ts') := pop_front 0 (pw_ts x2) in
                        (set_req x2 ts' cn', ROk (Syscall y' n s), ev2)
                    | _ => (x2, RErr, ev2)
                    end
                | WReturn =>
                    match st2 with
                    | Running => let '(x3, e) := k_change (dead x2) w (Complete (-1)) in (x3, ROk (Complete (-1)), ev2 ++ e)
                    | _ => (dead x2, RErr, ev2)
                    end
                | WPanic pk =>
                    match st2 with
                    | Running =>
                        let '(x3, e) := k_change (dead x2) w (Error (panic_msg pk)) in
                        (x3, ROk (Error (panic_msg pk)), ev2 ++ e)
                    | _ => (dead x2, RErr, ev2)
                    end
                | WSpin | WFuel => (set_spin x2, RBad, ev2)   (* never returns (out of fuel): reported as a divergence by the pass *)
                end
          end
      end
  end.

(* ---- instance of the generic scheduler for pool [p] ---- *)
Definition k_state (x : pw) (w : nat) : option cstate := option_map k_st (get_worker x w).
Definition k_push (p : nat) (x : pw) (w : nat) : pw := set_cq x (fst (lpush (pw_cq x) p 0 (Z.of_nat w))).
Definition k_pop (p : nat) (x : pw) : pw * option nat :=
  match lpop (pw_cq x) p 0 with
  | (q, OItem (Some v)) => (set_cq x q, Some (Z.to_nat v))
  | (q, _) => (set_cq x q, None)
  end.
Definition k_cancelled (x : pw) (w : nat) : bool := mem_nat w (pw_cancel_cos x).
(** called exactly when the pass drops worker [w] because it was cancelled *)
Definition k_uncancel (x : pw) (w : nat) : pw :=
  add_defect (set_globals x (pw_cancel_tasks x) (remove_nat w (pw_cancel_cos x)) (pw_running_tasks x)) defect_dropped.

Inductive pres :=
| PLeft (l : Z)            (* Ok(left_time) *)
| PErrStopped              (* the pool is stopped *)
| PErr                     (* the scheduler returned Err *)
| PUnwound
| PDiverged.

(** rounds of the scheduling loop. Without keep-alive: as before. With keep-alive every round that
    does some work may be followed by idle rounds: up to [max] idle yields per reset of the pop-fail
    count, up to [keep_rounds] naps per live worker, and each creation of a worker opens a new
    keep-alive period; so every working round is given [max * keep_rounds + max + 3] rounds. *)
Definition pass_fuel_p (x : pw) : nat :=
  let base := (S (S (wfuel x)) * S (S (length (pw_workers x) + length (pw_tbody x))))%nat in
  match keep_rounds x with
  | O => base
  | S _ as kr =>
      let m := Z.to_nat (Z.max 1 (p_max (get_pool x (pw_cur x)))) in
      ((m * kr + m + 3) * S base)%nat
  end.


(** [try_timeout_schedule_task] *)
Definition ppass (x : pw) (p : nat) (deadline : Z) : pw * pres * list ev :=
  match p_state (get_pool x p) with
  | PStopped => (x, PErrStopped, [])
  | _ =>
      let x1 := set_cur (try_grow x p) p in
      let '(x2, d2, r, e) :=
        do_schedule pw pw_clock k_state k_change k_resume (k_push p) (k_pop p) k_cancelled k_uncancel
                    (pass_fuel_p x1) x1 (p_sd (get_pool x1 p)) deadline [] [] in
      let x3 := upd_pool x2 p (p_with_sd d2) in
      (* a worker that never returns shows as [RBad] from [k_resume], which the generic pass turns
         into [PassErr]: report the divergence instead *)
      if pw_spin x3 then (x3, PDiverged, e) else
      match r with
      | PassOk l _ => (x3, PLeft l, e)
      | PassErr => (x3, PErr, e)
      | PassUnwound => (x3, PUnwound, e)
      | PassDiverged => (x3, PDiverged, e)
      end
  end.

Inductive wres := WVal (r : tres) | WTimeout | WNone.

(** [try_take_task_result] *)
Definition take (x : pw) (p : nat) (t : nat) : pw * option tres :=
  match assoc_get t (p_results (get_pool x p)) with
  | Some r => (upd_pool x p (fun q => p_with_wait (p_waits q) (assoc_del t (p_results q)) (p_nowaits q) q), Some r)
  | None => (x, None)
  end.

(** [wait_task_result(task, 0)] from a plain thread *)
Definition pwait (x : pw) (p : nat) (t : nat) : pw * wres :=
  match take x p t with
  | (x1, Some r) => (notify x1 p t, WVal r)
  | (x1, None) =>
      let x2 := upd_pool x1 p (fun q => p_with_wait (if mem_nat t (p_waits q) then p_waits q else p_waits q ++ [t])
                                                    (p_results q) (p_nowaits q) q) in
      (* results are checked again after registering, then after the (zero) wait *)
      (x2, WTimeout)
  end.

(** [clean_task_result] *)
Definition pclean (x : pw) (p : nat) (t : nat) : pw :=
  match take x p t with
  | (x1, Some _) => x1
  | (x1, None) =>
      let x2 := upd_pool x1 p (fun q => p_with_wait (p_waits q) (p_results q)
                                                    (if mem_nat t (p_nowaits q) then p_nowaits q else t :: p_nowaits q) q) in
      set_globals x2 (remove_nat t (pw_cancel_tasks x2)) (pw_cancel_cos x2) (pw_running_tasks x2)
  end.

(** [try_cancel_task] called between passes: no coroutine is being resumed, so the signal branch
    is never taken *)
Definition pcancel (x : pw) (t : nat) : pw :=
  match assoc_get t (pw_running_tasks x) with
  | Some w => set_globals x (pw_cancel_tasks x)
                          (if mem_nat w (pw_cancel_cos x) then pw_cancel_cos x else w :: pw_cancel_cos x)
                          (pw_running_tasks x)
  | None => set_globals x (if mem_nat t (pw_cancel_tasks x) then pw_cancel_tasks x else t :: pw_cancel_tasks x)
                          (pw_cancel_cos x) (pw_running_tasks x)
  end.

(** [do_clean] *)
Definition do_clean (x : pw) (p : nat) : pw :=
  fold_left (fun x t =>
               notify (upd_pool x p (fun q => p_with_wait (p_waits q) (assoc_del t (p_results q) ++ [(t, TErr TMStopped)])
                                                          (p_nowaits q) q)) p t)
            (p_waits (get_pool x p)) x.

Inductive stopres := StopOk | StopTimeout | StopErr | StopUnwound | StopDiverged.

(** the loop of [do_stop]; in virtual time the 1 ms nap is a clock step *)
Fixpoint stop_loop (fuel : nat) (x : pw) (p : nat) (deadline : Z) (acc : list ev) : pw * stopres * list ev :=
  match fuel with
  | O => (x, StopDiverged, acc)
  | S f =>
      let '(x1, r, e) := ppass x p deadline in
      let acc := acc ++ e in
      match r with
      | PLeft _ =>
          if (p_running (get_pool x1 p) =? 0) || (sat_sub deadline (pw_clock x1) =? 0)
          then
            if 0 <? p_running (get_pool x1 p) then (x1, StopTimeout, acc)
            else (do_clean (upd_pool x1 p (p_with_state PStopped)) p, StopOk, acc)
          else stop_loop f (set_clockp x1 (sat_add64 (pw_clock x1) 1000000)) p deadline acc
      | PErrStopped | PErr => (x1, StopErr, acc)
      | PUnwound => (x1, StopUnwound, acc)
      | PDiverged => (x1, StopDiverged, acc)
      end
  end.

Definition pstop (x : pw) (p : nat) (dur : Z) : pw * stopres * list ev :=
  match p_state (get_pool x p) with
  | PStopped => (do_clean x p, StopOk, [])
  | _ =>
      let x1 := upd_pool x p (p_with_state PStopping) in
      let deadline := get_timeout_time (pw_clock x1) dur in
      stop_loop (S (S (Z.to_nat (dur / 1000000)))) x1 p deadline []
  end.

Inductive pop :=
| PSubmit (p : nat) (body : list instr) (prio : option Z)
| PPass (p : nat) (deadline : Z)
| PWait (p : nat) (t : nat)
| PTake (p : nat) (t : nat)
| PClean (p : nat) (t : nat)
| PCancel (t : nat)
| PStop (p : nat) (dur : Z)
| PGetRunning (p : nat)
| PSize (p : nat)
| PGetState (p : nat)
| PClock (c : Z).

Inductive pobs :=
| OSubmit (ok : bool)
| OPass (r : pres) (evs : list ev)
| OWait (r : wres)
| OStop (r : stopres) (evs : list ev)
| ONumP (n : Z)
| OState (s : pstate)
| OUnitP.

Definition pstep (x : pw) (o : pop) : pw * pobs :=
  match o with
  | PSubmit p body prio =>
      match p_state (get_pool x p) with
      | PRunning =>
          let t := length (pw_tbody x) in
          let pr := match prio with Some v => v | None => 0 end in
          let x1 := {| pw_clock := pw_clock x; pw_ts := pw_ts x; pw_cn := pw_cn x; pw_workers := pw_workers x;
                       pw_wpool := pw_wpool x; pw_tq := fst (lpush (pw_tq x) p pr (Z.of_nat t)); pw_cq := pw_cq x;
                       pw_tbody := pw_tbody x ++ [body]; pw_tprio := pw_tprio x ++ [pr]; pw_pools := pw_pools x;
                       pw_cur := pw_cur x; pw_cancel_tasks := pw_cancel_tasks x; pw_cancel_cos := pw_cancel_cos x;
                       pw_running_tasks := pw_running_tasks x; pw_spin := pw_spin x; pw_tpool := pw_tpool x ++ [p]; pw_defects := pw_defects x |} in
          (x1, OSubmit true)
      | _ =>
          (* rejected: the task id is still consumed so that ids stay submission indices *)
          ({| pw_clock := pw_clock x; pw_ts := pw_ts x; pw_cn := pw_cn x; pw_workers := pw_workers x;
              pw_wpool := pw_wpool x; pw_tq := pw_tq x; pw_cq := pw_cq x;
              pw_tbody := pw_tbody x ++ [[]]; pw_tprio := pw_tprio x ++ [0]; pw_pools := pw_pools x;
              pw_cur := pw_cur x; pw_cancel_tasks := pw_cancel_tasks x; pw_cancel_cos := pw_cancel_cos x;
              pw_running_tasks := pw_running_tasks x; pw_spin := pw_spin x; pw_tpool := pw_tpool x ++ [p]; pw_defects := pw_defects x |}, OSubmit false)
      end
  | PPass p deadline => let '(x', r, e) := ppass x p deadline in (x', OPass r e)
  | PWait p t => let '(x', r) := pwait x p t in (x', OWait r)
  | PTake p t => match take x p t with (x', Some r) => (x', OWait (WVal r)) | (x', None) => (x', OWait WNone) end
  | PClean p t => (pclean x p t, OUnitP)
  | PCancel t => (pcancel x t, OUnitP)
  | PStop p dur => let '(x', r, e) := pstop x p dur in (x', OStop r e)
  | PGetRunning p => (x, ONumP (p_running (get_pool x p)))
  | PSize p => (x, ONumP (full_len (pw_tq x)))
  | PGetState p => (x, OState (p_state (get_pool x p)))
  | PClock c => (set_clockp x c, OUnitP)
  end.

Fixpoint prun (x : pw) (ops : list pop) : list pobs :=
  match ops with
  | [] => []
  | o :: ops' => let '(x', r) := pstep x o in r :: prun x' ops'
  end.

Fixpoint pfinal (x : pw) (ops : list pop) : pw :=
  match ops with
  | [] => x
  | o :: ops' => pfinal (fst (pstep x o)) ops'
  end.
