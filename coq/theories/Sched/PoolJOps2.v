(** The pass and the stop as operations of a history. *)
From OCV Require Import Base.Prelude Misc.Time Queue.PMap Queue.OWS Queue.OWSOracle Queue.OWSLemmas Queue.OWSModel Queue.OWSStep.
From OCV Require Import Coroutine.Co Coroutine.CoOracle Coroutine.CoLemmas Sched.Sched Sched.Pool Sched.PoolOracle Sched.PoolBase Sched.PoolWf Sched.PoolQ Sched.PoolJ Sched.PoolJLemmas Sched.PoolCanon Sched.PoolUnfold Sched.PoolMeasure Sched.PoolJStep Sched.PoolJLoop Sched.PoolJPass Sched.PoolJHole Sched.PoolJSched Sched.PoolJOps Sched.PoolCount.
From OCV Require Sched.PoolMono.
From Coq Require Import ZifyBool ZifyNat.
Open Scope Z_scope.

Section Ops2.
Variable mx : Z.
Variable kp : Z.

Lemma J_unquiet tnt x d h t : J mx kp tnt x d h t -> J mx kp tnt x d h (unquiet t).
Proof.
  intros [HQ HL HP HS HT HR HW]. constructor; autorewrite with potr; try assumption.
  - eapply JS_unquiet; [exact HS|]. intro H. apply (js_stopped _ _ _ _ _ HS H).
  - destruct HW as [W1 W2 W3 W4 W5 W6]. constructor; autorewrite with potr; assumption.
Qed.

Lemma parked_Ready c : parked c Ready = false.
Proof. reflexivity. Qed.

Lemma cqc_nil w : cqc [] w = 0%nat.
Proof. reflexivity. Qed.

(** when nothing is runnable, the parked workers are the live ones *)
Lemma quiet_counts tnt x d t :
  J mx kp tnt x d None t -> quiescent x d -> G mx x None ->
  count_true (parked (po_clock t)) (po_workers t) = p_running (get_pool x 0) /\
  (all_items (pw_tq x) = [] \/ mx <= p_running (get_pool x 0)).
Proof.
  intros HJ (Hcq & Hsu & Hsy) HG. pose proof HJ as [HQ HL HP HS HT HR HW].
  pose proof (jp_tclock _ _ _ _ HP) as Hcl. split.
  - rewrite (count_workers (parked (po_clock t)) (pw_workers x) (po_workers t) (parked_Ready _) (jw_st _ _ _ HW)).
    rewrite (jp_run _ _ _ _ HP), nlive_count. apply count_true_ext. intros k Hk.
    apply In_nth_error in Hk as [w Hw]. pose proof (jl_loc _ _ _ _ _ HL _ _ Hw eq_refl) as Hloc. rewrite Hcq in Hloc.
    unfold live. destruct (k_st k) as [| |y ts|y n st| |r|m]; cbn [loc_ok parked terminal negb] in *; try reflexivity; try contradiction.
    + destruct Hloc as [H _]. rewrite cqc_nil in H. discriminate.
    + destruct Hloc as (_ & _ & [(H & _)|(_ & _ & H)]); [rewrite cqc_nil in H; discriminate|]. specialize (Hsu _ _ H). lia.
    + destruct st; cbn [loc_ok] in Hloc; try contradiction.
      * destruct Hloc as (_ & _ & _ & H & _). specialize (Hsy _ _ H). lia.
      * destruct Hloc as [H _]. rewrite cqc_nil in H. discriminate.
  - destruct HG as [H|[H|(w & k & Hw & Hl & [Hk|[Hk _]])]]; [left; exact H | right; exact H | | discriminate].
    exfalso. destruct (jt_mode _ _ _ _ _ _ _ _ HT _ _ Hw Hl eq_refl) as (_ & _ & m & _ & Hb). rewrite Hk in Hb. destruct Hb as [_ [Est|Est]].
    + pose proof (jl_loc _ _ _ _ _ HL _ _ Hw eq_refl) as Hloc. rewrite Est, Hcq in Hloc. destruct Hloc as [H _]. rewrite cqc_nil in H. discriminate.
    + pose proof (jl_loc _ _ _ _ _ HL _ _ Hw eq_refl) as Hloc. rewrite Est, Hcq in Hloc. cbn [loc_ok] in Hloc.
      destruct Hloc as (_ & _ & [(H & _)|(_ & _ & H)]); [rewrite cqc_nil in H; discriminate|].
      specialize (Hsu _ _ H). destruct (jp_keep _ _ _ _ HP) as (_ & Hc0 & _). lia.
Qed.

(** the three flags that survive a divergence *)
Definition F3 (t : potr) : Prop := po_c12 t = true /\ po_c02 t = true /\ po_c13 t = true.

Definition is_div (ob : pobs) : bool :=
  match ob with OPass PDiverged _ | OStop StopDiverged _ => true | _ => false end.

Lemma waiting_queued tnt x d h t :
  J mx kp tnt x d h t -> existsb task_waiting (po_tasks t) = true -> all_items (pw_tq x) <> [].
Proof.
  intros HJ Hw. apply existsb_exists in Hw as (k & Hk & Hp). apply In_nth_error in Hk as [i Hi].
  pose proof (j_t _ _ _ _ _ _ _ _ HJ) as HT.
  assert (i < length (po_tasks t))%nat as Hlt by (apply nth_error_Some; congruence).
  assert (tkn (po_tasks t) i = k) as Ek by (unfold tkn; apply nth_error_nth; exact Hi).
  unfold task_waiting in Hp. apply andb_true_iff in Hp as [Hp H3]. apply andb_true_iff in Hp as [H1 H2].
  apply Nat.eqb_eq in H2. apply negb_true_iff in H3.
  assert (In (Z.of_nat i) (all_items (pw_tq x))) as Hin.
  { apply (jt_ta _ _ _ _ _ _ _ _ HT i); rewrite ?Ek; try assumption. rewrite <- (jt_len _ _ _ _ _ _ _ _ HT). exact Hlt. }
  intro E. rewrite E in Hin. destruct Hin.
Qed.

Lemma unfinished_le tnt x d h t :
  J mx kp tnt x d h t ->
  count_true (fun k => tt_accepted k && negb (Nat.eqb (tt_started k) 0) && is_none (tt_fin k) && negb (tt_cancel1 k)) (po_tasks t)
  <= p_running (get_pool x 0).
Proof.
  intros HJ. pose proof (j_t _ _ _ _ _ _ _ _ HJ) as HT. rewrite (jp_run _ _ _ _ (j_p _ _ _ _ _ _ _ _ HJ)).
  apply (count_le_held _ (ttrk0 0 false)). intros i Hi Hp. change (nth i (po_tasks t) (ttrk0 0 false)) with (tkn (po_tasks t) i) in Hp.
  apply andb_true_iff in Hp as [Hp H4]. apply andb_true_iff in Hp as [Hp H3]. apply andb_true_iff in Hp as [H1 H2].
  apply negb_true_iff, Nat.eqb_neq in H2. apply negb_true_iff in H4.
  destruct (tt_fin (tkn (po_tasks t) i)) eqn:Ef; [discriminate|].
  destruct (jt_tb _ _ _ _ _ _ _ _ HT i) as (w & k & rest & Hw & Hl & Hk); try assumption.
  - rewrite <- (jt_len _ _ _ _ _ _ _ _ HT). exact Hi.
  - eapply held_ids_In; eassumption.
Qed.

Lemma op_pass tnt x t dl :
  Jop mx kp tnt x t ->
  let x' := fst (pstep x (PPass 0 dl)) in let ob := snd (pstep x (PPass 0 dl)) in
  let t' := postep 1 [mx] t (PPass 0 dl) ob in
  if is_div ob then F3 t' else Jop mx kp tnt x' t'.
Proof.
  intros [HJ Hts]. cbn [pstep].
  pose proof (ppass_J mx kp tnt x (unquiet t) dl (conj (J_unquiet tnt x _ None t HJ) Hts) (unquiet_quiet_off t)) as Hok.
  destruct (ppass x 0 dl) as [[x' r] e]. cbv zeta. cbn [fst snd postep ppass_ok] in *.
  set (t1 := fold_left pev e (unquiet t)) in *.
  destruct r as [l| | | |]; cbn [is_div]; try contradiction.
  - (* the pass returned *)
    destruct Hok as ([HJ' Hts'] & HG' & Hl & Hqs & _). cbn [Nat.eqb]. rewrite andb_true_r. destruct (0 <? l) eqn:El.
    2:{ split; assumption. }
    destruct (quiet_counts tnt x' _ t1 HJ' (Hqs ltac:(lia)) HG') as [Ealive Hdisj].
    set (alive := count_true (parked (po_clock t1)) (po_workers t1)) in *.
    assert ((negb (existsb task_waiting (po_tasks t1)) || (nth 0 [mx] 0 <=? alive)) = true) as F1.
    { destruct (existsb task_waiting (po_tasks t1)) eqn:Ew; [|reflexivity]. cbn [negb orb nth].
      pose proof (waiting_queued tnt x' _ None t1 HJ' Ew) as Hne. destruct Hdisj as [H|H]; [contradiction | lia]. }
    assert ((count_true (fun k => tt_accepted k && negb (Nat.eqb (tt_started k) 0) && is_none (tt_fin k) && negb (tt_cancel1 k)) (po_tasks t1)
             <=? alive) = true) as F2.
    { pose proof (unfinished_le tnt x' _ None t1 HJ'). lia. }
    rewrite F1. autorewrite with potr. rewrite F2. split; [|exact Hts'].
    pose proof HJ' as [HQ HL HP HS HT HR HW]. rewrite getp0. autorewrite with potr.
    destruct HS as [S1 S2 S3 S4 S5 S6 S7].
    destruct (po_pools t1) as [|k0 [|k1 lk]] eqn:Epk; try discriminate. cbn [nth] in *.
    constructor; autorewrite with potr; rewrite ?Epk; cbn [set_nth firstn skipn app nth Nat.eqb]; try assumption.
    + constructor; cbn [nth pt_rank pt_stop_called pt_stop_ok pt_quiet pt_alive length]; try assumption; try reflexivity.
      intros _. split; [exact Ealive | exact Hdisj].
    + destruct HW as [W1 W2 W3 W4 W5 W6]. constructor; autorewrite with potr; cbn [Nat.eqb]; try assumption.
      rewrite W3. reflexivity.
  - (* refused: the pool is stopped *)
    destruct Hok as (-> & -> & Hst). cbn [fold_left] in t1. split; [|exact Hts].
    pose proof (J_unquiet tnt x _ None t HJ) as HJu. pose proof HJu as [HQ HL HP HS HT HR HW]. rewrite getp0.
    assert (pt_stop_ok (nth 0 (po_pools t1) ptrk0) = true) as -> by (apply (js_ok _ _ _ _ _ HS), Hst).
    eapply (J_tracker_ext mx kp tnt tnt); [exact HJu | | | | | | | | |]; autorewrite with potr; cbn [Nat.eqb];
      rewrite ?andb_true_r; try reflexivity; try apply (jp_tclock _ _ _ _ HP); apply HW.
  - (* diverged: a nap at the end of time *)
    destruct Hok as (_ & ws & [W1 W2 W3 W4 W5 W6]). unfold F3. autorewrite with potr. cbn [Nat.eqb]. auto.
Qed.

(** * stopping *)
Lemma all_done_idle tnt x d t :
  J mx kp tnt x d None t -> p_running (get_pool x 0) = 0 -> all_items (pw_tq x) = [] ->
  forallb (fun k => negb (Nat.eqb (tt_pool k) 0) || task_done k) (po_tasks t) = true.
Proof.
  intros HJ Hr Hq. pose proof (j_t _ _ _ _ _ _ _ _ HJ) as HT. apply forallb_forall. intros k Hk.
  apply In_nth_error in Hk as [i Hi].
  assert (i < length (po_tasks t))%nat as Hlt by (apply nth_error_Some; congruence).
  assert (tkn (po_tasks t) i = k) as Ek by (unfold tkn; apply nth_error_nth; exact Hi).
  assert (i < length (pw_tbody x))%nat as Hlt' by (rewrite <- (jt_len _ _ _ _ _ _ _ _ HT); exact Hlt).
  apply orb_true_iff. right. unfold task_done.
  destruct (tt_accepted k) eqn:Ea; [|reflexivity]. cbn [negb orb].
  destruct (tt_fin k) eqn:Ef; [reflexivity|]. cbn [is_none negb orb].
  destruct (tt_cancel0 k) eqn:E0; [reflexivity|]. cbn [orb]. destruct (tt_cancel1 k) eqn:E1; [reflexivity|]. exfalso.
  destruct (Nat.eq_dec (tt_started k) 0) as [Es|Es].
  - assert (In (Z.of_nat i) (all_items (pw_tq x))) as Hin by (apply (jt_ta _ _ _ _ _ _ _ _ HT i); rewrite ?Ek; assumption).
    rewrite Hq in Hin. destruct Hin.
  - destruct (jt_tb _ _ _ _ _ _ _ _ HT i) as (w & kw & rest & Hw & Hl & _); rewrite ?Ek; try assumption.
    pose proof (nlive_pos _ _ _ Hw Hl). rewrite (jp_run _ _ _ _ (j_p _ _ _ _ _ _ _ _ HJ)) in Hr. lia.
Qed.

Lemma JR_stop_step W R N tqi tk i :
  JR W R N PStopped tqi tk -> In i W ->
  JR (remove_nat i W) (assoc_del i R ++ [(i, TErr TMStopped)]) N PStopped tqi tk.
Proof.
  intros [Hrnd Hwnd Htg Htg2 Htg3 Htn Htw Hcons] Hi. constructor; try assumption.
  - rewrite map_app. cbn [map fst]. apply NoDup_snoc; [apply assoc_del_NoDup, Hrnd | apply assoc_del_NoDup_notin, Hrnd].
  - apply remove_nat_NoDup, Hwnd.
  - intros j r Hr. apply in_app_iff in Hr as [Hr|[Hr|[]]].
    + apply Htg. eapply assoc_del_In, Hr.
    + injection Hr as <- <-. right. split; [reflexivity|]. split; [reflexivity|]. apply Htw, Hi.
  - intros j H1 H2 H3. rewrite assoc_get_app. destruct (Nat.eq_dec j i) as [->|Hne].
    + destruct (assoc_get i (assoc_del i R)); [discriminate|]. cbn [assoc_get]. rewrite Nat.eqb_refl. discriminate.
    + rewrite assoc_get_del_other by congruence. specialize (Htg2 j H1 H2 H3). destruct (assoc_get j R); [discriminate | contradiction].
  - intros j H0 H1 H2 H3 H4 H5. rewrite assoc_get_app. destruct (Nat.eq_dec j i) as [->|Hne].
    + destruct (assoc_get i (assoc_del i R)); [discriminate|]. cbn [assoc_get]. rewrite Nat.eqb_refl. discriminate.
    + rewrite assoc_get_del_other by congruence. specialize (Htg3 j H0 H1 H2 H3 H4 H5). destruct (assoc_get j R); [discriminate | contradiction].
  - intros j Hj. apply Htw. eapply remove_nat_In, Hj.
Qed.

(** [do_clean] only rewrites the waits and the results of the pool *)
Definition clean_step (x : pw) (t : nat) : pw :=
  notify (upd_pool x 0 (fun q => p_with_wait (p_waits q) (assoc_del t (p_results q) ++ [(t, TErr TMStopped)]) (p_nowaits q) q)) 0 t.

Lemma do_clean_eq x : do_clean x 0 = fold_left clean_step (p_waits (get_pool x 0)) x.
Proof. reflexivity. Qed.

Lemma clean_step_post x t : length (pw_pools x) = 1%nat ->
  upd_post x (clean_step x t) (pw_workers x) (pw_tq x) (pw_cancel_tasks x) (pw_running_tasks x)
    (p_with_wait (remove_nat t (p_waits (get_pool x 0))) (assoc_del t (p_results (get_pool x 0)) ++ [(t, TErr TMStopped)])
       (p_nowaits (get_pool x 0)) (get_pool x 0)).
Proof.
  intro Hp. unfold clean_step, notify.
  set (x1 := upd_pool x 0 (fun q => p_with_wait (p_waits q) (assoc_del t (p_results q) ++ [(t, TErr TMStopped)]) (p_nowaits q) q)).
  assert (length (pw_pools x1) = 1%nat) as Hp1 by (unfold x1; rewrite pools_len_upd_pool; exact Hp).
  assert (get_pool x1 0 = p_with_wait (p_waits (get_pool x 0)) (assoc_del t (p_results (get_pool x 0)) ++ [(t, TErr TMStopped)]) (p_nowaits (get_pool x 0)) (get_pool x 0)) as E1.
  { unfold x1. rewrite get_pool_upd_pool_same by lia. reflexivity. }
  constructor; autorewrite with pw; rewrite ?(get_pool_upd_pool_same x1 0 _) by lia; rewrite ?E1; unfold x1; autorewrite with pw; try reflexivity.
  rewrite !set_nth_length. exact Hp.
Qed.

Lemma do_clean_fold : forall l x N tqi tk,
  length (pw_pools x) = 1%nat -> NoDup l -> (forall i, In i l -> In i (p_waits (get_pool x 0))) ->
  p_state (get_pool x 0) = PStopped -> p_nowaits (get_pool x 0) = N ->
  JR (p_waits (get_pool x 0)) (p_results (get_pool x 0)) N PStopped tqi tk ->
  let x' := fold_left clean_step l x in
  exists W R, upd_post x x' (pw_workers x) (pw_tq x) (pw_cancel_tasks x) (pw_running_tasks x) (p_with_wait W R N (get_pool x 0)) /\
              JR W R N PStopped tqi tk.
Proof.
  induction l as [|i l IH]; intros x N tqi tk Hp Hnd Hin Hst HN HR; cbn [fold_left].
  - exists (p_waits (get_pool x 0)), (p_results (get_pool x 0)). split; [|exact HR].
    constructor; try reflexivity; [|exact Hp]. rewrite <- HN. destruct (get_pool x 0); reflexivity.
  - pose proof (clean_step_post x i Hp) as Hu. pose proof Hu as [U1 U2 U3 U4 U5 U6 U7 U8 U9 U10 U11 U12 U13 U14].
    apply NoDup_cons_iff in Hnd as [Hni Hnd'].
    destruct (IH (clean_step x i) N tqi tk U6 Hnd') as (W & R & Hu' & HR').
    + intros j Hj. rewrite U5. autorewrite with pw. apply remove_nat_In_other; [intros ->; contradiction | apply Hin; right; exact Hj].
    + rewrite U5. autorewrite with pw. exact Hst.
    + rewrite U5. autorewrite with pw. exact HN.
    + rewrite U5. autorewrite with pw. apply JR_stop_step; [exact HR | apply Hin; left; reflexivity].
    + exists W, R. split; [|exact HR']. destruct Hu' as [V1 V2 V3 V4 V5 V6 V7 V8 V9 V10 V11 V12 V13 V14].
      constructor; try congruence. rewrite V5, U5. reflexivity.
Qed.

Lemma JR_pst W R N pst pst' tqi tk : JR W R N pst tqi tk -> pst <> PStopped -> JR W R N pst' tqi tk.
Proof.
  intros [Hrnd Hwnd Htg Htg2 Htg3 Htn Htw Hcons] Hne. constructor; try assumption.
  - intros i r Hr. destruct (Htg i r Hr) as [H|(_ & H & _)]; [left; exact H | contradiction].
  - intros i Hc. destruct (Hcons i Hc) as [H|[H|H]]; [auto | auto | contradiction].
Qed.

(** the state of the pool changes, and the oracle's record of the pool with it *)
Lemma J_state tnt x d h t t' s' :
  J mx kp tnt x d h t -> (p_state (get_pool x 0) = PStopped -> s' = PStopped) ->
  po_clock t' = po_clock t -> po_tasks t' = po_tasks t -> po_workers t' = po_workers t ->
  po_c12 t' = true -> po_c01 t' = po_c01 t -> po_c11 t' = po_c11 t -> po_c02 t' = po_c02 t -> po_c13 t' = po_c13 t ->
  JS mx s' (p_running (get_pool x 0)) (all_items (pw_tq x)) (po_pools t') ->
  J mx kp tnt (upd_pool x 0 (p_with_state s')) d h t'.
Proof.
  intros HJ Hs E1 E2 E3 F12 F01 F11 F02 F13 HS'. pose proof HJ as [[HQt HQc] HL HP HS HT HR HW].
  assert (length (pw_pools x) = 1%nat) as Hp by apply (jp_pools _ _ _ _ HP).
  assert (upd_post x (upd_pool x 0 (p_with_state s')) (pw_workers x) (pw_tq x) (pw_cancel_tasks x) (pw_running_tasks x)
                   (p_with_state s' (get_pool x 0))) as Hu.
  { constructor; autorewrite with pw; try reflexivity; [apply get_pool_upd_pool_same; lia | rewrite set_nth_length; exact Hp]. }
  eapply (J_of_post mx kp tnt x _ d h t' _ _ _ _ _ Hu); autorewrite with pw; rewrite ?E2; try eassumption; try reflexivity.
  - destruct HP as [P1 P2 P3 P4 P5 P6 P7 P8 P9 P10 P11 P12]. constructor; try assumption. rewrite E1. exact P11.
  - apply (jp_run _ _ _ _ HP).
  - apply (jp_le _ _ _ _ HP).
  - destruct (p_state (get_pool x 0)) eqn:Est.
    + eapply JR_pst; [exact HR | discriminate].
    + eapply JR_pst; [exact HR | discriminate].
    + rewrite (Hs eq_refl). exact HR.
  - destruct HW as [W1 W2 W3 W4 W5 W6]. constructor; rewrite ?E3, ?F01, ?F11, ?F02, ?F13; assumption.
  - destruct (jp_keep _ _ _ _ HP) as (_ & _ & Hcr & Hpf). split; [exact Hcr | exact Hpf].
Qed.

(** the 1 ms nap of the stop loop: only the clock moves *)
Lemma J_nap tnt x d h t c : J mx kp tnt x d h t -> pw_clock x <= c -> c <= U64MAX -> J mx kp tnt (set_clockp x c) d h t.
Proof.
  intros [HQ HL HP HS HT HR HW] H1 H2. constructor; autorewrite with pw; try assumption.
  - eapply JL_clock; [exact H1 | exact HL].
  - destruct HP as [P1 P2 P3 P4 P5 P6 P7 P8 P9 P10 P11 P12]. constructor; autorewrite with pw; try assumption; try lia.
    destruct P3 as (Ek & Hc0 & Hcr & Hpf). split; [exact Ek|]. split; [lia|]. split; [eapply CR_mono; [exact Hcr | exact H1] | exact Hpf].
Qed.

(** [do_clean] on a stopped pool *)
Lemma J_do_clean tnt x t :
  Jop mx kp tnt x t -> p_state (get_pool x 0) = PStopped -> Jop mx kp tnt (do_clean x 0) t.
Proof.
  intros [HJ Hts] Hst. rewrite do_clean_eq. pose proof HJ as [[HQt HQc] HL HP HS HT HR HW].
  assert (length (pw_pools x) = 1%nat) as Hp by apply (jp_pools _ _ _ _ HP).
  destruct (do_clean_fold (p_waits (get_pool x 0)) x (p_nowaits (get_pool x 0)) (all_items (pw_tq x)) (po_tasks t) Hp)
    as (W & R & Hu & HR').
  - apply (jr_wnd _ _ _ _ _ _ HR).
  - auto.
  - exact Hst.
  - reflexivity.
  - rewrite Hst in HR. exact HR.
  - set (x3 := fold_left clean_step (p_waits (get_pool x 0)) x) in *.
    pose proof Hu as [U1 U2 U3 U4 U5 U6 U7 U8 U9 U10 U11 U12 U13 U14].
    split; [|rewrite U14; exact Hts]. rewrite U5. autorewrite with pw.
    eapply (J_of_post mx kp tnt x x3 _ None t _ _ _ _ _ Hu); autorewrite with pw; try eassumption; try reflexivity.
    + apply (jp_run _ _ _ _ HP).
    + apply (jp_le _ _ _ _ HP).
    + rewrite Hst. exact HR'.
    + destruct (jp_keep _ _ _ _ HP) as (_ & _ & Hcr & Hpf). split; [exact Hcr | exact Hpf].
Qed.

(** the tracker's record of the pool changes *)
Lemma J_tracker_pools tnt tnt' x d h t t' :
  J mx kp tnt x d h t ->
  po_clock t' <= pw_clock x -> po_tasks t' = po_tasks t -> po_workers t' = po_workers t ->
  JS mx (p_state (get_pool x 0)) (p_running (get_pool x 0)) (all_items (pw_tq x)) (po_pools t') ->
  po_c12 t' = true -> po_c01 t' = true -> (tnt' = false -> po_c11 t' = true) -> po_c02 t' = true -> po_c13 t' = true ->
  J mx kp tnt' x d h t'.
Proof.
  intros [HQ HL HP HS HT HR HW] E1 E3 E4 HS' F12 F01 F11 F02 F13.
  constructor; rewrite ?E3; try assumption.
  - destruct HP as [P1 P2 P3 P4 P5 P6 P7 P8 P9 P10 P11 P12]. constructor; assumption.
  - destruct HW as [W1 W2 W3 W4 W5 W6]. constructor; try assumption. intro w. rewrite E4. apply W1.
Qed.

Lemma stop_loop_S f x dl acc :
  stop_loop (S f) x 0 dl acc =
  let '(x1, r, e) := ppass x 0 dl in
  match r with
  | PLeft _ =>
      if (p_running (get_pool x1 0) =? 0) || (sat_sub dl (pw_clock x1) =? 0)
      then if 0 <? p_running (get_pool x1 0) then (x1, StopTimeout, acc ++ e)
           else (do_clean (upd_pool x1 0 (p_with_state PStopped)) 0, StopOk, acc ++ e)
      else stop_loop f (set_clockp x1 (sat_add64 (pw_clock x1) 1000000)) 0 dl (acc ++ e)
  | PErrStopped | PErr => (x1, StopErr, acc ++ e)
  | PUnwound => (x1, StopUnwound, acc ++ e)
  | PDiverged => (x1, StopDiverged, acc ++ e)
  end.
Proof. cbn [stop_loop]. destruct (ppass x 0 dl) as [[x1 r] e]. reflexivity. Qed.

Definition stop_ok (tnt : bool) (t : potr) (acc : list ev) (res : pw * stopres * list ev) : Prop :=
  let '(x', r, acc') := res in
  exists evs, acc' = acc ++ evs /\
    match r with
    | StopTimeout => Jop mx kp tnt x' (fold_left pev evs t) /\ p_state (get_pool x' 0) = PStopping
    | StopOk => exists x1, x' = do_clean (upd_pool x1 0 (p_with_state PStopped)) 0 /\ Jop mx kp tnt x1 (fold_left pev evs t) /\
                           p_running (get_pool x1 0) = 0 /\ all_items (pw_tq x1) = [] /\ p_state (get_pool x1 0) = PStopping
    | StopDiverged => exists ws, JW ws (fold_left pev evs t) tnt
    | _ => False
    end.

Lemma stop_ok_chain tnt t acc e res : stop_ok tnt (fold_left pev e t) (acc ++ e) res -> stop_ok tnt t acc res.
Proof.
  destruct res as [[x' r] acc']. cbn [stop_ok]. intros (evs & -> & H). exists (e ++ evs).
  rewrite app_assoc, fold_pev_app. split; [reflexivity | exact H].
Qed.

Lemma stop_loop_J : forall f tnt x t dl acc,
  Jop mx kp tnt x t -> quiet_off t -> p_state (get_pool x 0) = PStopping -> dl <= U64MAX ->
  stop_ok tnt t acc (stop_loop f x 0 dl acc) /\
  ((1 <= f)%nat -> sat_sub dl (pw_clock x) <= (Z.of_nat f - 1) * 1000000 ->
   low kp (fst (fst (stop_loop f x 0 dl acc))) ->
   snd (fst (stop_loop f x 0 dl acc)) <> StopDiverged).
Proof.
  induction f as [|f IH]; intros tnt x t dl acc HJop Hq Hst Hdl.
  - split; [|intro H; exfalso; lia]. cbn [stop_loop stop_ok]. exists []. rewrite app_nil_r. split; [reflexivity|]. destruct HJop as [HJ _].
    exists (pw_workers x). apply (j_w _ _ _ _ _ _ _ _ HJ).
  - rewrite stop_loop_S. pose proof (ppass_J mx kp tnt x t dl HJop Hq) as Hok.
    pose proof (PoolMono.ppass_same_states x 0 dl 0%nat) as Hss. rewrite Hst in Hss.
    destruct (ppass x 0 dl) as [[x1 r] e]. cbn [fst snd ppass_ok] in *.
    destruct r as [l| | | |]; try contradiction.
    + destruct Hok as (HJ1 & HG1 & Hl & Hqs & Hc1).
      destruct ((p_running (get_pool x1 0) =? 0) || (sat_sub dl (pw_clock x1) =? 0)) eqn:Eend.
      * destruct (0 <? p_running (get_pool x1 0)) eqn:Erun.
        -- split; [|cbn [fst snd]; discriminate]. cbn [stop_ok]. exists e. split; [reflexivity|]. split; [exact HJ1 | exact Hss].
        -- split; [|cbn [fst snd]; discriminate]. cbn [stop_ok]. exists e. split; [reflexivity|]. exists x1. split; [reflexivity|]. split; [exact HJ1|].
           destruct HJ1 as [HJ1 _]. pose proof (j_p _ _ _ _ _ _ _ _ HJ1) as HP.
           assert (p_running (get_pool x1 0) = 0) as Hr0.
           { rewrite (jp_run _ _ _ _ HP) in *. pose proof (nlive_nonneg (pw_workers x1)). lia. }
           split; [exact Hr0|]. split; [|exact Hss].
           destruct HG1 as [H|[H|(w & k & Hw & Hlk & _)]]; [exact H | pose proof (jp_mx _ _ _ _ HP); lia|].
           exfalso. pose proof (nlive_pos _ _ _ Hw Hlk). rewrite (jp_run _ _ _ _ HP) in Hr0. lia.
      * assert (Jop mx kp tnt (set_clockp x1 (sat_add64 (pw_clock x1) 1000000)) (fold_left pev e t)) as HJ2.
        { destruct HJ1 as [HJ1 Hts1]. pose proof (jp_clock _ _ _ _ (j_p _ _ _ _ _ _ _ _ HJ1)) as Hc.
          destruct (sat_add64_mono (pw_clock x1) 1000000 Hc ltac:(lia)) as [M1 M2].
          split; [|autorewrite with pw; exact Hts1]. autorewrite with pw. apply J_nap; assumption. }
        destruct (IH tnt _ (fold_left pev e t) dl (acc ++ e) HJ2 (quiet_off_fold _ _ Hq) ltac:(autorewrite with pw; exact Hss) Hdl) as [IH1 IH2].
        split; [apply (stop_ok_chain tnt t acc e), IH1|].
        intros _ Hrem Hlow. apply IH2; [| |exact Hlow].
        -- apply orb_false_iff in Eend as [_ E2]. unfold sat_sub in *. destruct f as [|f']; [exfalso; lia | lia].
        -- apply orb_false_iff in Eend as [_ E2]. autorewrite with pw. unfold sat_sub, sat_add64 in *.
           destruct HJ1 as [HJ1 _]. pose proof (jp_clock _ _ _ _ (j_p _ _ _ _ _ _ _ _ HJ1)) as Hc. lia.
    + destruct Hok as (_ & _ & Hs). congruence.
    + (* the pass diverged: a nap at the end of time *)
      destruct Hok as (Hhigh & Hjw). split.
      * cbn [stop_ok]. exists e. split; [reflexivity | exact Hjw].
      * intros _ _ Hlow. cbn [fst snd] in Hlow. contradiction.
Qed.

(** the one clause of C11 that the invariant does not give: with nothing left to do, no worker
    asleep and time to act in, a stop must not time out *)
Definition stop_clause (t : potr) (o : pop) (ob : pobs) : bool :=
  match o, ob with
  | PStop p dur, OStop StopTimeout evs =>
      let k0 := getp (unquiet t) p in
      let t1 := fold_left pev evs (setp (unquiet t) p {| pt_rank := pt_rank k0; pt_stop_called := true; pt_stop_ok := pt_stop_ok k0;
                                                          pt_quiet := false; pt_alive := pt_alive k0 |}) in
      negb (forallb task_settled (po_tasks t)) || (dur <=? 0) || (0 <? count_true (parked (po_clock t1)) (po_workers t1))
      || (U64MAX <? po_clock t + dur)
  | _, _ => true
  end.

Lemma pools1 (l : list ptrk) : length l = 1%nat -> l = [nth 0 l ptrk0].
Proof. destruct l as [|a [|b l]]; try discriminate. reflexivity. Qed.

(** the oracle's record of the pool once the stop began *)
Definition stop_ks (t : potr) : ptrk :=
  let k0 := getp (unquiet t) 0 in
  {| pt_rank := pt_rank k0; pt_stop_called := true; pt_stop_ok := pt_stop_ok k0; pt_quiet := false; pt_alive := pt_alive k0 |}.
Definition stop_ts (t : potr) : potr := setp (unquiet t) 0 (stop_ks t).

Lemma stop_ts_pools t : length (po_pools t) = 1%nat -> po_pools (stop_ts t) = [stop_ks t].
Proof.
  intro H. unfold stop_ts. autorewrite with potr. rewrite <- po_pools_unquiet_len in H. rewrite (pools1 _ H). reflexivity.
Qed.

Lemma stop_ks_fields t :
  pt_rank (stop_ks t) = pt_rank (nth 0 (po_pools t) ptrk0) /\ pt_stop_ok (stop_ks t) = pt_stop_ok (nth 0 (po_pools t) ptrk0) /\
  pt_stop_called (stop_ks t) = true /\ pt_quiet (stop_ks t) = false.
Proof. unfold stop_ks. rewrite getp0, po_pools_unquiet_nth. cbv zeta. cbn. auto. Qed.

Lemma JS_stop_ts pst prun tqi t :
  JS mx pst prun tqi (po_pools t) -> pst <> PStopped -> JS mx PStopping prun tqi (po_pools (stop_ts t)).
Proof.
  intros [S1 S2 S3 S4 S5 S6 S7] Hne. rewrite (stop_ts_pools t S1). destruct (stop_ks_fields t) as (F1 & F2 & F3 & F4).
  constructor; cbn [nth length]; rewrite ?F1, ?F2, ?F3, ?F4; try reflexivity; try discriminate.
  - destruct pst; cbn [prank] in *; try lia. exfalso. apply Hne. reflexivity.
  - split; [intro H; apply S4 in H; contradiction | discriminate].
Qed.

Lemma JS_stop_ts_stopped prun tqi t :
  JS mx PStopped prun tqi (po_pools t) -> JS mx PStopped prun tqi (po_pools (stop_ts t)).
Proof.
  intros [S1 S2 S3 S4 S5 S6 S7]. rewrite (stop_ts_pools t S1). destruct (stop_ks_fields t) as (F1 & F2 & F3 & F4).
  constructor; cbn [nth length]; rewrite ?F1, ?F2, ?F3, ?F4; try reflexivity; try assumption; try discriminate.
Qed.

Lemma Jop_stop_ts tnt x t :
  Jop mx kp tnt x t -> p_state (get_pool x 0) <> PStopped -> Jop mx kp tnt (upd_pool x 0 (p_with_state PStopping)) (stop_ts t).
Proof.
  intros [HJ Hts] Hne. pose proof HJ as [HQ HL HP HS HT HR HW]. split; [|autorewrite with pw; exact Hts].
  rewrite get_pool_upd_pool_same by (rewrite (jp_pools _ _ _ _ HP); lia). autorewrite with pw.
  apply (J_state tnt x _ None t (stop_ts t) PStopping HJ); try reflexivity; try apply HW; [contradiction|].
  eapply JS_stop_ts; eassumption.
Qed.

(** the final record after a successful stop *)
Definition stopped_k (k : ptrk) : ptrk :=
  {| pt_rank := pt_rank k; pt_stop_called := true; pt_stop_ok := true; pt_quiet := false; pt_alive := 0 |}.

Lemma JS_stopped_k pst tqi0 prun0 t1 :
  JS mx pst prun0 tqi0 (po_pools t1) ->
  JS mx PStopped 0 [] (set_nth 0 (stopped_k (nth 0 (po_pools t1) ptrk0)) (po_pools t1)).
Proof.
  intros [S1 S2 S3 S4 S5 S6 S7]. rewrite (pools1 _ S1). cbn [set_nth firstn skipn app nth].
  constructor; cbn [nth length stopped_k pt_rank pt_stop_called pt_stop_ok pt_quiet pt_alive prank]; try reflexivity; try tauto; try discriminate.
  destruct pst; cbn [prank] in S2; lia.
Qed.

Lemma Jop_stopped tnt x t1 :
  Jop mx kp tnt x t1 -> p_running (get_pool x 0) = 0 -> all_items (pw_tq x) = [] ->
  let t2 := flag t1 12 (Nat.ltb 1 1 || forallb (fun k => negb (Nat.eqb (tt_pool k) 0) || task_done k) (po_tasks t1)) in
  Jop mx kp tnt (do_clean (upd_pool x 0 (p_with_state PStopped)) 0) (setp t2 0 (stopped_k (getp t2 0))).
Proof.
  intros [HJ Hts] Hr Hq. cbv zeta. pose proof HJ as [HQ HL HP HS HT HR HW].
  rewrite (all_done_idle tnt x _ t1 HJ Hr Hq). cbn [Nat.ltb Nat.leb orb].
  apply J_do_clean; [|rewrite get_pool_upd_pool_same by (rewrite (jp_pools _ _ _ _ HP); lia); reflexivity].
  split; [|autorewrite with pw; exact Hts].
  rewrite get_pool_upd_pool_same by (rewrite (jp_pools _ _ _ _ HP); lia). autorewrite with pw.
  apply (J_state tnt x _ None t1 _ PStopped HJ); autorewrite with potr; cbn [Nat.eqb]; try reflexivity; try tauto.
  - rewrite (jw_c12 _ _ _ HW). reflexivity.
  - rewrite Hr, Hq, getp0. autorewrite with potr. eapply JS_stopped_k, HS.
Qed.

Lemma op_stop_live tnt x t dur :
  Jop mx kp tnt x t -> p_state (get_pool x 0) <> PStopped ->
  let res := stop_loop (S (S (Z.to_nat (dur / 1000000)))) (upd_pool x 0 (p_with_state PStopping)) 0
                       (get_timeout_time (pw_clock (upd_pool x 0 (p_with_state PStopping))) dur) [] in
  let x' := fst (fst res) in let ob := OStop (snd (fst res)) (snd res) in
  let t' := postep 1 [mx] t (PStop 0 dur) ob in
  if is_div ob then F3 t' else Jop mx kp (tnt || negb (stop_clause t (PStop 0 dur) ob)) x' t'.
Proof.
  intros HJop Hne. cbv zeta. set (x1 := upd_pool x 0 (p_with_state PStopping)).
  pose proof (Jop_stop_ts tnt x t HJop Hne) as HJ1. fold x1 in HJ1.
  assert (p_state (get_pool x1 0) = PStopping) as Hst1.
  { unfold x1. destruct HJop as [HJ _]. rewrite get_pool_upd_pool_same by (rewrite (jp_pools _ _ _ _ (j_p _ _ _ _ _ _ _ _ HJ)); lia). reflexivity. }
  assert (quiet_off (stop_ts t)) as Hq1.
  { unfold quiet_off. destruct HJop as [HJ _]. rewrite (stop_ts_pools t (js_pools _ _ _ _ _ (j_s _ _ _ _ _ _ _ _ HJ))). cbn [nth].
    apply (stop_ks_fields t). }
  assert (get_timeout_time (pw_clock x1) dur <= U64MAX) as Hdl.
  { unfold get_timeout_time, sat_add64. destruct (dur <=? U64MAX); lia. }
  destruct (stop_loop_J (S (S (Z.to_nat (dur / 1000000)))) tnt x1 (stop_ts t) (get_timeout_time (pw_clock x1) dur) [] HJ1 Hq1 Hst1 Hdl) as [Hok _].
  destruct (stop_loop _ x1 0 _ []) as [[x' r] e]. cbn [stop_ok] in Hok. destruct Hok as (evs & Ee & Hok). cbn [app] in Ee. subst e.
  cbn [fst snd postep is_div stop_clause]. fold (stop_ks t). fold (stop_ts t). set (t1 := fold_left pev evs (stop_ts t)) in *.
  destruct r; try contradiction.
  - (* StopOk *)
    destruct Hok as (x2 & -> & HJ2 & Hr2 & Hq2 & Hs2). cbn [negb orb]. rewrite orb_false_r.
    apply (Jop_stopped tnt x2 t1 HJ2 Hr2 Hq2).
  - (* StopTimeout *)
    destruct Hok as [[HJ2 Hts2] Hs2]. split; [|exact Hts2]. cbn [Nat.ltb Nat.leb orb].
    match goal with |- J _ _ (_ || negb ?b) _ _ _ _ => set (bb := b) end.
    eapply (J_tracker_ext mx kp tnt (tnt || negb bb)); [exact HJ2 | | | | | | | | |]; autorewrite with potr; cbn [Nat.eqb];
      rewrite ?andb_true_r; try reflexivity; try apply (jp_tclock _ _ _ _ (j_p _ _ _ _ _ _ _ _ HJ2)); try apply (j_w _ _ _ _ _ _ _ _ HJ2).
    intro Hb. apply orb_false_iff in Hb as [Hb1 Hb2]. apply negb_false_iff in Hb2. rewrite Hb2, andb_true_r.
    apply (jw_c11 _ _ _ (j_w _ _ _ _ _ _ _ _ HJ2)). exact Hb1.
  - (* StopDiverged *)
    destruct Hok as [ws [W1 W2 W3 W4 W5 W6]]. unfold F3. autorewrite with potr. cbn [Nat.eqb]. auto.
Qed.

Lemma op_stop_stopped tnt x t dur :
  Jop mx kp tnt x t -> p_state (get_pool x 0) = PStopped ->
  Jop mx kp tnt (do_clean x 0) (postep 1 [mx] t (PStop 0 dur) (OStop StopOk [])).
Proof.
  intros [HJ Hts] Hst. pose proof HJ as [HQ HL HP HS HT HR HW]. cbn [postep fold_left]. fold (stop_ks t). fold (stop_ts t).
  rewrite Hst in HS. destruct (js_stopped _ _ _ _ _ HS eq_refl) as [Hr0 Hq0].
  assert (po_tasks (stop_ts t) = po_tasks t) as Etk by reflexivity.
  rewrite Etk, (all_done_idle tnt x _ t HJ Hr0 Hq0). cbn [Nat.ltb Nat.leb orb].
  apply J_do_clean; [|exact Hst]. split; [|exact Hts]. rewrite getp0. autorewrite with potr.
  eapply (J_tracker_pools tnt tnt); [exact HJ | | | | | | | | |]; autorewrite with potr; cbn [Nat.eqb]; rewrite ?andb_true_r;
    try reflexivity; try apply (jp_tclock _ _ _ _ HP); try apply HW.
  rewrite Hst. pose proof (JS_stop_ts_stopped _ _ t HS) as HS2. rewrite Hr0, Hq0 in *.
  eapply JS_stopped_k. exact HS2.
Qed.

Lemma op_stop tnt x t dur :
  Jop mx kp tnt x t ->
  let x' := fst (pstep x (PStop 0 dur)) in let ob := snd (pstep x (PStop 0 dur)) in
  let t' := postep 1 [mx] t (PStop 0 dur) ob in
  if is_div ob then F3 t' else Jop mx kp (tnt || negb (stop_clause t (PStop 0 dur) ob)) x' t'.
Proof.
  intros HJop. cbn [pstep]. unfold pstop. destruct (p_state (get_pool x 0)) eqn:Est.
  - pose proof (op_stop_live tnt x t dur HJop ltac:(rewrite Est; discriminate)) as H. cbv zeta in H |- *.
    destruct (stop_loop _ _ 0 _ []) as [[x' r] e]. exact H.
  - pose proof (op_stop_live tnt x t dur HJop ltac:(rewrite Est; discriminate)) as H. cbv zeta in H |- *.
    destruct (stop_loop _ _ 0 _ []) as [[x' r] e]. exact H.
  - cbv zeta. cbn [fst snd is_div stop_clause]. rewrite orb_false_r. apply op_stop_stopped; assumption.
Qed.

(** a stop returns, unless a nap hit the end of time *)
Lemma op_stop_nodiv tnt x t dur :
  Jop mx kp tnt x t -> low kp (fst (pstep x (PStop 0 dur))) -> is_div (snd (pstep x (PStop 0 dur))) = false.
Proof.
  intros HJop Hlow. cbn [pstep] in *. unfold pstop in *. destruct (p_state (get_pool x 0)) eqn:Est; [| |reflexivity].
  all: set (x1 := upd_pool x 0 (p_with_state PStopping)) in *.
  all: assert (p_state (get_pool x 0) <> PStopped) as Hne by (rewrite Est; discriminate).
  all: pose proof (Jop_stop_ts tnt x t HJop Hne) as HJ1; fold x1 in HJ1.
  all: assert (p_state (get_pool x1 0) = PStopping) as Hst1 by
      (unfold x1; destruct HJop as [HJ _]; rewrite get_pool_upd_pool_same by (rewrite (jp_pools _ _ _ _ (j_p _ _ _ _ _ _ _ _ HJ)); lia); reflexivity).
  all: assert (quiet_off (stop_ts t)) as Hq1 by
      (unfold quiet_off; destruct HJop as [HJ _]; rewrite (stop_ts_pools t (js_pools _ _ _ _ _ (j_s _ _ _ _ _ _ _ _ HJ))); cbn [nth]; apply (stop_ks_fields t)).
  all: assert (get_timeout_time (pw_clock x1) dur <= U64MAX) as Hdl by (unfold get_timeout_time, sat_add64; destruct (dur <=? U64MAX); lia).
  all: assert (0 <= pw_clock x <= U64MAX) as Hc0 by
      (destruct HJop as [HJ _]; pose proof (jp_clock _ _ _ _ (j_p _ _ _ _ _ _ _ _ HJ)); destruct (jp_keep _ _ _ _ (j_p _ _ _ _ _ _ _ _ HJ)) as (_ & ? & _); lia).
  all: destruct (stop_loop_J (S (S (Z.to_nat (dur / 1000000)))) tnt x1 (stop_ts t) (get_timeout_time (pw_clock x1) dur) [] HJ1 Hq1 Hst1 Hdl) as [_ Hnd].
  all: assert (sat_sub (get_timeout_time (pw_clock x1) dur) (pw_clock x1) <= (Z.of_nat (S (S (Z.to_nat (dur / 1000000)))) - 1) * 1000000) as Hfuel by
      (unfold get_timeout_time, sat_add64, sat_sub; assert (pw_clock x1 = pw_clock x) as -> by reflexivity;
       destruct (Z_lt_le_dec dur 0) as [Hneg|Hpos]; [destruct (dur <=? U64MAX) eqn:E; lia|];
       pose proof (Z.mul_succ_div_gt dur 1000000 ltac:(lia)) as Hdiv; pose proof (Z.div_pos dur 1000000 Hpos ltac:(lia)) as Hdp;
       destruct (dur <=? U64MAX) eqn:E; lia).
  all: specialize (Hnd ltac:(lia) Hfuel).
  all: destruct (stop_loop _ x1 0 _ []) as [[x' r] e]; cbn [fst snd] in *; destruct r; try reflexivity; exfalso; apply (Hnd Hlow); reflexivity.
Qed.

End Ops2.
