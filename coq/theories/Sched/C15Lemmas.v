(** C15: small facts about the oracle's own definitions (body grammar). *)
From OCV Require Import Base.Prelude Misc.Time Queue.PMap Queue.OWS Coroutine.Co Sched.Sched Sched.Pool Sched.PoolOracle Sched.C15Oracle.
Open Scope Z_scope.
Lemma parse_logs_sound : forall b l, parse_logs b = Some l -> b = map ILog l.
Proof.
  induction b as [|i b IH]; intros l; cbn [parse_logs].
  - intro H; injection H as <-; reflexivity.
  - destruct i; try discriminate. destruct (parse_logs b) as [l'|]; [|discriminate].
    cbn [option_map]. intro H; injection H as <-. cbn [map]. f_equal. apply IH. reflexivity.
Qed.

Lemma parse_body_nosleep b sp :
  option_map (fun l => {| ts_sleep := None; ts_logs := l |}) (parse_logs b) = Some sp -> b = body_of sp.
Proof.
  destruct (parse_logs b) as [l|] eqn:E; [|discriminate]. cbn [option_map]. intro H. injection H as <-.
  unfold body_of. cbn [ts_sleep ts_logs app]. apply parse_logs_sound, E.
Qed.

Theorem parse_body_sound : forall b sp, parse_body b = Some sp -> b = body_of sp.
Proof.
  intros b sp. unfold parse_body.
  destruct b as [|i1 b]; [apply parse_body_nosleep|].
  destruct i1 as [| | | |y1 n1 s1| | | | | |]; try apply parse_body_nosleep.
  destruct y1; try apply parse_body_nosleep.
  destruct s1; try apply parse_body_nosleep.
  destruct b as [|i2 b]; [apply parse_body_nosleep|].
  destruct i2 as [| | | |y2 n2 s2| | | | | |]; try apply parse_body_nosleep.
  destruct y2; try apply parse_body_nosleep.
  destruct s2 as [|t2| |]; try apply parse_body_nosleep.
  destruct b as [|i3 b]; [apply parse_body_nosleep|].
  destruct i3 as [| |y3 t3| | | | | | | |]; try apply parse_body_nosleep.
  destruct y3; try apply parse_body_nosleep.
  destruct b as [|i4 b]; [apply parse_body_nosleep|].
  destruct i4 as [| | | |y4 n4 s4| | | | | |]; try apply parse_body_nosleep.
  destruct y4; try apply parse_body_nosleep.
  destruct s4; try apply parse_body_nosleep.
  destruct b as [|i5 b]; [apply parse_body_nosleep|].
  destruct i5; try apply parse_body_nosleep.
  destruct ((n1 =? n2) && (n1 =? n4) && (t2 =? t3)) eqn:E; [|discriminate].
  apply andb_true_iff in E as [E E3]. apply andb_true_iff in E as [E1 E2].
  apply Z.eqb_eq in E1, E2, E3. subst n2 n4 t3.
  destruct (parse_logs b) as [l|] eqn:El; [|discriminate]. cbn [option_map]. intro H. injection H as <-.
  unfold body_of, sleep_block, sleep_tail. cbn [ts_sleep ts_logs app]. rewrite (parse_logs_sound _ _ El). reflexivity.
Qed.
