(** The bystander invariant through the scheduling pass. *)
From OCV Require Import Base.Prelude Misc.Time Queue.PMap Queue.OWS Queue.OWSOracle Queue.OWSLemmas Queue.OWSModel Queue.OWSStep.
From OCV Require Import Coroutine.Co Coroutine.CoLemmas Sched.Sched Sched.Pool Sched.PoolOracle Sched.PoolBystander Sched.PoolBase Sched.PoolWf Sched.PoolQ Sched.PoolJ Sched.PoolJLemmas Sched.PoolUnfold Sched.PoolMeasure Sched.PoolJStep Sched.PoolJLoop Sched.PoolCount Sched.PoolBound Sched.PoolJPass Sched.PoolJHole Sched.PoolJSched Sched.PoolBy Sched.PoolByLoop Sched.PoolByPass.
From Coq Require Import ZifyBool ZifyNat.
Open Scope Z_scope.

Section BySched.
Variable mx : Z.
Variable kp : Z.

Lemma csusp_B : forall fuel tnt x d acc t b,
  J mx kp tnt x d None t -> quiet_off t -> G mx x None -> pw_ts x = [] -> BI (pw_workers x) b ->
  exists x' d' evs, csusp fuel x d acc = COk pw x' d' (acc ++ evs) /\ BI (pw_workers x') (fold_left by_ev evs b).
Proof.
  induction fuel as [|f IH]; intros tnt x d acc t b HJ Hq HG Hts HB.
  - exists x, d, []. cbn [csusp check_suspend fold_left]. rewrite app_nil_r. auto.
  - rewrite csusp_S. destruct (heap_min (sd_suspend d)) as [[ts i]|] eqn:Emin.
    2:{ exists x, d, []. rewrite app_nil_r. auto. }
    destruct (pw_clock x <? ts) eqn:Ecl.
    { exists x, d, []. rewrite app_nil_r. auto. }
    pose proof (heap_min_In _ _ Emin) as Hin.
    destruct (J_open_susp mx kp tnt x d t ts i HJ Hin) as (k & y & Hk & Est & Hl & Hp & HJ1).
    unfold co_ready, k_state. rewrite Hk. cbn [option_map]. rewrite Est. cbn [tr_ready].
    assert (ts <=? pw_clock x = true) as -> by lia.
    rewrite (k_change_ready x i k Hk). rewrite Est.
    set (x1 := upd_worker x i (with_st k Ready)). set (e := EL 0 i (CbChanged Ready) (Suspend y ts)).
    assert (J mx kp tnt x1 (d_rm_susp d (ts, i)) (Some i) (pev t e)) as HJ2.
    { unfold x1, e. rewrite <- Est. apply J_set_live; [exact HJ1 | exact Hk | exact Hl | reflexivity]. }
    assert (get_worker x1 i = Some (with_st k Ready)) as Hk1.
    { unfold x1. apply get_worker_upd_worker_same. eapply get_worker_lt, Hk. }
    assert (J mx kp tnt (k_push 0 x1 i) (d_rm_susp d (ts, i)) None (pev t e)) as HJ3.
    { eapply J_close_push; [exact HJ2 | exact Hk1 | reflexivity | eapply parked_facts_ready; eassumption | left; reflexivity]. }
    destruct (IH tnt (k_push 0 x1 i) (d_rm_susp d (ts, i)) (acc ++ [e]) (pev t e) b HJ3)
      as (x' & d' & evs & Ec & HB').
    + unfold quiet_off. rewrite po_pools_pev. exact Hq.
    + apply G_push. unfold x1. apply G_set_live_None; [exact HG | exact Hk | exact Hl | reflexivity].
    + exact Hts.
    + eapply BI_tids; [exact HB|]. unfold k_push, x1. autorewrite with pw. unfold get_worker in Hk.
      eapply tids_same_set; [exact Hk | reflexivity].
    + exists x', d', (e :: evs). rewrite Ec. split; [rewrite <- app_assoc; reflexivity|]. cbn [fold_left].
      unfold e at 1. rewrite by_inert_EL by discriminate. exact HB'.
Qed.

Lemma csys_B : forall fuel tnt x d acc t b,
  J mx kp tnt x d None t -> quiet_off t -> G mx x None -> pw_ts x = [] -> BI (pw_workers x) b ->
  exists x' d' evs, csys fuel x d acc = COk pw x' d' (acc ++ evs) /\ BI (pw_workers x') (fold_left by_ev evs b).
Proof.
  induction fuel as [|f IH]; intros tnt x d acc t b HJ Hq HG Hts HB.
  - exists x, d, []. cbn [csys check_sys fold_left]. rewrite app_nil_r. auto.
  - rewrite csys_S. destruct (heap_min (sd_sys_suspend d)) as [[ts i]|] eqn:Emin.
    2:{ exists x, d, []. rewrite app_nil_r. auto. }
    destruct (pw_clock x <? ts) eqn:Ecl.
    { exists x, d, []. rewrite app_nil_r. auto. }
    pose proof (heap_min_In _ _ Emin) as Hin.
    destruct (J_open_sys mx kp tnt x d t ts i HJ Hin) as (k & y & n & Hk & Est & Hl & Hp & Hmap & HJ1).
    assert (Sched.mem_nat i (sd_syscall d) = true) as -> by (apply mem_nat_In, Hmap).
    unfold k_state. rewrite Hk. cbn [option_map]. rewrite Est.
    destruct (J_k_change mx kp tnt x (d_rm_sys d (ts, i)) i t k (Syscall y n STimeout) HJ1 Hq Hk Hl ltac:(discriminate))
      as (x1 & Ekc & HJ2 & Hm2 & Hk2 & HG2a & _ & _).
    pose proof (k_change_B _ _ _ _ _ b (jp_pools _ _ _ _ (j_p _ _ _ _ _ _ _ _ HJ1)) (jp_cur _ _ _ _ (j_p _ _ _ _ _ _ _ _ HJ1)) Ekc ltac:(discriminate) HB) as HB1.
    rewrite Ekc. rewrite Est in HJ2, HB1 |- *. set (e := EL 0 i (CbChanged (Syscall y n STimeout)) (Syscall y n (SSuspend ts))) in *.
    destruct Hm2 as [M1 M2 M3 M4 M5 M6].
    assert (J mx kp tnt (k_push 0 x1 i) (d_rm_sys d (ts, i)) None (pev t e)) as HJ3.
    { eapply J_close_push; [exact HJ2 | exact Hk2 | reflexivity | eapply parked_facts_timeout; eassumption | right; right; exists y, n; reflexivity]. }
    destruct (IH tnt (k_push 0 x1 i) (d_rm_sys d (ts, i)) (acc ++ [e]) (pev t e) (fold_left by_ev [e] b) HJ3)
      as (x' & d' & evs & Ec & HB').
    + unfold quiet_off. rewrite po_pools_pev. exact Hq.
    + apply G_push, HG2a. reflexivity.
    + unfold k_push. autorewrite with pw. congruence.
    + exact HB1.
    + exists x', d', (e :: evs). rewrite Ec. split; [rewrite <- app_assoc; reflexivity|]. exact HB'.
Qed.

Lemma cready_B tnt x d acc t b :
  J mx kp tnt x d None t -> quiet_off t -> G mx x None -> pw_ts x = [] -> BI (pw_workers x) b ->
  exists x' d' evs, cready x d acc = COk pw x' d' (acc ++ evs) /\ BI (pw_workers x') (fold_left by_ev evs b).
Proof.
  intros HJ Hq HG Hts HB. rewrite cready_eq.
  destruct (csusp_J mx kp (S (length (sd_suspend d))) tnt x d acc t HJ Hq HG Hts) as (x1 & d1 & e1 & E1 & HJ1 & HG1 & Hts1 & Ec1 & F1 & P1).
  destruct (csusp_B (S (length (sd_suspend d))) tnt x d acc t b HJ Hq HG Hts HB) as (x1' & d1' & e1' & E1' & HB1).
  rewrite E1 in E1'. injection E1' as <- <- E1'. apply app_inv_head in E1'. subst e1'.
  rewrite E1.
  destruct (csys_B (S (length (sd_sys_suspend d1))) tnt x1 d1 (acc ++ e1) (fold_left pev e1 t) _ HJ1 (quiet_off_fold _ _ Hq) HG1 Hts1 HB1)
    as (x2 & d2 & e2 & E2 & HB2).
  rewrite E2. exists x2, d2, (e1 ++ e2). rewrite app_assoc, fold_left_app. split; [reflexivity | exact HB2].
Qed.

Lemma drop_B tnt x d w t k b x3 e :
  J mx kp tnt x d (Some w) t -> get_worker x w = Some k -> live k = true -> In w (pw_cancel_cos x) ->
  k_change (k_uncancel x w) w Cancelled = (x3, [e]) -> e = EL 0 w (CbChanged Cancelled) (k_st k) ->
  BI (pw_workers x) b -> BR t b -> BI (pw_workers x3) (by_ev b e).
Proof.
  intros HJ Hk Hl Hin Ekc -> HB HR.
  pose proof (k_change_tids (k_uncancel x w) w Cancelled x3 _ (jp_pools _ _ _ _ (j_p _ _ _ _ _ _ _ _ HJ)) (jp_cur _ _ _ _ (j_p _ _ _ _ _ _ _ _ HJ)) Ekc) as Ht.
  change (pw_workers (k_uncancel x w)) with (pw_workers x) in Ht.
  eapply BI_cancelled; [exact HB | exact Ht|].
  intros i Hi. destruct (bi_hold _ _ HB w i Hi) as (k' & rest & Hk' & Htask).
  unfold get_worker in Hk. rewrite Hk in Hk'. injection Hk' as <-.
  apply HR. eapply (jt_tf _ _ _ _ _ _ _ _ (j_t _ _ _ _ _ _ _ _ HJ)); eassumption.
Qed.

Definition dsched_okB (b : bytrk) (acc : list ev) (res : pw * sdata * pass_res * list ev) : Prop :=
  let '(x', d', r, acc') := res in
  exists evs, acc' = acc ++ evs /\ BI (pw_workers x') (fold_left by_ev evs b).

Lemma dsched_okB_chain b acc e res : dsched_okB (fold_left by_ev e b) (acc ++ e) res -> dsched_okB b acc res.
Proof.
  destruct res as [[[x' d'] r] acc']. cbn [dsched_okB]. intros (evs & -> & H). exists (e ++ evs).
  rewrite app_assoc, fold_left_app. split; [reflexivity | exact H].
Qed.

Lemma dsched_B : forall fuel tnt x d deadline results acc t b,
  J mx kp tnt x d None t -> quiet_off t -> G mx x None -> pw_ts x = [] -> BI (pw_workers x) b -> BR t b ->
  dsched_okB b acc (dsched fuel x d deadline results acc).
Proof.
  induction fuel as [|f IH]; intros tnt x d deadline results acc t b HJ Hq HG Hts HB HR.
  - cbn [dsched do_schedule dsched_okB]. exists []. rewrite app_nil_r. auto.
  - rewrite dsched_S. cbv zeta. destruct (sat_sub deadline (pw_clock x) =? 0) eqn:Elft.
    { cbn [dsched_okB]. exists []. rewrite app_nil_r. cbn [fold_left]. auto. }
    destruct (cready_J mx kp tnt x d acc t HJ Hq HG Hts) as (x1 & d1 & e1 & Ecr & HJ1 & HG1 & Hts1 & Ecl1 & F1 & F2 & P1).
    destruct (cready_B tnt x d acc t b HJ Hq HG Hts HB) as (x1' & d1' & e1' & Ecr' & HB1).
    rewrite Ecr in Ecr'. injection Ecr' as <- <- Ecr'. apply app_inv_head in Ecr'. subst e1'.
    rewrite Ecr. apply (dsched_okB_chain b acc e1). set (t1 := fold_left pev e1 t) in *. set (b1 := fold_left by_ev e1 b) in *.
    assert (quiet_off t1) as Hq1 by (apply quiet_off_fold, Hq).
    assert (BR t1 b1) as HR1 by (apply BR_fold, HR).
    unfold k_pop. pose proof (jq_c _ _ (j_q _ _ _ _ _ _ _ _ HJ1)) as HQc.
    destruct (lpop (pw_cq x1) 0 0) as [q r] eqn:Epop.
    destruct (Q1_lpop_cases _ _ _ _ HQc Epop) as [HQ' [(z & -> & Hcnt)|(-> & Hnil & Hnil')]].
    + destruct (J_open_cq mx kp tnt x1 d1 t1 q z HJ1 HQ' Hcnt) as (w & k & -> & Hk & Hl & Hp & Hres & HJ2).
      rewrite Nat2Z.id. set (x2 := set_cq x1 q) in *.
      assert (get_worker x2 w = Some k) as Hk2 by exact Hk.
      assert (BI (pw_workers x2) b1) as HB2 by exact HB1.
      unfold k_cancelled. destruct (Sched.mem_nat w (pw_cancel_cos x2)) eqn:Ecc.
      * apply mem_nat_In in Ecc.
        destruct (J_drop mx kp tnt x2 d1 w t1 k HJ2 Hq1 Hk2 Hl Ecc) as (x3 & Ekc & HJ3 & HG3 & Hts3 & Ecl3 & Hr3 & Hc3).
        pose proof (drop_B tnt x2 d1 w t1 k b1 x3 _ HJ2 Hk2 Hl Ecc Ekc eq_refl HB2 HR1) as HB3.
        rewrite Ekc. apply (dsched_okB_chain b1 (acc ++ e1) [EL 0 w (CbChanged Cancelled) (k_st k)]).
        eapply (IH tnt x3 _ deadline _ _ (fold_left pev [EL 0 w (CbChanged Cancelled) (k_st k)] t1)).
        -- exact HJ3.
        -- unfold quiet_off. cbn [fold_left]. rewrite po_pools_pev. exact Hq1.
        -- exact HG3.
        -- rewrite Hts3. exact Hts1.
        -- exact HB3.
        -- apply BR_fold, HR1.
      * apply mem_nat_false in Ecc.
        assert (parked_ok x2 w) as Hpk.
        { destruct Hp as (Hd & Ht & m & Hm & Hb). exists k, m. repeat (split; [assumption|]). exact Hb. }
        assert (G mx x2 (Some w)) as HG2 by (apply G_None_any, G_set_cq, HG1).
        destruct (k_resume_J mx kp tnt x2 d1 w t1 HJ2 Hq1 HG2 Hpk Ecc Hts1)
          as (x3 & r & e & Ekr & Hres3).
        destruct (k_resume_B mx kp tnt x2 d1 w t1 b1 HJ2 Hq1 HG2 Hpk Ecc Hts1 HB2) as (x3' & r' & e' & Ekr' & HB3).
        rewrite Ekr in Ekr'. injection Ekr' as <- _ <-.
        destruct Hres3 as [(HJ3 & HG3 & Hts3 & Ecc3 & (k' & Hk' & -> & Hpl) & Hr3 & Hc3)|(-> & _)].
        2:{ rewrite Ekr. cbn [dsched_okB]. exists e. split; [reflexivity | exact HB3]. }
        rewrite Ekr. apply (dsched_okB_chain b1 (acc ++ e1) e).
        assert (quiet_off (fold_left pev e t1)) as Hq3 by (apply quiet_off_fold, Hq1).
        assert (BR (fold_left pev e t1) (fold_left by_ev e b1)) as HR3 by (apply BR_fold, HR1).
        destruct Hpl as [(Hl' & v & Est)|[(Hl' & Hd' & Ht' & i & rest & Htask & Hc)|(Hl' & Hd' & Ht' & Htask & Est)]].
        3:{ rewrite Est in *.
            assert (parked_facts k') as Hp'.
            { split; [exact Hd'|]. split; [exact Ht'|]. exists MRun. rewrite Est, Htask. cbn [pmode]. auto. }
            pose proof (jp_keep _ _ _ _ (j_p _ _ _ _ _ _ _ _ HJ3)) as (_ & Hc0 & _).
            assert (pw_clock x3 <? 0 = false) as -> by lia.
            eapply IH; [|exact Hq3 | apply G_push, HG3 | exact Hts3 | exact HB3 | exact HR3].
            eapply (J_close_push mx kp tnt x3 d1 w _ k' HJ3 Hk' Hl' Hp'). right. left. exists 0, 0. split; [exact Est | lia]. }
        -- rewrite Est in *. eapply IH; [|exact Hq3 | exact HG3 | exact Hts3 | exact HB3 | exact HR3].
           eapply (J_close_dead mx kp tnt x3 d1 d1 w _ _ HJ3 Hk' Hl'); reflexivity.
        -- pose proof (placed_parked k' i rest Hd' Ht' Htask Hc) as Hp'.
           destruct Hc as [(ts & Est & Hb)|(y & n & ts & Est & Hb)]; rewrite Est in *.
           ++ destruct (pw_clock x3 <? ts) eqn:Ects.
              ** eapply IH; [|exact Hq3 | exact HG3 | exact Hts3 | exact HB3 | exact HR3].
                 eapply (J_close_susp mx kp tnt x3 d1 w _ k' 0 ts HJ3 Hk' Est Hp').
              ** eapply IH; [|exact Hq3 | apply G_push, HG3 | exact Hts3 | exact HB3 | exact HR3].
                 eapply (J_close_push mx kp tnt x3 d1 w _ k' HJ3 Hk' Hl' Hp'). right. left. exists 0, ts. split; [exact Est | lia].
           ++ eapply IH; [|exact Hq3 | exact HG3 | exact Hts3 | exact HB3 | exact HR3].
              eapply (J_close_sys mx kp tnt x3 d1 w _ k' y n ts HJ3 Hk' Est Hp').
    + cbn [dsched_okB]. exists []. rewrite app_nil_r. cbn [fold_left]. split; [reflexivity|]. exact HB1.
Qed.

(** the whole pass *)
Definition ppass_okB (b : bytrk) (res : pw * pres * list ev) : Prop :=
  let '(x', r, e) := res in
  BI (pw_workers x') (fold_left by_ev e b).

Lemma ppass_B tnt x t b deadline :
  Jop mx kp tnt x t -> quiet_off t -> BI (pw_workers x) b -> BR t b -> ppass_okB b (ppass x 0 deadline).
Proof.
  intros [HJ Hts] Hq HB HR. rewrite ppass_eq.
  set (x1 := set_cur (try_grow x 0) 0).
  pose proof (jp_pools _ _ _ _ (j_p _ _ _ _ _ _ _ _ HJ)) as Hpools.
  destruct (J_try_grow mx kp tnt x _ None t HJ Hq) as [HJg HGg].
  assert (J mx kp tnt x1 (p_sd (get_pool x1 0)) None t) as HJ1.
  { unfold x1. autorewrite with pw. rewrite (p_sd_try_grow x Hpools). apply J_set_cur, HJg. }
  assert (G mx x1 None) as HG1.
  { unfold x1. eapply (G_frame mx (try_grow x 0)); [reflexivity | reflexivity | reflexivity | exact HGg]. }
  assert (pw_ts x1 = []) as Hts1.
  { unfold x1. autorewrite with pw. rewrite (sm_ts _ _ (try_grow_misc x Hpools)). exact Hts. }
  assert (BI (pw_workers x1) b) as HB1.
  { unfold x1. autorewrite with pw. eapply BI_tids; [exact HB | apply try_grow_tids, Hpools]. }
  assert (ppass_okB b (let '(x2, d2, r, e) := dsched (pass_fuel_p x1) x1 (p_sd (get_pool x1 0)) deadline [] [] in ppass_tail x2 d2 r e)) as Htail.
  { pose proof (dsched_B (pass_fuel_p x1) tnt x1 _ deadline [] [] t b HJ1 Hq HG1 Hts1 HB1 HR) as Hok.
    destruct (dsched (pass_fuel_p x1) x1 (p_sd (get_pool x1 0)) deadline [] []) as [[[x2 d2] r] e].
    cbn [dsched_okB] in Hok. destruct Hok as (evs & Ee & Hok). cbn [app] in Ee. subst e. unfold ppass_tail. cbv zeta.
    destruct (pw_spin _); [|destruct r]; cbn [ppass_okB]; autorewrite with pw; exact Hok. }
  destruct (p_state (get_pool x 0)) eqn:Est; [exact Htail | exact Htail|]. cbn [ppass_okB fold_left]. exact HB.
Qed.

End BySched.
