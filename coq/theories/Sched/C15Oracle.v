(** C15 — A coroutine blocked in a hooked call does not stall its event loop.

    The property as an executable oracle over an OBSERVED single-pool history on virtual time
    (operations + what the harness reported: pass results with the recording listener's events and
    the task bodies' own log). The oracle keeps a small specification tracker (status of every
    task as its own log shows it, last state reported for every worker, the clock); it never calls
    the pool model.

    Clause judged at the end of every pass that was not cut by its deadline ([PLeft l], [0 < l]):

      if some accepted task is still PENDING (never started, or started and neither finished nor
      legitimately asleep: its wake-up time has not come) then every one of the pool's [max_size]
      worker slots is occupied by a worker that is legitimately blocked in a hooked wait.

    So a blocked worker never keeps runnable work waiting while a slot is free (a sibling makes
    progress in the same pass), and a sleeper whose time has come is finished by the first full
    pass after it: N sleeps of length d started together end together after d, not after N*d.
    A pass that errs, unwinds or never returns is a stall. *)
From OCV Require Import Base.Prelude Misc.Time Queue.PMap Queue.OWS Coroutine.Co Sched.Sched Sched.Pool Sched.PoolOracle.
Open Scope Z_scope.

Inductive tstat := NotStarted | Active | Asleep (t : Z) | Finished.

Record trk := {
  k_clock : Z;
  k_tasks : list tstat;          (* by submission index *)
  k_workers : list cstate;       (* state last reported for worker i by the recording listener *)
  k_judged : nat;                (* full passes judged so far *)
  k_ok : bool
}.

Definition trk0 (clock : Z) : trk :=
  {| k_clock := clock; k_tasks := []; k_workers := []; k_judged := O; k_ok := true |}.

Definition set_status (k : trk) (t : nat) (s : tstat) : trk :=
  {| k_clock := k_clock k; k_tasks := Co.set_nth t s (k_tasks k); k_workers := k_workers k;
     k_judged := k_judged k; k_ok := k_ok k |}.

Definition status (k : trk) (t : nat) : tstat := nth t (k_tasks k) Finished.

(** one event of a pass *)
Definition pev15 (k : trk) (e : ev) : trk :=
  match e with
  | EL _ w (CbChanged new) _ =>
      {| k_clock := k_clock k; k_tasks := k_tasks k; k_workers := set_nth_ext Ready w new (k_workers k);
         k_judged := k_judged k; k_ok := k_ok k |}
  | EL _ _ _ _ => k
  | EB t b =>
      match b with
      | BStart _ | BGot _ | BRes _ | BLog _ => set_status k t Active
      | BYield _ (RUntil ts) => set_status k t (Asleep ts)
      | BYield _ (RDelay d) => set_status k t (Asleep (get_timeout_time (k_clock k) d))
      | BYield _ RNone => set_status k t (Asleep 0)
      | BYield _ RCancel => set_status k t Finished
      | BRet _ | BPanic _ => set_status k t Finished
      | BTick d =>
          {| k_clock := sat_add64 (k_clock k) d; k_tasks := Co.set_nth t Active (k_tasks k);
             k_workers := k_workers k; k_judged := k_judged k; k_ok := k_ok k |}
      end
  end.

(** a worker that is legitimately blocked: in a hooked wait (or a delay) whose time has not come *)
Definition blocked (clock : Z) (s : cstate) : bool :=
  match s with
  | Suspend _ t => clock <? t
  | Syscall _ _ (SSuspend t) => clock <? t
  | _ => false
  end.

Definition pending_stat (clock : Z) (s : tstat) : bool :=
  match s with
  | NotStarted | Active => true
  | Asleep t => t <=? clock
  | Finished => false
  end.

Definition pending (k : trk) : bool := existsb (pending_stat (k_clock k)) (k_tasks k).
Definition alive (k : trk) : Z := Z.of_nat (length (filter (blocked (k_clock k)) (k_workers k))).

Definition judge_pass (mx : Z) (k : trk) : trk :=
  {| k_clock := k_clock k; k_tasks := k_tasks k; k_workers := k_workers k; k_judged := S (k_judged k);
     k_ok := k_ok k && (negb (pending k) || (mx <=? alive k)) |}.

Definition fail15 (k : trk) : trk :=
  {| k_clock := k_clock k; k_tasks := k_tasks k; k_workers := k_workers k; k_judged := k_judged k; k_ok := false |}.

(** operations the oracle understands; anything else ends the judged part of the history
    (result [None]): what was judged up to there stands *)
Definition step15 (mx : Z) (k : trk) (o : pop) (ob : pobs) : option trk :=
  match o, ob with
  | PSubmit _ _ _, OSubmit ok =>
      Some {| k_clock := k_clock k; k_tasks := k_tasks k ++ [if ok then NotStarted else Finished];
              k_workers := k_workers k; k_judged := k_judged k; k_ok := k_ok k |}
  | PPass _ _, OPass r evs =>
      let k1 := fold_left pev15 evs k in
      match r with
      | PLeft l => Some (if 0 <? l then judge_pass mx k1 else k1)
      | PErrStopped => None
      | _ => Some (fail15 k1)              (* Err / unwound / never returned: the loop is stalled *)
      end
  | PClock c, OUnitP =>
      Some {| k_clock := c; k_tasks := k_tasks k; k_workers := k_workers k; k_judged := k_judged k; k_ok := k_ok k |}
  | PGetRunning _, ONumP _ | PSize _, ONumP _ | PGetState _, OState _ => Some k
  | _, _ => None
  end.

Fixpoint run15 (mx : Z) (k : trk) (ops : list pop) (obs : list pobs) : trk :=
  match ops, obs with
  | o :: ops', ob :: obs' =>
      match step15 mx k o ob with
      | Some k' => run15 mx k' ops' obs'
      | None => k
      end
  | _, _ => k
  end.

(** the oracle: single pool with [max_size = mx] created at clock [c0] *)
Definition track15 (mx c0 : Z) (ops : list pop) (obs : list pobs) : trk := run15 mx (trk0 c0) ops obs.
Definition ok_c15 (mx c0 : Z) (ops : list pop) (obs : list pobs) : bool := k_ok (track15 mx c0 ops obs).

(** * The histories the theorems quantify over *)

(** a hooked sleep until [t] inside syscall [n], as the facade + [EventLoop::wait_just] perform it *)
Definition sleep_tail (n : Z) : list instr := [ISyscall 0 n SExecuting; IRunning].
Definition sleep_block (n t : Z) : list instr :=
  ISyscall 0 n SExecuting :: ISyscall 0 n (SSuspend t) :: IUntil 0 t :: sleep_tail n.

(** a task: optionally one hooked sleep, then any amount of computing (progress marks) *)
Record tspec := { ts_sleep : option (Z * Z); ts_logs : list Z }.
Definition body_of (sp : tspec) : list instr :=
  match ts_sleep sp with Some (n, t) => sleep_block n t | None => [] end ++ map ILog (ts_logs sp).

Fixpoint parse_logs (b : list instr) : option (list Z) :=
  match b with
  | [] => Some []
  | ILog k :: r => option_map (cons k) (parse_logs r)
  | _ => None
  end.

Definition parse_body (b : list instr) : option tspec :=
  match b with
  | ISyscall 0 n SExecuting :: ISyscall 0 n1 (SSuspend t) :: IUntil 0 t1 :: ISyscall 0 n2 SExecuting :: IRunning :: r =>
      if (n =? n1) && (n =? n2) && (t =? t1)
      then option_map (fun l => {| ts_sleep := Some (n, t); ts_logs := l |}) (parse_logs r)
      else None
  | _ => option_map (fun l => {| ts_sleep := None; ts_logs := l |}) (parse_logs b)
  end.

Definition op_wf15 (o : pop) : bool :=
  match o with
  | PSubmit O body None => match parse_body body with Some _ => true | None => false end
  | PPass O _ => true
  | PClock _ => true
  | _ => false
  end.

(** submissions, passes with any deadline and clock changes in any order and number, on pool 0 *)
Definition wf15 (ops : list pop) : bool := forallb op_wf15 ops.

Definition is_sleeper (b : list instr) : bool :=
  match parse_body b with Some {| ts_sleep := Some _ |} => true | _ => false end.
