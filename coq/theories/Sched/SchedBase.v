(** Model-level facts about the generic scheduler loops (the event accumulator is only ever
    extended), the two heaps, the syscall map and list updates. *)
From OCV Require Import Base.Prelude Misc.Time Queue.PMap Queue.OWS Coroutine.Co Coroutine.CoLemmas
  Sched.Sched Sched.SchedQueue.
From Coq Require Import ZifyBool ZifyNat.
Open Scope Z_scope.

(** * lists *)

Lemma set_nth_twice {A} (i : nat) (a b : A) (l : list A) : set_nth i a (set_nth i b l) = set_nth i a l.
Proof.
  revert l; induction i as [|i IH]; intros [|x l]; try reflexivity.
  rewrite !set_nth_cons_S, IH. reflexivity.
Qed.

Lemma set_nth_id {A} (i : nat) (x : A) (l : list A) : nth_error l i = Some x -> set_nth i x l = l.
Proof.
  revert l; induction i as [|i IH]; intros [|a l]; cbn [nth_error]; try discriminate.
  - intro H. injection H as ->. reflexivity.
  - intro H. rewrite set_nth_cons_S, IH by exact H. reflexivity.
Qed.

Lemma nth_error_app_last {A} (l : list A) (x : A) : nth_error (l ++ [x]) (length l) = Some x.
Proof. rewrite nth_error_app2 by lia. rewrite Nat.sub_diag. reflexivity. Qed.

(** * mem_nat / remove_nat *)

Lemma mem_nat_In i l : mem_nat i l = true <-> In i l.
Proof.
  unfold mem_nat. rewrite existsb_exists. split.
  - intros (x & Hin & He). apply Nat.eqb_eq in He. subst. exact Hin.
  - intro Hin. exists i. split; [exact Hin | apply Nat.eqb_refl].
Qed.

Lemma mem_nat_cn i l : mem_nat i l = true <-> (cn i l > 0)%nat.
Proof. rewrite mem_nat_In. apply cn_In. Qed.

Lemma mem_nat_false_cn i l : mem_nat i l = false <-> cn i l = 0%nat.
Proof.
  rewrite <- cn_not_In, <- mem_nat_In. destruct (mem_nat i l); split; congruence.
Qed.

Lemma cn_remove_nat i j l : (cn i l > 0)%nat -> (cn j (remove_nat i l) + one_if i j = cn j l)%nat.
Proof.
  induction l as [|x l IH]; intro H; [rewrite cn_nil in H; lia|].
  cbn [remove_nat]. destruct (Nat.eqb i x) eqn:E.
  - apply Nat.eqb_eq in E. subst x. rewrite cn_cons. lia.
  - apply Nat.eqb_neq in E. rewrite !cn_cons. rewrite cn_cons in H.
    rewrite (one_if_diff x i) in H by congruence. specialize (IH ltac:(lia)). lia.
Qed.

Lemma In_remove_nat_other i j l : i <> j -> In j l -> In j (remove_nat i l).
Proof.
  intros Hne. induction l as [|x l IH]; [intros []|]. cbn [remove_nat].
  destruct (Nat.eqb i x) eqn:E.
  - apply Nat.eqb_eq in E. subst x. intros [H|H]; [congruence | exact H].
  - intros [H|H]; [left; exact H | right; apply IH, H].
Qed.

(** * heaps *)

Lemma heap_min_in l e : heap_min l = Some e -> In e l.
Proof.
  revert e; induction l as [|[t i] r IH]; intros e; cbn [heap_min]; [discriminate|].
  destruct (heap_min r) as [[t' i']|].
  - destruct (t' <? t); intro H; injection H as <-; [right; apply IH; reflexivity | left; reflexivity].
  - intro H; injection H as <-. left; reflexivity.
Qed.

Lemma heap_min_le l t i : heap_min l = Some (t, i) -> forall t' j, In (t', j) l -> t <= t'.
Proof.
  revert t i; induction l as [|[t0 i0] r IH]; intros t i; cbn [heap_min]; [discriminate|].
  destruct (heap_min r) as [[t1 i1]|] eqn:Er.
  - specialize (IH t1 i1 eq_refl).
    destruct (t1 <? t0) eqn:E; intro H; injection H as <- <-; intros t' j [Hin|Hin].
    + injection Hin as <- <-. lia.
    + eapply IH, Hin.
    + injection Hin as <- <-. lia.
    + specialize (IH t' j Hin). lia.
  - intro H; injection H as <- <-. intros t' j [Hin|Hin].
    + injection Hin as <- <-. lia.
    + destruct r as [|[a b] r']; [destruct Hin|].
      cbn [heap_min] in Er. destruct (heap_min r') as [[? ?]|]; [destruct (_ <? _)|]; discriminate.
Qed.

Lemma heap_min_none l : heap_min l = None -> l = [].
Proof.
  destruct l as [|[t i] r]; [reflexivity|]. cbn [heap_min].
  destruct (heap_min r) as [[? ?]|]; [destruct (_ <? _)|]; discriminate.
Qed.

Lemma heap_remove_length e l : In e l -> S (length (heap_remove e l)) = length l.
Proof.
  induction l as [|[t i] r IH]; [intros []|]. cbn [heap_remove length].
  destruct ((t =? fst e) && Nat.eqb i (snd e)) eqn:E; [reflexivity|].
  intros [H|H].
  - subst e. cbn [fst snd] in E. rewrite Z.eqb_refl, Nat.eqb_refl in E. discriminate.
  - cbn [length]. rewrite IH by exact H. reflexivity.
Qed.

Lemma heap_remove_in e x l : In x (heap_remove e l) -> In x l.
Proof.
  induction l as [|[t i] r IH]; [intros []|]. cbn [heap_remove].
  destruct ((t =? fst e) && Nat.eqb i (snd e)); [intro H; right; exact H|].
  intros [H|H]; [left; exact H | right; apply IH, H].
Qed.

Lemma heap_remove_keep e x l : x <> e -> In x l -> In x (heap_remove e l).
Proof.
  intro Hne. induction l as [|[t i] r IH]; [intros []|]. cbn [heap_remove].
  destruct ((t =? fst e) && Nat.eqb i (snd e)) eqn:E.
  - intros [H|H]; [|exact H]. exfalso. apply Hne. subst x. destruct e as [te ie]. cbn [fst snd] in E.
    apply andb_true_iff in E as [E1 E2]. apply Z.eqb_eq in E1. apply Nat.eqb_eq in E2. congruence.
  - intros [H|H]; [left; exact H | right; apply IH, H].
Qed.

Lemma cn_heap_remove t i j l :
  In (t, i) l -> (cn j (map snd (heap_remove (t, i) l)) + one_if i j = cn j (map snd l))%nat.
Proof.
  induction l as [|[t0 i0] r IH]; [intros []|]. cbn [heap_remove fst snd].
  destruct ((t0 =? t) && Nat.eqb i0 i) eqn:E.
  - intros _. apply andb_true_iff in E as [_ E2]. apply Nat.eqb_eq in E2. subst i0.
    cbn [map snd]. rewrite cn_cons. lia.
  - intros [H|H].
    + injection H as -> ->. rewrite Z.eqb_refl, Nat.eqb_refl in E. discriminate.
    + cbn [map snd]. rewrite !cn_cons. specialize (IH H). lia.
Qed.

Lemma cn_snd_In t j (l : list (Z * nat)) : In (t, j) l -> (cn j (map snd l) > 0)%nat.
Proof. intro H. apply cn_In. apply (in_map snd) in H. exact H. Qed.

Lemma cn_snd_unique j (l : list (Z * nat)) a b :
  cn j (map snd l) = 1%nat -> In (a, j) l -> In (b, j) l -> a = b.
Proof.
  induction l as [|[t i] r IH]; [intros _ []|]. cbn [map snd]. rewrite cn_cons.
  intros Hc [Ha|Ha] [Hb|Hb].
  - congruence.
  - injection Ha as -> ->. rewrite one_if_same in Hc. pose proof (cn_snd_In _ _ _ Hb). lia.
  - injection Hb as -> ->. rewrite one_if_same in Hc. pose proof (cn_snd_In _ _ _ Ha). lia.
  - destruct (Nat.eq_dec i j) as [->|Hne].
    + rewrite one_if_same in Hc. pose proof (cn_snd_In _ _ _ Ha). lia.
    + rewrite one_if_diff in Hc by exact Hne. apply IH; assumption.
Qed.

(** * the accumulators of the generic loops *)

Section Acc.
  Variable X : Type.
  Variable x_clock : X -> Z.
  Variable x_state : X -> nat -> option cstate.
  Variable x_change : X -> nat -> cstate -> X * list ev.
  Variable x_resume : X -> nat -> X * res * list ev.
  Variable x_push : X -> nat -> X.
  Variable x_pop : X -> X * option nat.
  Variable x_cancelled : X -> nat -> bool.
  Variable x_uncancel : X -> nat -> X.

  Notation cs := (check_suspend X x_clock x_state x_change x_push).
  Notation cy := (check_sys X x_clock x_state x_change x_push).
  Notation cr := (check_ready X x_clock x_state x_change x_push).
  Notation ds := (do_schedule X x_clock x_state x_change x_resume x_push x_pop x_cancelled x_uncancel).

  Definition cres_app (pre : list ev) (r : cres X) : cres X :=
    match r with
    | COk _ x d a => COk _ x d (pre ++ a)
    | CErr _ x d a => CErr _ x d (pre ++ a)
    | CPanic _ x d a => CPanic _ x d (pre ++ a)
    end.

  Lemma cres_app_app a b r : cres_app a (cres_app b r) = cres_app (a ++ b) r.
  Proof. destruct r; cbn [cres_app]; rewrite app_assoc; reflexivity. Qed.

  Lemma check_suspend_acc fuel : forall x d acc, cs fuel x d acc = cres_app acc (cs fuel x d []).
  Proof.
    induction fuel as [|f IH]; intros x d acc; cbn [check_suspend cres_app].
    - rewrite app_nil_r. reflexivity.
    - destruct (heap_min (sd_suspend d)) as [[ts i]|]; [|cbn [cres_app]; rewrite app_nil_r; reflexivity].
      destruct (x_clock x <? ts); [cbn [cres_app]; rewrite app_nil_r; reflexivity|].
      destruct (co_ready X x_clock x_state x_change x i) as [[x2 e]|];
        [|cbn [cres_app]; rewrite app_nil_r; reflexivity].
      rewrite IH. rewrite (IH _ _ ([] ++ e)). rewrite cres_app_app. cbn [app]. reflexivity.
  Qed.

  Lemma check_sys_acc fuel : forall x d acc, cy fuel x d acc = cres_app acc (cy fuel x d []).
  Proof.
    induction fuel as [|f IH]; intros x d acc; cbn [check_sys cres_app].
    - rewrite app_nil_r. reflexivity.
    - destruct (heap_min (sd_sys_suspend d)) as [[ts i]|]; [|cbn [cres_app]; rewrite app_nil_r; reflexivity].
      destruct (x_clock x <? ts); [cbn [cres_app]; rewrite app_nil_r; reflexivity|].
      cbn [sd_syscall sd_suspend sd_sys_suspend sd_gone].
      destruct (mem_nat i (sd_syscall d)).
      + destruct (x_state x i) as [[| | | y n [| t | |] | | |]|]; try (cbn [cres_app]; rewrite app_nil_r; reflexivity).
        destruct (x_change x i (Syscall y n STimeout)) as [x' e].
        rewrite IH. rewrite (IH _ _ ([] ++ e)). rewrite cres_app_app. cbn [app]. reflexivity.
      + apply IH.
  Qed.

  Lemma check_ready_acc x d acc : cr x d acc = cres_app acc (cr x d []).
  Proof.
    unfold check_ready. rewrite check_suspend_acc.
    destruct (cs (S (length (sd_suspend d))) x d []) as [x1 d1 a1|x1 d1 a1|x1 d1 a1]; cbn [cres_app].
    - rewrite check_sys_acc. rewrite (check_sys_acc _ _ _ a1). rewrite cres_app_app. reflexivity.
    - reflexivity.
    - reflexivity.
  Qed.

  Definition pres_app (pre : list ev) (r : X * sdata * pass_res * list ev) : X * sdata * pass_res * list ev :=
    let '(x, d, p, e) := r in (x, d, p, pre ++ e).

  Lemma pres_app_app a b r : pres_app a (pres_app b r) = pres_app (a ++ b) r.
  Proof. destruct r as [[[x d] p] e]. cbn [pres_app]. rewrite app_assoc. reflexivity. Qed.

  Lemma do_schedule_acc fuel : forall x d deadline results acc,
    ds fuel x d deadline results acc = pres_app acc (ds fuel x d deadline results []).
  Proof.
    induction fuel as [|f IH]; intros x d deadline results acc; cbn [do_schedule pres_app].
    - rewrite app_nil_r. reflexivity.
    - destruct (sat_sub deadline (x_clock x) =? 0); [cbn [pres_app]; rewrite app_nil_r; reflexivity|].
      rewrite check_ready_acc.
      destruct (cr x d []) as [x1 d1 a1|x1 d1 a1|x1 d1 a1]; cbn [cres_app pres_app]; try reflexivity.
      destruct (x_pop x1) as [x2 [i|]]; [|reflexivity].
      destruct (x_cancelled x2 i).
      + destruct (x_change (x_uncancel x2 i) i Cancelled) as [x3 e].
        rewrite IH. rewrite (IH _ _ _ _ (a1 ++ e)). rewrite pres_app_app, app_assoc. reflexivity.
      + destruct (x_resume x2 i) as [[x3 r] e].
        assert (forall x4 d2 res2, ds f x4 d2 deadline res2 ((acc ++ a1) ++ e)
                  = pres_app acc (ds f x4 d2 deadline res2 (a1 ++ e))) as Hstep.
        { intros x4 d2 res2. rewrite IH. rewrite (IH _ _ _ _ (a1 ++ e)). rewrite pres_app_app, app_assoc. reflexivity. }
        destruct r as [st| | | |]; try (cbn [pres_app]; rewrite app_assoc; reflexivity).
        destruct st as [| |y ts|y n st'| |v|m]; try (cbn [pres_app]; rewrite app_assoc; reflexivity);
          try apply Hstep.
        destruct (x_clock x3 <? ts); apply Hstep.
  Qed.
End Acc.
