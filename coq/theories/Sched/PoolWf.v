(** The premise of the single-pool theorems: a decidable well-formedness check of a history,
    evaluated along the model run (the way [OWSProofs.hist_ok] does for the queue). *)
From OCV Require Import Base.Prelude Misc.Time Queue.PMap Queue.OWS Coroutine.Co Sched.Sched Sched.Pool.
From Coq Require Import ZifyBool ZifyNat.
Open Scope Z_scope.

(** what the worker's coroutine state is while a task body runs: plain running, inside a
    syscall ([Syscall _ n SExecuting]), inside a syscall that announced a suspension
    ([Syscall _ n (SSuspend _)]), or woken from such a suspension ([Syscall _ n STimeout]) *)
Inductive mode := MRun | MExec (n : Z) | MSusp (n : Z) | MWoken (n : Z).

Definition mode_name (m : mode) : option Z :=
  match m with MRun => None | MExec n | MSusp n | MWoken n => Some n end.

(** a body is acceptable from mode [m]: it yields only when running or after announcing a
    suspension, every syscall transition names the syscall it is in, the body ends (returns,
    panics, or falls off the end) in plain running mode, ticks are not negative, and it never
    calls [cancel()] *)
Fixpoint body_from (m : mode) (b : list instr) : bool :=
  match b with
  | [] => match m with MRun => true | _ => false end
  | ins :: rest =>
      match ins with
      | ISuspend _ | IDelay _ _ | IUntil _ _ =>
          match m with
          | MRun => body_from MRun rest
          | MSusp n => body_from (MWoken n) rest
          | _ => false
          end
      | ITick d => (0 <=? d) && body_from m rest
      | ILog _ => body_from m rest
      | IReturn _ | IPanic _ => match m with MRun => true | _ => false end
      | IRunning =>
          match m with
          | MRun | MExec _ => body_from MRun rest
          | MWoken n => body_from (MWoken n) rest
          | MSusp _ => false
          end
      | ISyscall _ n st =>
          (match mode_name m with None => true | Some n' => n' =? n end) &&
          match st with
          | SExecuting => body_from (MExec n) rest
          | SSuspend _ => body_from (MSusp n) rest
          | _ => false
          end
      | ICancel | IUnreachable => false
      end
  end.

(** what a task body produces: the first [IReturn]/[IPanic] it reaches, or [Ok 0] off its end *)
Fixpoint body_outcome (b : list instr) : tres :=
  match b with
  | [] => TOk 0
  | IReturn v :: _ => TOk v
  | IPanic k :: _ => TErr (task_msg k)
  | _ :: rest => body_outcome rest
  end.

(** one operation, given the model state [x] it is applied to: pool index 0, task ids refer to
    submitted tasks, bodies are acceptable, and time never goes backwards *)
Definition op_ok (x : pw) (o : pop) : bool :=
  match o with
  | PSubmit p body _ => Nat.eqb p 0 && body_from MRun body
  | PPass p _ => Nat.eqb p 0
  | PWait p t | PTake p t | PClean p t => Nat.eqb p 0 && Nat.ltb t (length (pw_tbody x))
  | PCancel t => Nat.ltb t (length (pw_tbody x))
  | PStop p _ => Nat.eqb p 0
  | PGetRunning p | PSize p | PGetState p => Nat.eqb p 0
  | PClock c => (pw_clock x <=? c) && (c <=? U64MAX)
  end.

Fixpoint hist_okp (x : pw) (ops : list pop) : bool :=
  match ops with
  | [] => true
  | o :: r => op_ok x o && hist_okp (fst (pstep x o)) r
  end.

(** min <= 0 (the last idle worker may exit; any keep-alive), max >= 1, the clock is a u64 *)
Definition cfg_ok (clock : Z) (cfg : Z * Z * Z) : bool :=
  (fst (fst cfg) <=? 0) && (1 <=? snd (fst cfg)) && (0 <=? clock) && (clock <=? U64MAX).

Definition wf_pool1 (clock : Z) (cfg : Z * Z * Z) (ops : list pop) : bool :=
  cfg_ok clock cfg && hist_okp (pw0 clock [cfg]) ops.
