(** The bystander invariant through the worker loop and a worker's resumption. *)
From OCV Require Import Base.Prelude Misc.Time Queue.PMap Queue.OWS Queue.OWSOracle Queue.OWSLemmas Queue.OWSModel Queue.OWSStep.
From OCV Require Import Coroutine.Co Coroutine.CoOracle Coroutine.CoLemmas Sched.Sched Sched.Pool Sched.PoolOracle Sched.PoolBystander Sched.PoolBase Sched.PoolWf Sched.PoolQ Sched.PoolJ Sched.PoolJLemmas Sched.PoolCanon Sched.PoolUnfold Sched.PoolMeasure Sched.PoolJStep Sched.PoolJLoop Sched.PoolCount Sched.PoolBound Sched.PoolJPass Sched.PoolBy.
From Coq Require Import ZifyBool ZifyNat.
Open Scope Z_scope.

Section ByLoop.
Variable mx : Z.
Variable kp : Z.

Definition WLB (f : nat) : Prop := forall tnt x d w acc t b,
  J mx kp tnt x d (Some w) t -> quiet_off t -> G mx x (Some w) -> hole_ok x w -> ~ In w (pw_cancel_cos x) -> pw_ts x = [] ->
  BI (pw_workers x) b ->
  exists x' evs out, wloop f x w acc = (x', acc ++ evs, out) /\ BI (pw_workers x') (fold_left by_ev evs b).

Lemma wlb_chain f tnt x1 d w acc e t b :
  WLB f -> J mx kp tnt x1 d (Some w) (fold_left pev e t) -> quiet_off t -> G mx x1 (Some w) -> hole_ok x1 w ->
  ~ In w (pw_cancel_cos x1) -> pw_ts x1 = [] -> BI (pw_workers x1) (fold_left by_ev e b) ->
  exists x' evs out, wloop f x1 w (acc ++ e) = (x', acc ++ evs, out) /\ BI (pw_workers x') (fold_left by_ev evs b).
Proof.
  intros HW HJ Hq HG Hh Hncc Hts HB.
  destruct (HW tnt x1 d w (acc ++ e) (fold_left pev e t) (fold_left by_ev e b) HJ (quiet_off_fold _ _ Hq) HG Hh Hncc Hts HB)
    as (x' & evs & out & Ew & HB').
  exists x', (e ++ evs), out. rewrite app_assoc, fold_left_app. split; [exact Ew | exact HB'].
Qed.

Lemma wlb_chain0 f tnt x1 d w acc t b :
  WLB f -> J mx kp tnt x1 d (Some w) t -> quiet_off t -> G mx x1 (Some w) -> hole_ok x1 w ->
  ~ In w (pw_cancel_cos x1) -> pw_ts x1 = [] -> BI (pw_workers x1) b ->
  exists x' evs out, wloop f x1 w acc = (x', acc ++ evs, out) /\ BI (pw_workers x') (fold_left by_ev evs b).
Proof.
  intros HW HJ Hq HG Hh Hncc Hts HB.
  destruct (wlb_chain f tnt x1 d w acc [] t b HW HJ Hq HG Hh Hncc Hts HB) as (x' & evs & out & Ew & H).
  rewrite app_nil_r in Ew. eauto.
Qed.

Lemma WLB_0 : WLB 0.
Proof. intros tnt x d w acc t b HJ Hq HG Hh Hncc Hts HB. exists x, [], WFuel. cbn [wloop fold_left]. rewrite app_nil_r. auto. Qed.

Lemma wlb_finish f tnt x d w acc t b k i rest r e :
  WLB f -> J mx kp tnt x d (Some w) t -> quiet_off t -> get_worker x w = Some k -> live k = true -> k_dead k = false ->
  k_tpool k = 0%nat -> imode (k_st k) = Some MRun -> k_task k = Some (i, rest) ->
  ~ In w (pw_cancel_cos x) -> pw_ts x = [] -> pev t e = fin_trk t i r -> r = body_outcome rest ->
  (exists v, e = EB i (BRet v)) \/ (exists pk, e = EB i (BPanic pk)) ->
  BI (pw_workers x) b ->
  exists x' evs out,
    fin_cont f w (acc ++ [e]) 0 (finish_task (upd_worker x w (with_task k None)) 0 i r) = (x', acc ++ evs, out) /\
    BI (pw_workers x') (fold_left by_ev evs b).
Proof.
  intros HW HJ Hq Hk Hl Hdead Htp Him Htask Hncc Hts Hev Hrout He HB.
  destruct (J_finish mx kp tnt x d w t k i rest r HJ Hq Hk Hl Htask Hrout) as (xf & Ef & HJ' & Hm & Hw' & HG').
  pose proof (finish_workers x w k i r xf (jp_pools _ _ _ _ (j_p _ _ _ _ _ _ _ _ HJ)) Ef) as Ews.
  rewrite Ef. cbn [fin_cont]. cbv zeta in HJ', Hm, Hw', HG'. set (xg := upd_pool xf 0 (p_with_popfail 0)) in *.
  destruct Hm as [M1 M2 M3 M4 M5 M6].
  eapply (wlb_chain f tnt xg d w acc [e] t b HW).
  - cbn [fold_left]. rewrite Hev. exact HJ'.
  - exact Hq.
  - exact HG'.
  - eapply hole_ok_intro; [exact Hw' | exact Hl | exact Hdead | exact Htp | exact Him | reflexivity].
  - rewrite M1. exact Hncc.
  - rewrite M2. exact Hts.
  - cbn [fold_left]. rewrite Ews. unfold get_worker in Hk. eapply BI_end; try eassumption.
    intros v kv r' Hne Hv Hkv. apply Hne. eapply (jt_inj _ _ _ _ _ _ _ _ (j_t _ _ _ _ _ _ _ _ HJ)); eassumption.
Qed.

Lemma WLB_S f : WLB f -> WLB (S f).
Proof.
  intros HW tnt x d w acc t b HJ Hq HG Hh Hncc Hts HB.
  destruct Hh as (k & m & Hk & Hl & Hdead & Htp & Him & Hbody).
  pose proof (jp_cur _ _ _ _ (j_p _ _ _ _ _ _ _ _ HJ)) as Hcur.
  pose proof (jp_pools _ _ _ _ (j_p _ _ _ _ _ _ _ _ HJ)) as Hpools.
  rewrite (wloop_S f x w acc k Hk). cbv zeta. rewrite Hcur, ?Htp.
  destruct (k_task k) as [[i body]|] eqn:Htask.
  - destruct body as [|ins rest].
    + apply body_from_nil in Hbody. subst m.
      eapply (wlb_finish f tnt x d w acc t b k i [] (TOk 0) _ HW HJ Hq Hk Hl Hdead Htp Him Htask Hncc Hts); try reflexivity; [left; eauto | exact HB].
    + set (k0 := with_task k (Some (i, rest))). set (x0 := upd_worker x w k0).
      assert (body_outcome (ins :: rest) = body_outcome rest -> J mx kp tnt x0 d (Some w) t) as HJ0'.
      { intro Hout. apply (J_hole_upd mx kp tnt x d w t k k0 HJ Hk); [reflexivity | reflexivity | unfold tid; rewrite Htask; reflexivity|].
        intros i' rest' E. cbn [k0 with_task k_task] in E. injection E as <- <-.
        destruct (jt_suf _ _ _ _ _ _ _ _ (j_t _ _ _ _ _ _ _ _ HJ) _ _ _ _ Hk Htask) as [S1 S2]. cbn [length] in S2.
        split; [rewrite <- Hout; exact S1 | lia]. }
      assert (G mx x0 (Some w)) as HG0.
      { apply (G_upd_same mx x (Some w) w k k0 HG Hk); [reflexivity|]. congruence. }
      assert (get_worker x0 w = Some k0) as Hk0 by (apply get_worker_upd_worker_same; eapply get_worker_lt, Hk).
      assert (~ In w (pw_cancel_cos x0)) as Hncc0 by exact Hncc.
      assert (pw_ts x0 = []) as Hts0 by exact Hts.
      assert (live k0 = true) as Hl0 by exact Hl.
      assert (BI (pw_workers x0) b) as HB0.
      { eapply BI_tids; [exact HB|]. unfold x0. autorewrite with pw. unfold get_worker in Hk.
        eapply tids_same_set; [exact Hk|]. unfold tid. rewrite Htask. reflexivity. }
      assert (forall m', imode (k_st k0) = Some m' -> body_from m' rest = true -> hole_ok x0 w) as Hh0.
      { intros m' H1 H2. eapply hole_ok_intro; [exact Hk0 | exact Hl0 | exact Hdead | exact Htp | exact H1 | exact H2]. }
      destruct ins as [y|y dd|y ts| |y name st| |dd|n|v|pk|]; cbn [body_from] in Hbody.
      * exists x0, [EB i (BYield y RNone)], WYield. split; [reflexivity|]. cbn [fold_left]. rewrite by_inert_yield by discriminate. exact HB0.
      * eexists _, [EB i (BYield y (RDelay dd))], WYield. split; [reflexivity|]. cbn [fold_left]. rewrite by_inert_yield by discriminate. exact HB0.
      * eexists _, [EB i (BYield y (RUntil ts))], WYield. split; [reflexivity|]. cbn [fold_left]. rewrite by_inert_yield by discriminate. exact HB0.
      * discriminate.
      * (* ISyscall *)
        pose proof (HJ0' eq_refl) as HJ0.
        apply andb_true_iff in Hbody as [Hname Hbody].
        rewrite (tr_syscall_imode _ _ y name st Him Hname).
        assert (exists m', imode (Syscall y name st) = Some m' /\ body_from m' rest = true) as (m' & Him' & Hbody').
        { destruct st; try discriminate; cbn [imode]; eauto. }
        destruct (J_k_change mx kp tnt x0 d w t k0 (Syscall y name st) HJ0 Hq Hk0 Hl0 ltac:(discriminate))
          as (x1 & Ekc & HJ1 & Hm1 & Hk1 & HG1a & HG1b & HG1c).
        pose proof (k_change_tids x0 w (Syscall y name st) x1 _ Hpools Hcur Ekc) as Ht1.
        rewrite Ekc. destruct Hm1 as [M1 M2 M3 M4 M5 M6].
        replace (acc ++ [EL 0 w (CbChanged (Syscall y name st)) (k_st k0)] ++ [EB i (BRes true)])
          with (acc ++ [EL 0 w (CbChanged (Syscall y name st)) (k_st k0); EB i (BRes true)]) by reflexivity.
        eapply (wlb_chain f tnt x1 d w acc _ t b HW); [exact HJ1 | exact Hq | | | congruence | congruence |].
        -- apply G_None_any, HG1a. reflexivity.
        -- eapply hole_ok_intro; [exact Hk1 | reflexivity | exact Hdead | exact Htp | exact Him' | exact Hbody'].
        -- cbn [fold_left]. rewrite by_inert_EL by discriminate. rewrite by_inert_res. eapply BI_tids; eassumption.
      * (* IRunning *)
        pose proof (HJ0' eq_refl) as HJ0.
        destruct m as [|n|n|n]; try discriminate.
        -- pose proof (imode_MRun _ Him) as Est. rewrite Est. cbn [tr_running].
           eapply (wlb_chain f tnt x0 d w acc [EB i (BRes true)] t b HW); [exact HJ0 | exact Hq | exact HG0 | | exact Hncc0 | exact Hts0 | exact HB0].
           apply (Hh0 MRun); [exact Him | exact Hbody].
        -- destruct (imode_MExec _ _ Him) as [y0 Est]. rewrite Est. cbn [tr_running].
           destruct (J_k_change mx kp tnt x0 d w t k0 Running HJ0 Hq Hk0 Hl0 ltac:(discriminate))
             as (x1 & Ekc & HJ1 & Hm1 & Hk1 & HG1a & HG1b & HG1c).
           pose proof (k_change_tids x0 w Running x1 _ Hpools Hcur Ekc) as Ht1.
           rewrite Ekc. destruct Hm1 as [M1 M2 M3 M4 M5 M6].
           replace (acc ++ [EL 0 w (CbChanged Running) (k_st k0)] ++ [EB i (BRes true)])
             with (acc ++ [EL 0 w (CbChanged Running) (k_st k0); EB i (BRes true)]) by reflexivity.
           eapply (wlb_chain f tnt x1 d w acc _ t b HW); [exact HJ1 | exact Hq | | | congruence | congruence |].
           ++ apply HG1b; auto.
           ++ eapply hole_ok_intro; [exact Hk1 | reflexivity | exact Hdead | exact Htp | reflexivity | exact Hbody].
           ++ cbn [fold_left]. rewrite by_inert_EL by discriminate. rewrite by_inert_res. eapply BI_tids; eassumption.
        -- destruct (imode_MWoken _ _ Him) as [y0 Est]. rewrite Est. cbn [tr_running].
           eapply (wlb_chain f tnt x0 d w acc [EB i (BRes true)] t b HW); [exact HJ0 | exact Hq | exact HG0 | | exact Hncc0 | exact Hts0 | exact HB0].
           apply (Hh0 (MWoken n)); [exact Him | exact Hbody].
      * (* ITick *)
        pose proof (HJ0' eq_refl) as HJ0.
        apply andb_true_iff in Hbody as [Hd Hbody].
        eapply (wlb_chain f tnt _ d w acc [EB i (BTick dd)] t b HW); [ | exact Hq | | | exact Hncc0 | exact Hts0 | exact HB0].
        -- cbn [fold_left]. apply J_tick; [exact HJ0 | lia].
        -- eapply G_frame; [| | | exact HG0]; reflexivity.
        -- eapply hole_ok_intro; [exact Hk0 | exact Hl0 | exact Hdead | exact Htp | exact Him | exact Hbody].
      * (* ILog *)
        pose proof (HJ0' eq_refl) as HJ0.
        eapply (wlb_chain f tnt x0 d w acc [EB i (BLog n)] t b HW); [exact HJ0 | exact Hq | exact HG0 | | exact Hncc0 | exact Hts0 | exact HB0].
        apply (Hh0 m); [exact Him | exact Hbody].
      * destruct m; try discriminate.
        eapply (wlb_finish f tnt x d w acc t b k i (IReturn v :: rest) (TOk v) _ HW HJ Hq Hk Hl Hdead Htp Him Htask Hncc Hts); try reflexivity; [left; eauto | exact HB].
      * destruct m; try discriminate.
        eapply (wlb_finish f tnt x d w acc t b k i (IPanic pk :: rest) (TErr (task_msg pk)) _ HW HJ Hq Hk Hl Hdead Htp Him Htask Hncc Hts); try reflexivity; [right; eauto | exact HB].
      * discriminate.
  - subst m. pose proof (imode_MRun _ Him) as Est.
    pose proof (jq_t _ _ (j_q _ _ _ _ _ _ _ _ HJ)) as HQt.
    destruct (lpop (pw_tq x) 0 0) as [q' r] eqn:Epop.
    destruct (Q1_lpop_cases _ _ _ _ HQt Epop) as [HQ' [(tz & -> & Hcnt)|(-> & Hnil & Hnil')]].
    + destruct (Sched.mem_nat (Z.to_nat tz) (pw_cancel_tasks x)) eqn:Em.
      * destruct (J_pop_cancel mx kp tnt x d w t k q' tz HJ Hq Hk Hl HQ' Hcnt Em) as (HJ1 & Ecc1 & Ets1 & Hk1 & Etb1).
        cbv zeta in *. set (xg := pop_cancel x 0 q' (Z.to_nat tz)) in *.
        destruct (pop_cancel_post x q' (Z.to_nat tz) Hpools) as (W0 & R0 & N0 & Hu0 & _). fold xg in Hu0.
        eapply (wlb_chain0 f tnt xg d w acc t b HW); [exact HJ1 | exact Hq | | | congruence | congruence |].
        -- eapply G_idle; eassumption.
        -- eapply hole_ok_intro; [exact Hk1 | exact Hl | exact Hdead | exact Htp | rewrite Est; reflexivity | rewrite Htask; reflexivity].
        -- rewrite (up_ws _ _ _ _ _ _ _ Hu0). exact HB.
      * destruct (J_pop_start mx kp tnt x d w t k q' tz HJ Hq Hk Hl Htask Hncc HQ' Hcnt Em) as (HJ1 & Ecc1 & Ets1 & Etb1 & Hk1 & Hb1).
        cbv zeta in *. set (xg := pop_start x 0 q' (Z.to_nat tz) w k) in *.
        eapply (wlb_chain f tnt xg d w acc [EB (Z.to_nat tz) (BStart (Z.of_nat w))] t b HW); [exact HJ1 | exact Hq | | | congruence | congruence |].
        -- right. right. eexists w, _. split; [exact Hk1|]. split; [exact Hl|]. right. split; [reflexivity|].
           cbn [k_st]. rewrite Est. reflexivity.
        -- eapply hole_ok_intro; [exact Hk1 | exact Hl | exact Hdead | reflexivity | cbn [k_st]; rewrite Est; reflexivity | exact Hb1].
        -- cbn [fold_left]. unfold xg, pop_start. autorewrite with pw. unfold get_worker in Hk.
           eapply BI_start; [exact HB | exact Hk|]. right. eexists. reflexivity.
    + pose proof (J_pop_none mx kp tnt x d (Some w) t q' HJ HQ' Hnil Hnil') as HJ1.
      pose proof (j_p _ _ _ _ _ _ _ _ HJ) as [P1 P2 P3 P4 P5 P6 P7 P8 P9 P10 P11 P12]. autorewrite with pw.
      set (x1 := set_tq x q') in *.
      destruct (((p_keep (get_pool x 0) <=? sat_sub (pw_clock x) (k_create k)) && (p_min (get_pool x 0) <? p_running (get_pool x 0)))
                || negb (match p_state (get_pool x 0) with PRunning => true | _ => false end)) eqn:Econd.
      * exists x1, [], WReturn. rewrite app_nil_r. split; [reflexivity | exact HB].
      * destruct P3 as (Ekp & Hc0 & Hcr & Hpf0).
        destruct (p_popfail (get_pool x 0) + 1 <? p_running (get_pool x 0)) eqn:Epf.
        -- eexists _, [], WYield. rewrite app_nil_r. split; [reflexivity | exact HB].
        -- set (c1 := sat_add64 (pw_clock x) 1000000).
           set (x2 := set_clockp (upd_pool x1 0 (p_with_popfail 0)) c1).
           destruct (sat_add64_mono (pw_clock x) 1000000 P10 ltac:(lia)) as [Hc1 Hc2]. fold c1 in Hc1, Hc2.
           assert (J mx kp tnt x2 d (Some w) t) as HJ2 by (apply J_clockp; [apply J_popfail; [exact HJ1 | lia] | exact Hc1 | exact Hc2]).
           assert (get_worker x2 w = Some k) as Hk2 by exact Hk.
           eapply (wlb_chain0 f tnt x2 d w acc t b HW HJ2 Hq); [left; exact Hnil' | | exact Hncc | exact Hts | exact HB].
           eapply hole_ok_intro; [exact Hk2 | exact Hl | exact Hdead | exact Htp | rewrite Est; reflexivity | rewrite Htask; reflexivity].
Qed.

Theorem wloop_BI : forall f, WLB f.
Proof. induction f as [|f IH]; [apply WLB_0 | apply WLB_S, IH]. Qed.

End ByLoop.
