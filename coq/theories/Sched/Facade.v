(** The user-facing layer: [open-coroutine/src/lib.rs] ([crate_task]/[task!], [JoinHandle<R>::join],
    [timeout_join], [any_timeout_join], [any_join]) on top of the C ABI of the [open-coroutine-hook]
    cdylib ([hook/src/lib.rs]: [task_crate], [task_join], [task_timeout_join]), on top of the core
    [JoinHandle] ([Sched/JoinHandle.v], [jh_step]).

    What travels, layer by layer, for a task whose user closure returns a value of type [R] or panics:
    - [task_main] (facade, runs inside the task) catches the unwind and leaks a
      [Box<io::Result<R>>]: [Ok(value)], or [Err(message)]; its address is the [usize] the core
      task returns, so the core-level result of every task that ran is [Ok(Some(address))];
    - [task_join]/[task_timeout_join] (cdylib) map the core join result to a [c_longlong]:
      [Ok(Ok(Some p))] to [p] ([expect("overflow")] inside an [extern "C"] function when [p] does not
      fit: the process aborts), [Ok(Ok(None))] to [0], every error (task error, wait timed out,
      invalid handle) to [-1];
    - the facade maps [< 0] to [Err("join failed")]/[Err("timeout join failed")], [0] to [Ok(None)],
      [> 0] to [Box::from_raw(address)], whose [Ok(v)] becomes [Ok(Some(v))] and whose [Err(e)] is
      returned as the error.
    Values and messages are their canonical renderings (strings). [FNow] is the code as it is
    (after the three [fix:] commits in open-coroutine/src/lib.rs), [FOld] the code before them. *)
From Coq Require Import String.
From OCV Require Import Base.Prelude Misc.Time Coroutine.Co Sched.Pool Sched.JoinHandle.
Open Scope Z_scope.

Inductive fversion := FOld | FNow.

(** what the user's closure does: returns (rendering [v]) or panics with a payload *)
Inductive payload := PayStatic (m : string)   (* [&'static str]: [panic!("literal")], [unwrap] *)
                   | PayString (m : string)   (* [String]: [panic!("x {}", n)], [expect], [assert_eq!] *)
                   | PayOther.                (* anything else: [panic_any(42u32)] *)
Inductive uout := URet (v : string) | UPanic (p : payload).

(** the heap cell [task_main] writes: [Box<io::Result<R>>] *)
Inductive cell := CellOk (v : string) | CellErr (m : string).
Definition no_message : string := "task failed without message".

Definition task_main (ver : fversion) (o : uout) : cell :=
  match o with
  | URet v => CellOk v
  | UPanic (PayStatic m) => CellErr m
  | UPanic (PayString m) => match ver with FNow => CellErr m | FOld => CellErr no_message end
  | UPanic PayOther => CellErr no_message
  end.

(** core-level result of a task made by [task_crate]: [move |p| Some(f(p.unwrap_or(0)))] *)
Definition core_result (ptr : Z) : tres := TOk ptr.

(** [task_join] / [task_timeout_join]: the [c_longlong]; [None] = the process aborts
    ([c_longlong::try_from(ptr).expect("overflow")] inside [extern "C"]). [TOk v] with [v < 0] is the
    encoding of [Ok(None)] used by the pool model. *)
Definition abi_of (r : jhres) : option Z :=
  match r with
  | JHVal (TOk v) => if v <? 0 then Some 0 else if v <=? I64MAX then Some v else None
  | JHVal (TErr _) => Some (-1)
  | JHTimedOut => Some (-1)
  | JHInvalid => Some (-1)
  end.

(** what the facade call returns (or does) *)
Inductive fres :=
  | FVal (v : string)        (* [Ok(Some(v))] *)
  | FNone                    (* [Ok(None)] *)
  | FErr (m : string)        (* [Err(e)], [e] taken out of the box: the task's panic message *)
  | FFailed                  (* [Err("join failed")] / [Err("timeout join failed")] *)
  | FAbort                   (* the process aborts inside the cdylib *)
  | FWild                    (* [Box::from_raw] of an address [task_main] did not write, or twice *)
  | FPanic                   (* the facade function itself panics *)
  | FDiverged.               (* never returns (observation only) *)

(** handle state: core result handed out already / box freed already *)
Record fstate := { fs_consumed : bool; fs_freed : bool }.
Definition fs0 : fstate := {| fs_consumed := false; fs_freed := false |}.

(** the two calls on a handle; durations in nanoseconds, [Duration::MAX] is above [U64MAX] *)
Inductive fcall := FCJoin | FCTimeout (dur : Z).

(** the deadline the core join works with; [None] = the facade panics before calling the cdylib
    ([dur.as_nanos().try_into().expect("overflow")], [FOld]) *)
Definition call_deadline (ver : fversion) (now : Z) (c : fcall) : option Z :=
  match c with
  | FCJoin => Some U64MAX
  | FCTimeout d =>
      if d <=? U64MAX then Some (get_timeout_time now d)
      else match ver with FNow => Some (get_timeout_time now U64MAX) | FOld => None end
  end.

(** one facade call on the handle of a task with outcome [o] whose cell lives at [ptr] *)
Definition facade_step (ver : fversion) (valid : bool) (ptr : Z) (o : uout) (s : fstate)
           (c : fcall) (now : Z) (fin : option Z) : fres * fstate :=
  match call_deadline ver now c with
  | None => (FPanic, s)
  | Some dl =>
      let '(r, cns) := jh_step valid (core_result ptr) (fs_consumed s)
                                {| jj_deadline := dl; jj_now := now; jj_fin_at := fin |} in
      match abi_of r with
      | None => (FAbort, {| fs_consumed := cns; fs_freed := fs_freed s |})
      | Some x =>
          if x <? 0 then (FFailed, {| fs_consumed := cns; fs_freed := fs_freed s |})
          else if x =? 0 then (FNone, {| fs_consumed := cns; fs_freed := fs_freed s |})
          else if (x =? ptr) && negb (fs_freed s)
               then (match task_main ver o with CellOk v => FVal v | CellErr m => FErr m end,
                     {| fs_consumed := cns; fs_freed := true |})
               else (FWild, {| fs_consumed := cns; fs_freed := true |})
      end
  end.

Record fjcall := { fc_call : fcall; fc_now : Z; fc_fin : option Z }.

Fixpoint facade_run (ver : fversion) (valid : bool) (ptr : Z) (o : uout) (s : fstate)
         (cs : list fjcall) : list fres :=
  match cs with
  | [] => []
  | c :: rest =>
      let '(r, s') := facade_step ver valid ptr o s (fc_call c) (fc_now c) (fc_fin c) in
      r :: facade_run ver valid ptr o s' rest
  end.

(** the task's own outcome as the property words it: its return value, or its panic message as an
    error (a payload that is not a string has no message: the fixed text stands in) *)
Definition own_outcome (o : uout) : fres :=
  match o with
  | URet v => FVal v
  | UPanic (PayStatic m) => FErr m
  | UPanic (PayString m) => FErr m
  | UPanic PayOther => FErr no_message
  end.

Definition is_outcome (r : fres) : bool := match r with FVal _ | FErr _ => true | _ => false end.

(** * [any_timeout_join(dur, handles)] / [any_join(handles)] ([dur = Duration::MAX])

    Function-level summary. The loop asks handle after handle with [timeout_join(min(left, 10 ms))]
    and returns the first [Ok]; an [Err] (time-out of the slice, or a task that PANICKED, whose
    box is thereby consumed) makes it go on. [ah_fin]: when the task's result is published
    ([None]: not within this call). *)
Record ahandle := { ah_out : uout; ah_fin : option Z }.
Inductive ares := AVal (v : string) | ANone | AFailed | ADiverged.

Definition fin_by (now dl : Z) (h : ahandle) : bool :=
  match ah_fin h with Some f => (f <=? now) || (f <=? dl) | None => false end.
Definition seen_at (now : Z) (h : ahandle) : Z :=
  match ah_fin h with Some f => Z.max f now | None => now end.

(** the earliest handle that yields a value within the deadline (first in the list among equals) *)
Fixpoint best (now dl : Z) (hs : list ahandle) : option (Z * string) :=
  match hs with
  | [] => None
  | h :: r =>
      let rest := best now dl r in
      match ah_out h with
      | URet v =>
          if fin_by now dl h then
            match rest with
            | Some (t', v') => if seen_at now h <=? t' then Some (seen_at now h, v) else Some (t', v')
            | None => Some (seen_at now h, v)
            end
          else rest
      | UPanic _ => rest
      end
  end.

Definition any_deadline (now dur : Z) : Z := get_timeout_time now dur.

Definition any_model (ver : fversion) (now dur : Z) (hs : list ahandle) : ares :=
  match hs with
  | [] => ANone
  | _ =>
      let dl := any_deadline now dur in
      match ver, dl <=? now with
      | FOld, true => AFailed          (* no time left: reported without asking any handle *)
      | _, _ =>
          match best now dl hs with
          | Some (_, v) => AVal v
          | None => if dl =? U64MAX then ADiverged else AFailed
          end
      end
  end.

(** defect branch: a task that panicked is finished, and its outcome (the message) is dropped by
    the loop; it is the reported answer's turn if no value is seen earlier *)
Definition is_panic (o : uout) : bool := match o with UPanic _ => true | URet _ => false end.
Definition any_swallows (now dur : Z) (hs : list ahandle) : bool :=
  let dl := any_deadline now dur in
  existsb (fun h => is_panic (ah_out h) && fin_by now dl h
                    && match best now dl hs with Some (t, _) => seen_at now h <=? t | None => true end) hs.
