(** C15 proofs, top layer: every history of [wf15] keeps the invariant; the oracle holds on the
    model's own trace; the two scenario statements (overlap, sibling progress). *)
From OCV Require Import Base.Prelude Misc.Time Queue.PMap Queue.OWS Queue.OWSOracle Queue.OWSLemmas Queue.OWSStep Coroutine.Co
  Sched.Sched Sched.Pool Sched.PoolOracle Sched.C15Oracle Sched.C15Lemmas Sched.C15Queue Sched.C15State Sched.C15Inv Sched.C15Run
  Sched.C15Pass.
From Coq Require Import ZifyBool ZifyNat Permutation.
Open Scope Z_scope.

(** between two operations: no worker is current, the scheduler's containers are the pool's *)
Definition REL (mx : Z) (s : cst) (tr : trk) : Prop :=
  exists specs Q R, INV mx specs s (c_d s) tr None None Q R.

Lemma prun_cons x o ops : prun x (o :: ops) = snd (pstep x o) :: prun (fst (pstep x o)) ops.
Proof. cbn [prun]. destruct (pstep x o). reflexivity. Qed.

Lemma pstep_pass mx s dl s' l e :
  ppass (mkx mx s) 0 dl = (mkx mx s', PLeft l, e) -> pstep (mkx mx s) (PPass 0 dl) = (mkx mx s', OPass (PLeft l) e).
Proof. intro H. cbn [pstep]. rewrite H. reflexivity. Qed.

Lemma main_inv mx : forall ops s tr,
  REL mx s tr -> wf15 ops = true -> k_ok tr = true ->
  k_ok (run15 mx tr ops (prun (mkx mx s) ops)) = true.
Proof.
  induction ops as [|o ops IH]; intros s tr Hrel Hwf Hok; [exact Hok|].
  cbn [wf15 forallb] in Hwf. apply andb_true_iff in Hwf as [Ho Hwf]. fold (wf15 ops) in Hwf.
  destruct Hrel as (specs & Q & R & H).
  rewrite prun_cons.
  destruct o as [p body prio|p dl| | | | | | | | |c]; try discriminate.
  - (* submit *)
    destruct p; [|discriminate]. destruct prio; [discriminate|].
    cbn [op_wf15] in Ho. destruct (parse_body body) as [sp|] eqn:Hp; [|discriminate].
    rewrite pstep_submit. cbn [fst snd run15 step15].
    apply IH; [|exact Hwf | exact Hok].
    exists (specs ++ [sp]), (Q ++ [length specs]), R. exact (inv_submit mx specs s (c_d s) tr Q R body sp H Hp).
  - (* pass *)
    destruct p; [|discriminate].
    destruct (ppass_inv mx specs s tr Q R dl H) as (s' & l & e & Q' & R' & Heq & Hfr & H1 & Hlive & _).
    rewrite (pstep_pass mx s dl s' l e Heq). cbn [fst snd run15 step15].
    set (k1 := fold_left pev15 e tr) in *.
    destruct (0 <? l) eqn:El.
    + apply IH; [| exact Hwf |].
      * exists specs, Q', R'. eapply inv_trk_ext; [..|exact H1]; reflexivity.
      * cbn [judge_pass k_ok]. unfold k1 at 1. rewrite fold_pev15_ok, Hok. cbn [andb].
        destruct (Hlive ltac:(lia)) as (-> & Hnd & HG). exact (judge_ok mx specs s' (c_d s') k1 Q' H1 Hnd HG).
    + apply IH; [| exact Hwf |].
      * exists specs, Q', R'. exact H1.
      * unfold k1. rewrite fold_pev15_ok. exact Hok.
  - (* clock *)
    rewrite pstep_clock. cbn [fst snd run15 step15].
    apply IH; [|exact Hwf | exact Hok].
    exists specs, Q, R. exact (inv_clock mx specs s (c_d s) tr Q R c H).
Qed.

(** the oracle holds on every run of the model over the histories of [wf15], for every pool size,
    every start clock and every number of tasks *)
Theorem c15_model : forall mx c0 ops,
  wf15 ops = true -> ok_c15 mx c0 ops (prun (pw0 c0 [(0, mx, 0)]) ops) = true.
Proof.
  intros mx c0 ops Hwf. unfold ok_c15, track15. rewrite pw0_mk.
  apply main_inv; [|exact Hwf | reflexivity].
  exists [], [], []. exact (inv_init mx c0).
Qed.

Lemma prun_length : forall ops x, length (prun x ops) = length ops.
Proof.
  induction ops as [|o ops IH]; intro x; [reflexivity|]. rewrite prun_cons. cbn [length]. rewrite IH. reflexivity.
Qed.

(** * The two scenario statements *)
Definition submits (specs : list tspec) : list pop := map (fun sp => PSubmit 0 (body_of sp) None) specs.
Definition nsleepers (specs : list tspec) : nat := nslp specs (seq 0 (length specs)).
Definition is_sleeper_spec (specs : list tspec) (t : nat) : Prop := exists n T lg, spec_sleeper specs t n T lg.

Lemma parse_logs_complete lg : parse_logs (map ILog lg) = Some lg.
Proof. induction lg as [|k lg IH]; [reflexivity|]. cbn [map parse_logs]. rewrite IH. reflexivity. Qed.

Lemma parse_body_complete sp : parse_body (body_of sp) = Some sp.
Proof.
  destruct sp as [[[n T]|] lg]; unfold body_of; cbn [ts_sleep ts_logs sleep_block sleep_tail app].
  - cbn [parse_body]. rewrite !Z.eqb_refl. cbn [andb]. rewrite parse_logs_complete. reflexivity.
  - destruct lg as [|k lg]; [reflexivity|]. cbn [map].
    change (parse_body (ILog k :: map ILog lg)) with (option_map (fun l => {| ts_sleep := None; ts_logs := l |}) (parse_logs (map ILog (k :: lg)))).
    rewrite parse_logs_complete. reflexivity.
Qed.

Lemma run15_cons mx tr o ops x :
  run15 mx tr (o :: ops) (prun x (o :: ops)) =
  match step15 mx tr o (snd (pstep x o)) with
  | Some tr' => run15 mx tr' ops (prun (fst (pstep x o)) ops)
  | None => tr
  end.
Proof. rewrite prun_cons. reflexivity. Qed.

Section Scenario.
  Variable mx : Z.

  Lemma after_submits : forall specs2 specs1 s tr Q R rest,
    INV mx specs1 s (c_d s) tr None None Q R ->
    exists s' tr',
      run15 mx tr (submits specs2 ++ rest) (prun (mkx mx s) (submits specs2 ++ rest)) = run15 mx tr' rest (prun (mkx mx s') rest) /\
      INV mx (specs1 ++ specs2) s' (c_d s') tr' None None (Q ++ seq (length specs1) (length specs2)) R /\
      c_clock s' = c_clock s.
  Proof.
    induction specs2 as [|sp specs2 IH]; intros specs1 s tr Q R rest H.
    - exists s, tr. cbn [submits map app seq length]. rewrite !app_nil_r. split; [reflexivity|]. split; [exact H | reflexivity].
    - cbn [submits map app]. rewrite run15_cons, pstep_submit. cbn [fst snd step15].
      pose proof (inv_submit mx specs1 s (c_d s) tr Q R (body_of sp) sp H (parse_body_complete sp)) as H1.
      destruct (IH (specs1 ++ [sp]) (submit_c s (body_of sp)) (trk_submit tr) (Q ++ [length specs1]) R rest H1) as (s' & tr' & Heq & H2 & Hc).
      exists s', tr'. split; [exact Heq|]. split; [|rewrite Hc; reflexivity].
      rewrite <- !app_assoc in H2. cbn [app] in H2. rewrite app_length in H2. cbn [length] in H2.
      cbn [length seq]. rewrite Nat.add_1_r in H2. exact H2.
  Qed.

  Lemma status_judge k t : status (judge_pass mx k) t = status k t.
  Proof. reflexivity. Qed.

  Lemma after_pass specs s tr Q R dl rest :
    INV mx specs s (c_d s) tr None None Q R -> c_clock s < dl ->
    exists s' tr' Q',
      run15 mx tr (PPass 0 dl :: rest) (prun (mkx mx s) (PPass 0 dl :: rest)) = run15 mx tr' rest (prun (mkx mx s') rest) /\
      INV mx specs s' (c_d s') tr' None None Q' [] /\ no_due s' (c_d s') /\ GG mx s' Q' [] /\ c_clock s' = c_clock s.
  Proof.
    intros H Hlt.
    destruct (ppass_inv mx specs s tr Q R dl H) as (s' & l & e & Q' & R' & Heq & Hfr & H1 & Hlive & Hl).
    rewrite run15_cons, (pstep_pass mx s dl s' l e Heq). cbn [fst snd step15].
    assert (0 < l) as Hpos by (rewrite Hl; unfold sat_sub; lia).
    assert (0 <? l = true) as -> by lia.
    destruct (Hlive Hpos) as (-> & Hnd & HG).
    exists s', (judge_pass mx (fold_left pev15 e tr)), Q'. split; [reflexivity|].
    split; [eapply inv_trk_ext; [..|exact H1]; reflexivity|]. split; [exact Hnd|]. split; [exact HG|].
    apply (frame_clock _ _ Hfr).
  Qed.

  Lemma after_clock specs s tr Q R c rest :
    INV mx specs s (c_d s) tr None None Q R ->
    run15 mx tr (PClock c :: rest) (prun (mkx mx s) (PClock c :: rest)) =
      run15 mx (trk_clock tr c) rest (prun (mkx mx (s_clock s c)) rest) /\
    INV mx specs (s_clock s c) (c_d (s_clock s c)) (trk_clock tr c) None None Q R.
  Proof.
    intro H. rewrite run15_cons, pstep_clock. cbn [fst snd step15]. split; [reflexivity|].
    exact (inv_clock mx specs s (c_d s) tr Q R c H).
  Qed.
End Scenario.

Section Theorems.
  Variable mx c0 : Z.
  Variable specs : list tspec.
  Variable dl1 : Z.

  Definition ops_pass1 : list pop := submits specs ++ [PPass 0 dl1].
  Definition ops_pass2 (c2 dl2 : Z) : list pop := submits specs ++ [PPass 0 dl1; PClock c2; PPass 0 dl2].
  Definition x0 : pw := pw0 c0 [(0, mx, 0)].

  Lemma status_cases s d tr Q t :
    INV mx specs s d tr None None Q [] -> (t < length specs)%nat ->
    (status tr t = NotStarted /\ In t Q) \/
    (exists T w k n lg, status tr t = Asleep T /\ In (T, w) (sd_sys_suspend d) /\ nth_error (c_ws s) w = Some k /\ hold k t n lg) \/
    status tr t = Finished.
  Proof.
    intros H Htl. destruct (status tr t) as [| |T|] eqn:E.
    - left. split; [reflexivity|]. apply (i_Qst _ _ _ _ _ _ _ _ _ H). split; assumption.
    - apply (i_act _ _ _ _ _ _ _ _ _ H) in E. discriminate.
    - right. left. destruct (i_asleep _ _ _ _ _ _ _ _ _ H t T E) as (w & k & n & lg & [[]|[[]|Hw]] & Hk & Hh).
      exists T, w, k, n, lg. split; [reflexivity|]. split; [exact Hw|]. split; [exact Hk | exact Hh].
    - right. right. reflexivity.
  Qed.

  Lemma nslp_pos Q t : In t Q -> slp specs t = true -> (1 <= nslp specs Q)%nat.
  Proof.
    intros Hin Hs. unfold nslp. assert (In t (filter (slp specs) Q)) as Hf by (apply filter_In; split; assumption).
    destruct (filter (slp specs) Q); [destruct Hf | cbn [length]; lia].
  Qed.

  (** state of the run after the submissions and the first pass *)
  Lemma after_pass1 rest : c0 < dl1 ->
    exists s tr Q,
      run15 mx (trk0 c0) (submits specs ++ PPass 0 dl1 :: rest) (prun x0 (submits specs ++ PPass 0 dl1 :: rest))
        = run15 mx tr rest (prun (mkx mx s) rest) /\
      INV mx specs s (c_d s) tr None None Q [] /\ no_due s (c_d s) /\ GG mx s Q [] /\ c_clock s = c0.
  Proof.
    intro Hlt. unfold x0. rewrite pw0_mk.
    destruct (after_submits mx specs [] (cst0 c0) (trk0 c0) [] [] (PPass 0 dl1 :: rest) (inv_init mx c0)) as (s1 & tr1 & Heq1 & H1 & Hc1).
    cbn [app length] in H1. rewrite Heq1.
    destruct (after_pass mx specs s1 tr1 _ [] dl1 rest H1) as (s2 & tr2 & Q2 & Heq2 & H2 & Hnd2 & HG2 & Hc2).
    - rewrite Hc1. exact Hlt.
    - exists s2, tr2, Q2. split; [exact Heq2|]. split; [exact H2|]. split; [exact Hnd2|]. split; [exact HG2|].
      rewrite Hc2, Hc1. reflexivity.
  Qed.

  (** with a spare worker slot, every computing sibling of the sleepers finishes in the first pass *)
  Theorem c15_sibling_progress :
    Z.of_nat (nsleepers specs) < mx -> c0 < dl1 ->
    forall t, (t < length specs)%nat -> slp specs t = false ->
      status (track15 mx c0 ops_pass1 (prun x0 ops_pass1)) t = Finished.
  Proof.
    intros HN Hlt t Htl Hns. unfold track15, ops_pass1.
    destruct (after_pass1 [] Hlt) as (s & tr & Q & Heq & H & Hnd & HG & Hc). rewrite Heq. cbn [run15].
    pose proof (i_nsl _ _ _ _ _ _ _ _ _ H) as Hnsl. pose proof (i_run _ _ _ _ _ _ _ _ _ H) as Hrun.
    unfold allw, parked_ws in Hrun. cbn [curw app] in Hrun. rewrite map_length in Hrun.
    fold (nsleepers specs) in Hnsl.
    assert (Q = []) as ->.
    { destruct HG as [HQ|[HR|Hm]]; [exact HQ | congruence | lia]. }
    destruct (status_cases s (c_d s) tr [] t H Htl) as [[_ []]|[(T & w & k & n & lg & _ & Hin & Hk & Hh)|Hf]]; [|exact Hf].
    exfalso. destruct (i_parked _ _ _ _ _ _ _ _ _ H T w Hin) as (k' & t' & n' & lg' & Hk' & _ & Hh' & Hsp & _).
    rewrite Hk in Hk'. injection Hk' as <-. destruct Hh as [E1 _ _], Hh' as [E2 _ _]. rewrite E1 in E2. injection E2 as <- _ _.
    rewrite (slp_of_spec _ _ _ _ _ Hsp) in Hns. discriminate.
  Qed.

  (** N <= max_size sleepers: all of them have started their wait in the first pass (at clock c0), and
      after a pass at any clock past their wake-up times every task is finished — one d, not N*d *)
  Theorem c15_overlap c2 dl2 :
    Z.of_nat (nsleepers specs) <= mx -> 1 <= mx -> c0 < dl1 -> c2 < dl2 ->
    (forall t n T lg, spec_sleeper specs t n T lg -> T <= c2) ->
    (forall t, slp specs t = true -> status (track15 mx c0 ops_pass1 (prun x0 ops_pass1)) t <> NotStarted) /\
    (forall t, (t < length specs)%nat -> status (track15 mx c0 (ops_pass2 c2 dl2) (prun x0 (ops_pass2 c2 dl2))) t = Finished).
  Proof.
    intros HN Hmx Hlt1 Hlt2 Hdue. split.
    - intros t Hs. unfold track15, ops_pass1.
      destruct (after_pass1 [] Hlt1) as (s & tr & Q & Heq & H & Hnd & HG & Hc). rewrite Heq. cbn [run15].
      pose proof (i_nsl _ _ _ _ _ _ _ _ _ H) as Hnsl. pose proof (i_run _ _ _ _ _ _ _ _ _ H) as Hrun.
      unfold allw, parked_ws in Hrun. cbn [curw app] in Hrun. rewrite map_length in Hrun.
      fold (nsleepers specs) in Hnsl.
      intro Hst.
      assert (t < length specs)%nat as Htl.
      { destruct (lt_dec t (length specs)) as [Hl|Hl]; [exact Hl|]. rewrite status_ge in Hst; [discriminate|].
        rewrite (i_len _ _ _ _ _ _ _ _ _ H). lia. }
      assert (In t Q) as HinQ by (apply (i_Qst _ _ _ _ _ _ _ _ _ H); split; assumption).
      pose proof (nslp_pos Q t HinQ Hs) as Hp.
      destruct HG as [->|[HR|Hm]]; [destruct HinQ | congruence | lia].
    - intros t Htl. unfold track15, ops_pass2.
      destruct (after_pass1 [PClock c2; PPass 0 dl2] Hlt1) as (s & tr & Q & Heq & H & Hnd & HG & Hc). rewrite Heq.
      destruct (after_clock mx specs s tr Q [] c2 [PPass 0 dl2] H) as [Heq2 H2]. rewrite Heq2.
      destruct (after_pass mx specs (s_clock s c2) (trk_clock tr c2) Q [] dl2 [] H2 Hlt2) as (s3 & tr3 & Q3 & Heq3 & H3 & Hnd3 & HG3 & Hc3).
      rewrite Heq3. cbn [run15].
      assert (sd_sys_suspend (c_d s3) = []) as HL.
      { destruct (sd_sys_suspend (c_d s3)) as [|[T w] L] eqn:E; [reflexivity|]. exfalso.
        assert (In (T, w) (sd_sys_suspend (c_d s3))) as Hin by (rewrite E; left; reflexivity).
        destruct (i_parked _ _ _ _ _ _ _ _ _ H3 T w Hin) as (k & t' & n & lg & _ & _ & _ & Hsp & _).
        specialize (Hnd3 T w Hin). specialize (Hdue _ _ _ _ Hsp). rewrite Hc3 in Hnd3. cbn [c_clock s_clock] in Hnd3. lia. }
      pose proof (i_run _ _ _ _ _ _ _ _ _ H3) as Hrun. unfold allw, parked_ws in Hrun. rewrite HL in Hrun. cbn [curw app map length] in Hrun.
      assert (Q3 = []) as ->.
      { destruct HG3 as [HQ|[HR|Hm]]; [exact HQ | congruence | lia]. }
      destruct (status_cases s3 (c_d s3) tr3 [] t H3 Htl) as [[_ []]|[(T & w & k & n & lg & _ & Hin & _)|Hf]]; [|exact Hf].
      rewrite HL in Hin. destruct Hin.
  Qed.
End Theorems.
