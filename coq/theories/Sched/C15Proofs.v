(** C15 proofs, top layer: every history of [wf15] keeps the invariant; the oracle holds on the
    model's own trace; the two scenario statements (overlap, sibling progress). *)
From OCV Require Import Base.Prelude Misc.Time Queue.PMap Queue.OWS Queue.OWSOracle Queue.OWSLemmas Queue.OWSStep Coroutine.Co
  Sched.Sched Sched.Pool Sched.PoolOracle Sched.C15Oracle Sched.C15Lemmas Sched.C15Queue Sched.C15State Sched.C15Inv Sched.C15Run
  Sched.C15Pass.
From Coq Require Import ZifyBool ZifyNat Permutation.
Open Scope Z_scope.

(** between two operations: no worker is current, the scheduler's containers are the pool's *)
Definition REL (mx : Z) (s : cst) (tr : trk) : Prop :=
  exists specs Q R, INV mx specs s (c_d s) tr None None Q R.

Lemma prun_cons x o ops : prun x (o :: ops) = snd (pstep x o) :: prun (fst (pstep x o)) ops.
Proof. cbn [prun]. destruct (pstep x o). reflexivity. Qed.

Lemma pstep_pass mx s dl s' l e :
  ppass (mkx mx s) 0 dl = (mkx mx s', PLeft l, e) -> pstep (mkx mx s) (PPass 0 dl) = (mkx mx s', OPass (PLeft l) e).
Proof. intro H. cbn [pstep]. rewrite H. reflexivity. Qed.

Lemma main_inv mx : forall ops s tr,
  REL mx s tr -> wf15 ops = true -> k_ok tr = true ->
  k_ok (run15 mx tr ops (prun (mkx mx s) ops)) = true.
Proof.
  induction ops as [|o ops IH]; intros s tr Hrel Hwf Hok; [exact Hok|].
  cbn [wf15 forallb] in Hwf. apply andb_true_iff in Hwf as [Ho Hwf]. fold (wf15 ops) in Hwf.
  destruct Hrel as (specs & Q & R & H).
  rewrite prun_cons.
  destruct o as [p body prio|p dl| | | | | | | | |c]; try discriminate.
  - (* submit *)
    destruct p; [|discriminate]. destruct prio; [discriminate|].
    cbn [op_wf15] in Ho. destruct (parse_body body) as [sp|] eqn:Hp; [|discriminate].
    rewrite pstep_submit. cbn [fst snd run15 step15].
    apply IH; [|exact Hwf | exact Hok].
    exists (specs ++ [sp]), (Q ++ [length specs]), R. exact (inv_submit mx specs s (c_d s) tr Q R body sp H Hp).
  - (* pass *)
    destruct p; [|discriminate].
    destruct (ppass_inv mx specs s tr Q R dl H) as (s' & l & e & Q' & R' & Heq & Hfr & H1 & Hlive).
    rewrite (pstep_pass mx s dl s' l e Heq). cbn [fst snd run15 step15].
    set (k1 := fold_left pev15 e tr) in *.
    destruct (0 <? l) eqn:El.
    + apply IH; [| exact Hwf |].
      * exists specs, Q', R'. eapply inv_trk_ext; [..|exact H1]; reflexivity.
      * cbn [judge_pass k_ok]. unfold k1 at 1. rewrite fold_pev15_ok, Hok. cbn [andb].
        destruct (Hlive ltac:(lia)) as (-> & Hnd & HG). exact (judge_ok mx specs s' (c_d s') k1 Q' H1 Hnd HG).
    + apply IH; [| exact Hwf |].
      * exists specs, Q', R'. exact H1.
      * unfold k1. rewrite fold_pev15_ok. exact Hok.
  - (* clock *)
    rewrite pstep_clock. cbn [fst snd run15 step15].
    apply IH; [|exact Hwf | exact Hok].
    exists specs, Q, R. exact (inv_clock mx specs s (c_d s) tr Q R c H).
Qed.

(** the oracle holds on every run of the model over the histories of [wf15], for every pool size,
    every start clock and every number of tasks *)
Theorem c15_model : forall mx c0 ops,
  wf15 ops = true -> ok_c15 mx c0 ops (prun (pw0 c0 [(0, mx, 0)]) ops) = true.
Proof.
  intros mx c0 ops Hwf. unfold ok_c15, track15. rewrite pw0_mk.
  apply main_inv; [|exact Hwf | reflexivity].
  exists [], [], []. exact (inv_init mx c0).
Qed.

Lemma prun_length : forall ops x, length (prun x ops) = length ops.
Proof.
  induction ops as [|o ops IH]; intro x; [reflexivity|]. rewrite prun_cons. cbn [length]. rewrite IH. reflexivity.
Qed.
