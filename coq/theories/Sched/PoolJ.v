(** The simulation invariant between the single-pool model state and the oracle's tracker
    (run on the raw, not yet canonicalised, events). Every sub-invariant is stated over the
    components of the state it reads, so that an update of an unrelated component keeps it
    by conversion. *)
From OCV Require Import Base.Prelude Misc.Time Queue.PMap Queue.OWS Queue.OWSOracle Queue.OWSLemmas Queue.OWSModel Queue.OWSInv Queue.OWSStep.
From OCV Require Import Coroutine.Co Coroutine.CoLemmas Sched.Sched Sched.Pool Sched.PoolOracle Sched.PoolBase Sched.PoolWf Sched.PoolQ.
From Coq Require Import ZifyBool ZifyNat.
Open Scope Z_scope.

Definition terminal (s : cstate) : bool := match s with Complete _ | Error _ | Cancelled => true | _ => false end.
Definition live (k : worker) : bool := negb (terminal (k_st k)).
Definition nlive (ws : list worker) : Z := Z.of_nat (length (filter live ws)).
Definition prank (s : pstate) : nat := match s with PRunning => 0 | PStopping => 1 | PStopped => 2 end.

(** the mode a worker's remaining task body will be run from: for a parked worker (when it is
    next resumed), and for the worker that is being resumed right now *)
Definition pmode (s : cstate) : option mode :=
  match s with
  | Ready | Suspend _ _ => Some MRun
  | Syscall _ n (SSuspend _) | Syscall _ n STimeout => Some (MWoken n)
  | _ => None
  end.
Definition imode (s : cstate) : option mode :=
  match s with
  | Running => Some MRun
  | Syscall _ n SExecuting => Some (MExec n)
  | Syscall _ n (SSuspend _) => Some (MSusp n)
  | Syscall _ n STimeout => Some (MWoken n)
  | _ => None
  end.

Definition is_hole (h : option nat) (w : nat) : bool := match h with Some v => Nat.eqb v w | None => false end.

Definition tkn (tk : list ttrk) (i : nat) : ttrk := nth i tk (ttrk0 0 false).

(** * where a worker is *)
Definition cqc (cqi : list Z) (w : nat) : nat := cnt (Z.of_nat w) cqi.
Definition hpc (l : list (Z * nat)) (w : nat) : nat := count_occ Nat.eq_dec (map snd l) w.

Definition nowhere (cqi : list Z) (d : sdata) (w : nat) : Prop :=
  cqc cqi w = 0%nat /\ hpc (sd_suspend d) w = 0%nat /\ hpc (sd_sys_suspend d) w = 0%nat /\ ~ In w (sd_syscall d).

Definition loc_ok (clock : Z) (cqi : list Z) (d : sdata) (w : nat) (s : cstate) : Prop :=
  match s with
  | Ready | Syscall _ _ STimeout =>
      cqc cqi w = 1%nat /\ hpc (sd_suspend d) w = 0%nat /\ hpc (sd_sys_suspend d) w = 0%nat /\ ~ In w (sd_syscall d)
  | Suspend _ ts =>
      hpc (sd_sys_suspend d) w = 0%nat /\ ~ In w (sd_syscall d) /\
      ((cqc cqi w = 1%nat /\ hpc (sd_suspend d) w = 0%nat /\ ts <= clock) \/
       (cqc cqi w = 0%nat /\ hpc (sd_suspend d) w = 1%nat /\ In (ts, w) (sd_suspend d)))
  | Syscall _ _ (SSuspend ts) =>
      cqc cqi w = 0%nat /\ hpc (sd_suspend d) w = 0%nat /\ hpc (sd_sys_suspend d) w = 1%nat /\
      In (ts, w) (sd_sys_suspend d) /\ In w (sd_syscall d)
  | Complete _ | Error _ | Cancelled => nowhere cqi d w
  | _ => False
  end.

Record JL (clock : Z) (ws : list worker) (cqi : list Z) (d : sdata) (h : option nat) : Prop := {
  jl_loc : forall w k, nth_error ws w = Some k -> is_hole h w = false -> loc_ok clock cqi d w (k_st k);
  jl_hole : forall w, h = Some w -> nowhere cqi d w /\ (w < length ws)%nat;
  jl_cq : forall z, In z cqi -> exists w, z = Z.of_nat w /\ (w < length ws)%nat;
  jl_susp : forall ts w, In (ts, w) (sd_suspend d) -> (w < length ws)%nat;
  jl_sys : forall ts w, In (ts, w) (sd_sys_suspend d) -> (w < length ws)%nat;
  jl_map : NoDup (sd_syscall d) /\ forall w, In w (sd_syscall d) -> (w < length ws)%nat
}.

(** * the two queues *)
Record JQ (tq cq : sys) : Prop := { jq_t : Q1 tq; jq_c : Q1 cq }.

(** no worker was created in the future *)
Definition CR (clock : Z) (ws : list worker) : Prop := forall w k, nth_error ws w = Some k -> k_create k <= clock.

Section J.
Variable mx : Z.
Variable kp : Z.

(** * the pool record, the clock, the configuration *)
Record JP (x : pw) (tclock : Z) : Prop := {
  jp_pools : length (pw_pools x) = 1%nat;
  jp_min : p_min (get_pool x 0) <= 0;
  jp_keep : p_keep (get_pool x 0) = kp /\ 0 <= pw_clock x /\ CR (pw_clock x) (pw_workers x) /\ 0 <= p_popfail (get_pool x 0);
  jp_max : p_max (get_pool x 0) = mx;
  jp_mx : 1 <= mx;
  jp_cur : pw_cur x = 0%nat;
  jp_run : p_running (get_pool x 0) = nlive (pw_workers x);
  jp_le : p_running (get_pool x 0) <= mx;
  jp_spin : pw_spin x = false;
  jp_clock : pw_clock x <= U64MAX;
  jp_tclock : tclock <= pw_clock x;
  jp_cn : pw_cn x = []
}.

(** * state of the pool against what the oracle remembers of it *)
Record JS (pst : pstate) (prun : Z) (tqi : list Z) (pk : list ptrk) : Prop := {
  js_pools : length pk = 1%nat;
  js_rank : (pt_rank (nth 0 pk ptrk0) <= prank pst)%nat;
  js_called : pt_stop_called (nth 0 pk ptrk0) = true -> pst <> PRunning;
  js_ok : pt_stop_ok (nth 0 pk ptrk0) = true <-> pst = PStopped;
  js_okc : pt_stop_ok (nth 0 pk ptrk0) = true -> pt_stop_called (nth 0 pk ptrk0) = true;
  js_stopped : pst = PStopped -> prun = 0 /\ tqi = [];
  js_quiet : pt_quiet (nth 0 pk ptrk0) = true ->
             pt_alive (nth 0 pk ptrk0) = prun /\ (tqi = [] \/ mx <= prun)
}.

(** * tasks *)
Record JT (ws : list worker) (tqi : list Z) (tb : list (list instr)) (tk : list ttrk)
          (ct cc : list nat) (rt : list (nat * nat)) (h : option nat) : Prop := {
  jt_len : length tk = length tb;
  jt_q : forall z, In z tqi -> exists i, z = Z.of_nat i /\ (i < length tb)%nat /\ cnt z tqi = 1%nat /\
           tt_accepted (tkn tk i) = true /\ tt_started (tkn tk i) = 0%nat /\ tt_fin (tkn tk i) = None /\
           tt_fincount (tkn tk i) = 0%nat /\ body_from MRun (nth i tb []) = true /\ tt_cancel1 (tkn tk i) = false;
  jt_ta : forall i, (i < length tb)%nat -> tt_accepted (tkn tk i) = true -> tt_started (tkn tk i) = 0%nat ->
           tt_cancel0 (tkn tk i) = false -> In (Z.of_nat i) tqi;
  jt_hold : forall w k i rest, nth_error ws w = Some k -> k_task k = Some (i, rest) ->
           (i < length tb)%nat /\ tt_accepted (tkn tk i) = true /\ tt_started (tkn tk i) = 1%nat /\
           tt_fincount (tkn tk i) = 0%nat /\ tt_fin (tkn tk i) = None /\ ~ In (Z.of_nat i) tqi;
  jt_inj : forall w w' k k' i r r', nth_error ws w = Some k -> nth_error ws w' = Some k' ->
           k_task k = Some (i, r) -> k_task k' = Some (i, r') -> w = w';
  jt_mode : forall w k, nth_error ws w = Some k -> live k = true -> is_hole h w = false ->
           k_dead k = false /\ k_tpool k = 0%nat /\
           exists m, pmode (k_st k) = Some m /\
                     match k_task k with
                     | Some (_, rest) => body_from m rest = true
                     | None => m = MRun /\ (k_st k = Ready \/ k_st k = Suspend 0 0)
                     end;
  jt_tb : forall i, (i < length tb)%nat -> tt_accepted (tkn tk i) = true -> tt_started (tkn tk i) <> 0%nat ->
           tt_fin (tkn tk i) = None -> tt_cancel1 (tkn tk i) = false ->
           exists w k rest, nth_error ws w = Some k /\ live k = true /\ k_task k = Some (i, rest);
  jt_te : forall i, In (Z.of_nat i) tqi -> tt_cancel0 (tkn tk i) = true -> tt_withdrawn (tkn tk i) = false -> In i ct;
  jt_t3 : forall i, In i ct -> In (Z.of_nat i) tqi -> tt_cancel0 (tkn tk i) = true;
  jt_tf : forall w k i rest, nth_error ws w = Some k -> live k = true -> In w cc -> k_task k = Some (i, rest) ->
           tt_cancel1 (tkn tk i) = true;
  jt_rtnd : NoDup (map fst rt);
  jt_rt : forall i w k, In (i, w) rt -> nth_error ws w = Some k -> live k = true -> exists rest, k_task k = Some (i, rest);
  jt_rts : forall i w, In (i, w) rt -> tt_started (tkn tk i) <> 0%nat /\ (w < length ws)%nat;
  jt_rt3 : forall w k i rest, nth_error ws w = Some k -> live k = true -> k_task k = Some (i, rest) -> In (i, w) rt;
  jt_cc : forall w k i rest, nth_error ws w = Some k -> live k = true -> k_task k = Some (i, rest) ->
           tt_cancel1 (tkn tk i) = true -> In w cc;
  jt_c0 : forall i, tt_cancel0 (tkn tk i) = true -> tt_accepted (tkn tk i) = true;
  jt_ctb : forall i, In i ct -> (i < length tb)%nat;
  jt_suf : forall w k i rest, nth_error ws w = Some k -> k_task k = Some (i, rest) ->
           body_outcome rest = body_outcome (nth i tb []) /\ (length rest <= length (nth i tb []))%nat;
  jt_fin : forall i r, tt_fin (tkn tk i) = Some r -> r = body_outcome (nth i tb []);
  jt_ccnd : NoDup cc;
  jt_ccb : forall v, In v cc -> (v < length ws)%nat
}.

(** * waits and results *)
Record JR (waits : list nat) (rs : list (nat * tres)) (nw : list nat) (pst : pstate)
          (tqi : list Z) (tk : list ttrk) : Prop := {
  jr_rnd : NoDup (map fst rs);
  jr_wnd : NoDup waits;
  jr_tg : forall i r, In (i, r) rs ->
           (tt_consumed (tkn tk i) = false /\
            (tt_fin (tkn tk i) = Some r \/
             (r = TErr TMCancelled /\ tt_cancel0 (tkn tk i) = true /\ tt_started (tkn tk i) = 0%nat /\ ~ In (Z.of_nat i) tqi))) \/
           (r = TErr TMStopped /\ pst = PStopped /\
            (tt_fin (tkn tk i) = None \/ tt_consumed (tkn tk i) = true \/ tt_cleaned (tkn tk i) = true));
  jr_tg2 : forall i, tt_fin (tkn tk i) <> None -> tt_consumed (tkn tk i) = false -> tt_cleaned (tkn tk i) = false ->
           assoc_get i rs <> None;
  jr_tg3 : forall i, (i < length tk)%nat -> tt_accepted (tkn tk i) = true -> tt_started (tkn tk i) = 0%nat -> ~ In (Z.of_nat i) tqi ->
           tt_consumed (tkn tk i) = false -> tt_cleaned (tkn tk i) = false -> assoc_get i rs <> None;
  jr_tn : forall i, In i nw -> tt_cleaned (tkn tk i) = true;
  jr_tw : forall i, In i waits ->
           tt_fin (tkn tk i) = None \/ tt_consumed (tkn tk i) = true \/ tt_cleaned (tkn tk i) = true;
  jr_cons : forall i, tt_consumed (tkn tk i) = true ->
           tt_fin (tkn tk i) <> None \/ (tt_started (tkn tk i) = 0%nat /\ ~ In (Z.of_nat i) tqi) \/ pst = PStopped
}.

(** * what the tracker knows of the workers, and its flags *)
Definition wst (ws : list worker) (w : nat) : cstate := match nth_error ws w with Some k => k_st k | None => Ready end.

Record JW (ws : list worker) (t : potr) (tnt : bool) : Prop := {
  jw_st : forall w, nth w (po_workers t) Ready = wst ws w;
  jw_c12 : po_c12 t = true;
  jw_c01 : po_c01 t = true;
  jw_c11 : tnt = false -> po_c11 t = true;
  jw_c02 : po_c02 t = true;
  jw_c13 : po_c13 t = true
}.

(** * everything together; [d] is the scheduler data of the pool (threaded by the pass), [h] the
    worker being resumed, [tnt] whether a stop timed out before *)
Record Jc (tnt : bool) (cc : list nat) (x : pw) (d : sdata) (h : option nat) (t : potr) : Prop := {
  j_q : JQ (pw_tq x) (pw_cq x);
  j_l : JL (pw_clock x) (pw_workers x) (all_items (pw_cq x)) d h;
  j_p : JP x (po_clock t);
  j_s : JS (p_state (get_pool x 0)) (p_running (get_pool x 0)) (all_items (pw_tq x)) (po_pools t);
  j_t : JT (pw_workers x) (all_items (pw_tq x)) (pw_tbody x) (po_tasks t) (pw_cancel_tasks x) cc
           (pw_running_tasks x) h;
  j_r : JR (p_waits (get_pool x 0)) (p_results (get_pool x 0)) (p_nowaits (get_pool x 0)) (p_state (get_pool x 0))
           (all_items (pw_tq x)) (po_tasks t);
  j_w : JW (pw_workers x) t tnt
}.

(** [cc] is the set of cancelled coroutines the task clauses are read against: the state's own *)
Definition J (tnt : bool) (x : pw) (d : sdata) (h : option nat) (t : potr) : Prop := Jc tnt (pw_cancel_cos x) x d h t.

(** inside a pass: whatever still waits in the task queue has somebody to take it *)
Definition is_sys (s : cstate) : bool := match s with Syscall _ _ _ => true | _ => false end.
Definition G (x : pw) (h : option nat) : Prop :=
  all_items (pw_tq x) = [] \/ mx <= p_running (get_pool x 0) \/
  exists w k, nth_error (pw_workers x) w = Some k /\ live k = true /\
              (k_task k = None \/ (h = Some w /\ is_sys (k_st k) = false)).

(** the worker being resumed: alive, and what is left of its task fits its state *)
Definition hole_ok (x : pw) (w : nat) : Prop :=
  exists k m, get_worker x w = Some k /\ live k = true /\ k_dead k = false /\ k_tpool k = 0%nat /\
              imode (k_st k) = Some m /\
              match k_task k with Some (_, rest) => body_from m rest = true | None => m = MRun end.
End J.
