(** The bystander invariant through the operations of a history, and the bystander oracle's
    verdict on the model's own single-pool run. *)
From OCV Require Import Base.Prelude Misc.Time Queue.PMap Queue.OWS Queue.OWSOracle Queue.OWSLemmas Queue.OWSModel Queue.OWSStep.
From OCV Require Import Coroutine.Co Coroutine.CoOracle Coroutine.CoLemmas Sched.Sched Sched.Pool Sched.PoolOracle Sched.PoolBystander Sched.PoolBase Sched.PoolWf Sched.PoolQ Sched.PoolJ Sched.PoolJLemmas Sched.PoolUnfold Sched.PoolMeasure Sched.PoolJStep Sched.PoolJLoop Sched.PoolCount Sched.PoolBound Sched.PoolJPass Sched.PoolJHole Sched.PoolJSched Sched.PoolJOps Sched.PoolJOps2 Sched.PoolRun Sched.PoolBy Sched.PoolByLoop Sched.PoolByPass Sched.PoolBySched.
From OCV Require Sched.PoolMono.
From Coq Require Import ZifyBool ZifyNat.
Open Scope Z_scope.

(** * the oracle's [tt_cancel1] is only ever set by a [PCancel] *)
Lemma tkn_set_c1 tk i k j :
  tt_cancel1 k = tt_cancel1 (tkn tk i) -> tt_cancel1 (tkn (set_nth i k tk) j) = tt_cancel1 (tkn tk j).
Proof.
  intro E. destruct (Nat.eq_dec i j) as [<-|Hne]; [|rewrite tkn_set_other by exact Hne; reflexivity].
  destruct (lt_dec i (length tk)) as [Hlt|Hge]; [rewrite tkn_set_same by exact Hlt; exact E|].
  rewrite set_nth_ge by lia. reflexivity.
Qed.

Lemma tkn_snoc_c1 tk p ok j : tt_cancel1 (tkn (tk ++ [ttrk0 p ok]) j) = tt_cancel1 (tkn tk j).
Proof.
  destruct (lt_dec j (length tk)) as [Hlt|Hge]; [rewrite tkn_snoc_old by exact Hlt; reflexivity|].
  rewrite (tkn_out tk j) by lia. destruct (Nat.eq_dec j (length tk)) as [->|Hne].
  - rewrite tkn_snoc_new. reflexivity.
  - rewrite tkn_out by (rewrite app_length; cbn [length]; lia). reflexivity.
Qed.

Lemma cancel1_expect t p i n r tf j :
  tt_cancel1 (tkn (po_tasks (expect_result t p i n r tf)) j) = tt_cancel1 (tkn (po_tasks t) j).
Proof.
  unfold expect_result. destruct r; cbv zeta; autorewrite with potr; try reflexivity.
  apply tkn_set_c1. rewrite gett_tkn. reflexivity.
Qed.

Lemma cancel1_postep mx t o ob i :
  tt_cancel1 (tkn (po_tasks (postep 1 [mx] t o ob)) i) = true -> tt_cancel1 (tkn (po_tasks t) i) = true \/ o = PCancel i.
Proof.
  destruct o as [p body prio|p dl|p j|p j|p j|j|p dur|p|p|p|c]; destruct ob as [ok|r e|r|r e|n|s|]; cbn [postep]; auto.
  - cbv zeta. cbn [po_tasks]. autorewrite with potr. rewrite tkn_snoc_c1. auto.
  - cbv zeta. destruct r as [l| | | |]; [destruct ((0 <? l) && Nat.eqb 1 1)|..]; autorewrite with potr; rewrite cancel1_fold; autorewrite with potr; auto.
  - rewrite cancel1_expect. auto.
  - rewrite cancel1_expect. auto.
  - cbv zeta. destruct (_ && _); autorewrite with potr; rewrite tkn_set_c1 by (rewrite gett_tkn; reflexivity); auto.
  - cbv zeta. destruct (_ || _); [auto|]. autorewrite with potr. destruct (Nat.eq_dec j i) as [->|Hne]; [auto|].
    rewrite tkn_set_other by exact Hne. auto.
  - cbv zeta. destruct r; autorewrite with potr; rewrite cancel1_fold; autorewrite with potr; auto.
  - cbv zeta. destruct (_ && _); destruct (pt_stop_ok _); autorewrite with potr; auto.
Qed.

Lemma by_mem_cons i l : PoolBystander.mem_nat i (i :: l) = true.
Proof. unfold PoolBystander.mem_nat. cbn [existsb]. rewrite Nat.eqb_refl. reflexivity. Qed.

Lemma by_mem_tl i j l : PoolBystander.mem_nat i l = true -> PoolBystander.mem_nat i (j :: l) = true.
Proof. unfold PoolBystander.mem_nat. cbn [existsb]. intros ->. apply orb_true_r. Qed.

Lemma by_requested_step b o ob i :
  PoolBystander.mem_nat i (by_requested b) = true -> PoolBystander.mem_nat i (by_requested (by_step b o ob)) = true.
Proof.
  intro H. destruct o; cbn [by_step]; rewrite ?by_requested_fold; try exact H. cbn [by_requested]. apply by_mem_tl, H.
Qed.

Lemma BR_step mx t b o ob : BR t b -> BR (postep 1 [mx] t o ob) (by_step b o ob).
Proof.
  intros HR i Hi. apply cancel1_postep in Hi as [Hi| ->].
  - apply by_requested_step, HR, Hi.
  - cbn [by_step by_requested]. apply by_mem_cons.
Qed.

(** * operations that leave the workers alone *)
Lemma take_workers x p i : pw_workers (fst (take x p i)) = pw_workers x.
Proof. unfold take. destruct (assoc_get _ _); reflexivity. Qed.

Lemma pwait_workers x p i : pw_workers (fst (pwait x p i)) = pw_workers x.
Proof. unfold pwait. pose proof (take_workers x p i) as H. destruct (take x p i) as [x1 [r|]]; exact H. Qed.

Lemma pclean_workers x p i : pw_workers (pclean x p i) = pw_workers x.
Proof. unfold pclean. pose proof (take_workers x p i) as H. destruct (take x p i) as [x1 [r|]]; exact H. Qed.

Lemma pcancel_workers x i : pw_workers (pcancel x i) = pw_workers x.
Proof. unfold pcancel. destruct (assoc_get _ _); reflexivity. Qed.

Lemma clean_fold_workers l : forall x, pw_workers (fold_left clean_step l x) = pw_workers x.
Proof. induction l as [|i l IH]; intro x; cbn [fold_left]; [reflexivity|]. rewrite IH. reflexivity. Qed.

Lemma do_clean_workers x : pw_workers (do_clean x 0) = pw_workers x.
Proof. rewrite do_clean_eq. apply clean_fold_workers. Qed.

Section ByOps.
Variable mx : Z.
Variable kp : Z.

Definition stop_okB (b : bytrk) (acc : list ev) (res : pw * stopres * list ev) : Prop :=
  let '(x', r, acc') := res in exists evs, acc' = acc ++ evs /\ BI (pw_workers x') (fold_left by_ev evs b).

Lemma stop_loop_B : forall f tnt x t b dl acc,
  Jop mx kp tnt x t -> quiet_off t -> p_state (get_pool x 0) = PStopping -> dl <= U64MAX -> BI (pw_workers x) b -> BR t b ->
  stop_okB b acc (stop_loop f x 0 dl acc).
Proof.
  induction f as [|f IH]; intros tnt x t b dl acc HJop Hq Hst Hdl HB HR.
  - cbn [stop_loop stop_okB]. exists []. rewrite app_nil_r. auto.
  - rewrite stop_loop_S. pose proof (ppass_J mx kp tnt x t dl HJop Hq) as Hok.
    pose proof (ppass_B mx kp tnt x t b dl HJop Hq HB HR) as HokB.
    pose proof (PoolMono.ppass_same_states x 0 dl 0%nat) as Hss. rewrite Hst in Hss.
    destruct (ppass x 0 dl) as [[x1 r] e]. cbn [fst snd ppass_ok ppass_okB] in *.
    destruct r as [l| | | |]; try contradiction.
    + destruct Hok as (HJ1 & HG1 & Hl & Hqs & Hc1).
      destruct ((p_running (get_pool x1 0) =? 0) || (sat_sub dl (pw_clock x1) =? 0)) eqn:Eend.
      * destruct (0 <? p_running (get_pool x1 0)) eqn:Erun.
        -- cbn [stop_okB]. exists e. auto.
        -- cbn [stop_okB]. exists e. split; [reflexivity|]. rewrite do_clean_workers. exact HokB.
      * assert (Jop mx kp tnt (set_clockp x1 (sat_add64 (pw_clock x1) 1000000)) (fold_left pev e t)) as HJ2.
        { destruct HJ1 as [HJ1 Hts1]. pose proof (jp_clock _ _ _ _ (j_p _ _ _ _ _ _ _ _ HJ1)) as Hc.
          destruct (sat_add64_mono (pw_clock x1) 1000000 Hc ltac:(lia)) as [M1 M2].
          split; [|autorewrite with pw; exact Hts1]. autorewrite with pw. apply J_nap; assumption. }
        pose proof (IH tnt _ (fold_left pev e t) (fold_left by_ev e b) dl (acc ++ e) HJ2 (quiet_off_fold _ _ Hq)
                      ltac:(autorewrite with pw; exact Hss) Hdl HokB (BR_fold _ _ _ HR)) as IH1.
        destruct (stop_loop f _ 0 dl (acc ++ e)) as [[x' r'] acc']. cbn [stop_okB] in *.
        destruct IH1 as (evs & -> & H). exists (e ++ evs). rewrite app_assoc, fold_left_app. auto.
    + destruct Hok as (-> & -> & Hs). congruence.
    + cbn [stop_okB]. exists e. auto.
Qed.

Lemma op_B tnt x t b o :
  Jop mx kp tnt x t -> op_ok x o = true -> BI (pw_workers x) b -> BR t b ->
  BI (pw_workers (fst (pstep x o))) (by_step b o (snd (pstep x o))).
Proof.
  intros HJop Hok HB HR. destruct o as [p body prio|p dl|p i|p i|p i|i|p dur|p|p|p|c]; cbn [op_ok] in Hok;
    try (apply andb_true_iff in Hok as [Hp Hok]); try (apply Nat.eqb_eq in Hp; subst p); try (apply Nat.eqb_eq in Hok; subst p).
  - cbn [pstep]. destruct (p_state (get_pool x 0)); exact HB.
  - cbn [pstep]. destruct HJop as [HJ Hts].
    pose proof (ppass_J mx kp tnt x (unquiet t) dl (conj (J_unquiet mx kp tnt x _ None t HJ) Hts) (unquiet_quiet_off t)) as Hok1.
    pose proof (ppass_B mx kp tnt x (unquiet t) b dl (conj (J_unquiet mx kp tnt x _ None t HJ) Hts) (unquiet_quiet_off t) HB HR) as HokB.
    destruct (ppass x 0 dl) as [[x' r] e]. cbn [fst snd by_step pevs ppass_ok ppass_okB] in *.
    exact HokB.
  - cbn [pstep]. pose proof (pwait_workers x 0 i) as H. destruct (pwait x 0 i) as [x' r]. cbn [fst snd by_step pevs fold_left] in *. rewrite H. exact HB.
  - cbn [pstep]. pose proof (take_workers x 0 i) as H. destruct (take x 0 i) as [x' [r|]]; cbn [fst snd by_step pevs fold_left] in *; rewrite H; exact HB.
  - cbn [pstep fst snd by_step pevs fold_left]. rewrite pclean_workers. exact HB.
  - cbn [pstep fst snd by_step]. rewrite pcancel_workers. destruct HB as [B1 B2 B3]. constructor; assumption.
  - cbn [pstep]. unfold pstop.
    assert (p_state (get_pool x 0) <> PStopped ->
            BI (pw_workers (fst (let '(x', r, e) := stop_loop (S (S (Z.to_nat (dur / 1000000)))) (upd_pool x 0 (p_with_state PStopping)) 0
                                       (get_timeout_time (pw_clock (upd_pool x 0 (p_with_state PStopping))) dur) [] in (x', OStop r e))))
               (by_step b (PStop 0 dur) (snd (let '(x', r, e) := stop_loop (S (S (Z.to_nat (dur / 1000000)))) (upd_pool x 0 (p_with_state PStopping)) 0
                                       (get_timeout_time (pw_clock (upd_pool x 0 (p_with_state PStopping))) dur) [] in (x', OStop r e))))) as Hlive.
    { intro Hne. set (x1 := upd_pool x 0 (p_with_state PStopping)).
      pose proof (Jop_stop_ts mx kp tnt x t HJop Hne) as HJ1. fold x1 in HJ1.
      assert (p_state (get_pool x1 0) = PStopping) as Hst1.
      { unfold x1. destruct HJop as [HJ _]. rewrite get_pool_upd_pool_same by (rewrite (jp_pools _ _ _ _ (j_p _ _ _ _ _ _ _ _ HJ)); lia). reflexivity. }
      assert (quiet_off (stop_ts t)) as Hq1.
      { unfold quiet_off. destruct HJop as [HJ _]. rewrite (stop_ts_pools t (js_pools _ _ _ _ _ (j_s _ _ _ _ _ _ _ _ HJ))). cbn [nth].
        apply (stop_ks_fields t). }
      assert (get_timeout_time (pw_clock x1) dur <= U64MAX) as Hdl.
      { unfold get_timeout_time, sat_add64. destruct (dur <=? U64MAX); lia. }
      pose proof (stop_loop_B (S (S (Z.to_nat (dur / 1000000)))) tnt x1 (stop_ts t) b (get_timeout_time (pw_clock x1) dur) [] HJ1 Hq1 Hst1 Hdl HB HR) as H.
      destruct (stop_loop _ x1 0 _ []) as [[x' r] e]. cbn [stop_okB] in H. destruct H as (evs & Ee & H). cbn [app] in Ee. subst e.
      cbn [fst snd by_step pevs]. exact H. }
    destruct (p_state (get_pool x 0)) eqn:Est; [apply Hlive; discriminate | apply Hlive; discriminate|].
    cbn [fst snd by_step pevs fold_left]. rewrite do_clean_workers. exact HB.
  - exact HB.
  - exact HB.
  - exact HB.
  - exact HB.
Qed.

Lemma by_run_nil b ops : by_run b ops [] = b.
Proof. destruct ops; reflexivity. Qed.

Lemma run_B : forall ops x t tnt b,
  Jop mx kp tnt x t -> hist_okp x ops = true -> BI (pw_workers x) b -> BR t b ->
  by_ok (by_run b ops (cut_div (prun x ops))) = true.
Proof.
  induction ops as [|o r IH]; intros x t tnt b HJ Hok HB HR.
  - cbn [prun cut_div by_run]. apply (bi_ok _ _ HB).
  - cbn [hist_okp] in Hok. apply andb_true_iff in Hok as [Hok1 Hok2].
    pose proof (op_step mx kp tnt x t o HJ Hok1) as Hstep. cbv zeta in Hstep.
    pose proof (op_B tnt x t b o HJ Hok1 HB HR) as HB'.
    pose proof (BR_step mx t b o (snd (pstep x o)) HR) as HR'.
    rewrite prun_cons, cut_div_cons.
    set (x' := fst (pstep x o)) in *. set (ob := snd (pstep x o)) in *.
    destruct (is_div ob) eqn:Ediv.
    + cbn [by_run]. rewrite by_run_nil. apply (bi_ok _ _ HB').
    + cbn [by_run]. eapply IH; eassumption.
Qed.

End ByOps.
