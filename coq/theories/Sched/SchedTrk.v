(** What the C10 oracle's tracker makes of the events of one state change and of one body event,
    for a tracker in the normal form [mkT clock ks] (no violation, no contract breach so far). *)
From OCV Require Import Base.Prelude Misc.Time Queue.PMap Queue.OWS Coroutine.Co Coroutine.CoOracle
  Coroutine.CoLemmas Sched.Sched Sched.SchedOracle Sched.SchedWf Sched.SchedQueue Sched.SchedBase.
From Coq Require Import ZifyBool ZifyNat.
Open Scope Z_scope.

Definition mkT (clk : Z) (ks : list strk) : otr :=
  {| r_clock := clk; r_cos := ks; r_ok := true; r_anymal := false |}.
Definition gk (ks : list strk) (i : nat) : strk := nth i ks strk0.
Definition kst (k : strk) (s : cstate) : strk :=
  {| q_st := s; q_wake := q_wake k; q_fin := q_fin k; q_cancel := q_cancel k; q_mal := q_mal k |}.
Definition kwf (k : strk) (w : option Z) (f : option res) : strk :=
  {| q_st := q_st k; q_wake := w; q_fin := f; q_cancel := q_cancel k; q_mal := false |}.

Lemma gk_set_same ks i k : (i < length ks)%nat -> gk (set_nth i k ks) i = k.
Proof. intro H. unfold gk. apply nth_set_nth_same, H. Qed.
Lemma gk_set_other ks i j k : i <> j -> gk (set_nth i k ks) j = gk ks j.
Proof. intro H. unfold gk. apply nth_set_nth_other. congruence. Qed.
Lemma set_gk_id ks i : (i < length ks)%nat -> set_nth i (gk ks i) ks = ks.
Proof. intro H. apply set_nth_id. unfold gk. apply nth_error_nth', H. Qed.

Lemma kst_id k : kst k (q_st k) = k. Proof. destruct k; reflexivity. Qed.

(** * listener events *)

Lemma sev_changed clk ks fins l i new old :
  q_mal (gk ks i) = false ->
  sev (mkT clk ks, fins) (EL l i (CbChanged new) old) = (mkT clk (set_nth i (kst (gk ks i) new) ks), fins).
Proof.
  intro Hm. unfold sev, setq, getq, mkT, kst. cbn [r_cos r_clock r_ok r_anymal q_mal]. fold (gk ks i).
  rewrite Hm. reflexivity.
Qed.

Lemma sev_specific T fins l i s old : sev (T, fins) (EL l i (specific s) old) = (T, fins).
Proof. destruct s; reflexivity. Qed.

Lemma sev_changed_list clk ks fins i new old (k : strk) : forall ls,
  (i < length ks)%nat -> q_mal k = false -> gk ks i = kst k new ->
  fold_left sev (map (fun l => EL l i (CbChanged new) old) ls) (mkT clk ks, fins) = (mkT clk ks, fins).
Proof.
  induction ls as [|l ls IH]; intros Hi Hm Hg; [reflexivity|]. cbn [map fold_left].
  rewrite sev_changed by (rewrite Hg; exact Hm).
  rewrite Hg. replace (kst (kst k new) new) with (kst k new) by reflexivity.
  rewrite <- Hg, set_gk_id by exact Hi. apply IH; assumption.
Qed.

Lemma sev_specific_list T fins i s old : forall ls,
  fold_left sev (map (fun l => EL l i (specific s) old) ls) (T, fins) = (T, fins).
Proof. induction ls as [|l ls IH]; [reflexivity|]. cbn [map fold_left]. rewrite sev_specific. exact IH. Qed.

Lemma sev_change_events nl clk ks fins i old new :
  (1 <= nl)%nat -> (i < length ks)%nat -> q_mal (gk ks i) = false ->
  fold_left sev (change_events nl i old new) (mkT clk ks, fins)
  = (mkT clk (set_nth i (kst (gk ks i) new) ks), fins).
Proof.
  intros Hnl Hi Hm. unfold change_events. rewrite fold_left_app.
  destruct nl as [|nl]; [lia|]. cbn [seq map fold_left].
  rewrite sev_changed by exact Hm.
  rewrite (sev_changed_list clk _ fins i new old (gk ks i)).
  - rewrite sev_specific. apply sev_specific_list.
  - rewrite set_nth_length. exact Hi.
  - exact Hm.
  - apply gk_set_same, Hi.
Qed.

(** * body events of a coroutine that is neither cancelled nor finished *)

Section Body.
  Variables (clk : Z) (ks : list strk) (fins : list (nat * res)) (i : nat).
  Hypothesis Hm : q_mal (gk ks i) = false.
  Hypothesis Hc : q_cancel (gk ks i) = false.
  Hypothesis Hf : q_fin (gk ks i) = None.

  Ltac start := unfold sev, setq, getq, need, SchedOracle.clk, mkT, kwf;
                cbn [r_cos r_clock r_ok r_anymal q_mal]; fold (gk ks i); rewrite ?Hm, ?Hc, ?Hf.

  Lemma sev_tick d : sev (mkT clk ks, fins) (EB i (BTick d)) = (mkT (sat_add64 clk d) ks, fins).
  Proof. start. reflexivity. Qed.

  Lemma sev_log x : sev (mkT clk ks, fins) (EB i (BLog x)) = (mkT clk ks, fins).
  Proof. start. reflexivity. Qed.

  Lemma sev_res b : sev (mkT clk ks, fins) (EB i (BRes b)) = (mkT clk ks, fins).
  Proof. start. reflexivity. Qed.

  Lemma sev_first (started : bool) p :
    (forall w, q_wake (gk ks i) = Some w -> w <= p) ->
    sev (mkT clk ks, fins) (if started then EB i (BGot p) else EB i (BStart p))
    = (mkT clk (set_nth i (kwf (gk ks i) None None) ks), fins).
  Proof.
    intro Hw.
    assert (match q_wake (gk ks i) with Some w => w <=? p | None => true end = true) as E.
    { destruct (q_wake (gk ks i)) as [w|]; [|reflexivity]. specialize (Hw w eq_refl). lia. }
    destruct started; start; cbn [negb is_none andb]; rewrite E; reflexivity.
  Qed.

  Lemma sev_yield_running y req :
    q_st (gk ks i) = Running ->
    sev (mkT clk ks, fins) (EB i (BYield y req))
    = (mkT clk (set_nth i (kwf (gk ks i)
                              (match req with RUntil _ | RDelay _ => Some (expected_time clk req) | _ => None end)
                              None) ks), fins).
  Proof.
    intro Hs. start. rewrite Hs. cbn [cstate_eqb negb is_none andb].     destruct req; reflexivity.
  Qed.

  Lemma sev_yield_syscall y req y' n st :
    q_st (gk ks i) = Syscall y' n st -> req <> RCancel ->
    sev (mkT clk ks, fins) (EB i (BYield y req)) = (mkT clk (set_nth i (kwf (gk ks i) None None) ks), fins).
  Proof.
    intros Hs Hr. start. rewrite Hs. cbn [cstate_eqb negb is_none andb].     destruct req; try reflexivity. congruence.
  Qed.

  Lemma sev_ret v :
    q_st (gk ks i) = Running ->
    sev (mkT clk ks, fins) (EB i (BRet v))
    = (mkT clk (set_nth i (kwf (gk ks i) None (Some (ROk (Complete v)))) ks), fins ++ [(i, ROk (Complete v))]).
  Proof. intro Hs. start. rewrite Hs. reflexivity. Qed.

  Lemma sev_panic pk :
    q_st (gk ks i) = Running ->
    sev (mkT clk ks, fins) (EB i (BPanic pk))
    = (mkT clk (set_nth i (kwf (gk ks i) None (Some (ROk (Error (panic_msg pk))))) ks),
       fins ++ [(i, ROk (Error (panic_msg pk)))]).
  Proof. intro Hs. start. rewrite Hs. reflexivity. Qed.
End Body.

(** * [bwf] does not distinguish how a parked syscall was woken *)

Lemma bwf_woken n : forall b y y', bwf (Syscall y n SCallback) b = bwf (Syscall y' n STimeout) b.
Proof.
  induction b as [|ins rest IH]; intros y y'; [reflexivity|].
  destruct ins; cbn [bwf]; try reflexivity; try apply IH.
  - destruct (n =? name); [reflexivity | apply IH].
  - rewrite (IH y y'). reflexivity.
Qed.

