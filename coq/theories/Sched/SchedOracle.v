(** C10 as an executable oracle over the observations of a scheduler history. It keeps a
    specification tracker (clock, last reported state and pending wake-up time of every
    coroutine, who finished, who was cancelled); it never calls the scheduler model. *)
From OCV Require Import Base.Prelude Misc.Time Queue.PMap Queue.OWS Coroutine.Co Coroutine.CoOracle Sched.Sched.
Open Scope Z_scope.

Record strk := {
  q_st : cstate;              (* state last reported to the listener *)
  q_wake : option Z;          (* wake-up time requested by the last yield made in state Running *)
  q_fin : option res;         (* outcome once the body returned or panicked in state Running *)
  q_cancel : bool;            (* a cancel was requested while it was unfinished *)
  q_mal : bool                (* the body broke the API contract (ended or cancelled outside Running) *)
}.
Definition strk0 : strk := {| q_st := Ready; q_wake := None; q_fin := None; q_cancel := false; q_mal := false |}.

Record otr := { r_clock : Z; r_cos : list strk; r_ok : bool; r_anymal : bool }.

Definition getq (t : otr) (i : nat) : strk := nth i (r_cos t) strk0.
Definition setq (t : otr) (i : nat) (k : strk) : otr :=
  {| r_clock := r_clock t; r_cos := set_nth i k (r_cos t); r_ok := r_ok t; r_anymal := r_anymal t || q_mal k |}.
Definition need (t : otr) (b : bool) : otr :=
  {| r_clock := r_clock t; r_cos := r_cos t; r_ok := r_ok t && b; r_anymal := r_anymal t |}.
Definition clk (t : otr) (c : Z) : otr :=
  {| r_clock := c; r_cos := r_cos t; r_ok := r_ok t; r_anymal := r_anymal t |}.

(** one event; [fins] accumulates who finished during this op *)
Definition sev (tf : otr * list (nat * res)) (e : ev) : otr * list (nat * res) :=
  let '(t, fins) := tf in
  match e with
  | EL _ i (CbChanged new) _ =>
      let k := getq t i in
      (setq t i {| q_st := new; q_wake := q_wake k; q_fin := q_fin k; q_cancel := q_cancel k; q_mal := q_mal k |}, fins)
  | EL _ _ _ _ => (t, fins)
  | EB i b =>
      let k := getq t i in
      let t := match b with BTick d => clk t (sat_add64 (r_clock t) d) | _ => t end in
      if q_mal k then (t, fins)
      else
        (* a cancelled coroutine never runs again; a finished one neither *)
        let t := need t (negb (q_cancel k) && is_none (q_fin k)) in
        match b with
        | BStart p | BGot p =>
            (* never resumed before the requested wake-up time *)
            let t := need t (match q_wake k with Some w => w <=? p | None => true end) in
            (setq t i {| q_st := q_st k; q_wake := None; q_fin := q_fin k; q_cancel := q_cancel k; q_mal := q_mal k |}, fins)
        | BYield _ req =>
            let running := cstate_eqb (q_st k) Running in
            let w := if running then
                       match req with
                       | RUntil _ | RDelay _ => Some (expected_time (r_clock t) req)
                       | _ => None
                       end
                     else None in
            let mal := match req with RCancel => negb running | _ => false end in
            (setq t i {| q_st := q_st k; q_wake := w; q_fin := q_fin k; q_cancel := q_cancel k; q_mal := mal |}, fins)
        | BRet v =>
            if cstate_eqb (q_st k) Running
            then (setq t i {| q_st := q_st k; q_wake := None; q_fin := Some (ROk (Complete v)); q_cancel := q_cancel k;
                              q_mal := false |}, fins ++ [(i, ROk (Complete v))])
            else (setq t i {| q_st := q_st k; q_wake := None; q_fin := q_fin k; q_cancel := q_cancel k; q_mal := true |}, fins)
        | BPanic pk =>
            if cstate_eqb (q_st k) Running
            then (setq t i {| q_st := q_st k; q_wake := None; q_fin := Some (ROk (Error (panic_msg pk)));
                              q_cancel := q_cancel k; q_mal := false |}, fins ++ [(i, ROk (Error (panic_msg pk)))])
            else (setq t i {| q_st := q_st k; q_wake := None; q_fin := q_fin k; q_cancel := q_cancel k; q_mal := true |}, fins)
        | _ => (t, fins)
        end
  end.

(** sort (id, result) pairs by id *)
Fixpoint ins_by_id (x : nat * res) (l : list (nat * res)) : list (nat * res) :=
  match l with
  | [] => [x]
  | y :: r => if Nat.leb (fst x) (fst y) then x :: l else y :: ins_by_id x r
  end.
Definition sort_by_id (l : list (nat * res)) : list (nat * res) := fold_right ins_by_id [] l.

Definition idres_eqb (a b : nat * res) : bool := Nat.eqb (fst a) (fst b) && res_eqb (snd a) (snd b).

(** nothing is left runnable or overdue after a pass that was not cut by its deadline *)
Definition settled (clock : Z) (k : strk) : bool :=
  q_mal k || q_cancel k || negb (is_none (q_fin k)) ||
  match q_st k with
  | Suspend _ t => clock <? t
  | Syscall _ _ (SSuspend t) => clock <? t
  | Syscall _ _ _ => true
  | Cancelled => true
  | _ => false            (* Ready / Running / Complete / Error without a recorded finish *)
  end.

Definition sostep (t : otr) (submitted : nat) (o : sop) (ob : sobs) : otr * nat :=
  match o, ob with
  | Submit _ _, SUnit =>
      ({| r_clock := r_clock t; r_cos := r_cos t ++ [strk0]; r_ok := r_ok t; r_anymal := r_anymal t |}, S submitted)
  | Clock c, SUnit => (clk t c, submitted)
  | Cancel i, SUnit =>
      let k := getq t i in
      if Nat.ltb i submitted && is_none (q_fin k)
      then (setq t i {| q_st := q_st k; q_wake := q_wake k; q_fin := q_fin k; q_cancel := true; q_mal := q_mal k |}, submitted)
      else (t, submitted)
  | TryResume _, SCall r evs =>
      let '(t1, fins) := fold_left sev evs (t, []) in
      (* try_resume runs no user code and reports no result *)
      (need t1 (is_nil fins && (r_anymal t1 || res_eqb r RUnit)
                && forallb (fun e => match e with EB _ _ => false | _ => true end) evs), submitted)
  | Pass deadline, SPass r evs =>
      let '(t1, fins) := fold_left sev evs (t, []) in
      match r with
      | PassOk lft results =>
          let t2 := need t1 (list_eqb idres_eqb (sort_by_id results) (sort_by_id fins)) in
          let t3 := if 0 <? lft
                    then need t2 (forallb (settled (r_clock t2)) (r_cos t2))
                    else t2 in
          (t3, submitted)
      | _ => (need t1 (r_anymal t1), submitted)     (* Err / panic / divergence only after a contract breach *)
      end
  | _, _ => (need t false, submitted)
  end.

Fixpoint sorun (t : otr) (submitted : nat) (ops : list sop) (obs : list sobs) : otr * bool :=
  match ops, obs with
  | [], [] => (t, true)
  | o :: ops', ob :: obs' => let '(t', n') := sostep t submitted o ob in sorun t' n' ops' obs'
  | _, _ => (t, false)
  end.

Definition judge_sched (clock : Z) (ops : list sop) (obs : list sobs) : bool * bool :=
  let '(t, shape) := sorun {| r_clock := clock; r_cos := []; r_ok := true; r_anymal := false |} O ops obs in
  (r_ok t, shape).

(** observation equality for the correspondence: results compared as sets *)
Definition pass_res_eqb (a b : pass_res) : bool :=
  match a, b with
  | PassOk l r, PassOk l' r' => (l =? l') && list_eqb idres_eqb (sort_by_id r) (sort_by_id r')
  | PassErr, PassErr => true | PassUnwound, PassUnwound => true | PassDiverged, PassDiverged => true
  | _, _ => false
  end.
Definition sobs_eqb (a b : sobs) : bool :=
  match a, b with
  | SUnit, SUnit => true
  | SPass r e, SPass r' e' => pass_res_eqb r r' && list_eqb ev_eqb e e'
  | SCall r e, SCall r' e' => res_eqb r r' && list_eqb ev_eqb e e'
  | _, _ => false
  end.
