From OCV Require Export Base.Prelude Misc.Time Coroutine.Co Coroutine.CoOracle Cases.Co.
Definition judge := judge_with j_c09.
