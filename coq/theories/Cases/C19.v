(** Judge for C19 cases: correspondence (model = implementation), property (oracle on the
    implementation's observations), branch / defect tags raised by the model run. *)
From OCV Require Import Base.Prelude Syscall.SockOpt Syscall.SockOptOracle.
From Coq Require Import String.
Open Scope string_scope.

Definition tag_name (t : tag) : string :=
  match t with
  | TOverwrite => "overwrite"
  | TFill => "fill"
  | THit => "hit"
  | TEvict => "evict"
  | TNegSec => "negative_sec"
  | TBadFd => "badfd"
  | TSaturate => "saturate"
  end.

Definition judge (c : list op * list obs) : verdict :=
  let '(ops, impl) := c in
  {| v_corr := list_eqb obs_eqb (run_C19 ops) impl;
     v_prop := ok_C19 ops impl;
     v_tags := map tag_name (tags_C19 ops);
     v_note := if wf_C19 ops then "wf" else "malformed" |}.
