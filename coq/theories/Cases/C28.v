(** Judge for C28 cases: correspondence (model = implementation) and property (oracle on the
    implementation's observations), both computed here. *)
From OCV Require Import Base.Prelude Misc.Time Misc.TimeOracle.
From Coq Require Import String.
Open Scope string_scope.

Definition judge (c : list op * list obs) : verdict :=
  let '(ops, impl) := c in
  {| v_corr := list_eqb obs_eqb (run_C28 ops) impl;
     v_prop := ok_C28 ops impl;
     v_tags := [];
     v_note := "" |}.
