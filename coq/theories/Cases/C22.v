(** Judge for C22 cases.
    Trace cases (one scheduler thread, real monitor thread, real signals): correspondence = the
    observed trace is accepted by the lockstep replay of the monitor model; property = the oracle.
    Stress cases (several scheduler threads, no recording): the model says that with two or more
    threads the unsynchronised node set can lose an operation (defect tag raised by the two-step
    model on the witness schedule); the property demands a clean run. *)
From OCV Require Export Base.Prelude Misc.Monitor Misc.MonitorOracle Misc.MonitorTrace.
From Coq Require Import String.
Open Scope string_scope.

Inductive outcome := OClean | OAborted | ODiverged | OWrong.

Record mcase := {
  mc_stress : bool;
  mc_progs : list (list instr);
  mc_evs : list mev;
  mc_results : list Z;
  mc_nodes_left : Z;
  mc_first_then : option (nat * nat);
  mc_threads : nat;
  mc_preemptive : bool;          (* the crate was built with the preemptive feature (there is a monitor) *)
  mc_outcome : outcome
}.

(** two scheduler threads make a coroutine Running at the same time: read, read, write, write *)
Definition race_progs : list (nat * list instr) := [(0%nat, [IWork 1]); (1%nat, [IWork 1])].
Definition race_sched : list act := [AStep 0; AStep 1; AStep 0; AStep 1].
Definition race_defect : bool := m_defect (mrun (minit false 0 2 race_progs) race_sched).

(** one scheduler thread is enough: the monitor thread scans while the listener's insert is in flight *)
Definition scan_race_progs : list (nat * list instr) := [(0%nat, [IWork 1])].
Definition scan_race_sched : list act := [AStep 0; AScan].
Definition scan_race_defect : bool := m_defect (mrun (minit false 0 1 scan_race_progs) scan_race_sched).

Definition has_ev (f : mev -> bool) (l : list mev) : bool := existsb f l.

Definition judge (c : mcase) : verdict :=
  if mc_stress c then
    let clean := match mc_outcome c with OClean => true | _ => false end in
    (* with a monitor: two scheduler threads race with each other, and any scheduler thread with the monitor thread *)
    let racy := mc_preemptive c && ((Nat.leb 2 (mc_threads c) && race_defect) || scan_race_defect) in
    {| v_corr := racy || clean;
       v_prop := clean;
       v_tags := (if racy then ["monitor_set_unsynchronised"] else ["control_without_monitor"]) ++ ["stress"]
                 ++ match mc_outcome c with OClean => ["clean"] | OAborted => ["aborted"] | ODiverged => ["diverged"] | OWrong => ["wrong"] end;
       v_note := "" |}
  else if match mc_outcome c with OClean => false | _ => true end then
    (* the process died or hung while one scheduler thread and the monitor thread used the set *)
    {| v_corr := scan_race_defect; v_prop := false;
       v_tags := (if scan_race_defect then ["monitor_set_unsynchronised"] else []) ++ ["trace"]
                 ++ match mc_outcome c with OAborted => ["aborted"] | ODiverged => ["diverged"] | _ => [] end;
       v_note := "" |}
  else
    let k := orun (mc_progs c) (mc_evs c) in
    {| v_corr := corr_c22 (mc_progs c) (mc_evs c);
       v_prop := ok_c22 (mc_progs c) (mc_evs c) (mc_results c) (mc_nodes_left c) (mc_first_then c);
       v_tags := ["trace"]
                 ++ (if wf_bodies (progs0 (mc_progs c)) then ["wf"] else ["malformed"])
                 ++ (if Nat.leb 1 (o_preempts k) then ["preempted"] else [])
                 ++ (if Nat.leb 2 (o_preempts k) then ["preempted_twice"] else [])
                 ++ (if has_ev (fun e => match e with MChange _ _ CSyscall _ _ => true | _ => false end) (mc_evs c) then ["syscall"] else [])
                 ++ (if has_ev (fun e => match e with MYield _ => true | _ => false end) (mc_evs c) then ["yield"] else [])
                 ++ (match mc_first_then c with Some _ => ["order_demanded"] | None => [] end);
       v_note := "" |}.
