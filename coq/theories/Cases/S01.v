From OCV Require Export Cases.Pool.
Definition judge := judge_self po_c01.
