(** Judge for C26 cases. A DFS case carries a small multi-threaded program and the set of outcomes
    the real source reached over all interleavings; correspondence = that set against the model's
    [all_outcomes] (equal when the enumeration was complete, included otherwise); property = the
    oracle on every implementation outcome. A barrier case carries the number of distinct
    addresses real threads received (timing-dependent when the code races, so compared as
    "one" / "more than one"). The model is the code as it is: [Racy]. *)
From OCV Require Import Base.Prelude Misc.Beans Misc.BeansOracle.
From Coq Require Import String.
Open Scope string_scope.

Inductive bcase :=
| BDfs (seq0 : bool) (progs : list (list call)) (finals : list Z) (complete : bool)
       (impl : list (option outcome))
| BBarrier (k : nat) (distinct : Z) (later_same : bool)
| BLost.

Definition the_proto : proto := Racy.

Definition judge (c : bcase) : verdict :=
  match c with
  | BDfs seq0 progs finals complete impl =>
      let runs := all_runs the_proto seq0 progs finals in
      let model := map (option_map fst) runs in
      {| v_corr := wf_C26 progs finals && corr_sets complete model impl;
         v_prop := ok_C26 progs finals impl;
         v_tags := (if some_run fst runs then ["factory_published_twice"] else [])
                   ++ (if some_run snd runs then ["get_or_default_check_then_insert"] else [])
                   ++ (if complete then [] else ["incomplete"])
                   ++ (if (1 <? distinct_outcomes model)%nat then ["several_outcomes"] else ["one_outcome"])
                   ++ (if seq0 then ["warm"] else ["cold"]);
         v_note := "" |}
  | BBarrier k d same =>
      let '(md, msame) := barrier_model the_proto k in
      {| v_corr := Bool.eqb (d =? 1)%Z (md =? 1)%Z && (1 <=? d)%Z && (d <=? Z.of_nat k)%Z && Bool.eqb same msame;
         v_prop := (d =? 1)%Z && same;
         v_tags := ["barrier"] ++ (if (1 <? md)%Z then ["get_or_default_check_then_insert"] else []);
         v_note := "" |}
  | BLost => {| v_corr := false; v_prop := false; v_tags := ["lost"]; v_note := "" |}
  end.
