(** Judge for C23 cases. *)
From OCV Require Import Base.Prelude Misc.StackGrow Misc.StackGrowOracle.
From Coq Require Import String.
Open Scope string_scope.

Record gcase := { g_ctx : ctx; g_stack : Z; g_prog : prog; g_impl : list event }.

Definition judge (c : gcase) : verdict :=
  let model := run_C23 (g_ctx c) (g_stack c) (g_prog c) in
  {| v_corr := list_eqb event_eqb model (g_impl c);
     v_prop := ok_C23 (g_ctx c) (g_impl c);
     v_tags := (if existsb (fun e => match e with EGrow _ _ true _ _ _ => true | _ => false end) model then ["grew"] else [])
               ++ (if existsb (fun e => match e with EGrow _ _ false _ _ _ => true | _ => false end) model then ["in_place"] else [])
               ++ (if existsb (fun e => match e with ECaught => true | _ => false end) model then ["caught"] else [])
               ++ (if wf_C23 (g_ctx c) (g_stack c) (g_prog c) then [] else ["malformed"]);
     v_note := "" |}.
