(** Judges for pool histories. *)
From OCV Require Export Base.Prelude Misc.Time Queue.PMap Queue.OWS Coroutine.Co Coroutine.CoOracle Sched.Sched Sched.Pool Sched.PoolOracle Sched.PoolWf Sched.PoolRun Sched.PoolTerm Sched.PoolIdleRun.
From Coq Require Import String.
Open Scope string_scope.

Record pcase := { pc_clock : Z; pc_cfgs : list (Z * Z * Z); pc_ops : list pop; pc_impl : list pobs }.

Definition model_obs (c : pcase) : list pobs := cut_div (canon_obs [] (prun (pw0 (pc_clock c) (pc_cfgs c)) (pc_ops c))).

Definition p_has_ev (f : ev -> bool) (m : list pobs) : bool := existsb (fun o => existsb f (pevs o)) m.

Definition pool_tags (m : list pobs) : list string :=
  (if p_has_ev (fun e => match e with EB _ (BYield _ _) => true | _ => false end) m then ["task_yield"] else [])
  ++ (if p_has_ev (fun e => match e with EB _ (BPanic _) => true | _ => false end) m then ["task_panic"] else [])
  ++ (if p_has_ev (fun e => match e with EL _ _ (CbChanged (Complete _)) _ => true | _ => false end) m then ["worker_exit"] else [])
  ++ (if p_has_ev (fun e => match e with EL _ _ (CbChanged Cancelled) _ => true | _ => false end) m then ["worker_cancelled"] else [])
  ++ (if p_has_ev (fun e => match e with EL _ _ (CbChanged (Syscall _ _ _)) _ => true | _ => false end) m then ["syscall"] else [])
  ++ (if existsb (fun o => match o with OWait (WVal (TErr TMCancelled)) => true | _ => false end) m then ["cancelled_result"] else [])
  ++ (if existsb (fun o => match o with OWait (WVal (TErr TMStopped)) => true | _ => false end) m then ["stopped_result"] else [])
  ++ (if existsb (fun o => match o with OWait (WVal (TOk _)) => true | _ => false end) m then ["value"] else [])
  ++ (if existsb (fun o => match o with OWait WTimeout => true | _ => false end) m then ["wait_timeout"] else [])
  ++ (if existsb (fun o => match o with OStop StopOk _ => true | _ => false end) m then ["stop_ok"] else [])
  ++ (if existsb (fun o => match o with OStop StopTimeout _ => true | _ => false end) m then ["stop_timeout"] else [])
  ++ (if existsb (fun o => match o with OSubmit false => true | _ => false end) m then ["rejected"] else [])
  ++ (if existsb (fun o => match o with OPass PDiverged _ | OStop StopDiverged _ => true | _ => false end) m then ["diverged"] else [])
  ++ (if existsb (fun o => match o with OPass (PLeft 0) _ => true | _ => false end) m then ["deadline_cut"] else []).

Definition judge_corr (c : pcase) : verdict :=
  let m := model_obs c in
  {| v_corr := list_eqb pobs_eqb m (pc_impl c); v_prop := true; v_tags := pool_tags m; v_note := "" |}.

Definition defect_name (d : nat) : string :=
  match d with
  | 1 => "worker_dropped_by_cancel" | 2 => "stolen_worker_wedges_pool" | 3 => "result_in_stealing_pool"
  | _ => "other_defect"
  end%nat.

(** is the history inside the premises of the single-pool theorems (Sched/PoolProofs)? *)
Definition premise_tags (c : pcase) : list string :=
  match pc_cfgs c with
  | [cfg] =>
      if wf_pool1 (pc_clock c) cfg (pc_ops c)
      then "wf_pool1" :: (if durs_ok (pc_ops c) then ["wf_pool1t"] else [])
                      ++ (if wf_pool1c (pc_clock c) cfg (pc_ops c) then ["wf_pool1c"] else [])
                      ++ (if nodiv (pw0 (pc_clock c) [cfg]) (pc_ops c) then ["nodiv"] else [])
      else []
  | _ => []
  end.

Definition judge_with (pick : potr -> bool) (c : pcase) : verdict :=
  let m := model_obs c in
  let x := pfinal (pw0 (pc_clock c) (pc_cfgs c)) (pc_ops c) in
  let '(t, shape) := judge_pool (pc_clock c) (pc_cfgs c) (pc_ops c) (pc_impl c) in
  {| v_corr := list_eqb pobs_eqb m (pc_impl c); v_prop := pick t && shape;
     v_tags := map defect_name (pw_defects x) ++ premise_tags c ++ pool_tags m; v_note := diff_note pobs_eqb m (pc_impl c) |}.

(** the oracle on the model's own run (used to search and shrink witnesses without the harness) *)
Definition judge_self (pick : potr -> bool) (c : pcase) : verdict :=
  let m := model_obs c in
  let x := pfinal (pw0 (pc_clock c) (pc_cfgs c)) (pc_ops c) in
  let '(t, shape) := judge_pool (pc_clock c) (pc_cfgs c) (pc_ops c) m in
  {| v_corr := true; v_prop := pick t && shape; v_tags := map defect_name (pw_defects x) ++ pool_tags m; v_note := "" |}.
