(** Judge for waits made from inside a task (area pool, op co_join). *)
From OCV Require Export Base.Prelude Misc.Time Coroutine.Co Sched.Pool Sched.PoolOracle Sched.CoWait.
From Coq Require Import String.
Open Scope string_scope.

Record cwcase := { cq : list (nat * tres); cfin : list (nat * tres); ctarget : nat;
                   cimpl : cwres; cran : list nat; cfuel : nat }.

Definition cwres_eqb (a b : cwres) : bool :=
  match a, b with CWVal x, CWVal y => tres_eqb x y | CWTimedOut, CWTimedOut => true | _, _ => false end.

Definition judge (c : cwcase) : verdict :=
  let s := {| cw_queue := cq c; cw_results := cfin c; cw_ran := [] |} in
  let '(m, s') := co_wait (cfuel c) (ctarget c) s in
  let own := match cw_lookup (ctarget c) (cfin c) with Some r => Some r | None => cw_lookup (ctarget c) (cq c) end in
  {| v_corr := cwres_eqb m (cimpl c) && list_eqb Nat.eqb (cw_ran s') (cran c);
     (* the property, from the observation alone: a value is the wanted task's own outcome; a timeout
        only for a task that is neither finished nor queued *)
     v_prop := match cimpl c, own with
               | CWVal v, Some r => tres_eqb v r
               | CWVal _, None => false
               | CWTimedOut, Some _ =>
                   (* only when the wait time was zero and the task was neither finished nor next in line *)
                   Nat.eqb (cfuel c) 1 && (match cw_lookup (ctarget c) (cfin c) with None => true | Some _ => false end)
                   && negb (match cq c with (k, _) :: _ => Nat.eqb (ctarget c) k | [] => false end)
               | CWTimedOut, None => true
               end;
     v_tags := ["co_join"] ++ (match cimpl c with CWTimedOut => ["co_join_timeout"] | _ => [] end)
               ++ (if Nat.ltb 1 (List.length (cran c)) then ["ran_others_inline"] else []);
     v_note := "" |}.
