(** Judge for the facade layer of C02 (cases run through the `open-coroutine` crate and the cdylib's
    C ABI by `harness-e2e`), and the judge of the whole property: pool histories and core join-handle
    cases ([Cases.C02]) next to facade cases. *)
From OCV Require Export Cases.C02 Sched.Facade Sched.FacadeOracle.
From Coq Require Import String.
Open Scope string_scope.

(** one facade call as seen by the harness: what was called, when, when the task's body had produced
    its outcome ([None]: not by the time the call returned); [fj_ambiguous]: the task finished so close
    to the call's deadline that either answer is right; [fj_lag_ms]: for a call that handed the
    outcome out, how long after both the call and the task's end it returned *)
Record fjoin := { fj_call : fjcall; fj_ambiguous : bool; fj_lag_ms : Z; fj_impl : fres }.
Record ftask := { ft_out : uout; ft_joins : list fjoin }.
Record acase := { ac_now : Z; ac_dur : Z; ac_hs : list ahandle; ac_flags : list aflag;
                  ac_ambiguous : bool; ac_impl : ares }.
(** [chk]: named checks the runner computes from the same observations (e.g. "the sleeps of the N
    tasks overlapped", "the cancelled task's body did not run") *)
Inductive fcase := FJoins (ts : list ftask) (chk : list (string * bool)) | FAny (a : acase).

(** the address is not observable; the theorems hold for every address the ABI can carry *)
Definition model_ptr : Z := 4096.
Definition max_lag_ms : Z := 2000.

Fixpoint ft_corr (o : uout) (s : fstate) (js : list fjoin) : bool :=
  match js with
  | [] => true
  | j :: rest =>
      if fj_ambiguous j && negb (fs_consumed s) then
        match fj_impl j with
        | FFailed => ft_corr o s rest
        | r => fres_eqb r (own_outcome o) && ft_corr o {| fs_consumed := true; fs_freed := true |} rest
        end
      else
        let '(r, s') := facade_step FNow true model_ptr o s (fc_call (fj_call j)) (fc_now (fj_call j)) (fc_fin (fj_call j)) in
        fres_eqb r (fj_impl j) && ft_corr o s' rest
  end.

(** a call whose timing is ambiguous is judged as if the task had not finished (a failure is acceptable,
    an outcome must still be the task's own) *)
Definition ft_prop (t : ftask) : bool :=
  fprop (ft_out t) false
        (map (fun j => (if fj_ambiguous j
                        then {| fc_call := fc_call (fj_call j); fc_now := fc_now (fj_call j); fc_fin := None |}
                        else fj_call j, fj_impl j)) (ft_joins t))
  && forallb (fun j => if is_outcome (fj_impl j) then fj_lag_ms j <=? max_lag_ms else true)%Z (ft_joins t).

Definition has_join (f : ftask -> fjoin -> bool) (ts : list ftask) : bool :=
  existsb (fun t => existsb (f t) (ft_joins t)) ts.

Definition judge_fjoins (ts : list ftask) (chk : list (string * bool)) : verdict :=
  {| v_corr := forallb (fun t => ft_corr (ft_out t) fs0 (ft_joins t)) ts;
     v_prop := forallb ft_prop ts && forallb snd chk;
     v_tags := (["facade"]
       ++ (if existsb (fun t => match ft_out t with URet _ => true | _ => false end) ts then ["facade_value"] else [])
       ++ (if existsb (fun t => match ft_out t with UPanic (PayStatic _) => true | _ => false end) ts then ["facade_panic_static"] else [])
       ++ (if existsb (fun t => match ft_out t with UPanic (PayString _) => true | _ => false end) ts then ["facade_panic_string"] else [])
       ++ (if existsb (fun t => match ft_out t with UPanic PayOther => true | _ => false end) ts then ["facade_panic_other"] else [])
       ++ (if has_join (fun _ j => fres_eqb (fj_impl j) FFailed) ts then ["facade_timeout"] else [])
       ++ (if has_join (fun _ j => is_outcome (fj_impl j)
                                   && match fc_call (fj_call j) with FCTimeout d => (d <=? 1)%Z | FCJoin => false end) ts
           then ["facade_zero_duration_outcome"] else [])
       ++ (if has_join (fun _ j => is_outcome (fj_impl j)
                                   && match fc_call (fj_call j) with FCTimeout d => (U64MAX <? d)%Z | FCJoin => false end) ts
           then ["facade_oversized_duration_outcome"] else [])
       ++ (if has_join (fun _ j => fj_ambiguous j) ts then ["facade_ambiguous_timing"] else [])
       ++ map fst chk)%list;
     v_note := join "," (map (fun c => "failed-check:" ++ fst c) (filter (fun c => negb (snd c)) chk)) |}.

Definition any_defect : string := "any_join_drops_panicked_task".

Definition judge_fany (a : acase) : verdict :=
  let m := any_model FNow (ac_now a) (ac_dur a) (ac_hs a) in
  let dl := any_deadline (ac_now a) (ac_dur a) in
  {| v_corr := if ac_ambiguous a
               then match ac_impl a with
                    | AVal v => existsb (fun h => match ah_out h with URet x => String.eqb x v | _ => false end
                                                  && fin_by (ac_now a) dl h) (ac_hs a)
                    | r => ares_eqb m r
                    end
               else ares_eqb m (ac_impl a);
     v_prop := any_prop (ac_flags a) (ac_impl a);
     v_tags := (["facade"; "facade_any"]
       ++ (if any_swallows (ac_now a) (ac_dur a) (ac_hs a) then [any_defect] else [])
       ++ (match ac_impl a with AVal _ => ["facade_any_value"] | AFailed => ["facade_any_timeout"]
                              | ADiverged => ["facade_any_diverged"] | ANone => ["facade_any_none"] end))%list;
     v_note := "" |}.

Definition judge_facade (c : fcase) : verdict :=
  match c with FJoins ts chk => judge_fjoins ts chk | FAny a => judge_fany a end.

(** every kind of C02 case *)
Definition allcase : Type := ((pcase + jcase) + fcase)%type.
Definition of_pool (p : pcase) : allcase := inl (inl p).
Definition of_join (j : jcase) : allcase := inl (inr j).
Definition of_facade (f : fcase) : allcase := inr f.

Definition judge (c : allcase) : verdict :=
  match c with
  | inl x => OCV.Cases.C02.judge x
  | inr f => judge_facade f
  end.
