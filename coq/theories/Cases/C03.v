(** Judges for C03: sequential histories (lockstep oracle) and concurrent programs (set of
    reachable outcomes of exhaustively enumerated interleavings). *)
From OCV Require Export Base.Prelude Queue.PMap Queue.OWS Queue.OWSOracle Cases.OWS Queue.Conc.
From OCV Require Queue.PWS.
From OCV Require Export Cases.PWS.
From Coq Require Import String.
Open Scope string_scope.

Record ccase := { cc_plain : bool; cc_progs : list (list call); cc_impl : list outcome; cc_complete : bool }.

Definition opt_eqb (a b : option item) : bool := option_eqb Z.eqb a b.
Definition outcome_eqb (a b : outcome) : bool :=
  list_eqb (list_eqb opt_eqb) (o_res a) (o_res b) && (o_len a =? o_len b)%Z && list_eqb Z.eqb (o_drained a) (o_drained b).

Definition subset (a b : list outcome) : bool := forallb (fun x => existsb (outcome_eqb x) b) a.

(** the plain queue has one injector: every priority is the same *)
Definition flatten_prio (plain : bool) (p : list call) : list call :=
  if plain then map (fun c => match c with CPush _ x => CPush 0 x | CPop => CPop end) p else p.

Definition nkeys (progs : list (list call)) : nat :=
  List.length (flat_map (fun p => flat_map (fun c => match c with CPush _ _ => [tt] | CPop => [] end) p) progs).

Definition model_outcomes (c : ccase) : list outcome :=
  let progs := map (flatten_prio (cc_plain c)) (cc_progs c) in
  all_outcomes (S (fold_right Nat.add O (map (prog_points (nkeys progs)) progs))) (mk_cst progs).

Definition judge_conc (c : ccase) : verdict :=
  let m := model_outcomes c in
  {| v_corr := cc_complete c && subset m (cc_impl c) && subset (cc_impl c) m;
     v_prop := forallb (outcome_ok (pushed_of (cc_progs c))) (cc_impl c);
     v_tags := ["interleavings"] ++ (if existsb (fun o => negb (Z.eqb (o_len o) 0)) m then ["items_left"] else [])
               ++ (if existsb (fun o => existsb (existsb (fun r => match r with None => true | _ => false end)) (o_res o)) m
                   then ["empty_pop"] else []);
     v_note := "" |}.

Definition judge (c : (qcase + ccase) + pcase) : verdict :=
  match c with
  | inl (inl q) => judge_with o_c03 q
  | inl (inr cc) => judge_conc cc
  | inr p => judge_pws_c03 p
  end.
