From OCV Require Export Base.Prelude Syscall.SockIO Syscall.SockIOOracle Cases.SockIO.
Definition judge := judge_with ok_C17.
