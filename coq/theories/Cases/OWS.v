(** Judges for the ordered-queue histories; one per property, sharing the lockstep oracle. *)
From OCV Require Import Base.Prelude Queue.PMap Queue.OWS Queue.OWSOracle.
From Coq Require Import String.
Open Scope string_scope.

Record qcase := { q_locals : nat; q_cap : Z; q_ops : list op; q_impl : list obs }.

Definition tag_name (t : nat) : string :=
  match t with
  | 0 => "overflow" | 1 => "steal" | 2 => "tick61" | 3 => "idle" | 4 => "stale" | 5 => "sharedpop"
  | _ => "other"
  end%nat.

Definition judge_with (pick : ostate -> bool) (c : qcase) : verdict :=
  let '(st, shape) := judge_all (q_locals c) (q_cap c) (q_ops c) (q_impl c) in
  {| v_corr := o_sync st && shape; v_prop := pick st;
     v_tags := map tag_name (run_tags (init (q_locals c) (q_cap c)) (q_ops c) []); v_note := "" |}.
