(** Judge for C27 cases. *)
From OCV Require Export Base.Prelude Net.Uring Net.UringOracle.
From Coq Require Import String.
Open Scope string_scope.

Record case27 := { c_rs : list rspec; c_cs : list cspec; c_script : list ev; c_impl : obs }.

Definition tag_name (t : tag) : string :=
  match t with
  | TTimeout => "timed_out_call_keeps_slot"
  end.

Fixpoint dedup (l : list tag) : list tag :=
  match l with
  | [] => []
  | t :: l' => if existsb (tag_eqb t) l' then dedup l' else t :: dedup l'
  end.

Definition judge (c : case27) : verdict :=
  let m := run_C27 (c_rs c) (c_cs c) (c_script c) in
  {| v_corr := obs_eqb m (c_impl c);
     v_prop := ok_C27 (c_rs c) (c_cs c) (c_script c) (c_impl c);
     v_tags := map tag_name (dedup (tags_C27 (c_rs c) (c_cs c) (c_script c)));
     v_note := (if wf_C27 (c_rs c) (c_cs c) (c_script c) then "wf" else "notwf")
               ++ (if no_defect (c_rs c) (c_cs c) then "" else "-defect") |}.
