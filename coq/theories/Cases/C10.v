(** Judge for scheduler histories (C10). *)
From OCV Require Export Base.Prelude Misc.Time Queue.PMap Queue.OWS Coroutine.Co Coroutine.CoOracle Sched.Sched Sched.SchedOracle.
From Coq Require Import String.
Open Scope string_scope.

Record scase := { sc_clock : Z; sc_nl : nat; sc_ops : list sop; sc_impl : list sobs }.

Definition evs_of (o : sobs) : list ev := match o with SPass _ e => e | SCall _ e => e | SUnit => [] end.
Definition s_has_ev (f : ev -> bool) (m : list sobs) : bool := existsb (fun o => existsb f (evs_of o)) m.

Definition sched_tags (m : list sobs) : list string :=
  (if s_has_ev (fun e => match e with EB _ (BYield _ (RDelay _)) | EB _ (BYield _ (RUntil _)) => true | _ => false end) m then ["delay"] else [])
  ++ (if s_has_ev (fun e => match e with EL _ _ (CbChanged (Syscall _ _ STimeout)) _ => true | _ => false end) m then ["syscall_timeout"] else [])
  ++ (if s_has_ev (fun e => match e with EL _ _ (CbChanged (Syscall _ _ SCallback)) _ => true | _ => false end) m then ["syscall_callback"] else [])
  ++ (if s_has_ev (fun e => match e with EL _ _ (CbChanged Ready) (Suspend _ _) => true | _ => false end) m then ["wake"] else [])
  ++ (if s_has_ev (fun e => match e with EL _ _ (CbChanged Cancelled) _ => true | _ => false end) m then ["self_cancel"] else [])
  ++ (if existsb (fun o => match o with SPass (PassOk 0 _) _ => true | _ => false end) m then ["deadline_cut"] else [])
  ++ (if existsb (fun o => match o with SPass (PassOk _ (_ :: _ :: _)) _ => true | _ => false end) m then ["multi_result"] else [])
  ++ (if existsb (fun o => match o with SPass (PassOk _ _) _ => false | SPass _ _ => true | _ => false end) m then ["pass_error"] else [])
  ++ (if s_has_ev (fun e => match e with EB _ (BPanic _) => true | _ => false end) m then ["panic"] else []).

Definition judge (c : scase) : verdict :=
  let m := srun (sched0 (sc_clock c) (sc_nl c)) (sc_ops c) in
  let '(ok, shape) := judge_sched (sc_clock c) (sc_ops c) (sc_impl c) in
  {| v_corr := list_eqb sobs_eqb m (sc_impl c);
     v_prop := ok && shape;
     v_tags := sched_tags m;
     v_note := "" |}.
