(** Judge for C25 cases: correspondence (model = implementation) and property (oracle on the
    implementation's observations), both computed here. *)
From OCV Require Import Base.Prelude Misc.Local Misc.LocalOracle.
From Coq Require Import String.
Open Scope string_scope.

Record lcase := { l_cos : nat; l_ops : list op; l_impl : list obs }.

Definition judge (c : lcase) : verdict :=
  {| v_corr := list_eqb obs_eqb (run_C25 (l_cos c) (l_ops c)) (l_impl c);
     v_prop := ok_C25 (l_cos c) (l_ops c) (l_impl c);
     v_tags := if wf_C25 (l_cos c) (l_ops c) then [] else ["malformed"];
     v_note := "" |}.
