(** Judges for the hooked socket I/O cases; one per property, sharing model and observation. *)
From OCV Require Import Base.Prelude Syscall.SockIO Syscall.SockIOOracle.
From Coq Require Import String.
Open Scope string_scope.
Open Scope Z_scope.

Definition scase := (cfg * result)%type.

Definition has_err (e : Z) (reqs : list request) : bool := existsb (fun q => q_err q =? e) reqs.

(** branch tags of the MODEL run *)
Definition tags_of (c : cfg) : list string :=
  match run_obs c with
  | RObs o =>
      let reqs := o_reqs o in
      (if has_err EAGAIN reqs then ["wouldblock"] else [])
      ++ (if has_err EINTR reqs then ["eintr"] else [])
      ++ (if existsb (fun q => negb (q_err q =? 0) && negb (q_err q =? EAGAIN) && negb (q_err q =? EINTR)) reqs
          then ["harderror"] else [])
      ++ (if (1 <? List.length (filter (fun q => (0 <? q_moved q)%nat) reqs))%nat then ["multi_transfer"] else [])
      ++ (if existsb (fun q => match q_ranges q with (_, S _, _) :: _ => true | _ => false end) reqs
          then ["shifted_head"] else [])
      ++ (match o_waits o with [] => [] | _ => ["waited"] end)
      ++ (if existsb (fun w => w =? 0) (o_waits o) then ["deadline"] else [])
      ++ (if o_ret o =? -1 then ["minus_one"] else [])
      ++ (if (o_ret o =? 0) then ["zero"] else [])
      ++ (if c_nb c then ["nonblocking"] else [])
      ++ (if defect_nonblocking_fd_waits c then ["nonblocking_fd_waits"] else [])
  | RAborted => ["model_abort"]
  | _ => ["model_stuck"]
  end.

Definition judge_with (ok : cfg -> result -> bool) (c : scase) : verdict :=
  let '(cf, impl) := c in
  {| v_corr := result_eqb (run_obs cf) impl;
     v_prop := ok cf impl;
     v_tags := tags_of cf;
     v_note := if wf cf then "" else "not-wf" |}.
