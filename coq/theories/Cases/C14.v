(** Judge for C14 cases: each case is a list of calls with their start clocks and the observed
    results. *)
From OCV Require Import Base.Prelude Net.Wait Syscall.Timed Syscall.TimedOracle.
From Coq Require Import String.
Open Scope string_scope.

Fixpoint corr_all (ms : list mobs) (os : list obs) : bool :=
  match ms, os with
  | [], [] => true
  | m :: ms', o :: os' => corr_one m o && corr_all ms' os'
  | _, _ => false
  end.

Definition call_tags (cs : call * Z) : list string :=
  let '(c, start) := cs in
  (match c with
   | Sleep _ => "sleep" | Usleep _ => "usleep" | Nanosleep _ _ => "nanosleep"
   | Poll _ => "poll" | Select _ _ => "select" | CondWait _ _ => "cond"
   end)
  :: (if invalid c then ["einval"]
      else (if (U64MAX <? start + requested c start)%Z then ["saturate"] else [])
           ++ (if (requested c start =? 0)%Z then ["zero"] else [])
           ++ (if (10000000 <? requested c start)%Z then ["multi_slice"] else [])).

Definition judge (c : list (call * Z) * list obs) : verdict :=
  let '(cs, impl) := c in
  {| v_corr := corr_all (run_C14 cs) impl;
     v_prop := ok_C14 cs impl;
     v_tags := flat_map call_tags cs;
     v_note := if wf_C14 cs then "wf" else "malformed" |}.
