From OCV Require Export Cases.Pool Sched.PoolBystander.
(** C13 = the tracker's clauses (a task cancelled before it starts never runs, its waiter is settled)
    and the bystander clause (a worker is cancelled only while carrying a task whose cancel was asked) *)
Definition judge (c : pcase) : verdict :=
  let v := judge_with po_c13 c in
  {| v_corr := v_corr v; v_prop := v_prop v && bystander_ok (pc_ops c) (pc_impl c);
     v_tags := v_tags v; v_note := v_note v |}.
