From OCV Require Export Cases.Pool.
Definition judge := judge_with po_c02.
