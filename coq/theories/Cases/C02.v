From OCV Require Export Cases.Pool Sched.JoinHandle.
From Coq Require Import String.
Open Scope string_scope.

(** join-handle cases: per task its outcome and the joins made on its handle; each join with what
    the harness saw (finished before the call / only after it) and what the call returned *)
Record jjoin := { jo_join : jhjoin; jo_ambiguous : bool; jo_impl : jhres }.
Record jtask := { jt_res : tres; jt_joins : list jjoin }.
Record jcase := { jc_tasks : list jtask }.

Definition jhres_eqb (a b : jhres) : bool :=
  match a, b with
  | JHVal x, JHVal y => tres_eqb x y | JHTimedOut, JHTimedOut => true | JHInvalid, JHInvalid => true | _, _ => false
  end.

(** model against implementation, join by join; a join during which the task finished may go either way *)
Fixpoint jt_corr (r : tres) (consumed : bool) (js : list jjoin) : bool :=
  match js with
  | [] => true
  | j :: rest =>
      if jo_ambiguous j && negb consumed then
        match jo_impl j with
        | JHVal v => tres_eqb v r && jt_corr r true rest
        | JHTimedOut => jt_corr r consumed rest
        | JHInvalid => false
        end
      else
        let '(o, c) := jh_step true r consumed (jo_join j) in
        jhres_eqb o (jo_impl j) && jt_corr r c rest
  end.

(** the property, read off the observations alone: a value handed out is the task's own outcome and
    is handed out once; a join made after the task finished (and before its result was handed out)
    returns it whatever its deadline; a timeout is reported only for a task that had not finished *)
Fixpoint jt_prop (r : tres) (handed : bool) (js : list jjoin) : bool :=
  match js with
  | [] => true
  | j :: rest =>
      let fin_before := match jj_fin_at (jo_join j) with Some f => f <=? jj_now (jo_join j) | None => false end%Z in
      match jo_impl j with
      | JHVal v => tres_eqb v r && negb handed && jt_prop r true rest
      | JHTimedOut => (negb fin_before || handed) && jt_prop r handed rest
      | JHInvalid => false
      end
  end.

Definition judge_join (c : jcase) : verdict :=
  {| v_corr := forallb (fun t => jt_corr (jt_res t) false (jt_joins t)) (jc_tasks c);
     v_prop := forallb (fun t => jt_prop (jt_res t) false (jt_joins t)) (jc_tasks c);
     v_tags := ["join_handle"]
               ++ (if existsb (fun t => existsb (fun j => jhres_eqb (jo_impl j) JHTimedOut) (jt_joins t)) (jc_tasks c) then ["join_timeout"] else [])
               ++ (if existsb (fun t => existsb (fun j => (jj_deadline (jo_join j) <=? jj_now (jo_join j))%Z
                                                           && negb (jhres_eqb (jo_impl j) JHTimedOut)) (jt_joins t)) (jc_tasks c)
                   then ["expired_deadline_value"] else [])
               ++ (if existsb (fun t => match jt_res t with TErr _ => true | _ => false end) (jc_tasks c) then ["task_panic"] else []);
     v_note := "" |}.

Definition judge (c : pcase + jcase) : verdict :=
  match c with
  | inl p => judge_with po_c02 p
  | inr j => judge_join j
  end.
