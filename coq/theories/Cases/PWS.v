(** Judges for the plain-queue histories; one per property (C03, C04, C06), sharing the lockstep
    oracle of Queue/PWSOracle. To be used from the C03/C04/C06 checks next to the ordered-queue
    judges ([Cases.OWS]). *)
From OCV Require Export Base.Prelude.
(* not re-exported: the constructor names of PWS coincide with those of OWS; generated case terms
   use qualified names (PWS.GPush ...) so that both can be used from one Cases file *)
From OCV Require Import Queue.PMap Queue.PWS Queue.PWSOracle.
From Coq Require Import String.
Open Scope string_scope.

Record pcase := { p_locals : nat; p_cap : Z; p_ops : list op; p_impl : list obs }.

Definition pws_tag_name (t : nat) : string :=
  match t with
  | 0 => "overflow" | 1 => "steal" | 2 => "tick61" | 3 => "idle" | 5 => "sharedpop" | 6 => "steal_many"
  | _ => "other"
  end%nat.

(** first index at which the model's own run differs from the observed one (diagnostics) *)
Definition pws_note (c : pcase) : string :=
  diff_note obs_eqb (run (init (p_locals c) (p_cap c)) (p_ops c)) (p_impl c).

Definition judge_pws_with (pick : ostate -> bool) (c : pcase) : verdict :=
  let '(st, shape) := judge_all (p_locals c) (p_cap c) (p_ops c) (p_impl c) in
  {| v_corr := o_sync st && shape; v_prop := pick st;
     (* "wf": the history satisfies the premise of the theorems ([wf_hist]) *)
     v_tags := (if wf_hist (p_locals c) (p_cap c) (p_ops c) then ["wf"] else [])
               ++ map pws_tag_name (run_tags (init (p_locals c) (p_cap c)) (p_ops c) []);
     v_note := pws_note c |}.

Definition judge_pws_c03 := judge_pws_with o_c03.
Definition judge_pws_c04 := judge_pws_with o_c04.
Definition judge_pws_c06 := judge_pws_with o_c06.
