(** Judge for C15 histories: one pool [(0, mx, 0)] on virtual time. Correspondence = the pool
    model's canonical observations equal the harness's; property = the C15 oracle on the
    harness's observations. *)
From OCV Require Export Cases.Pool Sched.C15Oracle.
From Coq Require Import String.
Open Scope string_scope.

Definition c15_mx (c : pcase) : Z := match pc_cfgs c with [(_, mx, _)] => mx | _ => 0%Z end.

(** per judged pass: (workers legitimately blocked, some task pending) — statistics only *)
Fixpoint stats15 (mx : Z) (k : trk) (ops : list pop) (obs : list pobs) : list (Z * bool) :=
  match ops, obs with
  | o :: ops', ob :: obs' =>
      match step15 mx k o ob with
      | Some k' =>
          (if Nat.ltb (k_judged k) (k_judged k') then [(alive k', pending k')] else [])
          ++ stats15 mx k' ops' obs'
      | None => []
      end
  | _, _ => []
  end.

Definition c15_tags (c : pcase) : list string :=
  let st := stats15 (c15_mx c) (trk0 (pc_clock c)) (pc_ops c) (pc_impl c) in
  (if wf15 (pc_ops c) then ["wf"] else ["freeform"])
  ++ (if existsb (fun s => (2 <=? fst s)%Z) st then ["overlap2"] else [])
  ++ (if existsb (fun s => (1 <=? fst s)%Z && negb (snd s)) st then ["blocked_none_pending"] else [])
  ++ (if existsb (fun s => snd s) st then ["pending_at_max"] else [])
  ++ (if existsb (fun s => (fst s =? 0)%Z && negb (snd s)) st then ["all_done"] else [])
  ++ (if Nat.leb 2 (List.length st) then ["passes2"] else []).

Definition judge (c : pcase) : verdict :=
  let m := model_obs c in
  let x := pfinal (pw0 (pc_clock c) (pc_cfgs c)) (pc_ops c) in
  {| v_corr := list_eqb pobs_eqb m (pc_impl c);
     v_prop := ok_c15 (c15_mx c) (pc_clock c) (pc_ops c) (pc_impl c)
               && Nat.eqb (List.length (pc_impl c)) (List.length (pc_ops c));
     v_tags := c15_tags c ++ map defect_name (pw_defects x) ++ pool_tags m;
     v_note := diff_note pobs_eqb m (pc_impl c) |}.
