From OCV Require Export Base.Prelude Queue.PMap Queue.OWS Queue.OWSOracle Cases.OWS.
From OCV Require Queue.PWS.
From OCV Require Export Cases.PWS.
Definition judge (c : qcase + pcase) : verdict :=
  match c with inl q => judge_with o_c06 q | inr p => judge_pws_c06 p end.
