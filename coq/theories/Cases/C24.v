(** Judge for C24 cases. *)
From OCV Require Import Base.Prelude Misc.Trap Misc.TrapOracle.
From Coq Require Import String.
Open Scope string_scope.

Inductive tcase :=
| TSched (progs : list cprog) (impl : list obs)
| TBounds (probes : list (list seg * Z * bool))
| TLost.

Definition has_fault (p : cprog) : bool := existsb (fun i => match i with IFault _ => true | _ => false end) (p_body p).
Definition has_spout (p : cprog) : bool :=
  existsb (fun i => match i with IFault (FSpOut _) => true | _ => false end) (p_body p).

Definition judge (c : tcase) : verdict :=
  match c with
  | TSched progs impl =>
      {| v_corr := list_eqb obs_eqb (run_C24 progs) impl;
         v_prop := ok_C24 progs impl;
         v_tags := (if existsb has_fault progs then ["fault"] else ["healthy"])
                   ++ (if existsb has_spout progs then ["sp_outside"] else [])
                   ++ (if wf_C24 progs then [] else ["malformed"]);
         v_note := "" |}
  | TBounds probes =>
      {| v_corr := forallb corr_probe probes && negb (match probes with [] => true | _ => false end);
         v_prop := forallb ok_probe probes;
         v_tags := ["bounds"]; v_note := "" |}
  | TLost => {| v_corr := false; v_prop := false; v_tags := ["lost"]; v_note := "" |}
  end.
