(** Judge for C21 cases. *)
From OCV Require Export Base.Prelude Net.Selector Net.SelectorOracle.
From Coq Require Import String.
Open Scope string_scope.

Record case21 := { c_loops : nat; c_nfd : Z; c_ops : list op; c_impl : list obs }.

Definition judge (c : case21) : verdict :=
  {| v_corr := list_eqb obs_eqb (run_C21 (c_loops c) (c_nfd c) (c_ops c)) (c_impl c);
     v_prop := ok_C21 (c_loops c) (c_nfd c) (c_ops c) (c_impl c);
     v_tags := match tags_C21 (c_loops c) (c_nfd c) (c_ops c) with
               | [] => [] | _ => ["records_shared_across_pollers"] end;
     v_note := "" |}.
