(** Judge for C20 cases. *)
From OCV Require Export Base.Prelude Net.Selector Net.Token Net.TokenOracle.
From Coq Require Import String.
Open Scope string_scope.

Record case20 := { c_nfd : Z; c_ops : list op; c_impl : list obs }.

Definition judge (c : case20) : verdict :=
  let '(ct, st) := tags_C20 (c_nfd c) (c_ops c) in
  {| v_corr := list_eqb obs_eqb (run_C20 (c_nfd c) (c_ops c)) (c_impl c);
     v_prop := ok_C20 (c_ops c) (c_impl c);
     v_tags := (match ct with [] => [] | _ => ["registration_outlives_wait"] end)
               ++ (match st with [] => [] | _ => ["records_shared_across_pollers"] end);
     v_note := "" |}.
