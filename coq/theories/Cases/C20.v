(** Judge for C20 cases. *)
From OCV Require Export Base.Prelude Net.Selector Net.Token Net.TokenOracle.
From Coq Require Import String.
Open Scope string_scope.

Record case20 := { c_nfd : Z; c_ops : list op; c_impl : list obs }.

Definition has_tag (t : ctag) (l : list ctag) : bool :=
  existsb (fun x => match x, t with TagOutlives, TagOutlives | TagOneToken, TagOneToken => true | _, _ => false end) l.

Definition judge (c : case20) : verdict :=
  let '(ct, st) := tags_C20 (c_nfd c) (c_ops c) in
  {| v_corr := list_eqb obs_eqb (run_C20 (c_nfd c) (c_ops c)) (c_impl c);
     v_prop := ok_C20 (c_ops c) (c_impl c);
     v_tags := (if has_tag TagOutlives ct then ["registration_outlives_wait"] else [])
               ++ (if has_tag TagOneToken ct then ["one_token_per_descriptor"] else [])
               ++ (match st with [] => [] | _ => ["records_shared_across_pollers"] end)
               ++ (if wf_C20 (c_nfd c) (c_ops c) then ["wf"] else [])
               ++ (if wf_C20 (c_nfd c) (c_ops c) && no_defect (c_ops c) then ["premises_of_holds_outside"] else []);
     v_note := diff_note obs_eqb (run_C20 (c_nfd c) (c_ops c)) (c_impl c) |}.
