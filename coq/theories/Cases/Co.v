(** Judges for the coroutine histories (C07, C08, C09). *)
From OCV Require Import Base.Prelude Misc.Time Coroutine.Co Coroutine.CoOracle.
From Coq Require Import String.
Open Scope string_scope.

Record cocase := { cc_clock : Z; cc_bodies : list (list instr); cc_nl : nat; cc_ops : list dop;
                   cc_impl : list (res * list ev) }.

Definition has_ev (f : ev -> bool) (obs : list (res * list ev)) : bool :=
  existsb (fun o => existsb f (snd o)) obs.
Definition has_res (f : res -> bool) (obs : list (res * list ev)) : bool := existsb (fun o => f (fst o)) obs.

Definition co_tags (m : list (res * list ev)) : list string :=
  (if has_res (fun r => match r with ROk Cancelled => true | _ => false end) m then ["cancel"] else [])
  ++ (if has_res (fun r => match r with ROk (Syscall _ _ _) => true | _ => false end) m then ["syscall_yield"] else [])
  ++ (if has_res (fun r => match r with ROk (Suspend _ t) => negb (t =? 0)%Z | _ => false end) m then ["timed_suspend"] else [])
  ++ (if has_res (fun r => match r with ROk (Complete _) => true | _ => false end) m then ["complete"] else [])
  ++ (if has_res (fun r => match r with ROk (Error _) => true | _ => false end) m then ["error"] else [])
  ++ (if has_res (fun r => match r with RErr => true | _ => false end) m then ["refused"] else [])
  ++ (if has_res (fun r => match r with RUnwound => true | _ => false end) m then ["unwound"] else [])
  ++ (if has_ev (fun e => match e with EB _ (BPanic (POwned _)) => true | _ => false end) m then ["panic_owned"] else [])
  ++ (if has_ev (fun e => match e with EB _ (BRes false) => true | _ => false end) m then ["body_call_refused"] else [])
  ++ (if has_ev (fun e => match e with EL _ _ (CbChanged Running) (Suspend _ _) => true | _ => false end) m then ["suspend_to_running"] else []).

Definition judge_with (pick : cojudge -> bool) (c : cocase) : verdict :=
  let m := drun (mk_thr (cc_clock c) (cc_bodies c) (cc_nl c)) (cc_ops c) in
  let j := judge_co (cc_clock c) (List.length (cc_bodies c)) (cc_nl c) (cc_ops c) (cc_impl c) in
  {| v_corr := list_eqb obs_eqb m (cc_impl c);
     v_prop := pick j && j_shape j;
     v_tags := co_tags m;
     v_note := "" |}.
