From OCV Require Export Base.Prelude Queue.PMap Queue.OWS Queue.OWSOracle Cases.OWS.
Definition judge := judge_with o_c04.
