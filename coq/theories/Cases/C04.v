From OCV Require Export Base.Prelude Queue.PMap Queue.OWS Queue.OWSOracle Cases.OWS.
From OCV Require Queue.PWS.
From OCV Require Export Cases.PWS.
(** ordered queue (lockstep oracle of Queue/OWSOracle) | plain queue (Queue/PWSOracle) *)
Definition judge (c : qcase + pcase) : verdict :=
  match c with inl q => judge_with o_c04 q | inr p => judge_pws_c04 p end.
