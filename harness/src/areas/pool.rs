//! C01/C02/C11/C12/C13: one or two real `CoroutinePool`s on this thread, task bodies interpreted
//! from instruction lists inside real worker coroutines, a recording listener on each pool's
//! scheduler, virtual clock. One case per process (task/coroutine queues and cancel sets are
//! process-global).
use crate::areas::co::msg_json;
use crate::areas::sched::{log, st_json, take_log};
use crate::util::{as_i64, as_u64, emit_partial};
use open_coroutine_core::co_pool::CoroutinePool;
use open_coroutine_core::common::constants::{CoroutineState, PoolState, SyscallName, SyscallState};
use open_coroutine_core::coroutine::listener::Listener;
use open_coroutine_core::coroutine::local::CoroutineLocal;
use open_coroutine_core::scheduler::{SchedulableCoroutine, SchedulableSuspender};
use open_coroutine_core::verif;
use serde_json::{json, Value};
use std::cell::Cell;
use std::collections::HashMap;
use std::time::Duration;

type St = CoroutineState<(), Option<usize>>;

thread_local! {
    static NEXT_WORKER: Cell<usize> = const { Cell::new(0) };
}

const NAMES: [SyscallName; 4] = [SyscallName::sleep, SyscallName::usleep, SyscallName::nanosleep, SyscallName::poll];

fn worker_id(local: &CoroutineLocal) -> usize {
    if let Some(v) = local.get::<usize>("ocv_id") {
        return *v;
    }
    let id = NEXT_WORKER.with(|n| {
        let v = n.get();
        n.set(v + 1);
        v
    });
    let _ = local.put("ocv_id", id);
    id
}

#[derive(Debug)]
struct WRec;

impl Listener<(), Option<usize>> for WRec {
    fn on_state_changed(&self, local: &CoroutineLocal, old: St, new: St) {
        let w = worker_id(local);
        log(json!({"l": 0, "i": w, "cb": {"c": "changed", "new": st_json(new)}, "old": st_json(old)}));
    }
}

fn tlog(t: usize, b: Value) {
    log(json!({"b": b, "i": t}));
}

fn sysst_of(v: &Value) -> SyscallState {
    match v["k"].as_str().expect("sysst") {
        "exec" => SyscallState::Executing,
        "susp" => SyscallState::Suspend(as_u64(&v["t"])),
        "cb" => SyscallState::Callback,
        "to" => SyscallState::Timeout,
        other => panic!("sysst {other}"),
    }
}

/// a task body, run inside whatever worker coroutine popped the task
fn run_task(t: usize, body: &[Value]) -> Option<usize> {
    let w = SchedulableCoroutine::current().map_or(usize::MAX, |co| worker_id(co));
    tlog(t, json!({"e": "start", "p": w.to_string()}));
    for ins in body {
        let k = ins["i"].as_str().expect("instr");
        match k {
            "suspend" => {
                tlog(t, json!({"e": "yield", "y": "0", "req": {"k": "none"}}));
                SchedulableSuspender::current().expect("suspender").suspend();
            }
            "delay" => {
                let d = as_u64(&ins["d"]);
                tlog(t, json!({"e": "yield", "y": "0", "req": {"k": "delay", "d": d.to_string()}}));
                SchedulableSuspender::current().expect("suspender").delay(Duration::from_nanos(d));
            }
            "until" => {
                let ts = as_u64(&ins["t"]);
                tlog(t, json!({"e": "yield", "y": "0", "req": {"k": "until", "t": ts.to_string()}}));
                SchedulableSuspender::current().expect("suspender").until(ts);
            }
            "cancel" => {
                tlog(t, json!({"e": "yield", "y": "0", "req": {"k": "cancel"}}));
                SchedulableSuspender::current().expect("suspender").cancel();
            }
            "syscall" => {
                let n = NAMES[usize::try_from(as_u64(&ins["n"])).expect("n") % NAMES.len()];
                let r = SchedulableCoroutine::current().expect("current").syscall((), n, sysst_of(&ins["st"]));
                tlog(t, json!({"e": "res", "ok": r.is_ok()}));
            }
            "running" => {
                let r = SchedulableCoroutine::current().expect("current").running();
                tlog(t, json!({"e": "res", "ok": r.is_ok()}));
            }
            "tick" => {
                let d = as_u64(&ins["d"]);
                verif::advance_virtual_clock(d);
                tlog(t, json!({"e": "tick", "d": d.to_string()}));
            }
            "log" => tlog(t, json!({"e": "log", "k": as_u64(&ins["k"])})),
            "return" => {
                let v = as_u64(&ins["v"]);
                tlog(t, json!({"e": "ret", "v": v.to_string()}));
                return Some(usize::try_from(v).expect("usize"));
            }
            "panic" => {
                let kind = ins["k"].as_str().expect("panic kind");
                tlog(t, json!({"e": "panic", "k": kind, "m": ins["m"].clone()}));
                match kind {
                    "static" => {
                        let m: &'static str = Box::leak(crate::areas::co::panic_text(as_u64(&ins["m"])).into_boxed_str());
                        std::panic::panic_any(m)
                    }
                    "owned" => std::panic::panic_any(crate::areas::co::panic_text(as_u64(&ins["m"]))),
                    _ => std::panic::panic_any(42u32),
                }
            }
            other => panic!("unknown instr {other}"),
        }
    }
    tlog(t, json!({"e": "ret", "v": "0"}));
    Some(0)
}

fn tmsg_json(m: &str) -> Value {
    if m.contains("pool has stopped") {
        return json!("stopped");
    }
    if m.contains("was cancelled") {
        return json!("cancelled");
    }
    msg_json(m)
}

pub fn tres_json(r: Result<Option<usize>, &str>) -> Value {
    match r {
        Ok(v) => json!({"ok": v.map_or(-1i64, |x| x as i64).to_string()}),
        Err(m) => json!({"err": tmsg_json(m)}),
    }
}

pub fn run(case: &Value) -> Vec<Value> {
    verif::set_virtual_clock(Some(as_u64(&case["clock"])));
    let mut pools: Vec<&'static mut CoroutinePool<'static>> = Vec::new();
    for (i, cfg) in case["pools"].as_array().expect("pools").iter().enumerate() {
        let mn = usize::try_from(as_u64(&cfg[0])).expect("min");
        let mx = usize::try_from(as_u64(&cfg[1])).expect("max");
        let keep = as_u64(&cfg[2]);
        let pool: &'static mut CoroutinePool<'static> =
            Box::leak(Box::new(CoroutinePool::new(format!("ocvpool{i}"), 128 * 1024, mn, mx, keep)));
        pool.add_listener(WRec);
        pools.push(pool);
    }
    let stream = case["stream"].as_bool().unwrap_or(false);
    let mut ids: Vec<u64> = Vec::new();
    let mut byid: HashMap<u64, usize> = HashMap::new();
    let mut obs = Vec::new();
    for op in case["ops"].as_array().expect("ops") {
        let kind = op["op"].as_str().expect("op");
        let p = op.get("p").map(|v| usize::try_from(as_u64(v)).expect("p"));
        let t = op.get("t").map(|v| usize::try_from(as_u64(v)).expect("t"));
        let _ = take_log();
        if t.is_some_and(|t| t >= ids.len()) || p.is_some_and(|p| p >= pools.len()) {
            // a task or pool that does not exist (yet): refused by the harness itself
            obs.push(json!("bad"));
            continue;
        }
        let o: Value = match kind {
            "submit" => {
                let tix = ids.len();
                let body: Vec<Value> = op["body"].as_array().expect("body").clone();
                let prio = if op["prio"].is_null() { None } else { Some(as_i64(&op["prio"])) };
                let name = format!("task{tix}");
                let r = pools[p.expect("p")].submit_task(Some(name.clone()), move |_| run_task(tix, &body), None, prio);
                match r {
                    Ok(id) => {
                        ids.push(id);
                        let _ = byid.insert(id, tix);
                        json!({"submit": true})
                    }
                    Err(_) => {
                        // keep ids aligned with submission indices
                        use std::hash::{DefaultHasher, Hash, Hasher};
                        let mut h = DefaultHasher::new();
                        name.hash(&mut h);
                        ids.push(h.finish());
                        json!({"submit": false})
                    }
                }
            }
            "pass" => {
                let deadline = as_u64(&op["deadline"]);
                let pool = &mut pools[p.expect("p")];
                let r = std::panic::catch_unwind(std::panic::AssertUnwindSafe(|| {
                    pool.try_timeout_schedule_task(deadline).map_err(|e| e.to_string())
                }));
                let ev = take_log();
                match r {
                    Ok(Ok(left)) => json!({"pass": {"left": left.to_string()}, "ev": ev}),
                    Ok(Err(e)) if e.contains("is stopped") => json!({"pass": "err_stopped", "ev": ev}),
                    Ok(Err(_)) => json!({"pass": "err", "ev": ev}),
                    Err(_) => json!({"pass": "unwound", "ev": ev}),
                }
            }
            "wait" => {
                let id = ids[t.expect("t")];
                let pool = &pools[p.expect("p")];
                match pool.wait_task_result(id, Duration::ZERO) {
                    Ok(r) => json!({"wait": {"val": tres_json(r)}}),
                    Err(e) if e.kind() == std::io::ErrorKind::TimedOut => json!({"wait": "timeout"}),
                    Err(_) => json!({"wait": "err"}),
                }
            }
            "take" => {
                let id = ids[t.expect("t")];
                match pools[p.expect("p")].try_take_task_result(id) {
                    Some(r) => json!({"wait": {"val": tres_json(r)}}),
                    None => json!({"wait": "none"}),
                }
            }
            "clean" => {
                pools[p.expect("p")].clean_task_result(ids[t.expect("t")]);
                json!("unit")
            }
            "cancel" => {
                CoroutinePool::try_cancel_task(ids[t.expect("t")]);
                json!("unit")
            }
            "stop" => {
                let dur = as_u64(&op["dur"]);
                let pool = &mut pools[p.expect("p")];
                let r = std::panic::catch_unwind(std::panic::AssertUnwindSafe(|| {
                    pool.stop(Duration::from_nanos(dur)).map_err(|e| e.kind())
                }));
                let ev = take_log();
                match r {
                    Ok(Ok(())) => json!({"stop": "ok", "ev": ev}),
                    Ok(Err(std::io::ErrorKind::TimedOut)) => json!({"stop": "timeout", "ev": ev}),
                    Ok(Err(_)) => json!({"stop": "err", "ev": ev}),
                    Err(_) => json!({"stop": "unwound", "ev": ev}),
                }
            }
            "forced_wait" => {
                // the schedule the property asks for: the task completes between the waiter's first
                // result check and its registration (pause point in wait_task_result)
                let id = ids[t.expect("t")];
                let pool_addr = std::ptr::from_ref::<CoroutinePool<'static>>(&*pools[p.expect("p")]) as usize;
                let (tx_h3, rx_h3) = std::sync::mpsc::channel::<()>();
                let (tx_ack, rx_ack) = std::sync::mpsc::channel::<()>();
                let tx_h3 = std::sync::Mutex::new(tx_h3);
                let rx_ack = std::sync::Mutex::new(rx_ack);
                verif::set_observer(Some(Box::new(move |name, a, _| {
                    if name == "wait_task_result:before_register" && a == id {
                        let _ = tx_h3.lock().expect("h3").send(());
                        let _ = rx_ack.lock().expect("ack").recv_timeout(Duration::from_secs(5));
                    }
                })));
                let waiter = std::thread::spawn(move || {
                    // the runtime shares pools between threads the same way (raw pointers through the bean factory)
                    let pool = unsafe { &*(pool_addr as *const CoroutinePool<'static>) };
                    let t0 = std::time::Instant::now();
                    let r = match pool.wait_task_result(id, Duration::from_millis(1500)) {
                        Ok(r) => json!({"val": tres_json(r)}),
                        Err(e) if e.kind() == std::io::ErrorKind::TimedOut => json!("timeout"),
                        Err(_) => json!("err"),
                    };
                    (r, t0.elapsed())
                });
                let reached = rx_h3.recv_timeout(Duration::from_secs(2)).is_ok();
                if reached {
                    let _ = pools[p.expect("p")].try_timeout_schedule_task(u64::MAX);
                    let _ = tx_ack.send(());
                }
                let (r, el) = waiter.join().expect("waiter");
                verif::set_observer(None);
                let _ = take_log();
                json!({"forced_wait": r, "prompt": el < Duration::from_millis(700), "h3": reached,
                       "elapsed_ms": u64::try_from(el.as_millis()).unwrap_or(u64::MAX)})
            }
            "forced_cancel" => forced_cancel(),
            "forced_stop" => forced_stop(),
            "co_join" => co_join(op),
            "repeat_cancel" => repeat_cancel(),
            "loop_stop" => loop_stop(usize::try_from(as_u64(&op["tasks"])).expect("tasks")),
            "race_submit" => race_submit(usize::try_from(as_u64(&op["threads"])).expect("threads"),
                                         usize::try_from(as_u64(&op["per"])).expect("per")),
            "running" => json!({"num": pools[p.expect("p")].get_running_size()}),
            "size" => json!({"num": pools[p.expect("p")].size()}),
            "state" => json!({"state": match pools[p.expect("p")].state() {
                PoolState::Running => "running",
                PoolState::Stopping => "stopping",
                PoolState::Stopped => "stopped",
            }}),
            "clock" => {
                verif::set_virtual_clock(Some(as_u64(&op["c"])));
                json!("unit")
            }
            other => panic!("unknown op {other}"),
        };
        if stream {
            emit_partial(&o);
        }
        obs.push(o);
    }
    verif::set_virtual_clock(None);
    obs
}


#[derive(Debug)]
struct DbgRec;
impl Listener<(), Option<usize>> for DbgRec {
    fn on_state_changed(&self, local: &CoroutineLocal, old: St, new: St) {
        if std::env::var_os("OCV_DEBUG").is_some() {
            eprintln!("worker {} {:?} -> {:?}", worker_id(local), old, new);
        }
    }
}

/// The schedule property C13 asks about (pause point in `try_cancel_task`): the scheduling thread
/// switches from the cancel target (task A) to another task (B) between the lookup of A's thread
/// and the signal. A dedicated scheduler thread runs a pool with A and B; this thread cancels A.
fn forced_cancel() -> Value {
    use std::sync::atomic::{AtomicBool, AtomicU64, Ordering};
    use std::sync::Arc;
    let a_running = Arc::new(AtomicBool::new(false));
    let release_a = Arc::new(AtomicBool::new(false));
    let a_done = Arc::new(AtomicBool::new(false));
    let b_running = Arc::new(AtomicBool::new(false));
    let release_b = Arc::new(AtomicBool::new(false));
    let b_done = Arc::new(AtomicBool::new(false));
    let a_id = Arc::new(AtomicU64::new(0));
    let stop = Arc::new(AtomicBool::new(false));
    let (ar, ra, ad, br, rb, bd, aid, st) = (
        a_running.clone(), release_a.clone(), a_done.clone(), b_running.clone(), release_b.clone(), b_done.clone(),
        a_id.clone(), stop.clone(),
    );
    let sched_thread = std::thread::spawn(move || {
        let pool: &'static mut CoroutinePool<'static> =
            Box::leak(Box::new(CoroutinePool::new("ocvcancel".to_string(), 128 * 1024, 0, 4, 0)));
        pool.add_listener(DbgRec);
        let spin = |flag: Arc<AtomicBool>| {
            let t0 = std::time::Instant::now();
            while !flag.load(Ordering::Acquire) && t0.elapsed() < Duration::from_secs(4) {
                std::hint::spin_loop();
            }
        };
        let (ar2, ra2, ad2) = (ar.clone(), ra.clone(), ad.clone());
        let ida = pool
            .submit_task(Some("cancel-target-A".to_string()), move |_| {
                ar2.store(true, Ordering::Release);
                spin(ra2);
                // the target parks (as a hooked sleep would): the thread moves on to another coroutine
                if let Some(s) = SchedulableSuspender::current() {
                    s.delay(Duration::from_millis(400));
                }
                ad2.store(true, Ordering::Release);
                Some(1)
            }, None, None)
            .expect("submit A");
        aid.store(ida, Ordering::Release);
        let (br2, rb2, bd2) = (br.clone(), rb.clone(), bd.clone());
        let _ = pool
            .submit_task(Some("bystander-B".to_string()), move |_| {
                br2.store(true, Ordering::Release);
                let t0 = std::time::Instant::now();
                while !rb2.load(Ordering::Acquire) && t0.elapsed() < Duration::from_secs(4) {
                    std::hint::spin_loop();
                }
                bd2.store(true, Ordering::Release);
                Some(2)
            }, None, None)
            .expect("submit B");
        let t0 = std::time::Instant::now();
        while !st.load(Ordering::Acquire) && t0.elapsed() < Duration::from_secs(8) {
            let _ = pool.try_timed_schedule_task(Duration::from_millis(5));
        }
    });
    // wait until A is running on the scheduler thread
    let t0 = std::time::Instant::now();
    while !a_running.load(Ordering::Acquire) && t0.elapsed() < Duration::from_secs(4) {
        std::thread::yield_now();
    }
    let (ra3, br3) = (release_a.clone(), b_running.clone());
    let reached = Arc::new(AtomicBool::new(false));
    let reached2 = reached.clone();
    verif::set_observer(Some(Box::new(move |name, _a, _b| {
        if name == "try_cancel_task:before_kill" {
            reached2.store(true, Ordering::Release);
            // the thread has been looked up; now let it move on from A to B before the signal is sent
            ra3.store(true, Ordering::Release);
            let t0 = std::time::Instant::now();
            while !br3.load(Ordering::Acquire) && t0.elapsed() < Duration::from_secs(4) {
                std::thread::yield_now();
            }
        }
    })));
    CoroutinePool::try_cancel_task(a_id.load(Ordering::Acquire));
    verif::set_observer(None);
    // give the signal time to be handled, then let B go on (if it still can)
    std::thread::sleep(Duration::from_millis(100));
    release_b.store(true, Ordering::Release);
    // the target only parked for 400 ms: it should come back and finish
    let t0 = std::time::Instant::now();
    while !a_done.load(Ordering::Acquire) && t0.elapsed() < Duration::from_millis(2500) {
        std::thread::sleep(Duration::from_millis(20));
    }
    std::thread::sleep(Duration::from_millis(100));
    let out = json!({"forced_cancel": {
        "h4": reached.load(Ordering::Acquire),
        "target_finished": a_done.load(Ordering::Acquire),
        "bystander_started": b_running.load(Ordering::Acquire),
        "bystander_finished": b_done.load(Ordering::Acquire)}});
    stop.store(true, Ordering::Release);
    let _ = sched_thread.join();
    out
}

/// C12, "a waiter for a task that will never run gets an error instead of blocking forever", with a
/// waiter that really is blocked (another thread) while the pool is stopped in two attempts: the
/// first `stop` runs out of time with a task parked, the second one succeeds. The waiter asks for a
/// result that is not coming (it was handed out already); it must be told so when the pool stops.
fn forced_stop() -> Value {
    verif::set_virtual_clock(None);
    let pool: &'static mut CoroutinePool<'static> =
        Box::leak(Box::new(CoroutinePool::new("ocvstop".to_string(), 128 * 1024, 0, 4, 0)));
    let gone = pool.submit_task(Some("ocvstop-gone".to_string()), |_| Some(1), None, None).expect("submit");
    let _ = pool.try_timed_schedule_task(Duration::from_millis(20));
    let taken = pool.try_take_task_result(gone).is_some();
    let _ = pool
        .submit_task(Some("ocvstop-parked".to_string()), |_| {
            if let Some(s) = SchedulableSuspender::current() {
                s.delay(Duration::from_millis(150));
            }
            Some(2)
        }, None, None)
        .expect("submit");
    let _ = pool.try_timed_schedule_task(Duration::from_millis(10));
    let pool_addr = std::ptr::from_ref::<CoroutinePool<'static>>(&*pool) as usize;
    let (tx, rx) = std::sync::mpsc::channel::<()>();
    let tx = std::sync::Mutex::new(tx);
    verif::set_observer(Some(Box::new(move |name, a, _| {
        if name == "wait_task_result:before_register" && a == gone {
            let _ = tx.lock().expect("tx").send(());
        }
    })));
    let waiter = std::thread::spawn(move || {
        let pool = unsafe { &*(pool_addr as *const CoroutinePool<'static>) };
        let r = match pool.wait_task_result(gone, Duration::from_millis(3000)) {
            Ok(r) => json!({"val": tres_json(r)}),
            Err(e) if e.kind() == std::io::ErrorKind::TimedOut => json!("timeout"),
            Err(_) => json!("err"),
        };
        (r, std::time::Instant::now())
    });
    let registered = rx.recv_timeout(Duration::from_secs(2)).is_ok();
    std::thread::sleep(Duration::from_millis(50));
    let kind = |r: std::io::Result<()>| match r {
        Ok(()) => "ok",
        Err(e) if e.kind() == std::io::ErrorKind::TimedOut => "timeout",
        Err(_) => "err",
    };
    let first = kind(pool.stop(Duration::ZERO));
    std::thread::sleep(Duration::from_millis(200));
    let second = kind(pool.stop(Duration::from_millis(1000)));
    let stopped_at = std::time::Instant::now();
    let state = match pool.state() {
        PoolState::Running => "running",
        PoolState::Stopping => "stopping",
        PoolState::Stopped => "stopped",
    };
    let (r, back_at) = waiter.join().expect("waiter");
    verif::set_observer(None);
    let _ = take_log();
    let late = back_at.saturating_duration_since(stopped_at);
    json!({"forced_stop": {"taken": taken, "registered": registered, "first": first, "second": second, "state": state,
           "wait": r, "late_ms": u64::try_from(late.as_millis()).unwrap_or(u64::MAX)}})
}

/// C01, "from any number of threads": several plain threads submit to ONE pool at the same time
/// (the way user threads submit to an event loop), nobody schedules meanwhile; then this thread
/// runs passes until the queue is empty. Every task counts its own executions.
fn race_submit(threads: usize, per: usize) -> Value {
    use std::sync::atomic::{AtomicU32, Ordering};
    use std::sync::{Arc, Barrier};
    verif::set_virtual_clock(None);
    let pool: &'static mut CoroutinePool<'static> =
        Box::leak(Box::new(CoroutinePool::new("ocvrace".to_string(), 128 * 1024, 0, 4, 0)));
    let n = threads * per;
    let runs: Arc<Vec<AtomicU32>> = Arc::new((0..n).map(|_| AtomicU32::new(0)).collect());
    let pool_addr = std::ptr::from_ref::<CoroutinePool<'static>>(&*pool) as usize;
    let barrier = Arc::new(Barrier::new(threads));
    let mut hs = Vec::new();
    for t in 0..threads {
        let runs = runs.clone();
        let barrier = barrier.clone();
        hs.push(std::thread::spawn(move || {
            let pool = unsafe { &*(pool_addr as *const CoroutinePool<'static>) };
            let _ = barrier.wait();
            let mut accepted = 0usize;
            for k in 0..per {
                let ix = t * per + k;
                let runs = runs.clone();
                if pool
                    .submit_task(Some(format!("race{ix}")), move |_| {
                        let _ = runs[ix].fetch_add(1, Ordering::SeqCst);
                        Some(ix)
                    }, None, None)
                    .is_ok()
                {
                    accepted += 1;
                }
            }
            accepted
        }));
    }
    let accepted: usize = hs.into_iter().map(|h| h.join().unwrap_or(0)).sum();
    let t0 = std::time::Instant::now();
    let mut idle = 0;
    while t0.elapsed() < Duration::from_secs(5) && idle < 3 {
        let _ = pool.try_timed_schedule_task(Duration::from_millis(5));
        if pool.size() == 0 {
            idle += 1;
        } else {
            idle = 0;
        }
    }
    let _ = take_log();
    let once = runs.iter().filter(|c| c.load(Ordering::SeqCst) == 1).count();
    let lost = runs.iter().filter(|c| c.load(Ordering::SeqCst) == 0).count();
    let dup = runs.iter().filter(|c| c.load(Ordering::SeqCst) > 1).count();
    json!({"race_submit": {"submitted": n, "accepted": accepted, "once": once, "lost": lost, "dup": dup,
                           "left": pool.size()}})
}

/// C02, a wait made FROM a task (a task joining another task of its pool): `wait_task_result` on a
/// coroutine runs queued tasks inline until the wanted result is there or the time is up.
/// `queue`: outcomes of the tasks queued behind the waiter, in order; `fin`: outcomes of tasks that
/// have finished before the waiter starts; `target`: [0 = in fin, 1 = in queue, 2 = unknown id, index].
fn co_join(op: &Value) -> Value {
    use std::sync::{Arc, Mutex};
    verif::set_virtual_clock(None);
    let pool: &'static mut CoroutinePool<'static> =
        Box::leak(Box::new(CoroutinePool::new("ocvcojoin".to_string(), 256 * 1024, 0, 1, 0)));
    let ran: Arc<Mutex<Vec<u64>>> = Arc::new(Mutex::new(Vec::new()));
    let mk = |ix: u64, out: Value, ran: Arc<Mutex<Vec<u64>>>| {
        move |_: Option<usize>| -> Option<usize> {
            ran.lock().expect("ran").push(ix);
            match out["k"].as_str().expect("out") {
                "value" => Some(usize::try_from(as_u64(&out["v"])).expect("usize")),
                "static" => {
                    let m: &'static str = Box::leak(crate::areas::co::panic_text(as_u64(&out["m"])).into_boxed_str());
                    std::panic::panic_any(m)
                }
                "owned" => std::panic::panic_any(crate::areas::co::panic_text(as_u64(&out["m"]))),
                _ => std::panic::panic_any(42u32),
            }
        }
    };
    let mut fin_ids = Vec::new();
    for (i, o) in op["fin"].as_array().expect("fin").iter().enumerate() {
        let ix = 100 + i as u64;
        fin_ids.push(pool.submit_task(Some(format!("cojoin-fin{i}")), mk(ix, o.clone(), ran.clone()), None, None).expect("submit"));
    }
    let t0 = std::time::Instant::now();
    while pool.size() > 0 && t0.elapsed() < Duration::from_secs(3) {
        let _ = pool.try_timed_schedule_task(Duration::from_millis(5));
    }
    let _ = pool.try_timed_schedule_task(Duration::from_millis(5));
    ran.lock().expect("ran").clear();
    let ids: Arc<Mutex<Vec<u64>>> = Arc::new(Mutex::new(Vec::new()));
    let slot: Arc<Mutex<Option<Value>>> = Arc::new(Mutex::new(None));
    let ran_at_return: Arc<Mutex<Vec<u64>>> = Arc::new(Mutex::new(Vec::new()));
    let kind = as_u64(&op["target"][0]);
    let tix = usize::try_from(as_u64(&op["target"][1])).expect("tix");
    let wait_ms = as_u64(&op["wait_ms"]);
    let pool_addr = std::ptr::from_ref::<CoroutinePool<'static>>(&*pool) as usize;
    let (ids2, slot2, ran2, rar2, fin2) = (ids.clone(), slot.clone(), ran.clone(), ran_at_return.clone(), fin_ids.clone());
    let _ = pool
        .submit_task(Some("cojoin-waiter".to_string()), move |_| {
            let pool = unsafe { &*(pool_addr as *const CoroutinePool<'static>) };
            let id = match kind {
                0 => fin2[tix],
                1 => ids2.lock().expect("ids")[tix],
                _ => 0x5eed_0000_0000_0001,
            };
            let r = match pool.wait_task_result(id, Duration::from_millis(wait_ms)) {
                Ok(r) => json!({"val": tres_json(r)}),
                Err(e) if e.kind() == std::io::ErrorKind::TimedOut => json!("timeout"),
                Err(_) => json!("err"),
            };
            *rar2.lock().expect("rar") = ran2.lock().expect("ran").clone();
            *slot2.lock().expect("slot") = Some(r);
            Some(0)
        }, None, None)
        .expect("submit waiter");
    for (i, o) in op["queue"].as_array().expect("queue").iter().enumerate() {
        let id = pool.submit_task(Some(format!("cojoin-q{i}")), mk(i as u64, o.clone(), ran.clone()), None, None).expect("submit");
        ids.lock().expect("ids").push(id);
    }
    let t0 = std::time::Instant::now();
    while slot.lock().expect("slot").is_none() && t0.elapsed() < Duration::from_secs(5) {
        let _ = pool.try_timed_schedule_task(Duration::from_millis(5));
    }
    let _ = take_log();
    let r = slot.lock().expect("slot").clone();
    let ran_during = ran_at_return.lock().expect("rar").clone();
    json!({"co_join": {"wait": r, "ran": ran_during}})
}

/// C13: a task cancelled while suspended is cancelled AGAIN later (a legal no-op) while an unrelated
/// task is running on the same thread: the bystander must finish. A dedicated scheduler thread runs the
/// pool; this thread issues the cancels.
fn repeat_cancel() -> Value {
    use std::sync::atomic::{AtomicBool, AtomicU64, Ordering};
    use std::sync::Arc;
    verif::set_virtual_clock(None);
    let a_parked = Arc::new(AtomicBool::new(false));
    let b_running = Arc::new(AtomicBool::new(false));
    let release_b = Arc::new(AtomicBool::new(false));
    let b_done = Arc::new(AtomicBool::new(false));
    let a_done = Arc::new(AtomicBool::new(false));
    let submit_b = Arc::new(AtomicBool::new(false));
    let a_id = Arc::new(AtomicU64::new(0));
    let stop = Arc::new(AtomicBool::new(false));
    let (ap, br, rb, bd, ad, sb, aid, st) = (a_parked.clone(), b_running.clone(), release_b.clone(), b_done.clone(),
        a_done.clone(), submit_b.clone(), a_id.clone(), stop.clone());
    let sched = std::thread::spawn(move || {
        let pool: &'static mut CoroutinePool<'static> =
            Box::leak(Box::new(CoroutinePool::new("ocvrepeat".to_string(), 128 * 1024, 0, 2, 0)));
        let (ap2, ad2) = (ap.clone(), ad.clone());
        let ida = pool.submit_task(Some("repeat-A".to_string()), move |_| {
            ap2.store(true, Ordering::Release);
            if let Some(s) = SchedulableSuspender::current() {
                s.delay(Duration::from_millis(40));
            }
            ad2.store(true, Ordering::Release);
            Some(1)
        }, None, None).expect("submit A");
        aid.store(ida, Ordering::Release);
        let mut b_submitted = false;
        let t0 = std::time::Instant::now();
        while !st.load(Ordering::Acquire) && t0.elapsed() < Duration::from_secs(8) {
            if sb.load(Ordering::Acquire) && !b_submitted {
                b_submitted = true;
                let (br2, rb2, bd2) = (br.clone(), rb.clone(), bd.clone());
                let _ = pool.submit_task(Some("repeat-B".to_string()), move |_| {
                    br2.store(true, Ordering::Release);
                    let t0 = std::time::Instant::now();
                    while !rb2.load(Ordering::Acquire) && t0.elapsed() < Duration::from_secs(4) {
                        std::hint::spin_loop();
                    }
                    bd2.store(true, Ordering::Release);
                    Some(2)
                }, None, None);
            }
            let _ = pool.try_timed_schedule_task(Duration::from_millis(5));
        }
    });
    let wait = |f: &Arc<AtomicBool>, ms: u64| {
        let t0 = std::time::Instant::now();
        while !f.load(Ordering::Acquire) && t0.elapsed() < Duration::from_millis(ms) {
            std::thread::sleep(Duration::from_millis(2));
        }
        f.load(Ordering::Acquire)
    };
    let parked = wait(&a_parked, 3000);
    std::thread::sleep(Duration::from_millis(30));
    CoroutinePool::try_cancel_task(a_id.load(Ordering::Acquire));      // A is suspended: cancel-set path
    std::thread::sleep(Duration::from_millis(250));                      // the scheduler drops A's coroutine
    submit_b.store(true, Ordering::Release);
    let started = wait(&b_running, 3000);
    CoroutinePool::try_cancel_task(a_id.load(Ordering::Acquire));      // again: must be a no-op
    std::thread::sleep(Duration::from_millis(100));
    release_b.store(true, Ordering::Release);
    let finished = wait(&b_done, 2000);
    stop.store(true, Ordering::Release);
    let _ = sched.join();
    json!({"repeat_cancel": {"target_parked": parked, "bystander_started": started, "bystander_finished": finished,
                             "target_finished": a_done.load(Ordering::Acquire)}})
}

/// C12 through the event loop: tasks are accepted and `EventLoops::stop` is called at once: stop may
/// report success only when every accepted task has run.
fn loop_stop(ntasks: usize) -> Value {
    use open_coroutine_core::config::Config;
    use open_coroutine_core::net::EventLoops;
    use std::sync::atomic::{AtomicUsize, Ordering};
    use std::sync::Arc;
    verif::set_virtual_clock(None);
    let mut cfg = Config::single();
    let _ = cfg.set_event_loop_size(1);
    EventLoops::init(&cfg);
    // let the loop thread settle into its wait
    std::thread::sleep(Duration::from_millis(60));
    let ran = Arc::new(AtomicUsize::new(0));
    let mut accepted = 0usize;
    let mut handles = Vec::new();
    for _ in 0..ntasks {
        let ran = ran.clone();
        let h = EventLoops::submit_task(None, move |_| {
            let _ = ran.fetch_add(1, Ordering::SeqCst);
            Some(1)
        }, None, None);
        if h.id().is_ok() {
            accepted += 1;
        }
        handles.push(h);
    }
    let t0 = std::time::Instant::now();
    let r = EventLoops::stop(Duration::from_secs(5));
    let el = t0.elapsed();
    let after = EventLoops::submit_task(None, |_| Some(1), None, None).id().is_ok();
    for h in handles {
        std::mem::forget(h);
    }
    json!({"loop_stop": {"accepted": accepted, "stop_ok": r.is_ok(), "ran_at_stop_return": ran.load(Ordering::SeqCst),
                         "stop_ms": u64::try_from(el.as_millis()).unwrap_or(u64::MAX), "accepted_after_stop": after}})
}
