//! C18 on real sockets: a hooked `connect` from a BLOCKING TCP socket whose failure is learnt
//! asynchronously (EINPROGRESS, wait for writability, SO_ERROR = ECONNREFUSED), and one that succeeds:
//! whatever the outcome, the descriptor is left in the mode the caller set.
use open_coroutine_core::config::Config;
use open_coroutine_core::net::EventLoops;
use open_coroutine_core::syscall;
use serde_json::{json, Value};

fn nonblocking(fd: libc::c_int) -> bool {
    (unsafe { libc::fcntl(fd, libc::F_GETFL) } & libc::O_NONBLOCK) != 0
}

fn addr(port: u16) -> libc::sockaddr_in {
    libc::sockaddr_in {
        sin_family: libc::AF_INET as libc::sa_family_t,
        sin_port: port.to_be(),
        sin_addr: libc::in_addr { s_addr: u32::from_be_bytes([127, 0, 0, 1]).to_be() },
        sin_zero: [0; 8],
    }
}

pub fn run(case: &Value) -> Vec<Value> {
    EventLoops::init(&Config::single());
    let mut obs = Vec::new();
    for op in case["ops"].as_array().expect("ops") {
        let live = op["live"].as_bool().unwrap_or(false);
        let caller_nb = op["nb"].as_bool().unwrap_or(false);
        // a listener gives us a port; for the dead case it is closed again before the connect
        let l = unsafe { libc::socket(libc::AF_INET, libc::SOCK_STREAM, 0) };
        let a0 = addr(0);
        let _ = unsafe { libc::bind(l, std::ptr::from_ref(&a0).cast(), size_of::<libc::sockaddr_in>() as libc::socklen_t) };
        let _ = unsafe { libc::listen(l, 4) };
        let mut bound: libc::sockaddr_in = unsafe { std::mem::zeroed() };
        let mut blen = size_of::<libc::sockaddr_in>() as libc::socklen_t;
        let _ = unsafe { libc::getsockname(l, std::ptr::from_mut(&mut bound).cast(), &raw mut blen) };
        let port = u16::from_be(bound.sin_port);
        if !live {
            let _ = unsafe { libc::close(l) };
        }
        let fd = unsafe { libc::socket(libc::AF_INET, libc::SOCK_STREAM, 0) };
        if caller_nb {
            let fl = unsafe { libc::fcntl(fd, libc::F_GETFL) };
            let _ = unsafe { libc::fcntl(fd, libc::F_SETFL, fl | libc::O_NONBLOCK) };
        }
        let target = addr(port);
        syscall::set_errno(0);
        let r = syscall::connect(None, fd, std::ptr::from_ref(&target).cast(), size_of::<libc::sockaddr_in>() as libc::socklen_t);
        let e = std::io::Error::last_os_error().raw_os_error().unwrap_or(0);
        let v = json!({"ret": r, "errno": if r == -1 { e } else { 0 }, "nb_after": nonblocking(fd), "nb_before": caller_nb, "live": live});
        let _ = unsafe { libc::close(fd) };
        if live {
            let _ = unsafe { libc::close(l) };
        }
        obs.push(v);
    }
    obs
}
