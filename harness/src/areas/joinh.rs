//! C02 at the `JoinHandle` layer (core/src/net/join.rs): tasks submitted through
//! `EventLoops::submit_task` on a real event loop thread, joined from this (plain) thread with
//! `timeout_at_join` / `timeout_join` / `join` and deadlines that are zero, already past, "now",
//! soon, far and unlimited. Real time. For every join the harness reports whether the task body had
//! finished before the call and after it, so that the judge knows what the join had to return.
use crate::areas::pool::tres_json;
use crate::util::{as_u64, emit_partial};
use open_coroutine_core::config::Config;
use open_coroutine_core::net::EventLoops;
use open_coroutine_core::scheduler::SchedulableSuspender;
use serde_json::{json, Value};
use std::sync::atomic::{AtomicBool, Ordering};
use std::sync::Arc;
use std::time::Duration;

fn outcome(r: std::io::Result<Result<Option<usize>, &str>>) -> Value {
    match r {
        Ok(r) => json!({"val": tres_json(r)}),
        Err(e) if e.kind() == std::io::ErrorKind::TimedOut => json!("timeout"),
        Err(e) if e.kind() == std::io::ErrorKind::InvalidInput => json!("invalid"),
        Err(_) => json!("err"),
    }
}

pub fn run(case: &Value) -> Vec<Value> {
    let mut cfg = Config::single();
    let _ = cfg.set_event_loop_size(1);
    EventLoops::init(&cfg);
    let mut obs = Vec::new();
    for t in case["tasks"].as_array().expect("tasks") {
        let late_ms = as_u64(&t["late_ms"]);
        let out = t["out"].clone();
        let done = Arc::new(AtomicBool::new(false));
        let done2 = done.clone();
        let h = EventLoops::submit_task(
            None,
            move |_| {
                if late_ms > 0 {
                    if let Some(s) = SchedulableSuspender::current() {
                        s.delay(Duration::from_millis(late_ms));
                    }
                }
                done2.store(true, Ordering::Release);
                match out["k"].as_str().expect("out") {
                    "value" => Some(usize::try_from(as_u64(&out["v"])).expect("usize")),
                    "static" => {
                        let m: &'static str = Box::leak(crate::areas::co::panic_text(as_u64(&out["m"])).into_boxed_str());
                        std::panic::panic_any(m)
                    }
                    "owned" => std::panic::panic_any(crate::areas::co::panic_text(as_u64(&out["m"]))),
                    _ => std::panic::panic_any(42u32),
                }
            },
            None,
            None,
        );
        if late_ms == 0 {
            let t0 = std::time::Instant::now();
            while !done.load(Ordering::Acquire) && t0.elapsed() < Duration::from_secs(3) {
                std::thread::sleep(Duration::from_millis(2));
            }
        }
        let mut joins = Vec::new();
        for j in t["joins"].as_array().expect("joins") {
            let before = done.load(Ordering::Acquire);
            if before {
                // the body has returned: give the worker time to publish the result
                std::thread::sleep(Duration::from_millis(80));
            }
            let call = |_: ()| {
                let now = open_coroutine_core::common::now();
                let deadline = match j["dl"].as_str().expect("dl") {
                    "zero" => 0,
                    "past" => now.saturating_sub(1_000_000),
                    "now" => now,
                    "soon" => now.saturating_add(30_000_000),
                    "far" => now.saturating_add(3_000_000_000),
                    _ => u64::MAX,
                };
                match j["api"].as_str().expect("api") {
                    "at" => outcome(h.timeout_at_join(deadline)),
                    "dur" => outcome(h.timeout_join(if deadline == u64::MAX {
                        Duration::MAX
                    } else {
                        Duration::from_nanos(deadline.saturating_sub(now))
                    })),
                    _ => outcome(h.join()),
                }
            };
            let t0 = std::time::Instant::now();
            let mut r = call(());
            let el = t0.elapsed();
            let after = done.load(Ordering::Acquire);
            let mut retried = false;
            if before && r == json!("timeout") {
                // finished and still a timeout: once more, half a second later, to tell a result that was
                // published late from one that is never handed out
                std::thread::sleep(Duration::from_millis(500));
                r = call(());
                retried = true;
            }
            joins.push(json!({"r": r, "before": before, "after": after, "retried": retried,
                              "elapsed_ms": u64::try_from(el.as_millis()).unwrap_or(u64::MAX)}));
        }
        let v = json!({"joins": joins});
        emit_partial(&v);
        obs.push(v);
        drop(h);
    }
    obs
}
