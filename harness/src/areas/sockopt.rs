//! C19: SO_RCVTIMEO / SO_SNDTIMEO histories on real sockets through the crate's public
//! `syscall::setsockopt`, `syscall::close`, `recv_time_limit`, `send_time_limit`.
//!
//! Descriptors travel as *canonical* numbers: `real fd - base`, where `base` is the lowest free
//! descriptor of this process after the runtime was initialised. The kernel's lowest-free rule then
//! makes the canonical number of a new socket the lowest canonical number not in use, which is what
//! the model computes. One case per child process (the caches are process-global, and a panic inside
//! the crate's `extern "C"` functions aborts), every observation is emitted as it is produced.
use crate::util::{as_i64, emit_partial};
use open_coroutine_core::config::Config;
use open_coroutine_core::net::EventLoops;
use open_coroutine_core::syscall;
use serde_json::{json, Value};
use std::ffi::c_int;

fn new_socket() -> c_int {
    let mut sv: [c_int; 2] = [0; 2];
    let r = unsafe { libc::socketpair(libc::AF_UNIX, libc::SOCK_STREAM, 0, sv.as_mut_ptr()) };
    assert_eq!(r, 0, "socketpair");
    // the peer is not needed: only the option table of sv[0] is exercised
    unsafe {
        let _ = libc::close(sv[1]);
    }
    sv[0]
}

fn opt_name(w: &str) -> c_int {
    match w {
        "rcv" => libc::SO_RCVTIMEO,
        "snd" => libc::SO_SNDTIMEO,
        _ => panic!("which {w}"),
    }
}

pub fn run(case: &Value) -> Vec<Value> {
    // hooked close() consults the event loops from a plain thread
    EventLoops::init(&Config::single());
    let base = {
        let fd = new_socket();
        unsafe {
            let _ = libc::close(fd);
        }
        fd
    };
    let mut obs = Vec::new();
    let mut push = |v: Value, obs: &mut Vec<Value>| {
        emit_partial(&v);
        obs.push(v);
    };
    for op in case["ops"].as_array().expect("ops") {
        let kind = op["op"].as_str().expect("op");
        let fd = op.get("fd").map(|v| base + c_int::try_from(as_i64(v)).expect("fd"));
        match kind {
            "socket" => {
                let fd = new_socket();
                push(json!(format!("fd:{}", fd - base)), &mut obs);
            }
            "setopt" => {
                let tv = libc::timeval {
                    tv_sec: as_i64(&op["sec"]),
                    tv_usec: as_i64(&op["usec"]),
                };
                let r = syscall::setsockopt(
                    None,
                    fd.expect("fd"),
                    libc::SOL_SOCKET,
                    opt_name(op["which"].as_str().expect("which")),
                    std::ptr::from_ref(&tv).cast(),
                    libc::socklen_t::try_from(std::mem::size_of::<libc::timeval>()).expect("len"),
                );
                push(json!(format!("ret:{r}")), &mut obs);
            }
            "limit" => {
                let v = match op["which"].as_str().expect("which") {
                    "rcv" => syscall::recv_time_limit(fd.expect("fd")),
                    _ => syscall::send_time_limit(fd.expect("fd")),
                };
                push(json!(format!("val:{v}")), &mut obs);
            }
            "kget" => {
                // the kernel's own view, read without going through the crate
                let mut tv: libc::timeval = unsafe { std::mem::zeroed() };
                let mut len = libc::socklen_t::try_from(std::mem::size_of::<libc::timeval>()).expect("len");
                let r = unsafe {
                    libc::getsockopt(
                        fd.expect("fd"),
                        libc::SOL_SOCKET,
                        opt_name(op["which"].as_str().expect("which")),
                        std::ptr::from_mut(&mut tv).cast(),
                        &raw mut len,
                    )
                };
                if r == 0 {
                    push(json!(format!("tv:{}:{}", tv.tv_sec, tv.tv_usec)), &mut obs);
                } else {
                    push(json!(format!("ret:{r}")), &mut obs);
                }
            }
            "close" => {
                let r = syscall::close(None, fd.expect("fd"));
                push(json!(format!("ret:{r}")), &mut obs);
            }
            _ => panic!("unknown op {kind}"),
        }
    }
    obs
}
