//! C25: coroutine-local storage reached through real coroutines (`Deref` to `CoroutineLocal`).
//! Calls are made either through the coroutine handle from outside (`via = "handle"`) or by the
//! coroutine's own body through `Coroutine::current()` (`via = "inside"`: the body executes one
//! mailbox command per resume and suspends again). Stored values count their destructor runs.
use crate::util::{as_i64, as_u64};
use open_coroutine_core::coroutine::suspender::Suspender;
use open_coroutine_core::coroutine::Coroutine;
use serde_json::{json, Value};
use std::cell::{Cell, RefCell};

type Co = Coroutine<'static, (), (), ()>;

thread_local! {
    static DROPS: RefCell<Vec<i64>> = const { RefCell::new(Vec::new()) };
    static CMD: RefCell<Option<Cmd>> = const { RefCell::new(None) };
    static RES: RefCell<Option<Option<(i64, i64)>>> = const { RefCell::new(None) };
}

/// A stored value: identity, current payload; its destructor logs the identity unless the value
/// was handed back to the caller first.
struct Tracked {
    id: i64,
    val: i64,
    returned: Cell<bool>,
}

impl Drop for Tracked {
    fn drop(&mut self) {
        if !self.returned.get() {
            DROPS.with(|d| d.borrow_mut().push(self.id));
        }
    }
}

#[derive(Clone)]
enum Cmd {
    Put(&'static str, i64, i64),
    Get(&'static str),
    GetMut(&'static str, i64),
    Remove(&'static str),
}

fn take_back(v: Option<Tracked>) -> Option<(i64, i64)> {
    v.map(|t| {
        t.returned.set(true);
        (t.id, t.val)
    })
}

/// The four calls, on whatever dereferences to the coroutine's local.
fn exec(co: &Co, cmd: &Cmd) -> Option<(i64, i64)> {
    match cmd {
        Cmd::Put(k, id, v) => take_back(co.put(
            k,
            Tracked {
                id: *id,
                val: *v,
                returned: Cell::new(false),
            },
        )),
        Cmd::Get(k) => co.get::<Tracked>(k).map(|t| (t.id, t.val)),
        Cmd::GetMut(k, v) => co.get_mut::<Tracked>(k).map(|t| {
            let old = (t.id, t.val);
            t.val = *v;
            old
        }),
        Cmd::Remove(k) => take_back(co.remove::<Tracked>(k)),
    }
}

fn new_co(i: usize) -> Box<Co> {
    let body = |s: &Suspender<(), ()>, ()| loop {
        if let Some(cmd) = CMD.with(|c| c.borrow_mut().take()) {
            let me = Co::current().expect("current coroutine");
            let r = exec(me, &cmd);
            RES.with(|x| *x.borrow_mut() = Some(r));
        }
        s.suspend();
    };
    Box::new(Coroutine::new(Some(format!("c25-{i}")), body, None, None).expect("coroutine"))
}

fn drained() -> Vec<i64> {
    let mut v = DROPS.with(|d| std::mem::take(&mut *d.borrow_mut()));
    v.sort_unstable();
    v
}

fn res_json(r: Option<(i64, i64)>) -> Value {
    let res = r.map_or(Value::Null, |(id, v)| json!([id, v.to_string()]));
    json!({"res": res, "dropped": drained()})
}

pub fn run(case: &Value) -> Vec<Value> {
    let n = usize::try_from(as_u64(&case["cfg"]["cos"])).expect("cos");
    let mut cos: Vec<Option<Box<Co>>> = (0..n).map(|i| Some(new_co(i))).collect();
    let _ = drained();
    let mut obs = Vec::new();
    for op in case["ops"].as_array().expect("ops") {
        let kind = op["op"].as_str().expect("op");
        let c = as_i64(&op["c"]);
        let slot = usize::try_from(c).ok().and_then(|i| cos.get_mut(i));
        let Some(slot) = slot else {
            obs.push(json!("bad"));
            continue;
        };
        if slot.is_none() {
            obs.push(json!("bad"));
            continue;
        }
        if kind == "drop" {
            drop(slot.take());
            obs.push(json!({"drop": drained()}));
            continue;
        }
        // a fresh allocation per call: keys are compared by content, never by address
        let key: &'static str = Box::leak(format!("k{}", as_i64(&op["k"])).into_boxed_str());
        let cmd = match kind {
            "put" => Cmd::Put(key, as_i64(&op["id"]), as_i64(&op["v"])),
            "get" => Cmd::Get(key),
            "get_mut" => Cmd::GetMut(key, as_i64(&op["v"])),
            "remove" => Cmd::Remove(key),
            _ => panic!("unknown op {kind}"),
        };
        let co = slot.as_mut().expect("live");
        let r = if op["via"].as_str() == Some("inside") {
            CMD.with(|x| *x.borrow_mut() = Some(cmd));
            RES.with(|x| *x.borrow_mut() = None);
            match co.resume() {
                Ok(_) => match RES.with(|x| x.borrow_mut().take()) {
                    Some(r) => r,
                    None => {
                        obs.push(json!("bad"));
                        continue;
                    }
                },
                Err(_) => {
                    obs.push(json!("bad"));
                    continue;
                }
            }
        } else {
            exec(co, &cmd)
        };
        obs.push(res_json(r));
    }
    // coroutines the history did not drop are leaked: their destructors are not part of the case
    for c in cos.into_iter().flatten() {
        std::mem::forget(c);
    }
    obs
}
