//! C26: the bean factory.
//!
//! * `mode = "dfs"`: enumerate ALL interleavings of a small multi-threaded program over the real
//!   `beans.rs` source (shim copy: every atomic / map operation is a scheduling point). The factory
//!   lives in a function-local `static`: a program that races for its creation ("cold") runs every
//!   execution in a forked child; a program with a sequential prefix ("warm") runs them all here
//!   with fresh bean names. This process drives the depth-first search and collects the outcomes.
//! * `mode = "exec"`: one execution under a schedule prefix; prints the decisions made and the outcome.
//! * `mode = "barrier"`: no shim; `k` real threads released by a barrier ask the crate's own
//!   `BeanFactory` for one fresh name whose `Default` is slow (process-global state: isolated case).
use crate::util::as_u64;
use serde_json::{json, Value};
use std::collections::BTreeSet;
use std::sync::{Arc, Barrier, Mutex};

#[cfg(shim_ok)]
use crate::shimmed::beans::BeanFactory;
#[cfg(not(shim_ok))]
use open_coroutine_core::common::beans::BeanFactory;

/// A bean; not zero-sized, so distinct leaked allocations have distinct addresses.
#[derive(Default)]
struct Bean {
    _pad: u64,
}

/// Per-execution suffix of the bean names: executions that share a process (warm programs: the
/// factory already exists) must not see each other's beans.
static NAME_SUFFIX: std::sync::atomic::AtomicU64 = std::sync::atomic::AtomicU64::new(0);

fn bean_name(n: u64) -> String {
    format!("bean-{n}-{}", NAME_SUFFIX.load(std::sync::atomic::Ordering::Relaxed))
}

/// One call of a program on the (shimmed) factory: address, `null` (no instance) or "unit".
fn do_call(call: &Value) -> Value {
    let name = bean_name(as_u64(&call["n"]));
    match call["c"].as_str().expect("call kind") {
        "god" => {
            let b: &Bean = BeanFactory::get_or_default::<Bean>(&name);
            json!(std::ptr::from_ref(b) as usize)
        }
        "godm" => {
            let b: &mut Bean = unsafe { BeanFactory::get_mut_or_default::<Bean>(&name) };
            json!(std::ptr::from_mut(b) as usize)
        }
        "get" => BeanFactory::get_bean::<Bean>(&name)
            .map_or(Value::Null, |b| json!(std::ptr::from_ref(b) as usize)),
        "init" => {
            BeanFactory::init_bean(&name, Bean::default());
            json!("unit")
        }
        k => panic!("unknown call {k}"),
    }
}

/// Rename addresses 0, 1, 2, .. by first occurrence (threads in order, then the final lookups).
fn canon(threads: &[Vec<Value>], finals: &[Value]) -> Value {
    let mut tbl: Vec<u64> = Vec::new();
    let mut label = |v: &Value| -> Value {
        match v.as_u64() {
            Some(a) => {
                let i = tbl.iter().position(|x| *x == a).unwrap_or_else(|| {
                    tbl.push(a);
                    tbl.len() - 1
                });
                json!(i)
            }
            None => v.clone(),
        }
    };
    let t: Vec<Vec<Value>> = threads.iter().map(|rs| rs.iter().map(&mut label).collect()).collect();
    let f: Vec<Value> = finals.iter().map(&mut label).collect();
    json!({"t": t, "f": f})
}

fn exec(case: &Value) -> Vec<Value> {
    let threads = case["threads"].as_array().expect("threads").clone();
    let seq0 = case["seq0"].as_bool().unwrap_or(false);
    let prefix: Vec<usize> = case["prefix"]
        .as_array()
        .map(|a| a.iter().map(|v| usize::try_from(as_u64(v)).expect("alt")).collect())
        .unwrap_or_default();
    let results: Arc<Mutex<Vec<Vec<Value>>>> = Arc::new(Mutex::new(vec![Vec::new(); threads.len()]));
    let mut bodies: Vec<Box<dyn FnOnce() + Send + 'static>> = Vec::new();
    for (t, prog) in threads.iter().enumerate() {
        let prog = prog.as_array().expect("program").clone();
        let results = results.clone();
        let body = move || {
            for call in &prog {
                // a panic inside a call (init_bean's assertion) ends the thread: observation "panic"
                let r = std::panic::catch_unwind(std::panic::AssertUnwindSafe(|| do_call(call)));
                let dead = r.is_err();
                results.lock().expect("results")[t].push(r.unwrap_or_else(|_| json!("panic")));
                if dead {
                    break;
                }
            }
        };
        if seq0 && t == 0 {
            body(); // the main thread's sequential prefix: no controller, points are no-ops
        } else {
            bodies.push(Box::new(body));
        }
    }
    let trace = crate::shim::dfs::run_once(bodies, &prefix);
    let finals: Vec<Value> = case["finals"]
        .as_array()
        .expect("finals")
        .iter()
        .map(|n| do_call(&json!({"c": "get", "n": n})))
        .collect();
    let rs = results.lock().expect("results").clone();
    let tr: Vec<Value> = trace.iter().map(|(n, a)| json!([n, a])).collect();
    vec![json!({"trace": tr}), canon(&rs, &finals)]
}

/// Run one execution in a forked child (this process is single-threaded here, and the factory
/// `static` of the child starts out untouched); `None` if the child died or hung.
fn exec_child(case: &Value, prefix: &[usize]) -> Option<(Vec<(usize, usize)>, Value)> {
    let mut c = case.clone();
    c["prefix"] = json!(prefix);
    let mut fds = [0 as libc::c_int; 2];
    if unsafe { libc::pipe(fds.as_mut_ptr()) } != 0 {
        return None;
    }
    let pid = unsafe { libc::fork() };
    if pid < 0 {
        return None;
    }
    if pid == 0 {
        // child: run, write the observation to the pipe, leave without running destructors
        unsafe { libc::close(fds[0]) };
        let obs = std::panic::catch_unwind(|| exec(&c)).unwrap_or_default();
        let text = Value::Array(obs).to_string();
        let bytes = text.as_bytes();
        let mut off = 0;
        while off < bytes.len() {
            let n = unsafe { libc::write(fds[1], bytes[off..].as_ptr().cast(), bytes.len() - off) };
            if n <= 0 {
                break;
            }
            off += usize::try_from(n).expect("written");
        }
        unsafe { libc::_exit(0) };
    }
    unsafe { libc::close(fds[1]) };
    let mut out: Vec<u8> = Vec::new();
    let mut buf = [0u8; 4096];
    let mut ok = true;
    loop {
        let mut pfd = libc::pollfd { fd: fds[0], events: libc::POLLIN, revents: 0 };
        let r = unsafe { libc::poll(&mut pfd, 1, 10_000) };
        if r <= 0 {
            ok = false; // hung (or poll failed): kill it
            unsafe { libc::kill(pid, libc::SIGKILL) };
            break;
        }
        let n = unsafe { libc::read(fds[0], buf.as_mut_ptr().cast(), buf.len()) };
        if n < 0 {
            ok = false;
            break;
        }
        if n == 0 {
            break;
        }
        out.extend_from_slice(&buf[..usize::try_from(n).expect("read")]);
    }
    unsafe { libc::close(fds[0]) };
    let mut status: libc::c_int = 0;
    unsafe { libc::waitpid(pid, &mut status, 0) };
    if !ok {
        return None;
    }
    let v: Value = serde_json::from_slice(&out).ok()?;
    let obs = v.as_array()?;
    let trace: Vec<(usize, usize)> = obs.first()?["trace"]
        .as_array()?
        .iter()
        .map(|p| {
            (
                usize::try_from(as_u64(&p[0])).expect("nalt"),
                usize::try_from(as_u64(&p[1])).expect("alt"),
            )
        })
        .collect();
    Some((trace, obs.get(1)?.clone()))
}

/// One execution of a warm program in this process: the factory exists (the sequential prefix
/// of the first execution created it), the bean names are fresh.
fn exec_here(case: &Value, prefix: &[usize], nth: u64) -> Option<(Vec<(usize, usize)>, Value)> {
    NAME_SUFFIX.store(nth, std::sync::atomic::Ordering::Relaxed);
    let mut c = case.clone();
    c["prefix"] = json!(prefix);
    let obs = exec(&c);
    let trace: Vec<(usize, usize)> = obs.first()?["trace"]
        .as_array()?
        .iter()
        .map(|p| {
            (
                usize::try_from(as_u64(&p[0])).expect("nalt"),
                usize::try_from(as_u64(&p[1])).expect("alt"),
            )
        })
        .collect();
    Some((trace, obs.get(1)?.clone()))
}

fn dfs(case: &Value) -> Vec<Value> {
    let max_execs = usize::try_from(as_u64(&case["max_execs"])).expect("max_execs");
    let budget = std::time::Duration::from_millis(case.get("budget_ms").map_or(60_000, as_u64));
    let started = std::time::Instant::now();
    // a cold program races for the creation of the factory itself, which lives in a static of
    // this process: it needs a fresh process per execution. A warm one (sequential prefix first)
    // only needs fresh bean names.
    let warm = case["seq0"].as_bool().unwrap_or(false);
    let mut outcomes: BTreeSet<String> = BTreeSet::new();
    let mut prefix: Vec<usize> = Vec::new();
    let mut count = 0usize;
    let mut complete = false;
    let mut lost = false;
    loop {
        let r = if warm {
            exec_here(case, &prefix, count as u64 + 1)
        } else {
            exec_child(case, &prefix)
        };
        let Some((trace, outcome)) = r else {
            lost = true;
            break;
        };
        count += 1;
        let _ = outcomes.insert(outcome.to_string());
        // next prefix: backtrack to the last decision with an untried alternative
        let mut next: Option<Vec<usize>> = None;
        for i in (0..trace.len()).rev() {
            let (nalt, alt) = trace[i];
            if alt + 1 < nalt {
                let mut p: Vec<usize> = trace[..i].iter().map(|x| x.1).collect();
                p.push(alt + 1);
                next = Some(p);
                break;
            }
        }
        match next {
            // out of executions or out of time (a loaded machine): report what was seen so far
            Some(p) if count < max_execs && started.elapsed() < budget => prefix = p,
            Some(_) => break,
            None => {
                complete = true;
                break;
            }
        }
    }
    let mut obs = vec![json!({"complete": complete, "execs": count, "shim": crate::shimmed::SHIM_OK})];
    for o in outcomes {
        obs.push(serde_json::from_str(&o).expect("outcome"));
    }
    if lost {
        obs.push(json!("lost"));
    }
    obs
}

/// Slow to construct: widens the window between "not there" and "inserted".
struct Slow {
    _pad: u64,
}

static SLOW_MS: std::sync::atomic::AtomicU64 = std::sync::atomic::AtomicU64::new(0);

impl Default for Slow {
    fn default() -> Self {
        std::thread::sleep(std::time::Duration::from_millis(
            SLOW_MS.load(std::sync::atomic::Ordering::Relaxed),
        ));
        Self { _pad: 1 }
    }
}

fn barrier(case: &Value) -> Vec<Value> {
    use open_coroutine_core::common::beans::BeanFactory as Real;
    let k = usize::try_from(as_u64(&case["k"])).expect("k");
    SLOW_MS.store(as_u64(&case["sleep_ms"]), std::sync::atomic::Ordering::Relaxed);
    let bar = Arc::new(Barrier::new(k));
    let handles: Vec<_> = (0..k)
        .map(|_| {
            let bar = bar.clone();
            std::thread::spawn(move || {
                let _ = bar.wait();
                let b: &Slow = Real::get_or_default::<Slow>("c26-slow-bean");
                std::ptr::from_ref(b) as usize
            })
        })
        .collect();
    let addrs: Vec<usize> = handles.into_iter().map(|h| h.join().expect("join")).collect();
    let distinct: BTreeSet<usize> = addrs.iter().copied().collect();
    let later = Real::get_bean::<Slow>("c26-slow-bean").map(|b| std::ptr::from_ref(b) as usize);
    let later_same = distinct.len() == 1 && later == addrs.first().copied();
    vec![json!({"k": k, "distinct": distinct.len(), "later_same": later_same})]
}

pub fn run(case: &Value) -> Vec<Value> {
    match case["mode"].as_str().expect("mode") {
        "dfs" => dfs(case),
        "exec" => exec(case),
        "barrier" => barrier(case),
        m => panic!("unknown mode {m}"),
    }
}
