//! C26: the bean factory.
//!
//! * `mode = "dfs"`: enumerate ALL interleavings of a small multi-threaded program over the real
//!   `beans.rs` source (shim copy: every atomic / map operation is a scheduling point). The factory
//!   lives in a function-local `static`: a program that races for its creation ("cold") runs every
//!   execution in a forked child; a program with a sequential prefix ("warm") runs them all here
//!   with fresh bean names. This process drives the depth-first search and collects the outcomes.
//! * `mode = "exec"`: one execution under a schedule prefix; prints the decisions made and the outcome.
//! * `mode = "barrier"`: no shim; `k` real threads released by a barrier ask the crate's own
//!   `BeanFactory` for one fresh name whose `Default` is slow (process-global state: isolated case).
use crate::util::as_u64;
use serde_json::{json, Value};
use std::collections::BTreeSet;
use std::sync::{Arc, Barrier, Mutex};

#[cfg(shim_ok)]
use crate::shimmed::beans::BeanFactory;
#[cfg(not(shim_ok))]
use open_coroutine_core::common::beans::BeanFactory;

/// A bean; not zero-sized, so distinct leaked allocations have distinct addresses.
#[derive(Default)]
struct Bean {
    _pad: u64,
}

/// Per-execution suffix of the bean names: executions that share a process (warm programs: the
/// factory already exists) must not see each other's beans.
static NAME_SUFFIX: std::sync::atomic::AtomicU64 = std::sync::atomic::AtomicU64::new(0);

fn bean_name(n: u64) -> String {
    format!("bean-{n}-{}", NAME_SUFFIX.load(std::sync::atomic::Ordering::Relaxed))
}

/// One call of a program on the (shimmed) factory: address, `null` (no instance) or "unit".
fn do_call(call: &Value) -> Value {
    let name = bean_name(as_u64(&call["n"]));
    match call["c"].as_str().expect("call kind") {
        "god" => {
            let b: &Bean = BeanFactory::get_or_default::<Bean>(&name);
            json!(std::ptr::from_ref(b) as usize)
        }
        "godm" => {
            let b: &mut Bean = unsafe { BeanFactory::get_mut_or_default::<Bean>(&name) };
            json!(std::ptr::from_mut(b) as usize)
        }
        "get" => BeanFactory::get_bean::<Bean>(&name)
            .map_or(Value::Null, |b| json!(std::ptr::from_ref(b) as usize)),
        "init" => {
            BeanFactory::init_bean(&name, Bean::default());
            json!("unit")
        }
        k => panic!("unknown call {k}"),
    }
}

/// Rename addresses 0, 1, 2, .. by first occurrence (threads in order, then the final lookups).
fn canon(threads: &[Vec<Value>], finals: &[Value]) -> Value {
    let mut tbl: Vec<u64> = Vec::new();
    let mut label = |v: &Value| -> Value {
        match v.as_u64() {
            Some(a) => {
                let i = tbl.iter().position(|x| *x == a).unwrap_or_else(|| {
                    tbl.push(a);
                    tbl.len() - 1
                });
                json!(i)
            }
            None => v.clone(),
        }
    };
    let t: Vec<Vec<Value>> = threads.iter().map(|rs| rs.iter().map(&mut label).collect()).collect();
    let f: Vec<Value> = finals.iter().map(&mut label).collect();
    json!({"t": t, "f": f})
}

fn exec(case: &Value) -> Vec<Value> {
    let threads = case["threads"].as_array().expect("threads").clone();
    let seq0 = case["seq0"].as_bool().unwrap_or(false);
    let prefix: Vec<usize> = case["prefix"]
        .as_array()
        .map(|a| a.iter().map(|v| usize::try_from(as_u64(v)).expect("alt")).collect())
        .unwrap_or_default();
    let results: Arc<Mutex<Vec<Vec<Value>>>> = Arc::new(Mutex::new(vec![Vec::new(); threads.len()]));
    let mut bodies: Vec<Box<dyn FnOnce() + Send + 'static>> = Vec::new();
    for (t, prog) in threads.iter().enumerate() {
        let prog = prog.as_array().expect("program").clone();
        let results = results.clone();
        let body = move || {
            for call in &prog {
                // a panic inside a call (init_bean's assertion) ends the thread: observation "panic"
                let r = std::panic::catch_unwind(std::panic::AssertUnwindSafe(|| do_call(call)));
                let dead = r.is_err();
                results.lock().expect("results")[t].push(r.unwrap_or_else(|_| json!("panic")));
                if dead {
                    break;
                }
            }
        };
        if seq0 && t == 0 {
            body(); // the main thread's sequential prefix: no controller, points are no-ops
        } else {
            bodies.push(Box::new(body));
        }
    }
    let trace = crate::shim::dfs::run_once(bodies, &prefix);
    let finals: Vec<Value> = case["finals"]
        .as_array()
        .expect("finals")
        .iter()
        .map(|n| do_call(&json!({"c": "get", "n": n})))
        .collect();
    let rs = results.lock().expect("results").clone();
    let tr: Vec<Value> = trace.iter().map(|(n, a)| json!([n, a])).collect();
    vec![json!({"trace": tr}), canon(&rs, &finals)]
}

/// Run `f` in a forked child (this process is single-threaded here and never touches the factory
/// itself, so the child starts with the factory `static` untouched); `None` if the child died or
/// outlived `timeout_ms`.
fn run_in_child(timeout_ms: u64, f: impl FnOnce() -> Vec<Value>) -> Option<Vec<Value>> {
    let mut fds = [0 as libc::c_int; 2];
    if unsafe { libc::pipe(fds.as_mut_ptr()) } != 0 {
        return None;
    }
    let pid = unsafe { libc::fork() };
    if pid < 0 {
        return None;
    }
    if pid == 0 {
        // child: run, write the observation to the pipe, leave without running destructors
        unsafe { libc::close(fds[0]) };
        let obs = std::panic::catch_unwind(std::panic::AssertUnwindSafe(f)).unwrap_or_default();
        let text = Value::Array(obs).to_string();
        let bytes = text.as_bytes();
        let mut off = 0;
        while off < bytes.len() {
            let n = unsafe { libc::write(fds[1], bytes[off..].as_ptr().cast(), bytes.len() - off) };
            if n <= 0 {
                break;
            }
            off += usize::try_from(n).expect("written");
        }
        unsafe { libc::_exit(0) };
    }
    unsafe { libc::close(fds[1]) };
    let deadline = std::time::Instant::now() + std::time::Duration::from_millis(timeout_ms);
    let mut out: Vec<u8> = Vec::new();
    let mut buf = [0u8; 4096];
    let mut ok = true;
    loop {
        let left = deadline.saturating_duration_since(std::time::Instant::now());
        let mut pfd = libc::pollfd { fd: fds[0], events: libc::POLLIN, revents: 0 };
        let r = unsafe { libc::poll(&mut pfd, 1, libc::c_int::try_from(left.as_millis()).unwrap_or(libc::c_int::MAX)) };
        if r <= 0 {
            ok = false; // hung (or poll failed): kill it
            unsafe { libc::kill(pid, libc::SIGKILL) };
            break;
        }
        let n = unsafe { libc::read(fds[0], buf.as_mut_ptr().cast(), buf.len()) };
        if n < 0 {
            ok = false;
            break;
        }
        if n == 0 {
            break;
        }
        out.extend_from_slice(&buf[..usize::try_from(n).expect("read")]);
    }
    unsafe { libc::close(fds[0]) };
    let mut status: libc::c_int = 0;
    unsafe { libc::waitpid(pid, &mut status, 0) };
    if !ok {
        return None;
    }
    let v: Value = serde_json::from_slice(&out).ok()?;
    v.as_array().cloned()
}

fn parse_exec(obs: &[Value]) -> Option<(Vec<(usize, usize)>, Value)> {
    let trace: Vec<(usize, usize)> = obs.first()?["trace"]
        .as_array()?
        .iter()
        .map(|p| {
            (
                usize::try_from(as_u64(&p[0])).expect("nalt"),
                usize::try_from(as_u64(&p[1])).expect("alt"),
            )
        })
        .collect();
    Some((trace, obs.get(1)?.clone()))
}

/// One execution of a cold program: in a child of its own.
fn exec_child(case: &Value, prefix: &[usize]) -> Option<(Vec<(usize, usize)>, Value)> {
    let mut c = case.clone();
    c["prefix"] = json!(prefix);
    let obs = run_in_child(10_000, || exec(&c))?;
    parse_exec(&obs)
}

/// One execution of a warm program in this process: the factory exists (the sequential prefix
/// of the first execution created it), the bean names are fresh.
fn exec_here(case: &Value, prefix: &[usize], nth: u64) -> Option<(Vec<(usize, usize)>, Value)> {
    NAME_SUFFIX.store(nth, std::sync::atomic::Ordering::Relaxed);
    let mut c = case.clone();
    c["prefix"] = json!(prefix);
    parse_exec(&exec(&c))
}

/// Address of the factory `static` (`INSTANCE` inside `get_instance` of the shimmed copy), found
/// through the symbol table of this executable; `None` if it cannot be found (then cold programs
/// fall back to a child process per execution).
#[cfg(shim_ok)]
fn instance_cell() -> Option<*mut usize> {
    static CELL: std::sync::OnceLock<Option<usize>> = std::sync::OnceLock::new();
    fn u16_at(b: &[u8], o: usize) -> Option<usize> {
        Some(usize::from(u16::from_le_bytes(b.get(o..o + 2)?.try_into().ok()?)))
    }
    fn u32_at(b: &[u8], o: usize) -> Option<usize> {
        usize::try_from(u32::from_le_bytes(b.get(o..o + 4)?.try_into().ok()?)).ok()
    }
    fn u64_at(b: &[u8], o: usize) -> Option<usize> {
        usize::try_from(u64::from_le_bytes(b.get(o..o + 8)?.try_into().ok()?)).ok()
    }
    fn find() -> Option<usize> {
        let b = std::fs::read("/proc/self/exe").ok()?;
        if b.get(..5)? != [0x7f, b'E', b'L', b'F', 2] {
            return None;
        }
        let (shoff, shentsize, shnum) = (u64_at(&b, 0x28)?, u16_at(&b, 0x3a)?, u16_at(&b, 0x3c)?);
        let sect = |i: usize| -> Option<(usize, usize, usize, usize)> {
            let o = shoff + i * shentsize;
            // type, offset, size, link
            Some((u32_at(&b, o + 4)?, u64_at(&b, o + 0x18)?, u64_at(&b, o + 0x20)?, u32_at(&b, o + 0x28)?))
        };
        let mut found: Vec<usize> = Vec::new();
        for i in 0..shnum {
            let (ty, off, size, link) = sect(i)?;
            if ty != 2 {
                continue; // SHT_SYMTAB
            }
            let (_, stroff, strsize, _) = sect(link)?;
            for k in 0..size / 24 {
                let so = off + k * 24;
                let (name, value, sz) = (u32_at(&b, so)?, u64_at(&b, so + 8)?, u64_at(&b, so + 16)?);
                let tail = b.get(stroff + name..stroff + strsize)?;
                let end = tail.iter().position(|c| *c == 0)?;
                let sym = std::str::from_utf8(&tail[..end]).ok()?;
                if sz == 8 && sym.contains("shimmed") && sym.contains("beans") && sym.contains("get_instance") && sym.contains("INSTANCE") {
                    found.push(value);
                }
            }
        }
        if found.len() != 1 {
            return None;
        }
        // load bias of the main program
        extern "C" fn cb(info: *mut libc::dl_phdr_info, _size: libc::size_t, data: *mut libc::c_void) -> libc::c_int {
            unsafe { *data.cast::<usize>() = usize::try_from((*info).dlpi_addr).unwrap_or(0) };
            1 // the first entry is the executable: stop
        }
        let mut bias: usize = 0;
        unsafe { libc::dl_iterate_phdr(Some(cb), std::ptr::from_mut(&mut bias).cast()) };
        Some(bias + found[0])
    }
    (*CELL.get_or_init(find)).map(|a| a as *mut usize)
}

#[cfg(not(shim_ok))]
fn instance_cell() -> Option<*mut usize> {
    None
}

/// Forget the factory: the next execution starts with `INSTANCE == 0` (the old factory leaks).
fn reset_factory(cell: *mut usize) {
    unsafe { std::ptr::write_volatile(cell, 0) };
}

/// Self-test of `reset_factory` (run inside the child that is going to use it): after a reset a
/// bean created before is gone, and after re-creating it the address differs.
fn reset_works(cell: *mut usize) -> bool {
    let name = json!({"c": "god", "n": 999_999});
    let get = json!({"c": "get", "n": 999_999});
    let a = do_call(&name);
    if unsafe { std::ptr::read_volatile(cell) } == 0 {
        return false;
    }
    reset_factory(cell);
    let gone = do_call(&get).is_null();
    let b = do_call(&name);
    reset_factory(cell);
    gone && a != b
}

/// A program is enumerated inside ONE child (the process that drives the searches stays clean).
/// Warm programs only need fresh bean names per execution. Cold programs race for the creation of
/// the factory itself: the factory `static` is reset between executions, or, if it cannot be
/// located, every execution gets a child process of its own.
fn dfs(case: &Value) -> Vec<Value> {
    let budget = case.get("budget_ms").map_or(60_000, as_u64);
    let warm = case["seq0"].as_bool().unwrap_or(false);
    if warm || instance_cell().is_some() {
        run_in_child(budget + 30_000, || dfs_loop(case)).unwrap_or_else(|| vec![json!("lost")])
    } else {
        dfs_loop(case)
    }
}

fn dfs_loop(case: &Value) -> Vec<Value> {
    let max_execs = usize::try_from(as_u64(&case["max_execs"])).expect("max_execs");
    let budget = std::time::Duration::from_millis(case.get("budget_ms").map_or(60_000, as_u64));
    let started = std::time::Instant::now();
    // a cold program races for the creation of the factory itself, which lives in a static of
    // this process: it needs a fresh process per execution. A warm one (sequential prefix first)
    // only needs fresh bean names.
    let warm = case["seq0"].as_bool().unwrap_or(false);
    // (inside the child of `dfs`) can the factory be reset in place?
    let reset = if warm { None } else { instance_cell().filter(|c| reset_works(*c)) };
    let mut outcomes: BTreeSet<String> = BTreeSet::new();
    let mut prefix: Vec<usize> = Vec::new();
    let mut count = 0usize;
    let mut complete = false;
    let mut lost = false;
    loop {
        let nth = u64::try_from(count).expect("count") + 1;
        let r = if warm {
            exec_here(case, &prefix, nth)
        } else if let Some(cell) = reset {
            reset_factory(cell);
            exec_here(case, &prefix, nth)
        } else {
            exec_child(case, &prefix)
        };
        let Some((trace, outcome)) = r else {
            lost = true;
            break;
        };
        count += 1;
        let _ = outcomes.insert(outcome.to_string());
        // next prefix: backtrack to the last decision with an untried alternative
        let mut next: Option<Vec<usize>> = None;
        for i in (0..trace.len()).rev() {
            let (nalt, alt) = trace[i];
            if alt + 1 < nalt {
                let mut p: Vec<usize> = trace[..i].iter().map(|x| x.1).collect();
                p.push(alt + 1);
                next = Some(p);
                break;
            }
        }
        match next {
            // out of executions or out of time (a loaded machine): report what was seen so far
            Some(p) if count < max_execs && started.elapsed() < budget => prefix = p,
            Some(_) => break,
            None => {
                complete = true;
                break;
            }
        }
    }
    let mode = if warm { "names" } else if reset.is_some() { "reset" } else { "fork" };
    let mut obs = vec![json!({"complete": complete, "execs": count, "shim": crate::shimmed::SHIM_OK, "fresh": mode})];
    for o in outcomes {
        obs.push(serde_json::from_str(&o).expect("outcome"));
    }
    if lost {
        obs.push(json!("lost"));
    }
    obs
}

/// Slow to construct: widens the window between "not there" and "inserted".
struct Slow {
    _pad: u64,
}

static SLOW_MS: std::sync::atomic::AtomicU64 = std::sync::atomic::AtomicU64::new(0);

impl Default for Slow {
    fn default() -> Self {
        std::thread::sleep(std::time::Duration::from_millis(
            SLOW_MS.load(std::sync::atomic::Ordering::Relaxed),
        ));
        Self { _pad: 1 }
    }
}

fn barrier(case: &Value) -> Vec<Value> {
    use open_coroutine_core::common::beans::BeanFactory as Real;
    let k = usize::try_from(as_u64(&case["k"])).expect("k");
    SLOW_MS.store(as_u64(&case["sleep_ms"]), std::sync::atomic::Ordering::Relaxed);
    let bar = Arc::new(Barrier::new(k));
    let handles: Vec<_> = (0..k)
        .map(|_| {
            let bar = bar.clone();
            std::thread::spawn(move || {
                let _ = bar.wait();
                let b: &Slow = Real::get_or_default::<Slow>("c26-slow-bean");
                std::ptr::from_ref(b) as usize
            })
        })
        .collect();
    let addrs: Vec<usize> = handles.into_iter().map(|h| h.join().expect("join")).collect();
    let distinct: BTreeSet<usize> = addrs.iter().copied().collect();
    let later = Real::get_bean::<Slow>("c26-slow-bean").map(|b| std::ptr::from_ref(b) as usize);
    let later_same = distinct.len() == 1 && later == addrs.first().copied();
    vec![json!({"k": k, "distinct": distinct.len(), "later_same": later_same})]
}

pub fn run(case: &Value) -> Vec<Value> {
    match case["mode"].as_str().expect("mode") {
        "dfs" => dfs(case),
        "exec" => exec(case),
        "barrier" => barrier(case),
        m => panic!("unknown mode {m}"),
    }
}
