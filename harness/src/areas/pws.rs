//! Sequential histories on the plain work-steal queue (`work_steal.rs`, real source, shim-included
//! so that the steal start index is an input). One observation per op, emitted as it is produced
//! so that a call that never returns leaves the prefix behind.
use crate::util::{as_u64, emit_partial};
use serde_json::{json, Value};

#[cfg(shim_ok)]
use crate::shimmed::work_steal::{LocalQueue, WorkStealQueue};
#[cfg(not(shim_ok))]
use open_coroutine_core::common::work_steal::{LocalQueue, WorkStealQueue};

pub fn run(case: &Value) -> Vec<Value> {
    let n = usize::try_from(as_u64(&case["cfg"]["locals"])).expect("locals");
    let cap = usize::try_from(as_u64(&case["cfg"]["cap"])).expect("cap");
    // leaked: Drop asserts emptiness, which is not what is being observed here
    let q: &'static WorkStealQueue<u64> = Box::leak(Box::new(WorkStealQueue::new(n, cap)));
    let mut handles: Vec<&'static LocalQueue<'static, u64>> = Vec::new();
    let mut obs = Vec::new();
    let stream = case["stream"].as_bool().unwrap_or(false);
    let push = |v: Value, obs: &mut Vec<Value>| {
        if stream {
            emit_partial(&v);
        }
        obs.push(v);
    };
    for op in case["ops"].as_array().expect("ops") {
        let kind = op["op"].as_str().expect("op");
        let h = op.get("h").map(|v| usize::try_from(as_u64(v)).expect("h"));
        match kind {
            "gpush" => {
                q.push(as_u64(&op["x"]));
                push(json!("unit"), &mut obs);
            }
            "gpop" => {
                let r = q.pop();
                push(json!({"item": r}), &mut obs);
            }
            "glen" => push(json!({"num": q.len()}), &mut obs),
            "gempty" => push(json!({"bool": q.is_empty()}), &mut obs),
            "new" => {
                if n == 0 {
                    // `index %= 0` panics in the real code: refused here, `OBad` in the model
                    push(json!("bad"), &mut obs);
                } else {
                    let l: &'static LocalQueue<'static, u64> = Box::leak(Box::new(q.local_queue()));
                    handles.push(l);
                    push(json!({"num": handles.len() - 1}), &mut obs);
                }
            }
            "lpush" => match handles.get(h.expect("h")) {
                Some(l) => {
                    l.push(as_u64(&op["x"]));
                    push(json!("unit"), &mut obs);
                }
                None => push(json!("bad"), &mut obs),
            },
            "lpop" => match handles.get(h.expect("h")) {
                Some(l) => {
                    #[cfg(shim_ok)]
                    crate::shim::set_rng_choices(&[usize::try_from(as_u64(&op["start"])).expect("start")]);
                    let r = l.pop();
                    push(json!({"item": r}), &mut obs);
                }
                None => push(json!("bad"), &mut obs),
            },
            "llen" => match handles.get(h.expect("h")) {
                Some(l) => push(json!({"num": l.len()}), &mut obs),
                None => push(json!("bad"), &mut obs),
            },
            "lfull" => match handles.get(h.expect("h")) {
                Some(l) => push(json!({"bool": l.is_full()}), &mut obs),
                None => push(json!("bad"), &mut obs),
            },
            "lempty" => match handles.get(h.expect("h")) {
                Some(l) => push(json!({"bool": l.is_empty()}), &mut obs),
                None => push(json!("bad"), &mut obs),
            },
            _ => panic!("unknown op {kind}"),
        }
    }
    obs
}
