//! Area registry: one module per modelled part of the runtime.
use serde_json::Value;

pub type AreaFn = fn(&Value) -> Vec<Value>;

mod c15rt;
pub mod co;
mod conc;
mod connreal;
mod mon;
pub mod sched;
pub mod pool;
mod joinh;
mod net20;
mod net21;
mod beans;
mod grow;
mod local;
mod ows;
mod pws;
mod sockio;
mod sockopt;
mod time;
mod timed;
mod trap;
mod uring;

pub fn lookup(name: &str) -> Option<AreaFn> {
    match name {
        "time" => Some(time::run),
        "c15rt" => Some(c15rt::run),
        "mon" => Some(mon::run),
        "ows" => Some(ows::run),
        "pws" => Some(pws::run),
        "co" => Some(co::run),
        "conc" => Some(conc::run),
        "connreal" => Some(connreal::run),
        "sched" => Some(sched::run),
        "pool" => Some(pool::run),
        "joinh" => Some(joinh::run),
        "net20" => Some(net20::run),
        "net21" => Some(net21::run),
        "sockio" => Some(sockio::run),
        "sockopt" => Some(sockopt::run),
        "timed" => Some(timed::run),
        "local" => Some(local::run),
        "beans" => Some(beans::run),
        "grow" => Some(grow::run),
        "trap" => Some(trap::run),
        "uring" => Some(uring::run),
        _ => None,
    }
}
