//! Area registry: one module per modelled part of the runtime.
use serde_json::Value;

pub type AreaFn = fn(&Value) -> Vec<Value>;

mod ows;
mod sockopt;
mod time;
mod timed;

pub fn lookup(name: &str) -> Option<AreaFn> {
    match name {
        "time" => Some(time::run),
        "ows" => Some(ows::run),
        "sockopt" => Some(sockopt::run),
        "timed" => Some(timed::run),
        _ => None,
    }
}
