//! Area registry: one module per modelled part of the runtime.
use serde_json::Value;

pub type AreaFn = fn(&Value) -> Vec<Value>;

mod beans;
mod grow;
mod local;
mod ows;
mod time;
mod trap;

pub fn lookup(name: &str) -> Option<AreaFn> {
    match name {
        "time" => Some(time::run),
        "ows" => Some(ows::run),
        "local" => Some(local::run),
        "beans" => Some(beans::run),
        "grow" => Some(grow::run),
        "trap" => Some(trap::run),
        _ => None,
    }
}
