//! Area registry: one module per modelled part of the runtime.
use serde_json::Value;

pub type AreaFn = fn(&Value) -> Vec<Value>;

pub mod co;
mod conc;
pub mod sched;
mod pool;
mod net20;
mod net21;
mod ows;
mod sockio;
mod sockopt;
mod time;
mod timed;
mod uring;

pub fn lookup(name: &str) -> Option<AreaFn> {
    match name {
        "time" => Some(time::run),
        "ows" => Some(ows::run),
        "co" => Some(co::run),
        "conc" => Some(conc::run),
        "sched" => Some(sched::run),
        "pool" => Some(pool::run),
        "net20" => Some(net20::run),
        "net21" => Some(net21::run),
        "sockio" => Some(sockio::run),
        "sockopt" => Some(sockopt::run),
        "timed" => Some(timed::run),
        "uring" => Some(uring::run),
        _ => None,
    }
}
