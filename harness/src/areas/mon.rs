//! C22 (harness feature `preemptive`): real `Scheduler`s whose coroutines carry the crate's
//! `MonitorListener`, the real monitor thread and real SIGURG signals.
//!
//! Mode "trace" (one scheduler on this thread): coroutine bodies are instruction lists
//! (`work n`, `sysenter`, `sysexit`, `yield`, and the real-time helpers `spin_ms`, `spin_flag`,
//! `set_flag`, `raise` (a SIGURG sent to this thread on the spot), which count as `work 0`). A recording listener added after the `MonitorListener`
//! reports every state change together with hook H6: does the monitor's node set hold a node of
//! this thread right after the `MonitorListener` ran. Bodies report `work` and `yield` themselves.
//! Harness bookkeeping runs with SIGURG blocked, so that a signal can only land inside the
//! spinning / computing parts of a body. Observation: the event list and the results.
//!
//! Mode "stress": several scheduler threads, many short yielding coroutines, no recording;
//! observation: how many coroutines completed with the right result and how many nodes are left
//! in the monitor's set at the end. One case per process.
use serde_json::{json, Value};

pub use imp::run;

mod imp {
    use crate::util::as_u64;
    use open_coroutine_core::common::constants::{CoroutineState, SyscallName, SyscallState};
    use open_coroutine_core::coroutine::listener::Listener;
    use open_coroutine_core::coroutine::local::CoroutineLocal;
    use open_coroutine_core::coroutine::suspender::Suspender;
    use open_coroutine_core::scheduler::{SchedulableCoroutine, Scheduler};
    use open_coroutine_core::verif;
    use serde_json::{json, Value};
    use std::cell::RefCell;
    use std::sync::atomic::{AtomicBool, AtomicUsize, Ordering};
    use std::time::{Duration, Instant};

    type St = CoroutineState<(), Option<usize>>;

    static FLAG: AtomicBool = AtomicBool::new(false);

    thread_local! {
        static LOG: RefCell<Vec<Value>> = const { RefCell::new(Vec::new()) };
    }

    /// run `f` with SIGURG blocked on this thread (harness bookkeeping is not re-entrant)
    fn masked<R>(f: impl FnOnce() -> R) -> R {
        unsafe {
            let mut set: libc::sigset_t = std::mem::zeroed();
            let mut old: libc::sigset_t = std::mem::zeroed();
            let _ = libc::sigemptyset(&raw mut set);
            let _ = libc::sigaddset(&raw mut set, libc::SIGURG);
            let _ = libc::pthread_sigmask(libc::SIG_BLOCK, &raw const set, &raw mut old);
            let r = f();
            let _ = libc::pthread_sigmask(libc::SIG_SETMASK, &raw const old, std::ptr::null_mut());
            r
        }
    }

    fn log(v: impl FnOnce() -> Value) {
        masked(|| LOG.with(|l| l.borrow_mut().push(v())));
    }

    fn st_s(s: St) -> Value {
        match s {
            CoroutineState::Ready => json!("ready"),
            CoroutineState::Running => json!("running"),
            CoroutineState::Suspend((), _) => json!("suspend"),
            CoroutineState::Syscall((), _, _) => json!("syscall"),
            CoroutineState::Cancelled => json!("cancelled"),
            CoroutineState::Complete(r) => json!({"done": r.map_or(-1i64, |v| v as i64).to_string()}),
            CoroutineState::Error(_) => json!("error"),
        }
    }

    /// hook H6; without the crate's `preemptive` feature there is no monitor and no node
    #[cfg(feature = "preemptive")]
    fn nodes() -> Vec<(u64, u64)> {
        verif::monitor_nodes()
    }

    #[cfg(not(feature = "preemptive"))]
    fn nodes() -> Vec<(u64, u64)> {
        let _ = verif::virtual_clock();
        Vec::new()
    }

    fn node_present() -> bool {
        let me = unsafe { libc::pthread_self() } as u64;
        nodes().iter().any(|(_, t)| *t == me)
    }

    #[derive(Debug)]
    struct Rec {
        c: usize,
    }

    impl Listener<(), Option<usize>> for Rec {
        fn on_state_changed(&self, _: &CoroutineLocal, old: St, new: St) {
            let c = self.c;
            log(|| json!({"ch": [c, st_s(old), st_s(new), node_present()]}));
        }
    }

    fn spin_until(deadline: Instant, stop_on_flag: bool) {
        let mut x = 1u64;
        loop {
            for i in 0..2000u64 {
                x = x.wrapping_mul(6_364_136_223_846_793_005).wrapping_add(i);
            }
            std::hint::black_box(x);
            if Instant::now() >= deadline || (stop_on_flag && FLAG.load(Ordering::Acquire)) {
                return;
            }
        }
    }

    fn interpret(c: usize, body: &[Value], s: &Suspender<(), ()>, record: bool) -> Option<usize> {
        let mut acc: u64 = 0;
        for ins in body {
            let k = ins["i"].as_str().expect("instr");
            match k {
                "work" => {
                    let n = as_u64(&ins["n"]);
                    // some real computing whose value is the declared amount
                    let mut x = 0u64;
                    for i in 0..n.min(100_000) {
                        x = x.wrapping_add(i ^ (i >> 3));
                    }
                    std::hint::black_box(x);
                    acc = acc.wrapping_add(n);
                    if record {
                        log(|| json!({"b": [c, "work", n.to_string()]}));
                    }
                }
                "spin_ms" => {
                    spin_until(Instant::now() + Duration::from_millis(as_u64(&ins["ms"])), false);
                    if record {
                        log(|| json!({"b": [c, "work", "0"]}));
                    }
                }
                "spin_flag" => {
                    spin_until(Instant::now() + Duration::from_millis(as_u64(&ins["cap_ms"])), true);
                    if record {
                        log(|| json!({"b": [c, "work", "0"]}));
                    }
                }
                "set_flag" => {
                    FLAG.store(true, Ordering::Release);
                    if record {
                        log(|| json!({"b": [c, "work", "0"]}));
                    }
                }
                "raise" => {
                    // a SIGURG delivered right here, whatever the monitor thinks
                    unsafe {
                        let _ = libc::raise(libc::SIGURG);
                    }
                    if record {
                        log(|| json!({"b": [c, "work", "0"]}));
                    }
                }
                "sysenter" => {
                    let _ = SchedulableCoroutine::current().expect("current").syscall(
                        (),
                        SyscallName::sleep,
                        SyscallState::Executing,
                    );
                }
                "sysexit" => {
                    let _ = SchedulableCoroutine::current().expect("current").running();
                }
                "yield" => {
                    if record {
                        log(|| json!({"b": [c, "yield"]}));
                    }
                    s.suspend();
                }
                other => panic!("unknown instr {other}"),
            }
        }
        Some(usize::try_from(acc).expect("acc"))
    }

    fn run_trace(case: &Value) -> Vec<Value> {
        let mut sched: Scheduler<'static> = Scheduler::new("ocvmon".to_string(), 128 * 1024);
        let mut ids: Vec<u64> = Vec::new();
        for (c, co) in case["cos"].as_array().expect("cos").iter().enumerate() {
            let body: Vec<Value> = co["body"].as_array().expect("body").clone();
            let mut co: SchedulableCoroutine<'static> = SchedulableCoroutine::new(
                Some(format!("mco{c}")),
                move |s: &Suspender<(), ()>, ()| interpret(c, &body, s, true),
                None,
                None,
            )
            .expect("create");
            co.add_listener(Rec { c });
            ids.push(sched.submit_raw_co(co).expect("submit"));
        }
        let t0 = Instant::now();
        let r = sched.try_schedule();
        let wall = t0.elapsed();
        let events = LOG.with(|l| std::mem::take(&mut *l.borrow_mut()));
        let results: Vec<Value> = match r {
            Ok(map) => ids
                .iter()
                .enumerate()
                .map(|(c, id)| match map.get(id) {
                    Some(Ok(v)) => json!([c, v.map_or(-1i64, |x| x as i64).to_string()]),
                    Some(Err(_)) => json!([c, "error"]),
                    None => json!([c, "missing"]),
                })
                .collect(),
            Err(_) => vec![json!("schedule-error")],
        };
        let left = masked(|| nodes().len());
        std::mem::forget(sched);
        vec![json!({"ev": events, "results": results, "nodes_left": left, "preemptive": cfg!(feature = "preemptive"),
                    "wall_ms": u64::try_from(wall.as_millis()).unwrap_or(u64::MAX)})]
    }

    fn run_stress(case: &Value) -> Vec<Value> {
        use std::collections::HashMap;
        use std::sync::{Arc, Mutex};
        let threads = usize::try_from(as_u64(&case["threads"])).expect("threads");
        let per = usize::try_from(as_u64(&case["per_thread"])).expect("per_thread");
        let yields = usize::try_from(as_u64(&case["yields"])).expect("yields");
        // coroutines may be stolen by another scheduler thread: results are matched by coroutine id
        let expected: Arc<Mutex<HashMap<u64, usize>>> = Arc::new(Mutex::new(HashMap::new()));
        let got: Arc<Mutex<HashMap<u64, Option<usize>>>> = Arc::new(Mutex::new(HashMap::new()));
        let errors = Arc::new(AtomicUsize::new(0));
        let mut hs = Vec::new();
        for t in 0..threads {
            let expected = expected.clone();
            let got = got.clone();
            let errors = errors.clone();
            hs.push(std::thread::spawn(move || {
                let mut sched: Scheduler<'static> = Scheduler::new(format!("ocvmon{t}"), 128 * 1024);
                for c in 0..per {
                    let mut body: Vec<Value> = Vec::new();
                    for y in 0..yields {
                        body.push(json!({"i": "work", "n": (c + y + 1) as u64}));
                        body.push(json!({"i": if y % 3 == 2 { "sysenter" } else { "yield" }}));
                        if y % 3 == 2 {
                            body.push(json!({"i": "sysexit"}));
                        }
                    }
                    let expect: usize = (0..yields).map(|y| c + y + 1).sum();
                    let co: SchedulableCoroutine<'static> = SchedulableCoroutine::new(
                        Some(format!("s{t}c{c}")),
                        move |s: &Suspender<(), ()>, ()| interpret(c, &body, s, false),
                        None,
                        None,
                    )
                    .expect("create");
                    let id = sched.submit_raw_co(co).expect("submit");
                    let _ = expected.lock().expect("expected").insert(id, expect);
                }
                // keep scheduling until every coroutine of the whole case has completed (or 10 s)
                let t0 = Instant::now();
                loop {
                    match sched.try_timeout_schedule(open_coroutine_core::common::now().saturating_add(5_000_000)) {
                        Ok((_, map)) => {
                            let mut g = got.lock().expect("got");
                            for (id, r) in map {
                                let _ = g.insert(id, r.ok().flatten());
                            }
                        }
                        Err(_) => {
                            let _ = errors.fetch_add(1, Ordering::Relaxed);
                        }
                    }
                    let done = got.lock().expect("got").len();
                    if done >= threads * per || t0.elapsed() > Duration::from_secs(10) {
                        break;
                    }
                }
                std::mem::forget(sched);
            }));
        }
        let mut panicked = 0usize;
        for h in hs {
            if h.join().is_err() {
                panicked += 1;
            }
        }
        let expected = expected.lock().expect("expected");
        let got = got.lock().expect("got");
        let mut good = 0usize;
        let mut bad = 0usize;
        for (id, e) in expected.iter() {
            match got.get(id) {
                Some(Some(v)) if v == e => good += 1,
                Some(_) => bad += 1,
                None => {}
            }
        }
        // every scheduler thread has finished: the set is quiescent
        let left = nodes().len();
        vec![json!({"total": threads * per, "good": good, "bad": bad, "missing": threads * per - good - bad,
                    "errors": errors.load(Ordering::Relaxed), "nodes_left": left, "panicked": panicked,
                    "preemptive": cfg!(feature = "preemptive")})]
    }

    pub fn run(case: &Value) -> Vec<Value> {
        FLAG.store(false, Ordering::Release);
        if case["mode"].as_str() == Some("stress") {
            run_stress(case)
        } else {
            run_trace(case)
        }
    }
}
