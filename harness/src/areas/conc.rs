//! C03 (concurrent part): exhaustive interleavings of 2-3 threads, each performing a few shared
//! push/pop calls on the REAL queue sources (shim-included: every atomic / injector access is a
//! scheduling point of the stateless depth-first controller). Observation: the set of reachable
//! outcomes (per-thread results, reported length, what a sequential drain returns).
use crate::shim::dfs;
use crate::util::{as_i64, as_u64};
use serde_json::{json, Value};
use std::collections::BTreeSet;
use std::sync::{Arc, Mutex};

#[cfg(shim_ok)]
use crate::shimmed::{ordered_work_steal::OrderedWorkStealQueue, work_steal::WorkStealQueue};

#[cfg(shim_ok)]
enum Q {
    Ordered(OrderedWorkStealQueue<u64>),
    Plain(WorkStealQueue<u64>),
}

// The queue structs hold `st3` rings, which are not `Sync`; the runtime itself shares them between
// threads through raw pointers. Only the shared (injector) half is exercised here.
#[cfg(shim_ok)]
unsafe impl Sync for Q {}
#[cfg(shim_ok)]
unsafe impl Send for Q {}

#[cfg(shim_ok)]
impl Q {
    fn push(&self, p: i64, x: u64) {
        match self {
            Q::Ordered(q) => q.push_with_priority(p, x),
            Q::Plain(q) => q.push(x),
        }
    }
    fn pop(&self) -> Option<u64> {
        match self {
            Q::Ordered(q) => q.pop(),
            Q::Plain(q) => q.pop(),
        }
    }
    fn len(&self) -> usize {
        match self {
            Q::Ordered(q) => q.len(),
            Q::Plain(q) => q.len(),
        }
    }
}

#[cfg(not(shim_ok))]
pub fn run(_case: &Value) -> Vec<Value> {
    vec![json!("shim-unavailable")]
}

#[cfg(shim_ok)]
pub fn run(case: &Value) -> Vec<Value> {
    let plain = case["queue"].as_str() == Some("plain");
    let progs: Vec<Vec<Value>> =
        case["progs"].as_array().expect("progs").iter().map(|p| p.as_array().expect("prog").clone()).collect();
    let max_execs = usize::try_from(as_u64(&case["max_execs"])).expect("max_execs");
    let nthreads = progs.len();
    let mk = || {
        // leaked: Drop asserts emptiness
        let q: &'static Q = Box::leak(Box::new(if plain {
            Q::Plain(WorkStealQueue::new(1, 4))
        } else {
            Q::Ordered(OrderedWorkStealQueue::new(1, 4))
        }));
        let results: Arc<Mutex<Vec<Vec<Value>>>> = Arc::new(Mutex::new(vec![Vec::new(); nthreads]));
        let mut bodies: Vec<Box<dyn FnOnce() + Send>> = Vec::new();
        for (t, prog) in progs.iter().enumerate() {
            let prog = prog.clone();
            let results = results.clone();
            bodies.push(Box::new(move || {
                for c in &prog {
                    match c["c"].as_str().expect("call") {
                        "push" => q.push(as_i64(&c["p"]), as_u64(&c["x"])),
                        "pop" => {
                            let r = q.pop();
                            results.lock().expect("results")[t].push(json!(r));
                        }
                        other => panic!("call {other}"),
                    }
                }
            }));
        }
        let fin = move || {
            let len = q.len();
            let mut drained = Vec::new();
            while let Some(x) = q.pop() {
                drained.push(x);
                if drained.len() > 64 {
                    break;
                }
            }
            let res = results.lock().expect("results").clone();
            json!({"res": res, "len": len, "drained": drained})
        };
        (bodies, fin)
    };
    let (execs, complete) = dfs::explore(mk, max_execs);
    let mut set: BTreeSet<String> = BTreeSet::new();
    let mut sample_sched: std::collections::BTreeMap<String, Vec<usize>> = std::collections::BTreeMap::new();
    for (sched, o) in &execs {
        let k = o.to_string();
        if set.insert(k.clone()) {
            let _ = sample_sched.insert(k, sched.clone());
        }
    }
    let outcomes: Vec<Value> = set
        .iter()
        .map(|k| {
            let mut o: Value = serde_json::from_str(k).expect("outcome");
            o["schedule"] = json!(sample_sched[k]);
            o
        })
        .collect();
    vec![json!({"outcomes": outcomes, "executions": execs.len(), "complete": complete})]
}
