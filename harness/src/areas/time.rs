//! C28: get_timeout_time, get_slices, get_time_limit on the real crate.
use crate::util::{as_i64, as_u128, as_u64};
use open_coroutine_core::common::{get_slices, get_timeout_time};
use open_coroutine_core::verif;
use serde_json::{json, Value};
use std::time::Duration;

fn dur_of_nanos(n: u128) -> Duration {
    let secs = u64::try_from(n / 1_000_000_000).expect("duration secs");
    let nanos = u32::try_from(n % 1_000_000_000).expect("nanos");
    Duration::new(secs, nanos)
}

pub fn run(case: &Value) -> Vec<Value> {
    let mut obs = Vec::new();
    for op in case["ops"].as_array().expect("ops") {
        let kind = op["op"].as_str().expect("op");
        match kind {
            "timeout_time" => {
                let now = as_u64(&op["now"]);
                let dur = as_u128(&op["dur"]);
                verif::set_virtual_clock(Some(now));
                let r = get_timeout_time(dur_of_nanos(dur));
                verif::set_virtual_clock(None);
                obs.push(json!(r.to_string()));
            }
            "slices" => {
                let total = as_u128(&op["total"]);
                let slice = as_u128(&op["slice"]);
                let r = get_slices(dur_of_nanos(total), dur_of_nanos(slice));
                let v: Vec<String> = r.iter().map(|d| d.as_nanos().to_string()).collect();
                obs.push(json!(v));
            }
            "time_limit" => {
                let tv = libc::timeval {
                    tv_sec: as_i64(&op["sec"]),
                    tv_usec: as_i64(&op["usec"]),
                };
                let r = std::panic::catch_unwind(|| {
                    open_coroutine_core::syscall::verif_get_time_limit(&tv)
                });
                match r {
                    Ok(v) => obs.push(json!(v.to_string())),
                    Err(_) => obs.push(json!("panic")),
                }
            }
            _ => panic!("unknown op {kind}"),
        }
    }
    obs
}
