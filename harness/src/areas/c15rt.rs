//! C15, real time (supporting evidence only): a real `EventLoops` with ONE event loop; N tasks call
//! the hooked `nanosleep` / `usleep` entry point of the crate directly for `d_ms`, M computing tasks are
//! submitted with them. Reported in ns, measured from just before the first submission: when the first and
//! the last sleeper started, when the last sleeper returned, when the last computing task ran, and the
//! shortest single sleep. No virtual clock. One case per process.
use crate::util::as_u64;
use open_coroutine_core::config::Config;
use open_coroutine_core::net::EventLoops;
use open_coroutine_core::syscall;
use serde_json::{json, Value};
use std::ffi::c_uint;
use std::time::{Duration, Instant};

pub fn run(case: &Value) -> Vec<Value> {
    let n = usize::try_from(as_u64(&case["n"])).expect("n");
    let m = usize::try_from(as_u64(&case["comp"])).expect("comp");
    let d_ms = as_u64(&case["d_ms"]);
    let call = case["call"].as_str().unwrap_or("nanosleep").to_string();
    EventLoops::init(&Config::single());
    // let the loop thread come up before the clock starts
    std::thread::sleep(Duration::from_millis(30));
    let (tx, rx) = std::sync::mpsc::channel::<(u8, u64, u64, i64)>();
    let t0 = Instant::now();
    let mut handles = Vec::new();
    // computing tasks are interleaved with the sleepers in submission order
    let mut kinds: Vec<bool> = vec![true; n + m];
    for j in 0..m {
        kinds[(j * (n + m)) / m] = false;
    }
    for is_sleeper in kinds {
        let tx = tx.clone();
        let call = call.clone();
        let h = EventLoops::submit_task(
            None,
            move |_| {
                let start = u64::try_from(t0.elapsed().as_nanos()).unwrap_or(u64::MAX);
                if is_sleeper {
                    let ret = if call == "usleep" {
                        i64::from(syscall::usleep(None, c_uint::try_from(d_ms * 1000).expect("usec")))
                    } else {
                        let rq = libc::timespec {
                            tv_sec: i64::try_from(d_ms / 1000).expect("sec"),
                            tv_nsec: i64::try_from((d_ms % 1000) * 1_000_000).expect("nsec"),
                        };
                        i64::from(syscall::nanosleep(None, &raw const rq, std::ptr::null_mut()))
                    };
                    let end = u64::try_from(t0.elapsed().as_nanos()).unwrap_or(u64::MAX);
                    let _ = tx.send((0, start, end, ret));
                } else {
                    // a little computing
                    let mut x = 0u64;
                    for i in 0..20_000u64 {
                        x = x.wrapping_mul(31).wrapping_add(i);
                    }
                    std::hint::black_box(x);
                    let end = u64::try_from(t0.elapsed().as_nanos()).unwrap_or(u64::MAX);
                    let _ = tx.send((1, start, end, 0));
                }
                None
            },
            None,
            None,
        );
        handles.push(h);
    }
    drop(tx);
    let budget = Duration::from_millis(d_ms * (n as u64 + 2) + 5000);
    let mut makespan = 0u64;
    let mut sibling = 0u64;
    let mut min_sleep = u64::MAX;
    let mut last_start = 0u64;
    let mut first_start = u64::MAX;
    let mut got = 0usize;
    let mut bad_ret = 0usize;
    while got < n + m {
        match rx.recv_timeout(budget) {
            Ok((kind, start, end, ret)) => {
                got += 1;
                if kind == 0 {
                    makespan = makespan.max(end);
                    min_sleep = min_sleep.min(end.saturating_sub(start));
                    last_start = last_start.max(start);
                    first_start = first_start.min(start);
                    if ret != 0 {
                        bad_ret += 1;
                    }
                } else {
                    sibling = sibling.max(end);
                }
            }
            Err(_) => break,
        }
    }
    for h in handles {
        std::mem::forget(h);
    }
    if got < n + m {
        return vec![json!({"incomplete": got})];
    }
    vec![json!({
        "makespan_ns": makespan.to_string(),
        "sibling_ns": sibling.to_string(),
        "min_sleep_ns": if n == 0 { "0".to_string() } else { min_sleep.to_string() },
        "last_sleep_start_ns": last_start.to_string(),
        "first_sleep_start_ns": if n == 0 { "0".to_string() } else { first_start.to_string() },
        "bad_ret": bad_ret,
    })]
}
