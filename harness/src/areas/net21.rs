//! C21: OS readiness interest vs outstanding waits. Histories of the runtime's public interest
//! operations (`EventLoops::wait_read_event / wait_write_event` with a zero timeout, `del_*`, hooked
//! `close` and `shutdown`) over socketpair ends pinned to fixed descriptor numbers, executed from the
//! harness thread; after every call the interest each event loop's epoll instance holds is read from
//! `/proc/self/fdinfo/<epoll fd>`. One case per process (`ISOLATE`): `EventLoops` is a process-wide
//! singleton configured once and the record maps are process-global.
use super::net20::{epoll_entry, epoll_fds};
use crate::util::as_u64;
use open_coroutine_core::common::constants::DEFAULT_STACK_SIZE;
use open_coroutine_core::config::Config;
use open_coroutine_core::net::EventLoops;
use open_coroutine_core::syscall;
use serde_json::{json, Value};
use std::time::Duration;

const BASE: i32 = 200;

struct Slot {
    open: bool,
    peer: i32,
}

/// a fresh socketpair whose first end sits at descriptor number `BASE + k`; returns the peer
fn open_slot(k: usize) -> i32 {
    let mut sv = [0i32; 2];
    let r = unsafe { libc::socketpair(libc::AF_UNIX, libc::SOCK_STREAM, 0, sv.as_mut_ptr()) };
    assert_eq!(r, 0, "socketpair");
    let target = BASE + i32::try_from(k).expect("slot");
    assert_eq!(unsafe { libc::dup2(sv[0], target) }, target, "dup2");
    unsafe {
        let _ = libc::close(sv[0]);
    }
    sv[1]
}

pub fn run(case: &Value) -> Vec<Value> {
    let loops = usize::try_from(as_u64(&case["loops"])).expect("loops");
    let nfd = usize::try_from(as_u64(&case["nfd"])).expect("nfd");
    EventLoops::init(&Config::new(loops, DEFAULT_STACK_SIZE, 0, 65536, 0, 0, 0, false));
    let eps = epoll_fds();
    if eps.len() != loops {
        return vec![json!(format!("setup:epoll-fds:{}", eps.len()))];
    }
    let mut slots: Vec<Slot> = (0..nfd).map(|k| Slot { open: true, peer: open_slot(k) }).collect();
    let mut obs = Vec::new();
    for op in case["ops"].as_array().expect("ops") {
        let kind = op["op"].as_str().expect("op");
        let k = usize::try_from(as_u64(&op["fd"])).expect("fd");
        let fd = BASE + i32::try_from(k).expect("slot");
        let res = match kind {
            "waitr" => EventLoops::wait_read_event(fd, Some(Duration::ZERO)).is_ok(),
            "waitw" => EventLoops::wait_write_event(fd, Some(Duration::ZERO)).is_ok(),
            "delr" => EventLoops::del_read_event(fd).is_ok(),
            "delw" => EventLoops::del_write_event(fd).is_ok(),
            "del" => EventLoops::del_event(fd).is_ok(),
            "close" => {
                let r = syscall::close(None, fd) == 0;
                slots[k].open = false;
                r
            }
            "shutrd" => syscall::shutdown(None, fd, libc::SHUT_RD) == 0,
            "shutwr" => syscall::shutdown(None, fd, libc::SHUT_WR) == 0,
            "shutrdwr" => syscall::shutdown(None, fd, libc::SHUT_RDWR) == 0,
            "shutbad" => syscall::shutdown(None, fd, 7) == 0,
            "reopen" => {
                if !slots[k].open {
                    let old = slots[k].peer;
                    slots[k].peer = open_slot(k);
                    slots[k].open = true;
                    unsafe {
                        let _ = libc::close(old);
                    }
                }
                true
            }
            _ => {
                obs.push(json!("unknown-op"));
                continue;
            }
        };
        let mut tables = Vec::new();
        for ep in &eps {
            let mut rows = Vec::new();
            for s in 0..nfd {
                if let Some((ev, _)) = epoll_entry(*ep, BASE + i32::try_from(s).expect("slot")) {
                    rows.push(json!([s, ev & 1 != 0, ev & 4 != 0]));
                }
            }
            tables.push(json!(rows));
        }
        obs.push(json!({"res": res, "tables": tables}));
    }
    obs
}
