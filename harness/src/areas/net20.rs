//! C20: readiness tokens. One real event loop (`EventLoops` with one loop), caller-named coroutines
//! (so their ids are known 64-bit values) waiting for read or write readiness of socketpair ends
//! pinned to fixed descriptor numbers, the harness thread making descriptors readable (a byte from
//! the peer) or writable (every slot's send buffer is kept full; draining the peer makes it
//! writable), deleting interests, closing descriptors through the hooked `close` and opening a new
//! socket on the same number. Observed: what the OS holds for the descriptor
//! (`/proc/self/fdinfo/<epoll fd>`: interest bits and token), the token the loop reads back from the
//! event and whether it hit `COROUTINE_TOKENS` (hook H5), and which coroutines were resumed by the
//! event (state listener). One case per process (`ISOLATE`): `EventLoops` and the record maps are
//! process-global.
use crate::util::as_u64;
use open_coroutine_core::common::constants::{CoroutineState, SyscallName, SyscallState};
use open_coroutine_core::config::Config;
use open_coroutine_core::coroutine::listener::Listener;
use open_coroutine_core::coroutine::local::CoroutineLocal;
use open_coroutine_core::net::EventLoops;
use open_coroutine_core::scheduler::{SchedulableCoroutine, SchedulableCoroutineState};
use open_coroutine_core::syscall;
use open_coroutine_core::verif;
use serde_json::{json, Value};
use std::collections::HashSet;
use std::sync::mpsc::{channel, Receiver, Sender};
use std::sync::Mutex;
use std::time::{Duration, Instant};

#[derive(Debug, Clone, PartialEq)]
enum Msg {
    Suspended(u64),
    Callback(u64),
    Timeout(u64),
    Returned(u64, bool),
    Resume(u64, bool),
    Resumed(u64),
}

#[derive(Debug)]
struct Watch {
    id: u64,
    tx: Mutex<Sender<Msg>>,
}

impl Listener<(), Option<usize>> for Watch {
    fn on_state_changed(
        &self,
        _: &CoroutineLocal,
        _: SchedulableCoroutineState,
        new_state: SchedulableCoroutineState,
    ) {
        let m = match new_state {
            CoroutineState::Syscall((), _, SyscallState::Suspend(_)) => Msg::Suspended(self.id),
            CoroutineState::Syscall((), _, SyscallState::Callback) => Msg::Callback(self.id),
            CoroutineState::Syscall((), _, SyscallState::Timeout) => Msg::Timeout(self.id),
            _ => return,
        };
        if let Ok(tx) = self.tx.lock() {
            let _ = tx.send(m);
        }
    }
}

/// (events mask, data) the epoll instance holds for `fd`, from /proc.
pub fn epoll_entry(epfd: i32, fd: i32) -> Option<(u64, u64)> {
    let text = std::fs::read_to_string(format!("/proc/self/fdinfo/{epfd}")).ok()?;
    for line in text.lines() {
        let mut it = line.split_whitespace();
        if it.next() != Some("tfd:") {
            continue;
        }
        let tfd: i32 = it.next()?.parse().ok()?;
        if tfd != fd {
            continue;
        }
        let mut events = 0u64;
        let mut data = 0u64;
        while let Some(k) = it.next() {
            match k {
                "events:" => events = u64::from_str_radix(it.next()?, 16).ok()?,
                "data:" => data = u64::from_str_radix(it.next()?, 16).ok()?,
                _ => {}
            }
        }
        return Some((events, data));
    }
    None
}

/// epoll descriptors of this process in creation (= descriptor number) order.
pub fn epoll_fds() -> Vec<i32> {
    let mut v = Vec::new();
    if let Ok(rd) = std::fs::read_dir("/proc/self/fd") {
        for e in rd.flatten() {
            if let Ok(t) = std::fs::read_link(e.path()) {
                if t.to_string_lossy() == "anon_inode:[eventpoll]" {
                    if let Some(n) = e.file_name().to_str().and_then(|s| s.parse::<i32>().ok()) {
                        v.push(n);
                    }
                }
            }
        }
    }
    v.sort_unstable();
    v
}

/// first descriptor number of the slots (socketpair ends pinned with `dup2`)
const BASE: i32 = 240;

struct Slot {
    open: bool,
    peer: i32,
}

fn slot_fd(k: usize) -> i32 {
    BASE + i32::try_from(k).expect("slot")
}

/// send until the send buffer is full: afterwards `fd` is not writable. Large chunks, so that every
/// queued buffer is bigger than the "writable again" threshold (a quarter of the send buffer) and
/// only the release of the last one makes the socket writable.
fn fill(fd: i32) {
    let buf = vec![0x55u8; 65536];
    loop {
        let n = unsafe {
            libc::send(fd, buf.as_ptr().cast(), buf.len(), libc::MSG_DONTWAIT | libc::MSG_NOSIGNAL)
        };
        if n <= 0 {
            break;
        }
    }
}

/// read everything that is queued on `fd`
fn drain(fd: i32) {
    let mut buf = vec![0u8; 1 << 20];
    loop {
        let n = unsafe { libc::recv(fd, buf.as_mut_ptr().cast(), buf.len(), libc::MSG_DONTWAIT) };
        if n <= 0 {
            break;
        }
    }
}

/// a fresh socketpair whose first end sits at descriptor number `BASE + k`, with the smallest send
/// buffer the OS grants, filled; returns the peer
fn open_slot(k: usize) -> i32 {
    let mut sv = [0i32; 2];
    let r = unsafe { libc::socketpair(libc::AF_UNIX, libc::SOCK_STREAM, 0, sv.as_mut_ptr()) };
    assert_eq!(r, 0, "socketpair");
    let target = slot_fd(k);
    assert_eq!(unsafe { libc::dup2(sv[0], target) }, target, "dup2");
    unsafe {
        let _ = libc::close(sv[0]);
    }
    let one: libc::c_int = 1;
    let r = unsafe {
        libc::setsockopt(
            target,
            libc::SOL_SOCKET,
            libc::SO_SNDBUF,
            std::ptr::from_ref(&one).cast(),
            libc::socklen_t::try_from(std::mem::size_of::<libc::c_int>()).expect("len"),
        )
    };
    assert_eq!(r, 0, "SO_SNDBUF");
    fill(target);
    sv[1]
}

/// what the OS holds for `fd`: `[read interest, write interest, token]` or null
fn kview(epfd: i32, fd: i32) -> Value {
    match epoll_entry(epfd, fd) {
        Some((ev, data)) => json!([ev & 1 != 0, ev & 4 != 0, data.to_string()]),
        None => Value::Null,
    }
}

struct Ctx {
    rx: Receiver<Msg>,
    tx: Sender<Msg>,
    suspended: HashSet<u64>,
}

impl Ctx {
    /// wait until `pred` accepts a message; every message seen on the way is handed to `side`
    fn wait_for(&mut self, ms: u64, mut pred: impl FnMut(&Msg) -> bool, mut side: impl FnMut(&Msg)) -> Option<Msg> {
        let deadline = Instant::now() + Duration::from_millis(ms);
        loop {
            let now = Instant::now();
            if now >= deadline {
                return None;
            }
            match self.rx.recv_timeout(deadline - now) {
                Ok(m) => {
                    if let Msg::Returned(id, _) = m {
                        let _ = self.suspended.remove(&id);
                    }
                    if pred(&m) {
                        return Some(m);
                    }
                    side(&m);
                }
                Err(_) => return None,
            }
        }
    }

    fn spawn(&self, name: &str, id: u64, fd: i32, write: bool, wait: Duration) -> Result<(), String> {
        let tx = self.tx.clone();
        let mut co = SchedulableCoroutine::new(
            Some(name.to_string()),
            move |_, ()| {
                if let Some(co) = SchedulableCoroutine::current() {
                    let call = if write { SyscallName::send } else { SyscallName::recv };
                    let _ = co.syscall((), call, SyscallState::Executing);
                    let r = if write {
                        EventLoops::wait_write_event(fd, Some(wait))
                    } else {
                        EventLoops::wait_read_event(fd, Some(wait))
                    };
                    let _ = co.running();
                    let _ = tx.send(Msg::Returned(id, r.is_ok()));
                }
                None
            },
            None,
            None,
        )
        .map_err(|e| e.to_string())?;
        if co.id() != id {
            return Err(format!("idmismatch:{}", co.id()));
        }
        co.add_listener(Watch { id, tx: Mutex::new(self.tx.clone()) });
        EventLoops::verif_submit_raw_co(co).map(|_| ()).map_err(|e| e.to_string())
    }
}

const LONG: Duration = Duration::from_secs(60);
const SHORT: Duration = Duration::from_millis(30);
/// how long the harness waits for a message that must come; when it does not (a loaded machine, or
/// a real loss) the case ends with `"diverged"`, which the driver re-runs alone before it counts
const PATIENCE_MS: u64 = 10_000;

/// wait for the event the loop is about to process, the coroutines it resumes and their return
fn observe_event(cx: &mut Ctx) -> Value {
    match cx.wait_for(PATIENCE_MS, |m| matches!(m, Msg::Resume(_, _)), |_| {}) {
        Some(Msg::Resume(tok, hit)) => {
            let mut woken: Vec<u64> = Vec::new();
            let end = cx.wait_for(
                PATIENCE_MS,
                |m| *m == Msg::Resumed(tok),
                |m| {
                    if let Msg::Callback(c) = m {
                        woken.push(*c);
                    }
                },
            );
            if end.is_none() {
                return json!("lost");
            }
            // let every resumed coroutine finish its wait before the next step
            let mut all_back = true;
            for c in &woken {
                if cx.suspended.contains(c) {
                    let c = *c;
                    let r = cx.wait_for(PATIENCE_MS, |m| matches!(m, Msg::Returned(i, _) if *i == c), |_| {});
                    all_back &= r.is_some();
                }
            }
            if all_back {
                let w: Vec<String> = woken.iter().map(u64::to_string).collect();
                json!({"event": tok.to_string(), "hit": hit, "woken": w})
            } else {
                json!("lost")
            }
        }
        _ => json!("lost"),
    }
}

pub fn run(case: &Value) -> Vec<Value> {
    let nfd = usize::try_from(as_u64(&case["nfd"])).expect("nfd");
    EventLoops::init(&Config::single());
    let eps = epoll_fds();
    if eps.len() != 1 {
        return vec![json!(format!("setup:epoll-fds:{}", eps.len()))];
    }
    let epfd = eps[0];
    let mut slots: Vec<Slot> = (0..nfd).map(|k| Slot { open: true, peer: open_slot(k) }).collect();
    let (tx, rx) = channel::<Msg>();
    {
        let otx = Mutex::new(tx.clone());
        verif::set_observer(Some(Box::new(move |name, a, b| {
            let m = match name {
                "event_loop_resume" => Msg::Resume(a, b != 0),
                "event_loop_resumed" => Msg::Resumed(a),
                _ => return,
            };
            if let Ok(t) = otx.lock() {
                let _ = t.send(m);
            }
        })));
    }
    let mut cx = Ctx { rx, tx, suspended: HashSet::new() };
    let mut obs = Vec::new();
    for op in case["ops"].as_array().expect("ops") {
        let kind = op["op"].as_str().expect("op");
        let k = usize::try_from(as_u64(&op["fd"])).expect("fd");
        if k >= nfd {
            obs.push(json!("bad-slot"));
            continue;
        }
        let fd = slot_fd(k);
        let write = op["dir"].as_str() == Some("w");
        let o = match kind {
            "wait" | "waitt" => {
                let id = as_u64(&op["id"]);
                let name = op["name"].as_str().expect("name");
                if cx.suspended.contains(&id) {
                    json!("busy")
                } else {
                    let short = kind == "waitt";
                    match cx.spawn(name, id, fd, write, if short { SHORT } else { LONG }) {
                        Err(e) => json!(format!("spawn:{e}")),
                        Ok(()) => {
                            let first = cx.wait_for(
                                PATIENCE_MS,
                                |m| *m == Msg::Suspended(id) || matches!(m, Msg::Returned(i, _) if *i == id),
                                |_| {},
                            );
                            let kv = kview(epfd, fd);
                            match first {
                                None => json!("lost"),
                                Some(Msg::Returned(_, ok)) => {
                                    if short {
                                        json!({"regt": ok, "k": kv, "timeout": false})
                                    } else {
                                        json!({"reg": false, "k": kv})
                                    }
                                }
                                Some(_) if !short => {
                                    let _ = cx.suspended.insert(id);
                                    json!({"reg": true, "k": kv})
                                }
                                Some(_) => {
                                    let _ = cx.suspended.insert(id);
                                    let mut by_timeout = false;
                                    let fin = cx.wait_for(
                                        PATIENCE_MS,
                                        |m| matches!(m, Msg::Returned(i, _) if *i == id),
                                        |m| {
                                            if *m == Msg::Timeout(id) {
                                                by_timeout = true;
                                            }
                                        },
                                    );
                                    match fin {
                                        Some(Msg::Returned(_, ok)) => {
                                            json!({"regt": ok, "k": kv, "timeout": by_timeout})
                                        }
                                        _ => json!("lost"),
                                    }
                                }
                            }
                        }
                    }
                }
            }
            "ready" if !slots[k].open => json!("noevent"),
            "ready" if !write => {
                // one byte from the peer: the slot becomes readable (it is not writable: its send
                // buffer is full)
                let registered = epoll_entry(epfd, fd).is_some_and(|(ev, _)| ev & 1 != 0);
                let byte = [7u8];
                let w = unsafe { libc::send(slots[k].peer, byte.as_ptr().cast(), 1, libc::MSG_DONTWAIT) };
                let o = if w != 1 {
                    json!("send-failed")
                } else if !registered {
                    // no read interest in the kernel: nothing can be delivered
                    std::thread::sleep(Duration::from_millis(2));
                    json!("noevent")
                } else {
                    observe_event(&mut cx)
                };
                drain(fd);
                o
            }
            "ready" => {
                // the peer reads everything: the slot's send buffer empties, the slot becomes
                // writable (nothing is queued for it to read)
                let registered = epoll_entry(epfd, fd).is_some_and(|(ev, _)| ev & 4 != 0);
                drain(slots[k].peer);
                let o = if registered {
                    observe_event(&mut cx)
                } else {
                    std::thread::sleep(Duration::from_millis(2));
                    json!("noevent")
                };
                fill(fd);
                o
            }
            "del" => {
                let r = match op["dir"].as_str() {
                    Some("r") => EventLoops::del_read_event(fd),
                    Some("w") => EventLoops::del_write_event(fd),
                    _ => EventLoops::del_event(fd),
                };
                json!({"del": r.is_ok(), "k": kview(epfd, fd)})
            }
            "close" => {
                let r = syscall::close(None, fd) == 0;
                if slots[k].open {
                    slots[k].open = false;
                    unsafe {
                        let _ = libc::close(slots[k].peer);
                    }
                }
                json!({"close": r})
            }
            "reopen" => {
                if !slots[k].open {
                    slots[k].peer = open_slot(k);
                    slots[k].open = true;
                }
                json!("reopened")
            }
            _ => json!("unknown-op"),
        };
        if o == json!("lost") {
            obs.push(json!("diverged"));
            break;
        }
        obs.push(o);
    }
    verif::set_observer(None);
    obs
}
