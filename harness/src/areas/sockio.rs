//! C16/C17/C18: the hooked socket I/O loops of `open_coroutine_core::syscall` driven against a
//! scripted kernel (`fn_ptr = Some(&scripted)`) on a real `socketpair`.
//!
//! Case: `{"call": "read|recv|write|send|readv|writev|recvmsg|sendmsg|accept|connect",
//!         "nb": bool, "limit_ms": n (0 = no SO_RCVTIMEO/SO_SNDTIMEO), "t0": "<ns>",
//!         "segs": [len..], "script": [{"dt": "<ns>", "r": "moved|wouldblock|eintr|fail", "n": k}],
//!         "waitfail": [bool..]}`
//! Observation (one object): `{"ret", "errno", "reqs": [{"count","nb","ranges":[[seg,off,len]..],"err","moved"}],
//!         "data": [ids..], "waits": [ns..], "nb_after": bool}`.
//! Stream byte `i` (0-based) carries the value `i+1`; caller position `p` of a write buffer holds
//! `p+1`; untouched read buffer bytes are 0. `data` is the flattened caller buffers after a read
//! call and the bytes the kernel consumed, in order, for a write call.
use crate::util::as_u64;
use open_coroutine_core::config::Config;
use open_coroutine_core::net::EventLoops;
use open_coroutine_core::syscall;
use open_coroutine_core::verif;
use serde_json::{json, Value};
use std::cell::RefCell;
use std::collections::{HashMap, VecDeque};
use std::ffi::{c_int, c_void};
use std::sync::Once;

const SLOT: usize = 64; // arena bytes per caller segment
const PAD: usize = 16; // guard bytes in front of a segment inside its slot
const FOREIGN: u64 = 255; // segment number reported for a pointer outside every caller segment

#[derive(Clone, Copy)]
enum Resp {
    Moved(usize),
    WouldBlock,
    Interrupted,
    Fail(c_int),
    /// connect only: the call returns 0
    Done,
}

struct Ctx {
    fd: c_int,
    write_side: bool,
    arena: Vec<u8>,
    lens: Vec<usize>,
    script: VecDeque<(u64, Resp)>,
    stream_pos: usize,
    consumed: Vec<u8>,
    reqs: Vec<Value>,
}

thread_local! {
    static CTX: RefCell<Option<Ctx>> = const { RefCell::new(None) };
    static POOL: RefCell<HashMap<u64, (c_int, c_int)>> = RefCell::new(HashMap::new());
}

fn set_errno(e: c_int) {
    unsafe { *libc::__errno_location() = e };
}

fn get_errno() -> c_int {
    unsafe { *libc::__errno_location() }
}

impl Ctx {
    fn base(&self, k: usize) -> usize {
        self.arena.as_ptr() as usize + k * SLOT + PAD
    }

    /// `(segment, offset, usable)`: usable = the part of `[p, p+len)` inside the segment.
    fn translate(&self, p: usize, len: usize) -> (u64, u64, usize) {
        let a = self.arena.as_ptr() as usize;
        if p < a || p >= a + self.arena.len() {
            return (FOREIGN, 0, 0);
        }
        let k = (p - a) / SLOT;
        let within = (p - a) % SLOT;
        if k >= self.lens.len() || within < PAD {
            return (FOREIGN, 1, 0);
        }
        let off = within - PAD;
        let usable = if off >= self.lens[k] { 0 } else { len.min(self.lens[k] - off) };
        (k as u64, off as u64, usable)
    }

    /// One scripted kernel call on the raw `(pointer, length)` entries handed down.
    fn call(&mut self, entries: &[(usize, usize)], count: i64) -> isize {
        let (dt, resp) = self
            .script
            .pop_front()
            .unwrap_or((0, Resp::Fail(libc::ECONNRESET)));
        verif::advance_virtual_clock(dt);
        let flags = unsafe { libc::fcntl(self.fd, libc::F_GETFL) };
        let nb = flags >= 0 && (flags & libc::O_NONBLOCK) != 0;
        let mut ranges = Vec::new();
        let mut usable = Vec::new();
        for &(p, len) in entries {
            let (k, off, u) = self.translate(p, len);
            ranges.push(json!([k, off, len]));
            usable.push((p, len, u));
        }
        let (r, err) = match resp {
            Resp::Moved(n) => {
                let mut left = n;
                let mut moved = 0usize;
                for (p, len, u) in usable {
                    if left == 0 {
                        break;
                    }
                    let m = left.min(u);
                    for i in 0..m {
                        let q = (p + i) as *mut u8;
                        if self.write_side {
                            self.consumed.push(unsafe { q.read() });
                        } else {
                            unsafe { q.write(((self.stream_pos + 1) % 256) as u8) };
                            self.stream_pos += 1;
                        }
                    }
                    moved += m;
                    left -= m;
                    if u < len {
                        break; // never go past the end of a caller segment
                    }
                }
                (isize::try_from(moved).expect("moved"), 0)
            }
            Resp::Done => (0, 0),
            Resp::WouldBlock => (-1, libc::EAGAIN),
            Resp::Interrupted => (-1, libc::EINTR),
            Resp::Fail(e) => (-1, e),
        };
        let moved = if r > 0 { r } else { 0 };
        self.reqs.push(json!({"count": count, "nb": nb, "ranges": ranges, "err": err, "moved": moved}));
        // like the kernel: errno is written by a failing call only; a successful call leaves whatever
        // an earlier failure put there
        if r == -1 {
            set_errno(err);
        }
        r
    }

    /// Read the iovec array the hooked code passed: as many entries as must exist given the
    /// caller segment its first entry points into (never more than the reported count).
    fn entries_of(&self, iov: *const libc::iovec, count: i64) -> Vec<(usize, usize)> {
        let mut v = Vec::new();
        if iov.is_null() || count <= 0 {
            return v;
        }
        let first = unsafe { *iov };
        let (k, _, _) = self.translate(first.iov_base as usize, first.iov_len);
        let must_exist = if k == FOREIGN { 1 } else { self.lens.len() - k as usize };
        let n = usize::try_from(count).expect("count").min(must_exist);
        for i in 0..n {
            let e = unsafe { *iov.add(i) };
            v.push((e.iov_base as usize, e.iov_len));
        }
        v
    }
}

fn with_ctx<R>(f: impl FnOnce(&mut Ctx) -> R) -> R {
    CTX.with(|c| f(c.borrow_mut().as_mut().expect("no scripted kernel installed")))
}

extern "C" fn k_read(_fd: c_int, buf: *mut c_void, len: libc::size_t) -> libc::ssize_t {
    with_ctx(|c| c.call(&[(buf as usize, len)], 1))
}
extern "C" fn k_recv(_fd: c_int, buf: *mut c_void, len: libc::size_t, _fl: c_int) -> libc::ssize_t {
    with_ctx(|c| c.call(&[(buf as usize, len)], 1))
}
extern "C" fn k_write(_fd: c_int, buf: *const c_void, len: libc::size_t) -> libc::ssize_t {
    with_ctx(|c| c.call(&[(buf as usize, len)], 1))
}
extern "C" fn k_send(_fd: c_int, buf: *const c_void, len: libc::size_t, _fl: c_int) -> libc::ssize_t {
    with_ctx(|c| c.call(&[(buf as usize, len)], 1))
}
extern "C" fn k_readv(_fd: c_int, iov: *const libc::iovec, cnt: c_int) -> libc::ssize_t {
    with_ctx(|c| {
        let e = c.entries_of(iov, i64::from(cnt));
        c.call(&e, i64::from(cnt))
    })
}
extern "C" fn k_writev(fd: c_int, iov: *const libc::iovec, cnt: c_int) -> libc::ssize_t {
    k_readv(fd, iov, cnt)
}
extern "C" fn k_recvmsg(_fd: c_int, msg: *mut libc::msghdr, _fl: c_int) -> libc::ssize_t {
    with_ctx(|c| {
        let m = unsafe { *msg };
        let cnt = i64::try_from(m.msg_iovlen).unwrap_or(i64::MAX);
        let e = c.entries_of(m.msg_iov, cnt);
        c.call(&e, cnt)
    })
}
extern "C" fn k_sendmsg(fd: c_int, msg: *const libc::msghdr, fl: c_int) -> libc::ssize_t {
    k_recvmsg(fd, msg.cast_mut(), fl)
}
extern "C" fn k_accept(_fd: c_int, _a: *mut libc::sockaddr, _l: *mut libc::socklen_t) -> c_int {
    // a successful accept answers a (fake) descriptor number 1000 + n
    with_ctx(|c| {
        let r = c.call(&[], 0);
        if r >= 0 {
            1000 + c_int::try_from(r).expect("fd")
        } else {
            -1
        }
    })
}
extern "C" fn k_connect(_fd: c_int, _a: *const libc::sockaddr, _l: libc::socklen_t) -> c_int {
    with_ctx(|c| c_int::try_from(c.call(&[], 0)).expect("connect result"))
}

fn timeval_of_ms(ms: u64) -> libc::timeval {
    libc::timeval {
        tv_sec: libc::time_t::try_from(ms / 1000).expect("sec"),
        tv_usec: libc::suseconds_t::try_from((ms % 1000) * 1000).expect("usec"),
    }
}

/// A socketpair per timeout setting, kept for the life of the process: the crate caches the
/// timeouts per descriptor number, so descriptors are never closed and never change their setting.
fn socket_for(limit_ms: u64) -> Result<c_int, String> {
    POOL.with(|p| {
        if let Some(&(a, _)) = p.borrow().get(&limit_ms) {
            return Ok(a);
        }
        let mut fds = [0 as c_int; 2];
        if unsafe { libc::socketpair(libc::AF_UNIX, libc::SOCK_STREAM, 0, fds.as_mut_ptr()) } != 0 {
            return Err("socketpair".to_string());
        }
        let (a, b) = (fds[0], fds[1]);
        let tv = timeval_of_ms(limit_ms);
        for opt in [libc::SO_RCVTIMEO, libc::SO_SNDTIMEO] {
            let r = unsafe {
                libc::setsockopt(
                    a,
                    libc::SOL_SOCKET,
                    opt,
                    std::ptr::from_ref(&tv).cast(),
                    libc::socklen_t::try_from(size_of::<libc::timeval>()).expect("len"),
                )
            };
            if r != 0 {
                return Err("setsockopt".to_string());
            }
        }
        // one byte readable on `a`, and plenty of room to write: readiness waits return at once
        let one = [7u8];
        if unsafe { libc::write(b, one.as_ptr().cast(), 1) } != 1 {
            return Err("peer write".to_string());
        }
        let want = if limit_ms == 0 { u64::MAX } else { limit_ms * 1_000_000 };
        if syscall::recv_time_limit(a) != want || syscall::send_time_limit(a) != want {
            return Err("limit".to_string());
        }
        let _ = p.borrow_mut().insert(limit_ms, (a, b));
        Ok(a)
    })
}

fn set_nonblocking(fd: c_int, on: bool) {
    let flags = unsafe { libc::fcntl(fd, libc::F_GETFL) };
    assert!(flags >= 0, "F_GETFL");
    let nf = if on { flags | libc::O_NONBLOCK } else { flags & !libc::O_NONBLOCK };
    assert!(unsafe { libc::fcntl(fd, libc::F_SETFL, nf) } == 0, "F_SETFL");
}

fn parse_script(case: &Value) -> VecDeque<(u64, Resp)> {
    let mut q = VecDeque::new();
    for s in case["script"].as_array().expect("script") {
        let dt = s.get("dt").map_or(0, as_u64);
        let n = s.get("n").map_or(0, as_u64);
        let r = match s["r"].as_str().expect("r") {
            "moved" => Resp::Moved(usize::try_from(n).expect("n")),
            "wouldblock" => Resp::WouldBlock,
            "eintr" => Resp::Interrupted,
            "fail" => Resp::Fail(c_int::try_from(n).expect("errno")),
            "done" => Resp::Done,
            other => panic!("unknown response {other}"),
        };
        q.push_back((dt, r));
    }
    q
}

static INIT: Once = Once::new();

pub fn run(case: &Value) -> Vec<Value> {
    INIT.call_once(|| {
        EventLoops::init(&Config::new(1, 128 * 1024, 0, 8, 0, 0, 0, false));
    });
    let call = case["call"].as_str().expect("call").to_string();
    let nb = case["nb"].as_bool().unwrap_or(false);
    let limit_ms = case.get("limit_ms").map_or(0, as_u64);
    let t0 = case.get("t0").map_or(1_000_000_000, as_u64);
    let lens: Vec<usize> = case["segs"]
        .as_array()
        .expect("segs")
        .iter()
        .map(|v| usize::try_from(as_u64(v)).expect("len"))
        .collect();
    assert!(lens.iter().all(|&l| l <= SLOT - PAD - 8), "segment too long for its slot");
    let waitfail: Vec<bool> = case
        .get("waitfail")
        .and_then(Value::as_array)
        .map_or_else(Vec::new, |a| a.iter().map(|v| v.as_bool().unwrap_or(false)).collect());
    let fd = match socket_for(limit_ms) {
        Ok(fd) => fd,
        Err(e) => return vec![json!(format!("bad-setup:{e}"))],
    };
    let write_side = matches!(call.as_str(), "write" | "send" | "writev" | "sendmsg" | "connect");
    let mut arena = vec![0u8; (lens.len() + 1) * SLOT];
    if write_side {
        let mut p = 0usize;
        for (k, &l) in lens.iter().enumerate() {
            for i in 0..l {
                arena[k * SLOT + PAD + i] = ((p + 1) % 256) as u8;
                p += 1;
            }
        }
    }
    let ctx = Ctx {
        fd,
        write_side,
        arena,
        lens: lens.clone(),
        script: parse_script(case),
        stream_pos: 0,
        consumed: Vec::new(),
        reqs: Vec::new(),
    };
    let iov: Vec<libc::iovec> = (0..lens.len())
        .map(|k| libc::iovec { iov_base: ctx.base(k) as *mut c_void, iov_len: lens[k] })
        .collect();
    let buf0 = ctx.base(0);
    CTX.with(|c| *c.borrow_mut() = Some(ctx));
    set_nonblocking(fd, nb);
    verif::set_virtual_clock(Some(t0));
    verif::record_waits(Some(waitfail));
    set_errno(0);
    let cnt = c_int::try_from(iov.len()).expect("iovcnt");
    let len0 = lens.first().copied().unwrap_or(0);
    let mut hdr: libc::msghdr = unsafe { std::mem::zeroed() };
    hdr.msg_iov = iov.as_ptr().cast_mut();
    hdr.msg_iovlen = iov.len() as _;
    let ret: i64 = match call.as_str() {
        "read" => syscall::read(Some(&(k_read as extern "C" fn(_, _, _) -> _)), fd, buf0 as *mut c_void, len0) as i64,
        "recv" => syscall::recv(Some(&(k_recv as extern "C" fn(_, _, _, _) -> _)), fd, buf0 as *mut c_void, len0, 0) as i64,
        "write" => syscall::write(Some(&(k_write as extern "C" fn(_, _, _) -> _)), fd, buf0 as *const c_void, len0) as i64,
        "send" => syscall::send(Some(&(k_send as extern "C" fn(_, _, _, _) -> _)), fd, buf0 as *const c_void, len0, 0) as i64,
        "readv" => syscall::readv(Some(&(k_readv as extern "C" fn(_, _, _) -> _)), fd, iov.as_ptr(), cnt) as i64,
        "writev" => syscall::writev(Some(&(k_writev as extern "C" fn(_, _, _) -> _)), fd, iov.as_ptr(), cnt) as i64,
        "recvmsg" => syscall::recvmsg(Some(&(k_recvmsg as extern "C" fn(_, _, _) -> _)), fd, &raw mut hdr, 0) as i64,
        "sendmsg" => syscall::sendmsg(Some(&(k_sendmsg as extern "C" fn(_, _, _) -> _)), fd, &raw const hdr, 0) as i64,
        "accept" => i64::from(syscall::accept(
            Some(&(k_accept as extern "C" fn(_, _, _) -> _)),
            fd,
            std::ptr::null_mut(),
            std::ptr::null_mut(),
        )),
        "connect" => i64::from(syscall::connect(Some(&(k_connect as extern "C" fn(_, _, _) -> _)), fd, std::ptr::null(), 0)),
        other => panic!("unknown call {other}"),
    };
    let errno = get_errno();
    let waits: Vec<u64> = verif::recorded_waits()
        .into_iter()
        .filter(|w| w.0 == fd)
        .map(|w| w.2)
        .collect();
    verif::record_waits(None);
    verif::set_virtual_clock(None);
    let flags = unsafe { libc::fcntl(fd, libc::F_GETFL) };
    let nb_after = flags >= 0 && (flags & libc::O_NONBLOCK) != 0;
    let ctx = CTX.with(|c| c.borrow_mut().take()).expect("ctx");
    let data: Vec<u8> = if write_side {
        ctx.consumed.clone()
    } else {
        let mut d = Vec::new();
        for (k, &l) in lens.iter().enumerate() {
            d.extend_from_slice(&ctx.arena[k * SLOT + PAD..k * SLOT + PAD + l]);
        }
        d
    };
    // bytes of the arena outside the caller segments must still be zero
    let mut scribbled = false;
    for (i, &b) in ctx.arena.iter().enumerate() {
        let k = i / SLOT;
        let w = i % SLOT;
        let inside = k < lens.len() && w >= PAD && w < PAD + lens[k];
        if !inside && b != 0 {
            scribbled = true;
        }
    }
    vec![json!({
        "ret": ret,
        "errno": if ret == -1 { errno } else { 0 },
        "reqs": ctx.reqs,
        "data": data,
        "waits": waits,
        "nb_after": nb_after,
        "scribbled": scribbled,
        "script_left": ctx.script.len(),
    })]
}
