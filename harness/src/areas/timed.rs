//! C14: hooked sleep / usleep / nanosleep / poll / select / pthread_cond_timedwait.
//!
//! Virtual mode (default): the calling harness thread switches its virtual clock on (hook H1), so
//! `EventLoop::wait_just` (hook H2) reports every requested wait through `verif::point`, advances
//! the virtual clock and returns at once. Inner calls are scripted as "nothing ready": the probes of
//! poll/select return 0, the native timed condition wait moves the virtual clock to its absolute
//! time and returns ETIMEDOUT. Observation per call: return value, errno, final virtual clock and the
//! run-length encoded event sequence `[kind, value, count]` (kind 0 = wait of `value` ns, 1 = probe
//! with inner timeout `value`, 2 = native condition wait until `value` ns).
//!
//! Real mode (`"real": true`, supporting evidence only): no virtual clock; the call is made on a
//! plain thread or inside a task of the event loop and the elapsed wall time is reported in ns.
use crate::util::{as_i64, as_u64, emit_partial};
use open_coroutine_core::config::Config;
use open_coroutine_core::net::EventLoops;
use open_coroutine_core::{syscall, verif};
use serde_json::{json, Value};
use std::ffi::{c_int, c_uint};
use std::sync::Mutex;

static EVENTS: Mutex<Vec<(u8, u64)>> = Mutex::new(Vec::new());
const MAX_EVENTS: usize = 400_000;

fn record(kind: u8, v: u64) {
    let mut g = EVENTS.lock().expect("events");
    if g.len() < MAX_EVENTS {
        g.push((kind, v));
    }
}

extern "C" fn scripted_poll(_: *mut libc::pollfd, _: libc::nfds_t, timeout: c_int) -> c_int {
    record(1, u64::try_from(timeout).unwrap_or(u64::MAX));
    0
}

extern "C" fn scripted_select(
    _: c_int,
    _: *mut libc::fd_set,
    _: *mut libc::fd_set,
    _: *mut libc::fd_set,
    timeout: *mut libc::timeval,
) -> c_int {
    let v = if timeout.is_null() {
        u64::MAX
    } else {
        let tv = unsafe { *timeout };
        u64::try_from(tv.tv_sec)
            .unwrap_or(u64::MAX)
            .saturating_mul(1_000_000)
            .saturating_add(u64::try_from(tv.tv_usec).unwrap_or(u64::MAX))
    };
    record(1, v);
    0
}

extern "C" fn scripted_cond(
    _: *mut libc::pthread_cond_t,
    _: *mut libc::pthread_mutex_t,
    abstime: *const libc::timespec,
) -> c_int {
    let ts = unsafe { *abstime };
    let abs = u64::try_from(ts.tv_sec)
        .unwrap_or(u64::MAX)
        .saturating_mul(1_000_000_000)
        .saturating_add(u64::try_from(ts.tv_nsec).unwrap_or(u64::MAX));
    record(2, abs);
    // the native call would block until `abs` and report a timeout
    if let Some(now) = verif::virtual_clock() {
        if abs > now {
            verif::advance_virtual_clock(abs - now);
        }
    }
    libc::ETIMEDOUT
}

fn errno() -> c_int {
    std::io::Error::last_os_error().raw_os_error().unwrap_or(0)
}

/// Make the call described by `op`; returns the return value.
fn do_call(op: &Value) -> i64 {
    let kind = op["op"].as_str().expect("op");
    match kind {
        "sleep" => {
            let secs = c_uint::try_from(as_u64(&op["secs"])).expect("secs");
            i64::from(syscall::sleep(None, secs))
        }
        "usleep" => {
            let us = c_uint::try_from(as_u64(&op["usec"])).expect("usec");
            i64::from(syscall::usleep(None, us))
        }
        "nanosleep" => {
            let rq = libc::timespec {
                tv_sec: as_i64(&op["sec"]),
                tv_nsec: as_i64(&op["nsec"]),
            };
            let mut rm = libc::timespec {
                tv_sec: 77,
                tv_nsec: 77,
            };
            i64::from(syscall::nanosleep(None, &raw const rq, &raw mut rm))
        }
        "poll" => {
            let ms = c_int::try_from(as_i64(&op["ms"])).expect("ms");
            let f: extern "C" fn(*mut libc::pollfd, libc::nfds_t, c_int) -> c_int = scripted_poll;
            i64::from(syscall::poll(Some(&f), std::ptr::null_mut(), 0, ms))
        }
        "select" => {
            let mut tv = libc::timeval {
                tv_sec: as_i64(&op["sec"]),
                tv_usec: as_i64(&op["usec"]),
            };
            let f: extern "C" fn(
                c_int,
                *mut libc::fd_set,
                *mut libc::fd_set,
                *mut libc::fd_set,
                *mut libc::timeval,
            ) -> c_int = scripted_select;
            i64::from(syscall::select(
                Some(&f),
                0,
                std::ptr::null_mut(),
                std::ptr::null_mut(),
                std::ptr::null_mut(),
                &raw mut tv,
            ))
        }
        "cond" => {
            let ts = if op.get("rel").is_some() {
                // real mode: a deadline relative to the crate's own clock
                let abs = open_coroutine_core::common::now().saturating_add(as_u64(&op["rel"]));
                libc::timespec {
                    tv_sec: i64::try_from(abs / 1_000_000_000).expect("sec"),
                    tv_nsec: i64::try_from(abs % 1_000_000_000).expect("nsec"),
                }
            } else {
                libc::timespec {
                    tv_sec: as_i64(&op["sec"]),
                    tv_nsec: as_i64(&op["nsec"]),
                }
            };
            let f: extern "C" fn(
                *mut libc::pthread_cond_t,
                *mut libc::pthread_mutex_t,
                *const libc::timespec,
            ) -> c_int = scripted_cond;
            // never dereferenced: the inner call is scripted
            i64::from(syscall::pthread_cond_timedwait(
                Some(&f),
                std::ptr::null_mut(),
                std::ptr::null_mut(),
                &raw const ts,
            ))
        }
        _ => panic!("unknown op {kind}"),
    }
}

fn rle(evs: &[(u8, u64)]) -> Vec<Value> {
    let mut out: Vec<(u8, u64, u64)> = Vec::new();
    for &(k, v) in evs {
        match out.last_mut() {
            Some(last) if last.0 == k && last.1 == v => last.2 += 1,
            _ => out.push((k, v, 1)),
        }
    }
    out.into_iter()
        .map(|(k, v, n)| json!([k, v.to_string(), n]))
        .collect()
}

fn run_virtual(op: &Value) -> Value {
    let start = as_u64(&op["start"]);
    EVENTS.lock().expect("events").clear();
    verif::set_virtual_clock(Some(start));
    syscall::set_errno(0);
    let ret = do_call(op);
    let e = errno();
    let end = verif::virtual_clock().unwrap_or(0);
    verif::set_virtual_clock(None);
    let evs = EVENTS.lock().expect("events").clone();
    json!({"ret": ret, "errno": e, "end": end.to_string(), "ev": rle(&evs), "n": evs.len()})
}

fn run_real(op: &Value) -> Value {
    let ctx = op["ctx"].as_str().unwrap_or("thread");
    let opc = op.clone();
    let measure = move || {
        syscall::set_errno(0);
        let t0 = std::time::Instant::now();
        let ret = do_call(&opc);
        let el = t0.elapsed();
        (ret, errno(), u64::try_from(el.as_nanos()).unwrap_or(u64::MAX))
    };
    if ctx == "coroutine" {
        let (tx, rx) = std::sync::mpsc::channel();
        let after_recv = op["after_recv"].as_bool().unwrap_or(false);
        let h = EventLoops::submit_task(
            None,
            move |_| {
                if after_recv {
                    // a hooked recv that has to wait for its data first: the readiness event resumes
                    // the coroutine before the wait slice it parked with has run out
                    let mut fds = [0 as libc::c_int; 2];
                    let rc = unsafe { libc::socketpair(libc::AF_UNIX, libc::SOCK_STREAM, 0, fds.as_mut_ptr()) };
                    if rc == 0 {
                        let peer = fds[1];
                        let _ = std::thread::spawn(move || {
                            std::thread::sleep(std::time::Duration::from_millis(3));
                            let _ = unsafe { libc::write(peer, b"x".as_ptr().cast(), 1) };
                        });
                        let mut b = [0u8; 1];
                        let _ = syscall::recv(None, fds[0], b.as_mut_ptr().cast(), 1, 0);
                    }
                }
                let r = measure();
                let _ = tx.send(r);
                None
            },
            None,
            None,
        );
        let r = rx.recv_timeout(std::time::Duration::from_secs(10));
        std::mem::forget(h);
        match r {
            Ok((ret, e, ns)) => json!({"ret": ret, "errno": e, "elapsed": ns.to_string()}),
            Err(_) => json!("diverged"),
        }
    } else {
        let (ret, e, ns) = measure();
        json!({"ret": ret, "errno": e, "elapsed": ns.to_string()})
    }
}

pub fn run(case: &Value) -> Vec<Value> {
    EventLoops::init(&Config::single());
    verif::set_observer(Some(Box::new(|name, a, _b| {
        if name == "wait_just" {
            record(0, a);
        }
    })));
    let mut obs = Vec::new();
    for op in case["ops"].as_array().expect("ops") {
        let v = if op["real"].as_bool().unwrap_or(false) {
            run_real(op)
        } else {
            run_virtual(op)
        };
        emit_partial(&v);
        obs.push(v);
    }
    obs
}
