//! C07/C08/C09: real `Coroutine<u64, u64, u64>` objects on one thread, bodies interpreted from an
//! instruction list, two recording listeners (the first one may panic in every callback),
//! virtual clock. One observation per driver op: `{"res": .., "ev": [..]}`.
use crate::util::as_u64;
use open_coroutine_core::common::constants::{CoroutineState, SyscallName, SyscallState};
use open_coroutine_core::coroutine::listener::Listener;
use open_coroutine_core::coroutine::local::CoroutineLocal;
use open_coroutine_core::coroutine::suspender::Suspender;
use open_coroutine_core::coroutine::Coroutine;
use open_coroutine_core::verif;
use serde_json::{json, Value};
use std::cell::RefCell;
use std::time::Duration;

type Co = Coroutine<'static, u64, u64, u64>;
type St = CoroutineState<u64, u64>;

thread_local! {
    static LOG: RefCell<Vec<Value>> = const { RefCell::new(Vec::new()) };
}

fn log(v: Value) {
    LOG.with(|l| l.borrow_mut().push(v));
}

const NAMES: [SyscallName; 4] = [SyscallName::sleep, SyscallName::usleep, SyscallName::nanosleep, SyscallName::poll];

fn name_of(n: u64) -> SyscallName {
    NAMES[usize::try_from(n).expect("name") % NAMES.len()]
}

fn name_ix(n: SyscallName) -> u64 {
    NAMES.iter().position(|x| *x == n).map_or(99, |p| p as u64)
}

fn sysst_of(v: &Value) -> SyscallState {
    match v["k"].as_str().expect("sysst") {
        "exec" => SyscallState::Executing,
        "susp" => SyscallState::Suspend(as_u64(&v["t"])),
        "cb" => SyscallState::Callback,
        "to" => SyscallState::Timeout,
        other => panic!("sysst {other}"),
    }
}

fn sysst_json(s: SyscallState) -> Value {
    match s {
        SyscallState::Executing => json!({"k": "exec"}),
        SyscallState::Suspend(t) => json!({"k": "susp", "t": t.to_string()}),
        SyscallState::Callback => json!({"k": "cb"}),
        SyscallState::Timeout => json!({"k": "to"}),
    }
}

/// the text a body panics with for message number `k`: several lines, like an `assert_eq!` failure
pub fn panic_text(k: u64) -> String {
    format!("m{k}\n  left: {k}\n right: {}", k.wrapping_add(1))
}

pub fn msg_json(m: &str) -> Value {
    if let Some(rest) = m.strip_prefix('m') {
        if let Some(first) = rest.lines().next() {
            if let Ok(k) = first.parse::<u64>() {
                // only the complete message counts as message k
                if m == panic_text(k) {
                    return json!({"k": k});
                }
            }
        }
    }
    if m.contains("failed without message") {
        return json!("nomsg");
    }
    json!({"raw": m})
}

fn st_json(s: St) -> Value {
    match s {
        CoroutineState::Ready => json!({"s": "ready"}),
        CoroutineState::Running => json!({"s": "running"}),
        CoroutineState::Suspend(y, t) => json!({"s": "suspend", "y": y.to_string(), "t": t.to_string()}),
        CoroutineState::Syscall(y, n, st) => {
            json!({"s": "syscall", "y": y.to_string(), "n": name_ix(n), "st": sysst_json(st)})
        }
        CoroutineState::Cancelled => json!({"s": "cancelled"}),
        CoroutineState::Complete(r) => json!({"s": "complete", "r": r.to_string()}),
        CoroutineState::Error(m) => json!({"s": "error", "m": msg_json(m)}),
    }
}

#[derive(Debug)]
struct Rec {
    l: usize,
    i: usize,
    panicky: bool,
}

impl Rec {
    fn rec(&self, cb: Value, old: St) {
        log(json!({"l": self.l, "i": self.i, "cb": cb, "old": st_json(old)}));
        if self.panicky {
            std::panic::panic_any("listener panics on purpose");
        }
    }
}

impl Listener<u64, u64> for Rec {
    fn on_state_changed(&self, _: &CoroutineLocal, old: St, new: St) {
        self.rec(json!({"c": "changed", "new": st_json(new)}), old);
    }
    fn on_ready(&self, _: &CoroutineLocal, old: St) {
        self.rec(json!({"c": "ready"}), old);
    }
    fn on_running(&self, _: &CoroutineLocal, old: St) {
        self.rec(json!({"c": "running"}), old);
    }
    fn on_suspend(&self, _: &CoroutineLocal, old: St) {
        self.rec(json!({"c": "suspend"}), old);
    }
    fn on_syscall(&self, _: &CoroutineLocal, old: St) {
        self.rec(json!({"c": "syscall"}), old);
    }
    fn on_cancel(&self, _: &CoroutineLocal, old: St) {
        self.rec(json!({"c": "cancel"}), old);
    }
    fn on_complete(&self, _: &CoroutineLocal, old: St, r: u64) {
        self.rec(json!({"c": "complete", "r": r.to_string()}), old);
    }
    fn on_error(&self, _: &CoroutineLocal, old: St, m: &str) {
        self.rec(json!({"c": "error", "m": msg_json(m)}), old);
    }
}

fn blog(i: usize, b: Value) {
    log(json!({"b": b, "i": i}));
}

/// interpret a body inside the real coroutine closure
fn interpret(i: usize, body: &[Value], s: &Suspender<u64, u64>, p0: u64) -> u64 {
    blog(i, json!({"e": "start", "p": p0.to_string()}));
    for ins in body {
        let k = ins["i"].as_str().expect("instr");
        match k {
            "suspend" => {
                let y = as_u64(&ins["y"]);
                blog(i, json!({"e": "yield", "y": y.to_string(), "req": {"k": "none"}}));
                let p = s.suspend_with(y);
                blog(i, json!({"e": "got", "p": p.to_string()}));
            }
            "delay" => {
                let y = as_u64(&ins["y"]);
                let d = as_u64(&ins["d"]);
                blog(i, json!({"e": "yield", "y": y.to_string(), "req": {"k": "delay", "d": d.to_string()}}));
                let p = s.delay_with(y, Duration::from_nanos(d));
                blog(i, json!({"e": "got", "p": p.to_string()}));
            }
            "until" => {
                let y = as_u64(&ins["y"]);
                let t = as_u64(&ins["t"]);
                blog(i, json!({"e": "yield", "y": y.to_string(), "req": {"k": "until", "t": t.to_string()}}));
                let p = s.until_with(y, t);
                blog(i, json!({"e": "got", "p": p.to_string()}));
            }
            "cancel" => {
                blog(i, json!({"e": "yield", "y": "0", "req": {"k": "cancel"}}));
                s.cancel();
            }
            "syscall" => {
                let r = Co::current().expect("current").syscall(
                    as_u64(&ins["y"]),
                    name_of(as_u64(&ins["n"])),
                    sysst_of(&ins["st"]),
                );
                blog(i, json!({"e": "res", "ok": r.is_ok()}));
            }
            "running" => {
                let r = Co::current().expect("current").running();
                blog(i, json!({"e": "res", "ok": r.is_ok()}));
            }
            "tick" => {
                let d = as_u64(&ins["d"]);
                verif::advance_virtual_clock(d);
                blog(i, json!({"e": "tick", "d": d.to_string()}));
            }
            "log" => blog(i, json!({"e": "log", "k": as_u64(&ins["k"])})),
            "return" => {
                let v = as_u64(&ins["v"]);
                blog(i, json!({"e": "ret", "v": v.to_string()}));
                return v;
            }
            "panic" => {
                let kind = ins["k"].as_str().expect("panic kind");
                blog(i, json!({"e": "panic", "k": kind, "m": ins["m"].clone()}));
                match kind {
                    "static" => {
                        let m: &'static str = Box::leak(crate::areas::co::panic_text(as_u64(&ins["m"])).into_boxed_str());
                        std::panic::panic_any(m)
                    }
                    "owned" => std::panic::panic_any(crate::areas::co::panic_text(as_u64(&ins["m"]))),
                    _ => std::panic::panic_any(42u32),
                }
            }
            other => panic!("unknown instr {other}"),
        }
    }
    blog(i, json!({"e": "ret", "v": "0"}));
    0
}

pub fn run(case: &Value) -> Vec<Value> {
    verif::set_virtual_clock(Some(as_u64(&case["clock"])));
    let nl = usize::try_from(as_u64(&case["nl"])).expect("nl");
    let panicky = case["panicky"].as_bool().unwrap_or(false);
    let mut cos: Vec<Co> = Vec::new();
    for (i, body) in case["bodies"].as_array().expect("bodies").iter().enumerate() {
        let body: Vec<Value> = body.as_array().expect("body").clone();
        let mut co: Co = Coroutine::new(
            Some(format!("co{i}")),
            move |s: &Suspender<u64, u64>, p: u64| interpret(i, &body, s, p),
            None,
            None,
        )
        .expect("create coroutine");
        for l in 0..nl {
            co.add_listener(Rec { l, i, panicky: panicky && l == 0 });
        }
        cos.push(co);
    }
    let mut obs = Vec::new();
    for op in case["ops"].as_array().expect("ops") {
        let kind = op["op"].as_str().expect("op");
        let i = op.get("i").map(|v| usize::try_from(as_u64(v)).expect("i"));
        LOG.with(|l| l.borrow_mut().clear());
        let res: Value = match kind {
            "resume" => match cos.get_mut(i.expect("i")) {
                None => json!("bad"),
                Some(co) => {
                    let arg = as_u64(&op["arg"]);
                    match std::panic::catch_unwind(std::panic::AssertUnwindSafe(|| co.resume_with(arg))) {
                        Ok(Ok(st)) => json!({"ok": st_json(st)}),
                        Ok(Err(_)) => json!("err"),
                        Err(_) => json!("unwound"),
                    }
                }
            },
            "running" => match cos.get(i.expect("i")) {
                None => json!("bad"),
                Some(co) => match std::panic::catch_unwind(std::panic::AssertUnwindSafe(|| co.running())) {
                    Ok(Ok(())) => json!("unit"),
                    Ok(Err(_)) => json!("err"),
                    Err(_) => json!("unwound"),
                },
            },
            "syscall" => match cos.get(i.expect("i")) {
                None => json!("bad"),
                Some(co) => {
                    let r = std::panic::catch_unwind(std::panic::AssertUnwindSafe(|| {
                        co.syscall(as_u64(&op["y"]), name_of(as_u64(&op["n"])), sysst_of(&op["st"]))
                    }));
                    match r {
                        Ok(Ok(())) => json!("unit"),
                        Ok(Err(_)) => json!("err"),
                        Err(_) => json!("unwound"),
                    }
                }
            },
            "clock" => {
                verif::set_virtual_clock(Some(as_u64(&op["c"])));
                json!("unit")
            }
            "state" => match cos.get(i.expect("i")) {
                None => json!("bad"),
                Some(co) => json!({"ok": st_json(co.state())}),
            },
            other => panic!("unknown op {other}"),
        };
        let ev: Vec<Value> = LOG.with(|l| l.borrow().clone());
        obs.push(json!({"res": res, "ev": ev}));
    }
    // coroutines that never finished are dropped here (force_reset); nothing observed after this
    verif::set_virtual_clock(None);
    std::mem::forget(cos);
    obs
}
