//! C23: `Coroutine::maybe_grow_with` on a plain thread and inside a coroutine.
//!
//! The case is a program tree (position the stack pointer, grow calls, panic, catch, probes, deep
//! recursion). The harness keeps a shadow list of the stack segments it is REALLY running on
//! (from the stack pointer it reads inside each callback, popped by its own guard on return and
//! unwind) and reports, per callback, what the code under test says next to that shadow.
//! Events are emitted as they happen: a memory fault leaves the prefix behind.
use crate::util::{as_i64, as_u64, emit_partial};
use open_coroutine_core::common::constants::CoroutineState;
use open_coroutine_core::coroutine::suspender::Suspender;
use open_coroutine_core::coroutine::Coroutine;
use serde_json::{json, Value};
use std::cell::{Cell, RefCell};

type Co = Coroutine<'static, (), (), ()>;

const PAGE: usize = 4096;
const START: usize = 32768;

fn mmap_len(size: usize) -> usize {
    (size.max(4096) + 2 * PAGE - 1) / PAGE * PAGE
}

#[derive(Clone, Copy)]
struct Seg {
    lim: usize,
    #[allow(dead_code)]
    top: usize,
}

thread_local! {
    /// segments really in use: the base stack (if known) first, then the grown ones
    static SHADOW: RefCell<Vec<Seg>> = const { RefCell::new(Vec::new()) };
    static BASE_KNOWN: Cell<bool> = const { Cell::new(false) };
    static IN_CO: Cell<bool> = const { Cell::new(false) };
    static EVENTS: RefCell<Vec<Value>> = const { RefCell::new(Vec::new()) };
    /// how much further down the stack pointer is, where a nested instruction reads it, than
    /// where `burn_to` measured it (calibrated once per case)
    static COMP: Cell<usize> = const { Cell::new(0) };
    static CAL_SP: Cell<usize> = const { Cell::new(0) };
}

fn sp() -> usize {
    psm::stack_pointer() as usize
}

fn emit(v: Value) {
    emit_partial(&v);
    EVENTS.with(|e| e.borrow_mut().push(v));
}

struct Marker;

struct ShadowGuard;
impl Drop for ShadowGuard {
    fn drop(&mut self) {
        SHADOW.with(|s| {
            let _ = s.borrow_mut().pop();
        });
    }
}

fn cur_seg() -> Option<Seg> {
    SHADOW.with(|s| s.borrow().last().copied())
}

/// number of grown segments really in use
fn depth() -> usize {
    SHADOW.with(|s| s.borrow().len()) - usize::from(BASE_KNOWN.with(Cell::get))
}

fn reported() -> (i64, bool) {
    if IN_CO.with(Cell::get) {
        let co = Co::current().expect("current coroutine");
        let infos = co.stack_infos();
        let here = sp();
        let inb = infos
            .back()
            .is_some_and(|b| b.stack_bottom <= here && here < b.stack_top);
        (i64::try_from(infos.len()).expect("len"), inb)
    } else {
        (-1, true)
    }
}

/// Use stack until the stack pointer is at `target` (never below), then run `f` there.
#[inline(never)]
fn burn_to(target: usize, f: &mut dyn FnMut()) {
    let mut pad = [0u8; 96];
    std::hint::black_box(&mut pad);
    if sp() > target + 160 {
        burn_to(target, f);
    } else {
        f();
    }
    std::hint::black_box(&mut pad);
}

fn grow_call<R>(rz: usize, size: usize, f: impl FnOnce() -> R) -> std::io::Result<R> {
    Co::maybe_grow_with(rz, size, f)
}

/// What happens at the start of every callback: was a fresh segment used, what does the code report.
/// Returns the guard of the shadow entry (if a segment was pushed) and the "room" flag: usable
/// bytes (guard page excluded) below the stack pointer >= rz (`tolerant`: with a page of slack).
fn callback_start(sp_call: usize, before: Option<Seg>, rz: usize, size: usize, tolerant: bool) -> (Option<ShadowGuard>, bool, bool) {
    let here = sp();
    let grew = match before {
        Some(seg) => !(seg.lim <= here && here <= sp_call),
        None => !(here <= sp_call && sp_call - here < 65536),
    };
    let guard = if grew {
        let top = here.div_ceil(PAGE) * PAGE;
        let seg = Seg { lim: top - mmap_len(size), top };
        SHADOW.with(|s| s.borrow_mut().push(seg));
        Some(ShadowGuard)
    } else {
        None
    };
    // `tolerant` (deep recursion, where calls are not kept away from the threshold): a page of
    // slack for the frames between the code's own reading of the stack pointer and this one
    let room = match cur_seg() {
        Some(seg) if tolerant => (here + PAGE).saturating_sub(seg.lim + PAGE) >= rz,
        Some(seg) => here.saturating_sub(seg.lim + PAGE) >= rz,
        None => true,
    };
    (guard, grew, room)
}

struct RecStat {
    room: bool,
    ret: bool,
}

fn rec(n: u64, frame: usize, rz: usize, size: usize, st: &mut RecStat) {
    if n == 0 {
        return;
    }
    let before = cur_seg();
    let sp_call = sp();
    let r = grow_call(rz, size, || {
        let (_guard, _grew, room) = callback_start(sp_call, before, rz, size, true);
        st.room &= room;
        let target = sp().saturating_sub(frame);
        burn_to(target, &mut || rec(n - 1, frame, rz, size, st));
        n
    });
    st.ret &= matches!(r, Ok(x) if x == n);
}

fn run_seq(instrs: &[Value]) {
    for ins in instrs {
        match ins["i"].as_str().expect("instr") {
            "pos" => {
                let rem = usize::try_from(as_u64(&ins["rem"])).expect("rem");
                let body = ins["body"].as_array().expect("body");
                match cur_seg() {
                    Some(seg) if BASE_KNOWN.with(Cell::get) || depth() > 0 => {
                        let target = seg.lim + rem + COMP.with(Cell::get);
                        burn_to(target, &mut || run_seq(body));
                    }
                    _ => run_seq(body),
                }
            }
            "cal" => CAL_SP.with(|c| c.set(sp())),
            "grow" => {
                let rz = usize::try_from(as_u64(&ins["rz"])).expect("rz");
                let size = usize::try_from(as_u64(&ins["size"])).expect("size");
                let v = as_i64(&ins["v"]);
                let body = ins["body"].as_array().expect("body");
                let before = cur_seg();
                let d = depth();
                let sp_call = sp();
                let enough = match before {
                    // usable bytes: the guard page at the bottom of the segment does not count
                    Some(seg) if BASE_KNOWN.with(Cell::get) || d > 0 => sp_call.saturating_sub(seg.lim + PAGE) >= rz,
                    _ => false,
                };
                let r = grow_call(rz, size, || {
                    let (_guard, grew, room) = callback_start(sp_call, before, rz, size, false);
                    let (len, inb) = reported();
                    emit(json!({"e": "grow", "depth": d, "enough": enough, "grew": grew, "len": len, "inb": inb, "room": room}));
                    run_seq(body);
                    v
                });
                emit(json!({"e": "ret", "ok": matches!(r, Ok(x) if x == v)}));
            }
            "panic" => std::panic::panic_any(Marker),
            "catch" => {
                let body = ins["body"].as_array().expect("body");
                let r = std::panic::catch_unwind(std::panic::AssertUnwindSafe(|| run_seq(body)));
                if r.is_err() {
                    emit(json!({"e": "caught"}));
                }
            }
            "probe" => {
                let (len, _) = reported();
                emit(json!({"e": "probe", "depth": depth(), "len": len}));
            }
            "rec" => {
                let n = as_u64(&ins["n"]);
                let frame = usize::try_from(as_u64(&ins["frame"])).expect("frame");
                let rz = usize::try_from(as_u64(&ins["rz"])).expect("rz");
                let size = usize::try_from(as_u64(&ins["size"])).expect("size");
                let mut st = RecStat { room: true, ret: true };
                rec(n, frame, rz, size, &mut st);
                emit(json!({"e": "rec", "room": st.room, "ret": st.ret}));
            }
            k => panic!("unknown instr {k}"),
        }
    }
}

/// measure how far below the `burn_to` frame a nested instruction reads its stack pointer
fn calibrate() {
    COMP.with(|c| c.set(0));
    let target = sp() - 3 * PAGE;
    let prog = json!([{"i": "cal"}]);
    burn_to(target, &mut || run_seq(prog.as_array().expect("array")));
    let seen = CAL_SP.with(Cell::get);
    COMP.with(|c| c.set(target.saturating_sub(seen).min(8192)));
}

fn run_top(prog: &[Value]) {
    let r = std::panic::catch_unwind(std::panic::AssertUnwindSafe(|| run_seq(prog)));
    if r.is_err() {
        emit(json!({"e": "panic_top"}));
    }
}

fn in_thread(stack: usize, prog: Vec<Value>) {
    // the thread's own stack is never recorded by the code; its bounds are not needed here
    BASE_KNOWN.with(|b| b.set(false));
    IN_CO.with(|c| c.set(false));
    let _ = stack;
    calibrate();
    run_top(&prog);
    emit(json!({"e": "end"}));
}

fn in_coroutine(stack: usize, prog: Vec<Value>) {
    let body = move |_s: &Suspender<(), ()>, ()| {
        let co = Co::current().expect("current coroutine");
        let info = *co.stack_infos().front().expect("own stack");
        SHADOW.with(|s| s.borrow_mut().push(Seg { lim: info.stack_bottom, top: info.stack_top }));
        BASE_KNOWN.with(|b| b.set(true));
        IN_CO.with(|c| c.set(true));
        calibrate();
        // start from a known position below the top of the coroutine's own stack
        let target = info.stack_top - START + COMP.with(Cell::get);
        burn_to(target, &mut || run_top(&prog));
    };
    let mut co: Box<Co> = Box::new(Coroutine::new(Some("c23".to_string()), body, Some(stack), None).expect("coroutine"));
    match co.resume() {
        Ok(CoroutineState::Complete(())) => emit(json!({"e": "end"})),
        Ok(CoroutineState::Error(_)) => emit(json!({"e": "fault"})),
        _ => emit(json!({"e": "other"})),
    }
    std::mem::forget(co);
}

pub fn run(case: &Value) -> Vec<Value> {
    let stack = usize::try_from(as_u64(&case["cfg"]["stack"])).expect("stack");
    let in_co = case["cfg"]["ctx"].as_str() == Some("co");
    let prog = case["prog"].as_array().expect("prog").clone();
    let h = std::thread::Builder::new()
        .stack_size(if in_co { 4 << 20 } else { stack })
        .spawn(move || {
            if in_co {
                in_coroutine(stack, prog);
            } else {
                in_thread(stack, prog);
            }
            EVENTS.with(|e| e.borrow().clone())
        })
        .expect("spawn");
    h.join().unwrap_or_else(|_| vec![json!({"e": "thread_died"})])
}
