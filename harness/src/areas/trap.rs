//! C24: memory faults inside coroutines run by a real `Scheduler`, and direct probes of
//! `stack_ptr_in_bounds`. Faults are real (wild read/write, null, recursion into the guard page,
//! a stack pointer moved out of every segment): the case runs in a child process and events are
//! emitted as they happen.
use crate::util::{as_i64, as_u64, emit_partial};
use open_coroutine_core::coroutine::suspender::Suspender;
use open_coroutine_core::scheduler::{SchedulableCoroutine, Scheduler};
use serde_json::{json, Value};
use std::cell::RefCell;

thread_local! {
    static EVENTS: RefCell<Vec<Value>> = const { RefCell::new(Vec::new()) };
}

fn emit(v: Value) {
    emit_partial(&v);
    EVENTS.with(|e| e.borrow_mut().push(v));
}

#[inline(never)]
#[allow(unconditional_recursion)]
fn boom(n: u64) -> u64 {
    let mut pad = [0u8; 512];
    std::hint::black_box(&mut pad);
    boom(n + 1) + u64::from(pad[0])
}

fn fault(kind: &str, p: u64) -> ! {
    unsafe {
        match kind {
            "write" => std::ptr::write_volatile(1 as *mut u8, 1),
            "read" => {
                let _ = std::ptr::read_volatile(0x10 as *const u8);
            }
            "null" => std::ptr::write_volatile(std::ptr::null_mut::<u64>(), 1),
            "overflow" => {
                let _ = std::hint::black_box(boom(0));
            }
            "sp_out" => {
                #[cfg(target_arch = "x86_64")]
                core::arch::asm!("mov rsp, {0}", "push rax", in(reg) p, options(noreturn));
                #[cfg(target_arch = "aarch64")]
                core::arch::asm!("mov sp, {0}", "str x0, [sp, #-16]!", in(reg) p, options(noreturn));
            }
            k => panic!("unknown fault {k}"),
        }
    }
    // a fault that did not trap: make it visible
    emit(json!("no_trap"));
    std::process::abort();
}

/// Interpret the body from `at`; `grow` runs the rest on a freshly grown segment.
fn run_from(i: usize, body: &[Value], at: usize, logs: &mut i64, s: &Suspender<(), ()>) {
    let mut k = at;
    while k < body.len() {
        let ins = &body[k];
        match ins["i"].as_str().expect("instr") {
            "log" => {
                emit(json!({"log": [i, *logs]}));
                *logs += 1;
            }
            "suspend" => s.suspend(),
            "grow" => {
                // a red zone nothing can satisfy: the call must switch to a new segment
                let r = SchedulableCoroutine::maybe_grow_with(usize::MAX / 2, 128 * 1024, || {
                    run_from(i, body, k + 1, logs, s);
                });
                r.expect("grow");
                return;
            }
            "fault" => fault(ins["k"].as_str().expect("kind"), ins.get("p").map_or(0, as_u64)),
            x => panic!("unknown instr {x}"),
        }
        k += 1;
    }
}

fn class(r: Option<&Result<Option<usize>, &str>>) -> Value {
    match r {
        None => Value::Null,
        Some(Ok(Some(v))) => json!({"ok": v}),
        Some(Ok(None)) => json!({"ok": -1}),
        Some(Err(m)) if *m == "invalid memory reference" => json!({"err": "invalid"}),
        Some(Err(m)) if *m == "stack overflow" => json!({"err": "overflow"}),
        Some(Err(_)) => json!({"err": "panic"}),
    }
}

fn submit(sched: &Scheduler<'static>, i: usize, co: &Value) -> u64 {
    let body = co["body"].as_array().expect("body").clone();
    let fin = co["fin"].clone();
    sched
        .submit_co(
            move |s, ()| {
                let mut logs = 0i64;
                run_from(i, &body, 0, &mut logs, s);
                match fin.get("ret") {
                    Some(v) => Some(usize::try_from(as_i64(v)).expect("ret")),
                    None => panic!("c24"),
                }
            },
            Some(128 * 1024),
            None,
        )
        .expect("submit")
}

fn sched_case(case: &Value) {
    let mut sched: Scheduler<'static> = Scheduler::new("c24".to_string(), 128 * 1024);
    let cos = case["cos"].as_array().expect("cos");
    let ids: Vec<u64> = cos.iter().enumerate().map(|(i, co)| submit(&sched, i, co)).collect();
    match sched.try_schedule() {
        Ok(results) => {
            for (i, id) in ids.iter().enumerate() {
                emit(json!({"res": [i, class(results.get(id))]}));
            }
        }
        Err(_) => emit(json!("sched_err")),
    }
    // the thread and the scheduler go on: one more healthy coroutine
    let n = cos.len();
    let post = json!({"body": [{"i": "log"}], "fin": {"ret": 99}});
    let id = submit(&sched, n, &post);
    match sched.try_schedule() {
        Ok(results) => emit(json!({"res": [n, class(results.get(&id))]})),
        Err(_) => emit(json!("sched_err")),
    }
    emit(json!("alive"));
    std::mem::forget(sched);
}

fn bounds_case(case: &Value) {
    let depth = as_u64(&case["grow"]);
    let extra: Vec<u64> = case["offsets"].as_array().map(|a| a.iter().map(as_u64).collect()).unwrap_or_default();
    let mut sched: Scheduler<'static> = Scheduler::new("c24b".to_string(), 128 * 1024);
    fn nest(d: u64, extra: &[u64]) {
        if d > 0 {
            SchedulableCoroutine::maybe_grow_with(usize::MAX / 2, 64 * 1024, || nest(d - 1, extra)).expect("grow");
            return;
        }
        let co = SchedulableCoroutine::current().expect("current");
        let infos = co.stack_infos();
        let segs: Vec<Value> = infos
            .iter()
            .map(|s| json!([s.stack_bottom.to_string(), s.stack_top.to_string()]))
            .collect();
        let mut ptrs: Vec<u64> = vec![0, 1, 4096, 1 << 32, 1 << 47, 1 << 63, u64::MAX - 1, u64::MAX];
        for s in &infos {
            let (b, t) = (s.stack_bottom as u64, s.stack_top as u64);
            ptrs.extend([b - 1, b, b + 1, b + 4095, b + 4096, (b + t) / 2, t - 1, t, t + 1]);
            for o in extra {
                ptrs.push(b.wrapping_add(*o));
                ptrs.push(t.wrapping_sub(*o));
            }
        }
        for p in ptrs {
            let r = co.stack_ptr_in_bounds(p);
            emit(json!({"segs": segs, "p": p.to_string(), "r": r}));
        }
    }
    let _ = sched
        .submit_co(
            move |_s, ()| {
                nest(depth, &extra);
                None
            },
            Some(128 * 1024),
            None,
        )
        .expect("submit");
    if sched.try_schedule().is_err() {
        emit(json!("sched_err"));
    }
    std::mem::forget(sched);
}

pub fn run(case: &Value) -> Vec<Value> {
    let case = case.clone();
    let h = std::thread::Builder::new()
        .stack_size(4 << 20)
        .spawn(move || {
            match case["mode"].as_str().expect("mode") {
                "sched" => sched_case(&case),
                "bounds" => bounds_case(&case),
                m => panic!("unknown mode {m}"),
            }
            EVENTS.with(|e| e.borrow().clone())
        })
        .expect("spawn");
    h.join().unwrap_or_else(|_| vec![json!("thread_died")])
}
