//! C10 (and the base of the pool properties): a real `Scheduler` on this thread, coroutine bodies
//! interpreted from instruction lists, one recording listener per coroutine, virtual clock.
//! One case per process (the ready queue and the cancel set are process-global).
use crate::areas::co::msg_json;
use crate::util::{as_i64, as_u64};
use open_coroutine_core::common::constants::{CoroutineState, SyscallName, SyscallState};
use open_coroutine_core::coroutine::listener::Listener;
use open_coroutine_core::coroutine::local::CoroutineLocal;
use open_coroutine_core::coroutine::suspender::Suspender;
use open_coroutine_core::scheduler::{SchedulableCoroutine, Scheduler};
use open_coroutine_core::verif;
use serde_json::{json, Value};
use std::cell::RefCell;
use std::collections::HashMap;
use std::time::Duration;

type St = CoroutineState<(), Option<usize>>;

thread_local! {
    static LOG: RefCell<Vec<Value>> = const { RefCell::new(Vec::new()) };
}

pub fn log(v: Value) {
    LOG.with(|l| l.borrow_mut().push(v));
}

pub fn take_log() -> Vec<Value> {
    LOG.with(|l| std::mem::take(&mut *l.borrow_mut()))
}

const NAMES: [SyscallName; 4] = [SyscallName::sleep, SyscallName::usleep, SyscallName::nanosleep, SyscallName::poll];

fn name_of(n: u64) -> SyscallName {
    NAMES[usize::try_from(n).expect("name") % NAMES.len()]
}

fn name_ix(n: SyscallName) -> u64 {
    NAMES.iter().position(|x| *x == n).map_or(99, |p| p as u64)
}

fn sysst_of(v: &Value) -> SyscallState {
    match v["k"].as_str().expect("sysst") {
        "exec" => SyscallState::Executing,
        "susp" => SyscallState::Suspend(as_u64(&v["t"])),
        "cb" => SyscallState::Callback,
        "to" => SyscallState::Timeout,
        other => panic!("sysst {other}"),
    }
}

fn sysst_json(s: SyscallState) -> Value {
    match s {
        SyscallState::Executing => json!({"k": "exec"}),
        SyscallState::Suspend(t) => json!({"k": "susp", "t": t.to_string()}),
        SyscallState::Callback => json!({"k": "cb"}),
        SyscallState::Timeout => json!({"k": "to"}),
    }
}

pub fn st_json(s: St) -> Value {
    match s {
        CoroutineState::Ready => json!({"s": "ready"}),
        CoroutineState::Running => json!({"s": "running"}),
        CoroutineState::Suspend((), t) => json!({"s": "suspend", "y": "0", "t": t.to_string()}),
        CoroutineState::Syscall((), n, st) => {
            json!({"s": "syscall", "y": "0", "n": name_ix(n), "st": sysst_json(st)})
        }
        CoroutineState::Cancelled => json!({"s": "cancelled"}),
        CoroutineState::Complete(r) => json!({"s": "complete", "r": r.map_or(-1i64, |v| v as i64).to_string()}),
        CoroutineState::Error(m) => json!({"s": "error", "m": msg_json(m)}),
    }
}

#[derive(Debug)]
pub struct Rec {
    pub l: usize,
    pub i: usize,
}

impl Rec {
    fn rec(&self, cb: Value, old: St) {
        log(json!({"l": self.l, "i": self.i, "cb": cb, "old": st_json(old)}));
    }
}

impl Listener<(), Option<usize>> for Rec {
    fn on_state_changed(&self, _: &CoroutineLocal, old: St, new: St) {
        self.rec(json!({"c": "changed", "new": st_json(new)}), old);
    }
    fn on_ready(&self, _: &CoroutineLocal, old: St) {
        self.rec(json!({"c": "ready"}), old);
    }
    fn on_running(&self, _: &CoroutineLocal, old: St) {
        self.rec(json!({"c": "running"}), old);
    }
    fn on_suspend(&self, _: &CoroutineLocal, old: St) {
        self.rec(json!({"c": "suspend"}), old);
    }
    fn on_syscall(&self, _: &CoroutineLocal, old: St) {
        self.rec(json!({"c": "syscall"}), old);
    }
    fn on_cancel(&self, _: &CoroutineLocal, old: St) {
        self.rec(json!({"c": "cancel"}), old);
    }
    fn on_complete(&self, _: &CoroutineLocal, old: St, r: Option<usize>) {
        self.rec(json!({"c": "complete", "r": r.map_or(-1i64, |v| v as i64).to_string()}), old);
    }
    fn on_error(&self, _: &CoroutineLocal, old: St, m: &str) {
        self.rec(json!({"c": "error", "m": msg_json(m)}), old);
    }
}

fn blog(i: usize, b: Value) {
    log(json!({"b": b, "i": i}));
}

fn now_s() -> String {
    open_coroutine_core::common::now().to_string()
}

/// interpret a body inside a real schedulable coroutine (unit parameter and yield)
pub fn interpret(i: usize, body: &[Value], s: &Suspender<(), ()>) -> Option<usize> {
    blog(i, json!({"e": "start", "p": now_s()}));
    for ins in body {
        let k = ins["i"].as_str().expect("instr");
        match k {
            "suspend" => {
                blog(i, json!({"e": "yield", "y": "0", "req": {"k": "none"}}));
                s.suspend();
                blog(i, json!({"e": "got", "p": now_s()}));
            }
            "delay" => {
                let d = as_u64(&ins["d"]);
                blog(i, json!({"e": "yield", "y": "0", "req": {"k": "delay", "d": d.to_string()}}));
                s.delay(Duration::from_nanos(d));
                blog(i, json!({"e": "got", "p": now_s()}));
            }
            "until" => {
                let t = as_u64(&ins["t"]);
                blog(i, json!({"e": "yield", "y": "0", "req": {"k": "until", "t": t.to_string()}}));
                s.until(t);
                blog(i, json!({"e": "got", "p": now_s()}));
            }
            "cancel" => {
                blog(i, json!({"e": "yield", "y": "0", "req": {"k": "cancel"}}));
                s.cancel();
            }
            "syscall" => {
                let r = SchedulableCoroutine::current()
                    .expect("current")
                    .syscall((), name_of(as_u64(&ins["n"])), sysst_of(&ins["st"]));
                blog(i, json!({"e": "res", "ok": r.is_ok()}));
            }
            "running" => {
                let r = SchedulableCoroutine::current().expect("current").running();
                blog(i, json!({"e": "res", "ok": r.is_ok()}));
            }
            "tick" => {
                let d = as_u64(&ins["d"]);
                verif::advance_virtual_clock(d);
                blog(i, json!({"e": "tick", "d": d.to_string()}));
            }
            "log" => blog(i, json!({"e": "log", "k": as_u64(&ins["k"])})),
            "return" => {
                let v = as_u64(&ins["v"]);
                blog(i, json!({"e": "ret", "v": v.to_string()}));
                return Some(usize::try_from(v).expect("usize"));
            }
            "panic" => {
                let kind = ins["k"].as_str().expect("panic kind");
                blog(i, json!({"e": "panic", "k": kind, "m": ins["m"].clone()}));
                match kind {
                    "static" => {
                        let m: &'static str = Box::leak(crate::areas::co::panic_text(as_u64(&ins["m"])).into_boxed_str());
                        std::panic::panic_any(m)
                    }
                    "owned" => std::panic::panic_any(crate::areas::co::panic_text(as_u64(&ins["m"]))),
                    _ => std::panic::panic_any(42u32),
                }
            }
            other => panic!("unknown instr {other}"),
        }
    }
    blog(i, json!({"e": "ret", "v": "0"}));
    Some(0)
}

pub fn results_json(ids: &HashMap<u64, usize>, results: &HashMap<u64, Result<Option<usize>, &str>>) -> Value {
    let mut v: Vec<(usize, Value)> = results
        .iter()
        .map(|(id, r)| {
            let i = ids.get(id).copied().unwrap_or(usize::MAX);
            let rv = match r {
                Ok(x) => json!({"ok": x.map_or(-1i64, |v| v as i64).to_string()}),
                Err(m) => json!({"err": msg_json(m)}),
            };
            (i, rv)
        })
        .collect();
    v.sort_by_key(|x| x.0);
    Value::Array(v.into_iter().map(|(i, r)| json!([i, r])).collect())
}

pub fn run(case: &Value) -> Vec<Value> {
    verif::set_virtual_clock(Some(as_u64(&case["clock"])));
    let nl = usize::try_from(as_u64(&case["nl"])).expect("nl");
    let mut sched: Scheduler<'static> = Scheduler::new("ocv".to_string(), 128 * 1024);
    let mut ids: HashMap<u64, usize> = HashMap::new();
    let mut idv: Vec<u64> = Vec::new();
    let mut obs = Vec::new();
    for op in case["ops"].as_array().expect("ops") {
        let kind = op["op"].as_str().expect("op");
        LOG.with(|l| l.borrow_mut().clear());
        let o: Value = match kind {
            "submit" => {
                let i = idv.len();
                let body: Vec<Value> = op["body"].as_array().expect("body").clone();
                let prio = if op["prio"].is_null() { None } else { Some(as_i64(&op["prio"])) };
                let mut co: SchedulableCoroutine<'static> = SchedulableCoroutine::new(
                    Some(format!("sco{i}")),
                    move |s: &Suspender<(), ()>, ()| interpret(i, &body, s),
                    None,
                    prio,
                )
                .expect("create");
                for l in 0..nl {
                    co.add_listener(Rec { l, i });
                }
                let id = sched.submit_raw_co(co).expect("submit");
                let _ = ids.insert(id, i);
                idv.push(id);
                json!("unit")
            }
            "pass" => {
                let deadline = as_u64(&op["deadline"]);
                let r = std::panic::catch_unwind(std::panic::AssertUnwindSafe(|| {
                    sched.try_timeout_schedule(deadline).map(|(left, results)| {
                        json!({"left": left.to_string(), "results": results_json(&ids, &results)})
                    })
                }));
                let ev = take_log();
                match r {
                    Ok(Ok(p)) => json!({"pass": p, "ev": ev}),
                    Ok(Err(_)) => json!({"pass": "err", "ev": ev}),
                    Err(_) => json!({"pass": "unwound", "ev": ev}),
                }
            }
            "try_resume" => {
                let i = usize::try_from(as_u64(&op["i"])).expect("i");
                let r = match idv.get(i) {
                    None => json!("unit"),
                    Some(id) => match std::panic::catch_unwind(std::panic::AssertUnwindSafe(|| sched.try_resume(*id))) {
                        Ok(()) => json!("unit"),
                        Err(_) => json!("unwound"),
                    },
                };
                json!({"call": r, "ev": take_log()})
            }
            "cancel" => {
                let i = usize::try_from(as_u64(&op["i"])).expect("i");
                if let Some(id) = idv.get(i) {
                    Scheduler::try_cancel_coroutine(*id);
                }
                json!("unit")
            }
            "clock" => {
                verif::set_virtual_clock(Some(as_u64(&op["c"])));
                json!("unit")
            }
            other => panic!("unknown op {other}"),
        };
        if case["stream"].as_bool().unwrap_or(false) {
            crate::util::emit_partial(&o);
        }
        obs.push(o);
    }
    verif::set_virtual_clock(None);
    // Drop would run a 30 s pass and assert emptiness
    std::mem::forget(sched);
    obs
}
