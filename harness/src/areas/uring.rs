//! C27: io_uring completions reach the call that submitted them. Real `EventLoops` built with the
//! `io_uring` feature; callers are plain threads and coroutines of the event loop, each running a
//! program of hooked `read`/`recv`/`write`/`send` calls on descriptors of its own (pipes, socketpairs,
//! a closed descriptor number, a memfd sealed against writing) with payloads that differ per descriptor; errno
//! holds a sentinel before every call. The harness thread executes
//! the case's script (start a caller, feed a descriptor, open a caller's gate, release a held
//! registration, wait for a caller) and reports, per call, the return value, errno and the bytes the
//! call's own buffer holds; at the end, how many bytes every descriptor still has unread and what
//! arrived at the peers of the written ones. Never addresses, descriptor numbers or timings.
//! One case per process (`ISOLATE`): `EventLoops` is a process-wide singleton.
#[cfg(not(feature = "io_uring"))]
pub fn run(_case: &serde_json::Value) -> Vec<serde_json::Value> {
    vec![serde_json::json!("built-without-io_uring")]
}

#[cfg(feature = "io_uring")]
pub use imp::run;

#[cfg(feature = "io_uring")]
mod imp {
    use crate::util::{as_u64, emit_partial};
    use open_coroutine_core::common::constants::DEFAULT_STACK_SIZE;
    use open_coroutine_core::config::Config;
    use open_coroutine_core::net::EventLoops;
    use open_coroutine_core::{syscall, verif};
    use serde_json::{json, Value};
    use std::cell::Cell;
    use std::sync::atomic::{AtomicBool, AtomicUsize, Ordering};
    use std::sync::{Arc, Mutex};
    use std::time::{Duration, Instant};

    const PATIENCE: Duration = Duration::from_millis(5000);
    const CLOSED_BASE: i32 = 900;
    /// errno before every call
    const STALE_ERRNO: i32 = 7777;

    thread_local! {
        /// the caller (index) whose next registration is to be held at the pause point
        static HOLD: Cell<Option<usize>> = const { Cell::new(None) };
    }

    /// byte `i` of the stream of descriptor `r` (never zero, differs between descriptors)
    fn stream(r: usize, i: usize) -> u8 {
        u8::try_from((r * 53 + i * 7 + 1) % 250 + 1).expect("byte")
    }

    #[derive(Clone)]
    struct Call {
        op: String,
        r: usize,
        len: usize,
        hold: bool,
    }

    #[derive(Clone)]
    enum Item {
        Call(Call),
        Gate,
    }

    struct CallerSt {
        done: AtomicBool,
        gates_hit: AtomicUsize,
        gates_open: AtomicUsize,
        held: AtomicBool,
        release: AtomicUsize,
        holds_seen: AtomicUsize,
    }

    struct Shared {
        callers: Vec<CallerSt>,
        /// caller-side descriptor of every resource
        fds: Vec<i32>,
        /// bytes of its stream already written by the caller, per resource
        wpos: Vec<AtomicUsize>,
        records: Mutex<Vec<Value>>,
        cqes: AtomicUsize,
    }

    fn errno() -> i32 {
        std::io::Error::last_os_error().raw_os_error().unwrap_or(0)
    }

    fn set_errno(v: i32) {
        unsafe {
            *libc::__errno_location() = v;
        }
    }

    fn run_prog(c: usize, prog: &[Item], sh: &Shared, is_co: bool, nap: &dyn Fn()) {
        let mut k = 0usize;
        for item in prog {
            match item {
                Item::Gate => {
                    let hit = sh.callers[c].gates_hit.fetch_add(1, Ordering::SeqCst) + 1;
                    while sh.callers[c].gates_open.load(Ordering::SeqCst) < hit {
                        nap();
                    }
                }
                Item::Call(call) => {
                    let fd = sh.fds[call.r];
                    // the buffer is leaked: a request the runtime leaves in flight may still write to it
                    let buf: &'static mut [u8] = Box::leak(vec![0u8; call.len].into_boxed_slice());
                    let writing = call.op == "write" || call.op == "send";
                    if writing {
                        let base = sh.wpos[call.r].load(Ordering::SeqCst);
                        for (i, b) in buf.iter_mut().enumerate() {
                            *b = stream(call.r, base + i);
                        }
                    }
                    HOLD.with(|h| h.set(if call.hold && !is_co { Some(c) } else { None }));
                    // a value no kernel answer produces: a call that fails without setting errno shows it
                    set_errno(STALE_ERRNO);
                    let ret = match call.op.as_str() {
                        "read" => syscall::read(None, fd, buf.as_mut_ptr().cast(), call.len),
                        "recv" => syscall::recv(None, fd, buf.as_mut_ptr().cast(), call.len, 0),
                        "write" => syscall::write(None, fd, buf.as_ptr().cast(), call.len),
                        "send" => syscall::send(None, fd, buf.as_ptr().cast(), call.len, 0),
                        _ => -2,
                    };
                    let e = errno();
                    HOLD.with(|h| h.set(None));
                    let rec = if ret >= 0 {
                        let n = usize::try_from(ret).expect("ret").min(call.len);
                        if writing {
                            let _ = sh.wpos[call.r].fetch_add(n, Ordering::SeqCst);
                            json!({"c": c, "k": k, "ret": ret, "bytes": []})
                        } else {
                            json!({"c": c, "k": k, "ret": ret, "bytes": buf[..n].to_vec()})
                        }
                    } else if ret == -1 {
                        json!({"c": c, "k": k, "err": e})
                    } else {
                        // a failure must be reported as -1
                        json!({"c": c, "k": k, "err": e, "badret": ret})
                    };
                    emit_partial(&rec);
                    sh.records.lock().expect("records").push(rec);
                    k += 1;
                }
            }
        }
        sh.callers[c].done.store(true, Ordering::SeqCst);
    }

    /// release every caller parked at the pause point
    fn release_all(sh: &Shared) {
        for st in &sh.callers {
            if st.held.load(Ordering::SeqCst) {
                st.release.store(st.holds_seen.load(Ordering::SeqCst), Ordering::SeqCst);
            }
        }
    }

    fn wait_until(sh: &Shared, auto_release: bool, cond: impl Fn() -> bool) -> bool {
        let deadline = Instant::now() + PATIENCE;
        loop {
            if cond() {
                return true;
            }
            if Instant::now() >= deadline {
                return false;
            }
            if auto_release {
                release_all(sh);
            }
            std::thread::sleep(Duration::from_micros(300));
        }
    }

    fn write_all(fd: i32, data: &[u8]) {
        let mut off = 0;
        while off < data.len() {
            let n = unsafe { libc::write(fd, data[off..].as_ptr().cast(), data.len() - off) };
            if n <= 0 {
                break;
            }
            off += usize::try_from(n).expect("n");
        }
    }

    /// everything readable on `fd` right now, without blocking
    fn drain(fd: i32) -> Vec<u8> {
        let mut out = Vec::new();
        unsafe {
            let fl = libc::fcntl(fd, libc::F_GETFL);
            if fl < 0 {
                return out;
            }
            let _ = libc::fcntl(fd, libc::F_SETFL, fl | libc::O_NONBLOCK);
            let mut buf = [0u8; 256];
            loop {
                let n = libc::read(fd, buf.as_mut_ptr().cast(), buf.len());
                if n <= 0 {
                    break;
                }
                out.extend_from_slice(&buf[..usize::try_from(n).expect("n")]);
            }
            let _ = libc::fcntl(fd, libc::F_SETFL, fl);
        }
        out
    }

    struct Res {
        kind: String,
        fd: i32,
        peer: i32,
        fed: usize,
    }

    fn make_res(r: usize, spec: &Value) -> Res {
        let kind = spec["kind"].as_str().expect("kind").to_string();
        let pre = usize::try_from(as_u64(&spec["pre"])).expect("pre");
        let eof = spec["eof"].as_bool().unwrap_or(false);
        let limit_ms = spec.get("limit_ms").map_or(0, as_u64);
        let mut pair = [0i32; 2];
        let (fd, mut peer) = match kind.as_str() {
            "pipe_r" => {
                assert_eq!(unsafe { libc::pipe(pair.as_mut_ptr()) }, 0, "pipe");
                (pair[0], pair[1])
            }
            "pipe_w" => {
                assert_eq!(unsafe { libc::pipe(pair.as_mut_ptr()) }, 0, "pipe");
                (pair[1], pair[0])
            }
            "sock" => {
                let rc = unsafe { libc::socketpair(libc::AF_UNIX, libc::SOCK_STREAM, 0, pair.as_mut_ptr()) };
                assert_eq!(rc, 0, "socketpair");
                if limit_ms > 0 {
                    let tv = libc::timeval {
                        tv_sec: libc::time_t::try_from(limit_ms / 1000).expect("sec"),
                        tv_usec: libc::suseconds_t::try_from((limit_ms % 1000) * 1000).expect("usec"),
                    };
                    let rc = unsafe {
                        libc::setsockopt(
                            pair[0],
                            libc::SOL_SOCKET,
                            libc::SO_RCVTIMEO,
                            std::ptr::from_ref(&tv).cast(),
                            libc::socklen_t::try_from(std::mem::size_of::<libc::timeval>()).expect("len"),
                        )
                    };
                    assert_eq!(rc, 0, "setsockopt");
                }
                (pair[0], pair[1])
            }
            "sealed" => {
                // an empty memfd sealed against writing: writes complete with -EPERM, reads with 0
                let fd = unsafe { libc::memfd_create(c"ocv-sealed".as_ptr(), libc::MFD_ALLOW_SEALING) };
                assert!(fd >= 0, "memfd_create");
                let rc = unsafe { libc::fcntl(fd, libc::F_ADD_SEALS, libc::F_SEAL_WRITE) };
                assert_eq!(rc, 0, "F_ADD_SEALS");
                (fd, -1)
            }
            _ => {
                // a descriptor number that is not open
                let n = CLOSED_BASE + i32::try_from(r).expect("r");
                unsafe {
                    let _ = libc::close(n);
                }
                (n, -1)
            }
        };
        let mut fed = 0;
        if (kind == "pipe_r" || kind == "sock") && pre > 0 {
            let data: Vec<u8> = (0..pre).map(|i| stream(r, i)).collect();
            write_all(peer, &data);
            fed = pre;
        }
        if eof && peer >= 0 {
            unsafe {
                let _ = libc::close(peer);
            }
            peer = -1;
        }
        Res { kind, fd, peer, fed }
    }

    fn parse_prog(v: &Value) -> Vec<Item> {
        v.as_array()
            .expect("prog")
            .iter()
            .map(|it| {
                if it.get("gate").is_some() {
                    Item::Gate
                } else {
                    Item::Call(Call {
                        op: it["op"].as_str().expect("op").to_string(),
                        r: usize::try_from(as_u64(&it["r"])).expect("r"),
                        len: usize::try_from(as_u64(&it["len"])).expect("len"),
                        hold: it["hold"].as_bool().unwrap_or(false),
                    })
                }
            })
            .collect()
    }

    pub fn run(case: &Value) -> Vec<Value> {
        unsafe {
            let _ = libc::signal(libc::SIGPIPE, libc::SIG_IGN);
        }
        let loops = usize::try_from(as_u64(&case["loops"])).expect("loops");
        EventLoops::init(&Config::new(loops, DEFAULT_STACK_SIZE, 0, 65536, 0, 0, 0, false));
        let mut res: Vec<Res> = case["res"]
            .as_array()
            .expect("res")
            .iter()
            .enumerate()
            .map(|(r, s)| make_res(r, s))
            .collect();
        let callers = case["callers"].as_array().expect("callers");
        let progs: Vec<(bool, Vec<Item>)> = callers
            .iter()
            .map(|c| (c["co"].as_bool().unwrap_or(false), parse_prog(&c["prog"])))
            .collect();
        let sh = Arc::new(Shared {
            callers: progs
                .iter()
                .map(|_| CallerSt {
                    done: AtomicBool::new(false),
                    gates_hit: AtomicUsize::new(0),
                    gates_open: AtomicUsize::new(0),
                    held: AtomicBool::new(false),
                    release: AtomicUsize::new(0),
                    holds_seen: AtomicUsize::new(0),
                })
                .collect(),
            fds: res.iter().map(|r| r.fd).collect(),
            wpos: res.iter().map(|_| AtomicUsize::new(0)).collect(),
            records: Mutex::new(Vec::new()),
            cqes: AtomicUsize::new(0),
        });
        {
            let sh2 = sh.clone();
            verif::set_observer(Some(Box::new(move |name, _a, _b| match name {
                "event_loop_resume" => {
                    let _ = sh2.cqes.fetch_add(1, Ordering::SeqCst);
                }
                "io_uring_between_submit_and_register" => {
                    if let Some(c) = HOLD.with(Cell::get) {
                        HOLD.with(|h| h.set(None));
                        let st = &sh2.callers[c];
                        let n = st.holds_seen.fetch_add(1, Ordering::SeqCst) + 1;
                        st.held.store(true, Ordering::SeqCst);
                        // spin at first, so that threads released together go on together
                        let begin = Instant::now();
                        let deadline = begin + PATIENCE;
                        while st.release.load(Ordering::SeqCst) < n && Instant::now() < deadline {
                            if begin.elapsed() < Duration::from_millis(60) {
                                std::hint::spin_loop();
                            } else {
                                std::thread::sleep(Duration::from_micros(200));
                            }
                        }
                        st.held.store(false, Ordering::SeqCst);
                    }
                }
                _ => {}
            })));
        }
        let mut started = vec![false; progs.len()];
        let mut stuck = false;
        for ev in case["ops"].as_array().expect("ops") {
            let e = ev["e"].as_str().expect("e");
            match e {
                "start" => {
                    let c = usize::try_from(as_u64(&ev["c"])).expect("c");
                    if c >= progs.len() || started[c] {
                        continue;
                    }
                    started[c] = true;
                    let (is_co, prog) = progs[c].clone();
                    let sh2 = sh.clone();
                    if is_co {
                        let r = EventLoops::submit_co(
                            move |s, ()| {
                                run_prog(c, &prog, &sh2, true, &|| {
                                    s.delay(Duration::from_millis(1));
                                });
                                None
                            },
                            None,
                            None,
                        );
                        if r.is_err() {
                            return vec![json!("setup:submit_co")];
                        }
                    } else {
                        let _ = std::thread::spawn(move || {
                            run_prog(c, &prog, &sh2, false, &|| {
                                std::thread::sleep(Duration::from_micros(300));
                            });
                        });
                    }
                }
                "feed" => {
                    let r = usize::try_from(as_u64(&ev["r"])).expect("r");
                    let n = usize::try_from(as_u64(&ev["n"])).expect("n");
                    if r >= res.len() || res[r].peer < 0 || !(res[r].kind == "pipe_r" || res[r].kind == "sock") {
                        continue;
                    }
                    let before = sh.cqes.load(Ordering::SeqCst);
                    let data: Vec<u8> = (0..n).map(|i| stream(r, res[r].fed + i)).collect();
                    write_all(res[r].peer, &data);
                    res[r].fed += n;
                    if ev["wait"].as_bool().unwrap_or(false) {
                        let _ = wait_until(&sh, false, || sh.cqes.load(Ordering::SeqCst) > before);
                    }
                }
                "open" => {
                    // one more permit for the caller's gates (does not wait)
                    let c = usize::try_from(as_u64(&ev["c"])).expect("c");
                    if c >= progs.len() {
                        continue;
                    }
                    let _ = sh.callers[c].gates_open.fetch_add(1, Ordering::SeqCst);
                }
                "reg" => {
                    let c = usize::try_from(as_u64(&ev["c"])).expect("c");
                    if c >= progs.len() || !started[c] {
                        continue;
                    }
                    let st = &sh.callers[c];
                    if st.held.load(Ordering::SeqCst) {
                        st.release.store(st.holds_seen.load(Ordering::SeqCst), Ordering::SeqCst);
                    }
                }
                "join" => {
                    let c = usize::try_from(as_u64(&ev["c"])).expect("c");
                    if c >= progs.len() || !started[c] {
                        continue;
                    }
                    if !wait_until(&sh, true, || sh.callers[c].done.load(Ordering::SeqCst)) {
                        stuck = true;
                        break;
                    }
                }
                "sleep" => {
                    std::thread::sleep(Duration::from_millis(as_u64(&ev["ms"])));
                }
                _ => {}
            }
        }
        if !stuck {
            for c in 0..progs.len() {
                if started[c] && !wait_until(&sh, true, || sh.callers[c].done.load(Ordering::SeqCst)) {
                    stuck = true;
                    break;
                }
            }
        }
        let mut obs = sh.records.lock().expect("records").clone();
        if stuck {
            obs.push(json!({"end": "stuck"}));
            return obs;
        }
        // let a request the runtime left in flight take what it can before the leftovers are counted
        let mut left = Vec::new();
        let mut sink = Vec::new();
        for r in &res {
            match r.kind.as_str() {
                "pipe_r" | "sock" | "sealed" => left.push(json!(drain(r.fd).len())),
                _ => left.push(json!(0)),
            }
            match r.kind.as_str() {
                "pipe_w" | "sock" if r.peer >= 0 => sink.push(json!(drain(r.peer))),
                _ => sink.push(json!([])),
            }
        }
        obs.push(json!({"end": "ok", "left": left, "sink": sink}));
        obs
    }
}
