//! Stateless depth-first exploration of thread interleavings over the shim's points.
use std::sync::{Arc, Condvar, Mutex};

#[derive(Debug, Clone, Copy, PartialEq, Eq)]
enum TState {
    Running,
    Parked,
    Finished,
}

struct Shared {
    states: Vec<TState>,
    /// which thread may run now (None = controller decides)
    go: Option<usize>,
    /// pending data choice request by the running thread: Some(n)
    choice_req: Option<usize>,
    choice_ans: Option<usize>,
}

pub struct Ctl {
    m: Mutex<Shared>,
    cv: Condvar,
}

thread_local! {
    static ME: std::cell::RefCell<Option<(usize, Arc<Ctl>)>> = const { std::cell::RefCell::new(None) };
}

pub fn at_point() {
    let me = ME.with(|m| m.borrow().clone());
    if let Some((tid, ctl)) = me {
        let mut g = ctl.m.lock().expect("ctl");
        g.states[tid] = TState::Parked;
        if g.go == Some(tid) {
            g.go = None;
        }
        ctl.cv.notify_all();
        while g.go != Some(tid) {
            g = ctl.cv.wait(g).expect("ctl wait");
        }
        g.states[tid] = TState::Running;
    }
}

/// Is any other controlled thread still unfinished?
pub fn others_alive() -> bool {
    let me = ME.with(|m| m.borrow().clone());
    if let Some((tid, ctl)) = me {
        let g = ctl.m.lock().expect("ctl");
        g.states.iter().enumerate().any(|(t, s)| t != tid && *s != TState::Finished)
    } else {
        false
    }
}

pub fn choose(n: usize) -> usize {
    let me = ME.with(|m| m.borrow().clone());
    if let Some((_tid, ctl)) = me {
        let mut g = ctl.m.lock().expect("ctl");
        g.choice_req = Some(n);
        g.choice_ans = None;
        ctl.cv.notify_all();
        while g.choice_ans.is_none() {
            g = ctl.cv.wait(g).expect("ctl wait");
        }
        g.choice_ans.take().expect("answer")
    } else {
        0
    }
}

/// One execution: run `bodies` (one per thread) under the schedule prefix `prefix`
/// (each element = index into the list of enabled alternatives at that decision);
/// decisions beyond the prefix take alternative 0. Returns the list of
/// (number of alternatives, alternative taken) for every decision made.
pub fn run_once<F>(bodies: Vec<F>, prefix: &[usize]) -> Vec<(usize, usize)>
where
    F: FnOnce() + Send + 'static,
{
    let n = bodies.len();
    let ctl = Arc::new(Ctl {
        m: Mutex::new(Shared { states: vec![TState::Running; n], go: None, choice_req: None, choice_ans: None }),
        cv: Condvar::new(),
    });
    let mut handles = Vec::new();
    for (tid, body) in bodies.into_iter().enumerate() {
        let ctl2 = ctl.clone();
        handles.push(std::thread::spawn(move || {
            ME.with(|m| *m.borrow_mut() = Some((tid, ctl2.clone())));
            crate::shim::sched::set_controlled(true);
            // park before the first instruction so that the controller owns the start order
            at_point();
            let r = std::panic::catch_unwind(std::panic::AssertUnwindSafe(body));
            crate::shim::sched::set_controlled(false);
            ME.with(|m| *m.borrow_mut() = None);
            let mut g = ctl2.m.lock().expect("ctl");
            g.states[tid] = TState::Finished;
            if g.go == Some(tid) {
                g.go = None;
            }
            ctl2.cv.notify_all();
            drop(g);
            drop(r);
        }));
    }
    let mut trace: Vec<(usize, usize)> = Vec::new();
    let mut k = 0usize;
    loop {
        let mut g = ctl.m.lock().expect("ctl");
        // wait until nobody is running (all parked/finished) or a choice is requested
        loop {
            let running = g.go.is_some() || g.states.iter().any(|s| *s == TState::Running);
            if g.choice_req.is_some() && g.choice_ans.is_none() {
                break;
            }
            if !running {
                break;
            }
            g = ctl.cv.wait(g).expect("ctl wait");
        }
        if let Some(nalt) = g.choice_req.take() {
            let alt = if k < prefix.len() { prefix[k] } else { 0 };
            let alt = alt.min(nalt.saturating_sub(1));
            trace.push((nalt, alt));
            k += 1;
            g.choice_ans = Some(alt);
            ctl.cv.notify_all();
            continue;
        }
        let enabled: Vec<usize> = (0..n).filter(|t| g.states[*t] == TState::Parked).collect();
        if enabled.is_empty() {
            break; // all finished
        }
        let alt = if k < prefix.len() { prefix[k] } else { 0 };
        let alt = alt.min(enabled.len() - 1);
        trace.push((enabled.len(), alt));
        k += 1;
        let t = enabled[alt];
        g.go = Some(t);
        g.states[t] = TState::Running;
        ctl.cv.notify_all();
    }
    for h in handles {
        let _ = h.join();
    }
    trace
}

/// Enumerate all executions depth-first (bounded by `max_execs`). `mk` builds fresh state and
/// thread bodies for each execution and returns a closure producing the observation after the
/// threads finished. Returns (observations, complete?).
pub fn explore<O, MK, FIN, F>(mut mk: MK, max_execs: usize) -> (Vec<(Vec<usize>, O)>, bool)
where
    MK: FnMut() -> (Vec<F>, FIN),
    FIN: FnOnce() -> O,
    F: FnOnce() + Send + 'static,
{
    let mut results = Vec::new();
    let mut prefix: Vec<usize> = Vec::new();
    let mut count = 0;
    loop {
        let (bodies, fin) = mk();
        let trace = run_once(bodies, &prefix);
        let sched: Vec<usize> = trace.iter().map(|x| x.1).collect();
        results.push((sched, fin()));
        count += 1;
        // next prefix: backtrack to the last decision with an untried alternative
        let mut next: Option<Vec<usize>> = None;
        for i in (0..trace.len()).rev() {
            let (nalt, alt) = trace[i];
            if alt + 1 < nalt {
                let mut p: Vec<usize> = trace[..i].iter().map(|x| x.1).collect();
                p.push(alt + 1);
                next = Some(p);
                break;
            }
        }
        match next {
            Some(p) if count < max_execs => prefix = p,
            Some(_) => return (results, false),
            None => return (results, true),
        }
    }
}
