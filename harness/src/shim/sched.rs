//! Scheduling points. No controller installed: every point is a no-op.
//! (The stateless depth-first controller for interleaving enumeration plugs in here.)
use std::cell::Cell;

thread_local! {
    static CONTROLLED: Cell<bool> = const { Cell::new(false) };
}

pub fn point(_kind: &'static str) {
    if CONTROLLED.with(Cell::get) {
        crate::shim::sched::controller::at_point();
    }
}

/// A controller-made choice in `0..n`, or `None` when this thread is not controlled.
pub fn choose(n: usize) -> Option<usize> {
    if CONTROLLED.with(Cell::get) {
        Some(controller::choose(n))
    } else {
        None
    }
}

/// May a non-blocking lock attempt find the lock taken? Only while another controlled thread runs.
pub fn contended() -> bool {
    CONTROLLED.with(Cell::get) && controller::others_alive() && controller::choose(2) == 1
}

pub fn set_controlled(on: bool) {
    CONTROLLED.with(|c| c.set(on));
}

pub mod controller {
    //! Stateless DFS over real threads: every controlled thread parks at each point; the
    //! controller waits until all live threads are parked or finished, then releases one
    //! according to the current choice stack. Filled in by `dfs.rs`.
    pub use crate::shim::dfs::{at_point, choose, others_alive};
}
