//! Drop-in replacements for the concurrency primitives the queue/bean sources import.
//! Every operation on shared memory first calls `sched::point()`; with no controller installed
//! that is a no-op and the wrappers are plain delegations to the real crates.
#![allow(dead_code)]
pub mod sched;
pub mod dfs;

pub use crossbeam_deque::Steal;
pub use std::sync::atomic::Ordering;
use std::cell::RefCell;
use std::hash::Hash;

macro_rules! shim_atomic {
    ($name:ident, $inner:ty, $t:ty) => {
        #[derive(Debug, Default)]
        pub struct $name($inner);
        impl $name {
            pub const fn new(v: $t) -> Self {
                Self(<$inner>::new(v))
            }
            pub fn load(&self, o: Ordering) -> $t {
                sched::point("load");
                self.0.load(o)
            }
            pub fn store(&self, v: $t, o: Ordering) {
                sched::point("store");
                self.0.store(v, o);
            }
            pub fn compare_exchange(&self, c: $t, n: $t, s: Ordering, f: Ordering) -> Result<$t, $t> {
                sched::point("cas");
                self.0.compare_exchange(c, n, s, f)
            }
        }
    };
}
shim_atomic!(AtomicUsize, std::sync::atomic::AtomicUsize, usize);
shim_atomic!(AtomicU32, std::sync::atomic::AtomicU32, u32);
shim_atomic!(AtomicBool, std::sync::atomic::AtomicBool, bool);

impl AtomicUsize {
    pub fn fetch_add(&self, v: usize, o: Ordering) -> usize {
        sched::point("fetch_add");
        self.0.fetch_add(v, o)
    }
    pub fn fetch_sub(&self, v: usize, o: Ordering) -> usize {
        sched::point("fetch_sub");
        self.0.fetch_sub(v, o)
    }
}
impl AtomicU32 {
    pub fn fetch_add(&self, v: u32, o: Ordering) -> u32 {
        sched::point("fetch_add");
        self.0.fetch_add(v, o)
    }
    /// test access: set the raw value (used to start a handle's tick near the u32 wrap)
    pub fn raw_set(&self, v: u32) {
        self.0.store(v, Ordering::SeqCst);
    }
}

#[derive(Debug)]
pub struct Injector<T>(crossbeam_deque::Injector<T>);
impl<T> Injector<T> {
    pub fn new() -> Self {
        Self(crossbeam_deque::Injector::new())
    }
    pub fn push(&self, item: T) {
        sched::point("inj_push");
        self.0.push(item);
    }
    pub fn steal(&self) -> Steal<T> {
        sched::point("inj_steal");
        self.0.steal()
    }
}
impl<T> Default for Injector<T> {
    fn default() -> Self {
        Self::new()
    }
}

#[derive(Debug)]
pub struct Worker<T>(st3::fifo::Worker<T>);
#[derive(Debug)]
pub struct Stealer<T>(st3::fifo::Stealer<T>);
impl<T> Worker<T> {
    pub fn new(min_capacity: usize) -> Self {
        Self(st3::fifo::Worker::new(min_capacity))
    }
    pub fn push(&self, item: T) -> Result<(), T> {
        sched::point("ring_push");
        self.0.push(item)
    }
    pub fn pop(&self) -> Option<T> {
        sched::point("ring_pop");
        self.0.pop()
    }
    pub fn stealer(&self) -> Stealer<T> {
        Stealer(self.0.stealer())
    }
    pub fn capacity(&self) -> usize {
        self.0.capacity()
    }
    pub fn spare_capacity(&self) -> usize {
        sched::point("ring_spare");
        self.0.spare_capacity()
    }
    pub fn is_empty(&self) -> bool {
        sched::point("ring_is_empty");
        self.0.is_empty()
    }
}
impl<T> Stealer<T> {
    pub fn steal<C: FnMut(usize) -> usize>(&self, dest: &Worker<T>, count_fn: C) -> Result<usize, st3::StealError> {
        sched::point("ring_steal");
        self.0.steal(&dest.0, count_fn)
    }
}

/// `DashMap` with scheduling points on the operations `beans.rs` uses.
#[derive(Debug)]
pub struct DashMap<K: Eq + Hash, V>(dashmap::DashMap<K, V>);
impl<K: Eq + Hash, V> Default for DashMap<K, V> {
    fn default() -> Self {
        Self(dashmap::DashMap::new())
    }
}
impl<K: Eq + Hash, V> DashMap<K, V> {
    pub fn get<Q>(&self, key: &Q) -> Option<dashmap::mapref::one::Ref<'_, K, V>>
    where
        K: std::borrow::Borrow<Q>,
        Q: Hash + Eq + ?Sized,
    {
        sched::point("map_get");
        self.0.get(key)
    }
    pub fn get_mut<Q>(&self, key: &Q) -> Option<dashmap::mapref::one::RefMut<'_, K, V>>
    where
        K: std::borrow::Borrow<Q>,
        Q: Hash + Eq + ?Sized,
    {
        sched::point("map_get_mut");
        self.0.get_mut(key)
    }
    /// The non-blocking lookups report `Locked` whenever the shard is write-locked by somebody else:
    /// under the controller that is a choice, offered while another controlled thread is unfinished
    /// (the shim's operations are atomic, so the lock is never observed held otherwise).
    pub fn try_get<Q>(&self, key: &Q) -> dashmap::try_result::TryResult<dashmap::mapref::one::Ref<'_, K, V>>
    where
        K: std::borrow::Borrow<Q>,
        Q: Hash + Eq + ?Sized,
    {
        sched::point("map_try_get");
        if sched::contended() {
            return dashmap::try_result::TryResult::Locked;
        }
        self.0.try_get(key)
    }
    pub fn try_get_mut<Q>(&self, key: &Q) -> dashmap::try_result::TryResult<dashmap::mapref::one::RefMut<'_, K, V>>
    where
        K: std::borrow::Borrow<Q>,
        Q: Hash + Eq + ?Sized,
    {
        sched::point("map_try_get_mut");
        if sched::contended() {
            return dashmap::try_result::TryResult::Locked;
        }
        self.0.try_get_mut(key)
    }
    pub fn insert(&self, key: K, value: V) -> Option<V> {
        sched::point("map_insert");
        self.0.insert(key, value)
    }
    pub fn remove<Q>(&self, key: &Q) -> Option<(K, V)>
    where
        K: std::borrow::Borrow<Q>,
        Q: Hash + Eq + ?Sized,
    {
        sched::point("map_remove");
        self.0.remove(key)
    }
    pub fn entry(&self, key: K) -> dashmap::mapref::entry::Entry<'_, K, V> {
        sched::point("map_entry");
        self.0.entry(key)
    }
}

thread_local! {
    static RNG_CHOICES: RefCell<std::collections::VecDeque<usize>> = const { RefCell::new(std::collections::VecDeque::new()) };
}

/// Set the values the next `rng_range` calls on this thread return (each taken modulo the range).
pub fn set_rng_choices(v: &[usize]) {
    RNG_CHOICES.with(|c| *c.borrow_mut() = v.iter().copied().collect());
}

/// Replacement for `rand::rng().random_range(0..n)`: a scripted value, or a controller choice.
pub fn rng_range(r: std::ops::Range<usize>) -> usize {
    let n = r.end - r.start;
    if let Some(v) = sched::choose(n) {
        return r.start + v;
    }
    let v = RNG_CHOICES.with(|c| c.borrow_mut().pop_front()).unwrap_or(0);
    r.start + v % n.max(1)
}
