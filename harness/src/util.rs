//! Small helpers shared by the areas.
use serde_json::Value;
use std::io::Write;
use std::sync::Mutex;

static ARGS: Mutex<Vec<String>> = Mutex::new(Vec::new());

pub fn set_args(a: Vec<String>) {
    *ARGS.lock().expect("args") = a;
}

#[allow(dead_code)]
pub fn args() -> Vec<String> {
    ARGS.lock().expect("args").clone()
}

/// Emit a partial observation at once (survives an abort of this process).
#[allow(dead_code)]
pub fn emit_partial(v: &Value) {
    let stdout = std::io::stdout();
    let mut lock = stdout.lock();
    let _ = writeln!(lock, "P {v}");
    let _ = lock.flush();
}

/// Decode a JSON number or decimal string into u64 (big values travel as strings).
#[allow(dead_code)]
pub fn as_u64(v: &Value) -> u64 {
    match v {
        Value::Number(n) => n.as_u64().expect("u64"),
        Value::String(s) => s.parse::<u64>().expect("u64 string"),
        _ => panic!("not a number: {v}"),
    }
}

#[allow(dead_code)]
pub fn as_i64(v: &Value) -> i64 {
    match v {
        Value::Number(n) => n.as_i64().expect("i64"),
        Value::String(s) => s.parse::<i64>().expect("i64 string"),
        _ => panic!("not a number: {v}"),
    }
}

#[allow(dead_code)]
pub fn as_u128(v: &Value) -> u128 {
    match v {
        Value::Number(n) => u128::from(n.as_u64().expect("u64")),
        Value::String(s) => s.parse::<u128>().expect("u128 string"),
        _ => panic!("not a number: {v}"),
    }
}
