//! `ocv <area> [--isolate] [--timeout-ms N]`: read one JSON case per line on stdin, run it against
//! the real open-coroutine-core built from /repo, print one JSON trace per line on stdout.
//!
//! Protocol (child / non-isolated mode): for each case the area may emit partial observations
//! (`P <json>` lines, flushed at once) and ends with `F {"id":..,"obs":[..]}`.
//! In `--isolate` mode the parent runs one child process per case with a watchdog; a child that
//! dies yields the partial observations plus `"aborted:<signal>"`, a child that outlives the
//! watchdog yields them plus `"diverged"`.
mod areas;
pub mod shim;
pub mod shimmed;
pub mod util;

use serde_json::{json, Value};
use std::io::{BufRead, Write};

fn run_inline(area: &str) {
    let f = areas::lookup(area).unwrap_or_else(|| {
        eprintln!("unknown area {area}");
        std::process::exit(2)
    });
    let stdin = std::io::stdin();
    for line in stdin.lock().lines() {
        let line = line.expect("stdin");
        if line.trim().is_empty() {
            continue;
        }
        let case: Value = serde_json::from_str(&line).expect("case json");
        let id = case["id"].clone();
        let obs = f(&case);
        let out = json!({"id": id, "obs": obs});
        let stdout = std::io::stdout();
        let mut lock = stdout.lock();
        writeln!(lock, "F {out}").expect("stdout");
        lock.flush().expect("flush");
    }
}

fn run_isolated(area: &str, timeout_ms: u64, extra: &[String]) {
    use std::process::{Command, Stdio};
    let exe = std::env::current_exe().expect("exe");
    let stdin = std::io::stdin();
    for line in stdin.lock().lines() {
        let line = line.expect("stdin");
        if line.trim().is_empty() {
            continue;
        }
        let case: Value = serde_json::from_str(&line).expect("case json");
        let id = case["id"].clone();
        let mut child = Command::new(&exe)
            .arg(area)
            .args(extra)
            .stdin(Stdio::piped())
            .stdout(Stdio::piped())
            .stderr(Stdio::null())
            .spawn()
            .expect("spawn");
        {
            let mut cin = child.stdin.take().expect("child stdin");
            writeln!(cin, "{line}").expect("write child");
        }
        let cout = child.stdout.take().expect("child stdout");
        let (tx, rx) = std::sync::mpsc::channel::<Option<String>>();
        let reader = std::thread::spawn(move || {
            let r = std::io::BufReader::new(cout);
            for l in r.lines() {
                match l {
                    Ok(l) => {
                        if tx.send(Some(l)).is_err() {
                            return;
                        }
                    }
                    Err(_) => break,
                }
            }
            let _ = tx.send(None);
        });
        let deadline = std::time::Instant::now() + std::time::Duration::from_millis(timeout_ms);
        let mut partial: Vec<Value> = Vec::new();
        let mut fin: Option<Value> = None;
        let mut timed_out = false;
        loop {
            let now = std::time::Instant::now();
            if now >= deadline {
                timed_out = true;
                break;
            }
            match rx.recv_timeout(deadline - now) {
                Ok(Some(l)) => {
                    if let Some(rest) = l.strip_prefix("P ") {
                        if let Ok(v) = serde_json::from_str::<Value>(rest) {
                            partial.push(v);
                        }
                    } else if let Some(rest) = l.strip_prefix("F ") {
                        fin = serde_json::from_str::<Value>(rest).ok();
                        break;
                    }
                }
                Ok(None) => break,
                Err(std::sync::mpsc::RecvTimeoutError::Timeout) => {
                    timed_out = true;
                    break;
                }
                Err(std::sync::mpsc::RecvTimeoutError::Disconnected) => break,
            }
        }
        let out = if let Some(f) = fin {
            // give the child a moment to exit by itself, then make sure it is gone
            let _ = child.kill();
            let _ = child.wait();
            f
        } else if timed_out {
            let _ = child.kill();
            let _ = child.wait();
            partial.push(json!("diverged"));
            json!({"id": id, "obs": partial})
        } else {
            let status = child.wait().expect("wait");
            use std::os::unix::process::ExitStatusExt;
            let tag = status.signal().map_or_else(
                || format!("exited:{}", status.code().unwrap_or(-1)),
                |s| format!("aborted:{s}"),
            );
            partial.push(json!(tag));
            json!({"id": id, "obs": partial})
        };
        drop(rx);
        let _ = reader.join();
        let stdout = std::io::stdout();
        let mut lock = stdout.lock();
        writeln!(lock, "F {out}").expect("stdout");
        lock.flush().expect("flush");
    }
}

fn main() {
    if std::env::var_os("OCV_VERBOSE").is_none() {
        // panics are observations here; keep stderr quiet
        std::panic::set_hook(Box::new(|_| {}));
    }
    let args: Vec<String> = std::env::args().collect();
    if args.len() < 2 {
        eprintln!("usage: ocv <area> [--isolate] [--timeout-ms N] [area args..]");
        std::process::exit(2);
    }
    let area = args[1].clone();
    let mut isolate = false;
    let mut timeout_ms = 5000u64;
    let mut extra = Vec::new();
    let mut i = 2;
    while i < args.len() {
        match args[i].as_str() {
            "--isolate" => isolate = true,
            "--timeout-ms" => {
                i += 1;
                timeout_ms = args[i].parse().expect("timeout");
            }
            other => extra.push(other.to_string()),
        }
        i += 1;
    }
    util::set_args(extra.clone());
    if isolate {
        run_isolated(&area, timeout_ms, &extra);
    } else {
        run_inline(&area);
    }
}
