//! The queue and bean sources of /repo, textually included after the import rewrite of build.rs.
#![allow(dead_code, unused_imports, clippy::all)]

#[cfg(shim_ok)]
pub mod work_steal {
    include!(concat!(env!("OUT_DIR"), "/work_steal.rs"));
}
#[cfg(shim_ok)]
pub mod ordered_work_steal {
    include!(concat!(env!("OUT_DIR"), "/ordered_work_steal.rs"));
}
#[cfg(shim_ok)]
pub mod beans {
    include!(concat!(env!("OUT_DIR"), "/beans.rs"));
}

pub const SHIM_OK: bool = cfg!(shim_ok);
