//! Re-reads the queue and bean sources of /repo on every build and rewrites ONLY their import
//! lines and the RNG call so that atomics, rings, injectors, maps and the random start index
//! resolve to `crate::shim::*` (which delegate to the real types after a scheduling point).
//! If a source no longer has the expected shape the shimmed copy is replaced by a stub and the
//! harness reports the shim as unavailable (checks then fall back, they do not raise an alarm).
use std::fs;
use std::path::Path;

fn rewrite(src: &str, kind: &str) -> Option<String> {
    let mut out = String::new();
    let mut seen_use = 0;
    for line in src.lines() {
        let t = line.trim_start();
        let repl: Option<String> = if t.starts_with("use crossbeam_deque::") {
            Some(line.replace("crossbeam_deque::", "crate::shim::"))
        } else if t.starts_with("use st3::fifo::") {
            Some(line.replace("st3::fifo::", "crate::shim::"))
        } else if t.starts_with("use std::sync::atomic::") {
            Some(line.replace("std::sync::atomic::", "crate::shim::"))
        } else if t.starts_with("use dashmap::DashMap") {
            Some(line.replace("dashmap::DashMap", "crate::shim::DashMap"))
        } else if t.starts_with("use rand::") {
            Some(String::new())
        } else {
            None
        };
        if let Some(r) = repl {
            seen_use += 1;
            out.push_str(&r);
        } else if line.contains("rand::rng().random_range(") {
            out.push_str(&line.replace("rand::rng().random_range(", "crate::shim::rng_range("));
        } else {
            out.push_str(line);
        }
        out.push('\n');
    }
    let min_use = if kind == "beans" { 2 } else { 3 };
    if seen_use < min_use {
        return None;
    }
    Some(out)
}

fn main() {
    let out_dir = std::env::var("OUT_DIR").expect("OUT_DIR");
    println!("cargo:rerun-if-env-changed=VERIF_REPO");
    let repo = std::env::var("VERIF_REPO").unwrap_or_else(|_| "/repo".to_string());
    let files = [
        ("work_steal", "core/src/common/work_steal.rs"),
        ("ordered_work_steal", "core/src/common/ordered_work_steal.rs"),
        ("beans", "core/src/common/beans.rs"),
    ];
    let mut ok = true;
    for (name, rel) in files {
        let path = Path::new(&repo).join(rel);
        println!("cargo:rerun-if-changed={}", path.display());
        let dst = Path::new(&out_dir).join(format!("{name}.rs"));
        match fs::read_to_string(&path).ok().and_then(|s| rewrite(&s, name)) {
            Some(s) => fs::write(&dst, s).expect("write shim copy"),
            None => {
                ok = false;
                fs::write(&dst, "// shim rewrite did not apply\n").expect("write stub");
            }
        }
    }
    println!("cargo:rerun-if-changed=build.rs");
    println!("cargo:rustc-check-cfg=cfg(shim_ok)");
    if ok {
        println!("cargo:rustc-cfg=shim_ok");
    }
}
