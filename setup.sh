#!/bin/sh
# Run once after a fresh restore, offline: build the Coq development (full .vo) and the harness.
set -e
cd "$(dirname "$0")"
export CARGO_NET_OFFLINE=true
python3 - <<'PY'
import sys, os
sys.path.insert(0, os.getcwd())
from vlib import core
core.ensure_dirs()
core.coq_makefile()
rc, out = core.coq_make([], timeout=3000)
print(core.tail(out, 15))
if rc != 0:
    sys.exit("coq build failed")
for feats in ((),):
    binp, secs = core.build_harness(feats)
    print("harness", feats, "built in %.0fs" % secs)
PY
