#!/usr/bin/env python3
"""mut.py <stream> <nstreams>: systematic small mutations of the modelled Rust sources, one at a time, in a
private repository worktree, checked by the owning properties' quick checks through a private copy of the
framework. Logs one line per mutant to /root/scratch/mut/results-<stream>.jsonl."""
import json, os, random, re, subprocess, sys, time
stream, nstreams = int(sys.argv[1]), int(sys.argv[2])
REPO = "/root/scratch/mut/repo-%d" % stream
VERIF = "/root/scratch/mut/verif-%d" % stream
OUT = "/root/scratch/mut/results-%d.jsonl" % stream
FILES = [
    ("core/src/common/ordered_work_steal.rs", ["C03", "C05", "C06", "C04"], 7),
    ("core/src/common/work_steal.rs", ["C03", "C06", "C04"], 6),
    ("core/src/scheduler.rs", ["C10", "C01"], 7),
    ("core/src/coroutine/state.rs", ["C07", "C09"], 6),
    ("core/src/coroutine/suspender.rs", ["C09", "C10"], 3),
    ("core/src/co_pool/mod.rs", ["C01", "C11", "C12", "C13", "C02"], 10),
    ("core/src/co_pool/task.rs", ["C01", "C02"], 2),
    ("core/src/co_pool/state.rs", ["C12"], 2),
    ("core/src/syscall/unix/mod.rs", ["C16", "C17", "C18", "C19"], 10),
    ("core/src/syscall/unix/recvmsg.rs", ["C16", "C17", "C18"], 5),
    ("core/src/syscall/unix/sendmsg.rs", ["C16", "C17", "C18"], 5),
    ("core/src/syscall/unix/connect.rs", ["C18"], 3),
    ("core/src/syscall/unix/accept.rs", ["C18", "C16"], 2),
    ("core/src/syscall/unix/setsockopt.rs", ["C19"], 2),
    ("core/src/syscall/unix/close.rs", ["C19", "C21"], 2),
    ("core/src/syscall/unix/nanosleep.rs", ["C14"], 3),
    ("core/src/syscall/unix/poll.rs", ["C14"], 3),
    ("core/src/syscall/unix/select.rs", ["C14"], 3),
    ("core/src/syscall/unix/usleep.rs", ["C14"], 2),
    ("core/src/net/selector/mod.rs", ["C21", "C20"], 7),
    ("core/src/net/event_loop.rs", ["C20", "C14", "C21"], 5),
    ("core/src/net/join.rs", ["C02"], 2),
    ("core/src/common/mod.rs", ["C28"], 5),
    ("core/src/coroutine/local.rs", ["C25"], 3),
    ("core/src/coroutine/korosensei.rs", ["C23", "C24", "C08"], 5),
]
OPS = [
    (r" >= ", " > "), (r" > ", " >= "), (r" <= ", " < "), (r" < ", " <= "),
    (r" == ", " != "), (r" != ", " == "), (r" && ", " || "), (r" \|\| ", " && "),
    (r"saturating_add\(", "saturating_sub("), (r"saturating_sub\(", "saturating_add("),
    (r" \+ 1\b", " + 0"), (r" - 1\b", " - 0"), (r"\.min\(", ".max("), (r"\.max\(", ".min("),
    (r"is_none\(\)", "is_some()"), (r"is_some\(\)", "is_none()"), (r"is_empty\(\)", "is_empty() == false"),
    (r"\bcontinue;", "break;"), (r"\btrue\b", "false"),
]

def sites(path):
    src = open(os.path.join(REPO, path)).read().split("\n")
    out = []
    for ln, line in enumerate(src):
        s = line.strip()
        if s.startswith("mod tests") or s.startswith("#[cfg(test)]"):
            break
        if s.startswith("//") or s.startswith("#") or s.startswith("assert") or "trace!" in s or "info!" in s or "warn!" in s or "error!" in s or "cfg(feature = \"verif\")" in s or "verif::" in s:
            continue
        if "<" in s and (("fn " in s) or ("impl" in s) or ("->" in s) or ("::<" in s) or ("Option<" in s) or ("Result<" in s)):
            continue   # generics, not comparisons
        code = line.split("//")[0]
        for pat, rep in OPS:
            for m in re.finditer(pat, code):
                out.append((ln, m.start(), m.end(), rep, pat))
    return src, out

def sh(cmd, cwd=None, env=None, timeout=1500):
    try:
        p = subprocess.run(cmd, cwd=cwd, env=env, shell=True, capture_output=True, text=True, timeout=timeout)
        return p.returncode, p.stdout + p.stderr
    except subprocess.TimeoutExpired:
        return 124, "timeout"

rng = random.Random(20260922)
plan = []
for path, checks, n in FILES:
    src, ss = sites(path)
    import zlib; rng2 = random.Random(zlib.crc32(path.encode()))
    rng2.shuffle(ss)
    for k, s in enumerate(ss[:n]):
        plan.append((path, checks, s))
plan = [p for i, p in enumerate(plan) if i % nstreams == stream - 1]
done = set()
if os.path.exists(OUT):
    for l in open(OUT):
        d = json.loads(l); done.add((d["file"], d["line"], d["col"], d["rep"]))
env = dict(os.environ, VERIF_REPO=REPO, CARGO_NET_OFFLINE="true")
for path, checks, (ln, a, b, rep, pat) in plan:
    if (path, ln + 1, a, rep) in done:
        continue
    sh("git checkout -- .", cwd=REPO)
    src = open(os.path.join(REPO, path)).read().split("\n")
    old = src[ln]
    src[ln] = old[:a] + rep + old[b:]
    open(os.path.join(REPO, path), "w").write("\n".join(src))
    rec = {"file": path, "line": ln + 1, "col": a, "rep": rep, "old": old.strip()[:160], "new": src[ln].strip()[:160], "checks": {}}
    t0 = time.time()
    rc, out = sh("CARGO_TARGET_DIR=%s/.cache/target-mutcheck cargo build --offline -p open-coroutine-core --features verif 2>&1 | tail -3" % VERIF, cwd=REPO, env=env, timeout=900)
    if "error" in out and "Finished" not in out:
        rec["status"] = "compile_error"
    else:
        killed = None
        for c in checks:
            rc, out = sh("./check %s 2>&1 | grep -E 'VIOLATION|^C[0-9]+:' | cut -c1-200" % c, cwd=VERIF, env=env, timeout=1500)
            rec["checks"][c] = out.strip().split("\n")[-3:]
            if "VIOLATION" in out:
                killed = c
                rec["how"] = "no-failing-input-found" if "no-failing-input-found" in out else "failing-input"
                break
        rec["status"] = "killed" if killed else "survived"
        rec["killed_by"] = killed
    rec["secs"] = round(time.time() - t0)
    sh("git checkout -- .", cwd=REPO)
    open(OUT, "a").write(json.dumps(rec) + "\n")
print("stream", stream, "done")
