#!/usr/bin/env python3
"""archive_seed.py <seed-id> <property> <note...>: copy a confirmed seeded change into /verif/seeded/<seed-id>/"""
import json, os, shutil, sys
sid, prop = sys.argv[1], sys.argv[2]
src = "/root/scratch/seed-%s/seed" % sid
dst = "/verif/seeded/%s" % sid
os.makedirs(dst, exist_ok=True)
for f in os.listdir(src):
    p = os.path.join(src, f)
    if os.path.isfile(p) and f not in ("suite.log",) and os.path.getsize(p) < 200000:
        shutil.copy(p, dst)
meta = json.load(open(os.path.join(src, "meta.json")))
confirm = open(os.path.join(src, "confirm.log")).read().strip().splitlines()[-1] if os.path.exists(os.path.join(src, "confirm.log")) else ""
meta["breaks_property"] = prop
meta["confirmed_by_me"] = confirm
meta["checks"] = json.loads(sys.argv[3]) if len(sys.argv) > 3 else {}
json.dump(meta, open(os.path.join(dst, "meta.json"), "w"), indent=1)
print("archived", dst, os.listdir(dst))
