#!/usr/bin/env python3
"""Regenerate MANIFEST.json from the property modules under vlib/props (one source of truth)."""
import importlib
import json
import os
import subprocess
import sys

ROOT = os.path.dirname(os.path.dirname(os.path.abspath(__file__)))
sys.path.insert(0, ROOT)

props = [json.loads(l) for l in open(os.path.join(ROOT, "properties.jsonl"))]
NA_REASON = json.load(open(os.path.join(ROOT, "tools", "not_claimed.json")))

hook_commits = []
try:
    out = subprocess.run(["git", "-C", "/repo", "log", "--format=%H %s"], capture_output=True, text=True).stdout
    for line in out.splitlines():
        sha, _, subj = line.partition(" ")
        if subj.startswith("verif hooks"):
            hook_commits.append(sha)
except Exception:
    pass

checks = []
na = []
for p in props:
    pid = p["id"]
    try:
        mod = importlib.import_module("vlib.props." + pid.lower())
        if not hasattr(mod, "LEVEL_TEXT") or not all(os.path.exists(os.path.join(ROOT, "coq", t[:-3] + ".v")) for t in mod.PROPS):
            raise ModuleNotFoundError(pid)  # work in progress: not claimed until it has theorems and a level statement
    except ModuleNotFoundError:
        na.append({"property_id": pid, "reason": NA_REASON.get(pid, "not reached yet: no Coq model/correspondence built for it in this round; not claimed")})
        continue
    checks.append({
        "property_id": pid,
        "quick_cmd": "./check %s --tier quick" % pid,
        "thorough_cmd": "./check %s --tier thorough" % pid,
        "evidence_file": "/verif/evidence/%s.json" % pid,
        "replay_cmd_template": "./check %s --replay {path}" % pid,
        "engine": "coq-model+correspondence",
        "level_claimed": {
            "category": getattr(mod, "LEVEL", "proof"),
            "text": mod.LEVEL_TEXT,
            "design_ref": getattr(mod, "DESIGN_REF", "DESIGN.md section 8, " + pid),
        },
        "level_note": mod.LEVEL_NOTE,
        "technique": getattr(mod, "TECHNIQUE", "machine-checked proof in Coq 8.16 about a hand-written Gallina model + differential correspondence against the Rust code"),
    })

manifest = {
    "version": 1,
    "setup_cmd": "./setup.sh",
    "hooks": {
        "guard": "cargo feature `verif` of open-coroutine-core (off by default)",
        "enable": "the harness crate depends on open-coroutine-core = { path = \"/repo/core\", features = [\"verif\"] }",
        "baseline_off_cmd": "cd /repo && cargo test --workspace --no-fail-fast --offline",
        "source_commits": list(reversed(hook_commits)),
        "add_only": True,
    },
    "engines": [{
        "name": "coq-model+correspondence",
        "path": "/verif/check",
        "serves_properties": [c["property_id"] for c in checks],
        "kind_free_text": "Coq 8.16.1 theorems about executable Gallina models (coq/theories), tied to /repo by a differential harness (harness/, Rust, path dependency on /repo/core) whose traces are judged inside Coq with vm_compute",
    }],
    "checks": checks,
    "not_applicable": na,
    "notes": "See DESIGN.md. Known findings: known_findings.jsonl. Seeded changes used to test the checks: seeded/.",
}
with open(os.path.join(ROOT, "MANIFEST.json"), "w") as f:
    json.dump(manifest, f, indent=1)
    f.write("\n")
print("claimed:", [c["property_id"] for c in checks])
print("not claimed:", [n["property_id"] for n in na])
