#!/usr/bin/env python3
"""tools/pws_run.py <c03|c04|c06> <seed> [--tier quick|full|thorough|search] [--limit N] [--no-proofs]

Stand-alone run of the PLAIN work-steal queue cases (vlib/pwsq.py) for one property flag: generate the
histories, run them on the real code (harness area `pws`, built against $VERIF_REPO), judge them inside Coq
(Cases/PWS.v: judge_pws_c03 / judge_pws_c04 / judge_pws_c06) and print the (corr, prop) counts.
Also builds the proofs (Props/PWS.vo) and reports their Print Assumptions. Exit status 0 iff the proofs
build, are closed under the global context, and every case has corr = prop = true."""
import json
import os
import random
import sys
import time
import types

sys.path.insert(0, os.path.dirname(os.path.dirname(os.path.abspath(__file__))))
from vlib import core, driver, pwsq  # noqa: E402


def module_for(flag):
    m = types.SimpleNamespace()
    m.ID = "PWS" + flag.upper()
    m.CASES_MODULE = "Cases.PWS"
    m.HEADER = "Definition judge := %s." % pwsq.JUDGE[flag]
    m.AREA = pwsq.AREA
    m.ISOLATE = True
    m.TIMEOUT_MS = pwsq.TIMEOUT_MS
    m.SHARD_SIZE = 20
    m.term = pwsq.term
    return m


def main(argv):
    if len(argv) < 3 or argv[1] not in pwsq.GEN:
        print(__doc__)
        return 2
    flag = argv[1]
    seed = int(argv[2])
    tier = "full"
    limit = None
    skip_proofs = False
    i = 3
    while i < len(argv):
        if argv[i] == "--tier":
            tier = argv[i + 1]
            i += 1
        elif argv[i] == "--limit":
            limit = int(argv[i + 1])
            i += 1
        elif argv[i] == "--no-proofs":
            skip_proofs = True
        i += 1
    t0 = time.time()
    core.ensure_dirs()
    ok = True
    if not skip_proofs:
        proofs = core.check_proofs("PWS", ["theories/Props/PWS.vo"])
        print("proofs: ok=%s theorems=%d axioms=%s %s" % (proofs["ok"], proofs["obligations"], proofs["axioms"],
                                                       "; ".join(proofs["problems"])))
        ok = ok and proofs["ok"]
    rng = random.Random((seed * 1000003 + sum(map(ord, "PWS" + flag))) & 0xFFFFFFFF)
    mod = module_for(flag)
    cases = []
    for c in core.load_corpus("PWS"):
        c = dict(c)
        c["origin"] = "corpus"
        cases.append(c)
    gen = pwsq.GEN[flag](rng, tier)
    if limit is not None:
        gen = gen[:limit]
    cases += gen
    for k, c in enumerate(cases):
        c["id"] = k
    try:
        results, bsec = driver.evaluate(mod, cases, {})
    except core.BuildError as e:
        print("BUILD ERROR: %s\n%s" % (e.what, core.tail(e.log, 40)))
        return 1
    n = len(results)
    corr = sum(1 for c, o, v in results if v["corr"])
    prop = sum(1 for c, o, v in results if v["prop"])
    nontriv = sum(1 for c, o, v in results if pwsq.nontrivial(c, o, v))
    distinct = len({json.dumps(c["ops"]) + json.dumps(c["cfg"]) for c, o, v in results})
    d = pwsq.distribution(results)
    print("flag=%s seed=%d tier=%s repo=%s harness_build_s=%.1f" % (flag, seed, tier, core.REPO, bsec))
    print("cases=%d distinct=%d nontrivial=%d corr=%d prop=%d wall_s=%.1f" % (n, distinct, nontriv, corr, prop, time.time() - t0))
    print("kinds=%s" % json.dumps(d["kinds"], sort_keys=True))
    print("tags=%s" % json.dumps(d["tags"], sort_keys=True))
    print("ops=%s" % json.dumps(d["ops"], sort_keys=True))
    print("lengths=%s drained=%d diverged=%d" % (json.dumps(d["lengths"]), d["drained"], d["diverged"]))
    bad = [(c, o, v) for c, o, v in results if not (v["corr"] and v["prop"])]
    for c, o, v in bad[:3]:
        print("FAIL corr=%s prop=%s note=%s tags=%s" % (v["corr"], v["prop"], v["note"], ",".join(v["tags"])))
        print("  case: " + json.dumps({k: c[k] for k in c if k != "id"}))
        print("  impl: " + json.dumps(o))
    if bad:
        core.ensure_dirs()
        path = os.path.join(core.REPLAYS, "PWS-%s-%d.json" % (flag, seed))
        with open(path, "w") as f:
            json.dump({"flag": flag, "cases": [{k: c[k] for k in c if k != "id"} for c, o, v in bad[:20]],
                       "impl": [o for c, o, v in bad[:20]], "verdicts": [v for c, o, v in bad[:20]]}, f, indent=1)
        print("failing cases written to " + path)
    return 0 if (ok and corr == n and prop == n) else 1


if __name__ == "__main__":
    sys.exit(main(sys.argv))
