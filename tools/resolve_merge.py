#!/usr/bin/env python3
"""resolve_merge.py <branch>: resolve the two routine conflicts of merging an agent branch
(area registry, known findings) and remap cherry-picked fix shas by commit subject."""
import json, re, subprocess, sys
br = sys.argv[1]
pat = re.compile(r"<<<<<<< HEAD\n(.*?)=======\n(.*?)>>>>>>> %s\n" % re.escape(br), re.S)
for p in ("/verif/harness/src/areas/mod.rs", "/verif/known_findings.jsonl"):
    s = open(p).read()
    s = pat.sub(lambda m: m.group(1) + m.group(2), s)
    open(p, "w").write(s)
log = subprocess.run(["git", "-C", "/repo", "log", "--format=%h %s", "-80"], capture_output=True, text=True).stdout.splitlines()
alog = subprocess.run(["git", "-C", "/repo", "log", br, "--format=%h %s", "-80"], capture_output=True, text=True).stdout.splitlines()
main = {l.split(" ", 1)[1]: l.split(" ", 1)[0] for l in log}
p = "/verif/known_findings.jsonl"
s = open(p).read()
for l in alog:
    a, subj = l.split(" ", 1)
    m = main.get(subj)
    if m and m != a:
        s = s.replace(a, m)
seen, order = {}, []
for l in s.splitlines():
    if not l.strip():
        continue
    d = json.loads(l)
    k = (d["property"], d.get("defect"))
    if k not in order:
        order.append(k)
    seen[k] = l
open(p, "w").write("\n".join(seen[k] for k in order) + "\n")
# the match arms in mod.rs may now be duplicated or mis-ordered: dedupe lines inside lookup()
p = "/verif/harness/src/areas/mod.rs"
lines = open(p).read().splitlines()
out, seenl = [], set()
for l in lines:
    key = l.strip()
    if (key.startswith("mod ") or key.startswith("pub mod ") or "=> Some(" in key) and key in seenl:
        continue
    seenl.add(key)
    out.append(l)
open(p, "w").write("\n".join(out) + "\n")
for k in order:
    d = json.loads(seen[k])
    print(d["status"], d["property"], d.get("defect"), d.get("commit", ""))
