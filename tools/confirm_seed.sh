#!/bin/sh
# confirm_seed.sh <Cxx>: confirm a seeded change in its own scratch worktree /root/scratch/seed-<Cxx>:
# (1) demo passes on the unchanged tree, (2) change applies and compiles, (3) demo fails with it,
# (4) the pinned suite still passes with it (serial test threads to avoid the known co_pool flake).
set -u
ID=$1
WT=/root/scratch/seed-$ID
LOG=$WT/seed/confirm.log
cd "$WT" || exit 2
export CARGO_TARGET_DIR=$WT/target CARGO_NET_OFFLINE=true
git checkout -q -- . 
DEMO=$(ls seed/*.rs 2>/dev/null | head -1)
: > "$LOG"
run_demo() {
  if [ -n "$DEMO" ]; then
    cp "$DEMO" core/tests/seed_demo.rs
    timeout 900 cargo test --offline -p open-coroutine-core --features ${SEED_FEATURES:-verif} --test seed_demo -- --test-threads=1 >> "$LOG" 2>&1
    rc=$?
    rm -f core/tests/seed_demo.rs
    return $rc
  fi
  return 99
}
echo "== demo on unchanged tree" >> "$LOG"; run_demo; A=$?
echo "== apply" >> "$LOG"; git apply seed/patch.diff >> "$LOG" 2>&1; AP=$?
echo "== demo with change" >> "$LOG"; run_demo; B=$?
echo "== suite with change" >> "$LOG"
timeout 2400 cargo test --workspace --no-fail-fast --offline -- --test-threads=1 > "$WT/seed/suite.log" 2>&1
FAILS=$(grep -a -c "^test result: FAILED" "$WT/seed/suite.log")
OKS=$(grep -a -c "^test result: ok" "$WT/seed/suite.log")
git checkout -q -- .
rm -rf "$WT/target"
echo "RESULT id=$ID demo_unchanged_rc=$A apply_rc=$AP demo_changed_rc=$B suite_ok_binaries=$OKS suite_failed_binaries=$FAILS" | tee -a "$LOG"
