"""Generators and printers for pool histories (C01, C02, C11, C12, C13)."""
from .core import gz, glist, gbool
from . import cocases
from .schedcases import Uid

U64 = 2**64 - 1
I64MAX = 2**63 - 1
I64MIN = -2**63


def gen_task(rng, uid, base, style="mix"):
    body = []
    n = rng.randint(0, 5)
    for _ in range(n):
        k = rng.random()
        if style == "plain":
            body.append({"i": "log", "k": rng.randrange(5)})
            continue
        if k < 0.30:
            body.append({"i": "suspend", "y": "0"})
        elif k < 0.45:
            body.append({"i": "delay", "y": "0", "d": str(rng.choice([0, 1, 2, 5]) * 1000 + uid.next())})
        elif k < 0.55:
            body.append({"i": "until", "y": "0", "t": str(base + rng.choice([0, 1, 3, 10]) * 1000 + uid.next())})
        elif k < 0.68:
            body.append({"i": "tick", "d": str(rng.choice([1, 2, 10]) * 1000)})
        elif k < 0.76:
            body.append({"i": "log", "k": rng.randrange(10)})
        elif k < 0.92:
            name = rng.randrange(3)
            t = base + rng.choice([1, 2, 5]) * 1000 + uid.next()
            body.append({"i": "syscall", "y": "0", "n": name, "st": {"k": "exec"}})
            body.append({"i": "syscall", "y": "0", "n": name, "st": {"k": "susp", "t": str(t)}})
            body.append({"i": "until", "y": "0", "t": str(t)})
            body.append({"i": "syscall", "y": "0", "n": name, "st": {"k": "exec"}})
            body.append({"i": "running"})
        else:
            body.append({"i": "suspend", "y": "0"})
    k = rng.random()
    if k < 0.7:
        body.append({"i": "return", "v": str(rng.choice([0, 1, 7, 2**31, 2**62]))})
    elif k < 0.8:
        body.append({"i": "panic", "k": "static", "m": rng.randrange(100)})
    elif k < 0.9:
        body.append({"i": "panic", "k": "owned", "m": rng.randrange(100)})
    elif k < 0.95:
        body.append({"i": "panic", "k": "other", "m": 0})
    return body


def gen_case(rng, npools=1, style="mix", stop=True, cancels=True):
    uid = Uid()
    clock = rng.choice([0, 10**6, 10**9])
    cfgs = []
    for _ in range(npools):
        mx = rng.choice([1, 1, 2, 4, 65536])
        cfgs.append([0, mx, 0])
    ops = []
    cur = clock
    ntask = 0
    untils = []        # wake-up times asked for so far: a clock step may land exactly on one
    ticks = 0          # total of all Tick instructions submitted so far: the model clock never exceeds cur + ticks
    tpool = []
    stopped = set()
    for _ in range(rng.randint(4, 24)):
        k = rng.random()
        p = rng.randrange(npools)
        if k < 0.35 or ntask == 0:
            pr = rng.random()
            prio = None if pr < 0.5 else str(rng.choice([0, 1, 1, -1, 2, I64MIN, I64MAX]))
            body = gen_task(rng, uid, cur, style)
            ticks += sum(int(i["d"]) for i in body if i["i"] == "tick")
            untils += [int(i["t"]) for i in body if i["i"] == "until"]
            ops.append({"op": "submit", "p": p, "body": body, "prio": prio})
            ntask += 1
            tpool.append(p)
        elif k < 0.62:
            d = rng.random()
            deadline = U64 if d < 0.6 else (cur + rng.choice([1, 2, 5, 30]) * 1000 if d < 0.85 else rng.choice([0, cur]))
            ops.append({"op": "pass", "p": p, "deadline": str(min(deadline, U64))})
        elif k < 0.70:
            # time never goes backwards: step past every tick that may have run meanwhile
            exact = [t for t in untils if t >= cur + ticks]
            if exact and rng.random() < 0.4:
                cur = min(exact)          # land exactly on a wake-up time (the boundary of "due")
            else:
                cur = min(U64 // 1000 * 1000, cur + ticks + rng.choice([1, 2, 5, 20, 200]) * 1000)
            ops.append({"op": "clock", "c": str(cur)})
        elif k < 0.80:
            t = rng.randrange(ntask)   # a join handle asks the loop the task was submitted to
            ops.append({"op": rng.choice(["wait", "wait", "take"]), "p": tpool[t], "t": t})
        elif k < 0.86 and cancels:
            ops.append({"op": "cancel", "t": rng.randrange(ntask)})
        elif k < 0.90:
            t = rng.randrange(ntask)
            ops.append({"op": "clean", "p": tpool[t], "t": t})
        elif k < 0.96:
            ops.append({"op": rng.choice(["running", "size", "state"]), "p": p})
        elif stop:
            ops.append({"op": "stop", "p": p, "dur": str(rng.choice([0, 2, 5]) * 10**6)})
            stopped.add(p)
    # settle: advance, run everything, read counters and results
    cur = min(U64 // 1000 * 1000, cur + ticks + 10**9)
    ops.append({"op": "clock", "c": str(cur)})
    for p in range(npools):
        ops.append({"op": "pass", "p": p, "deadline": str(U64)})
    for p in range(npools):
        ops.append({"op": "pass", "p": p, "deadline": str(U64)})
        ops.append({"op": "running", "p": p})
    for t in range(ntask):
        ops.append({"op": "wait", "p": tpool[t], "t": t})
    if stop and rng.random() < 0.7:
        for p in range(npools):
            ops.append({"op": "stop", "p": p, "dur": str(3 * 10**6)})
            ops.append({"op": "state", "p": p})
            ops.append({"op": "running", "p": p})
        for t in range(min(ntask, 3)):
            ops.append({"op": "wait", "p": tpool[t], "t": t})
        ops.append({"op": "submit", "p": 0, "body": [{"i": "return", "v": "1"}], "prio": None})
    return {"clock": str(clock), "pools": cfgs, "ops": ops, "kind": "pool%d_%s" % (npools, style), "stream": True}


def gen_keepalive_stop(rng):
    """Pools whose workers have a keep-alive time (and possibly a minimum size): all scheduling happens
    inside stop, where idle workers must retire at once whatever their keep-alive says. (A pass on a
    RUNNING pool with idle keep-alive workers naps in place until the keep-alive runs out, which the
    virtual clock cannot serve: those histories are left out.)"""
    uid = Uid()
    clock = rng.choice([0, 10**6, 10**9])
    mx = rng.choice([1, 2, 2, 4])       # small: the model's pass fuel is max * keep-alive rounds
    mn = rng.choice([0, 0, 1, 2])
    keep = rng.choice([5, 20, 50]) * 10**6      # small: the model's fuel counts 1 ms naps
    ops, ntask = [], 0
    for _ in range(rng.randint(1, 4)):
        style = rng.choice(["plain", "mix"])
        body = [i for i in gen_task(rng, uid, clock, style) if i["i"] not in ("tick",)]
        ops.append({"op": "submit", "p": 0, "body": body, "prio": None if rng.random() < 0.6 else str(rng.choice([0, 1, -1]))})
        ntask += 1
        if rng.random() < 0.2:
            ops.append({"op": "cancel", "t": rng.randrange(ntask)})
        if rng.random() < 0.15:
            ops.append({"op": "clean", "p": 0, "t": rng.randrange(ntask)})
    ops.append({"op": "running", "p": 0})
    ops.append({"op": "stop", "p": 0, "dur": str(rng.choice([20, 50]) * 10**6)})
    ops.append({"op": "state", "p": 0})
    ops.append({"op": "running", "p": 0})
    for t in range(ntask):
        ops.append({"op": "wait", "p": 0, "t": t})
    ops.append({"op": "stop", "p": 0, "dur": str(5 * 10**6)})
    ops.append({"op": "state", "p": 0})
    ops.append({"op": "running", "p": 0})
    ops.append({"op": "submit", "p": 0, "body": [{"i": "return", "v": "1"}], "prio": None})
    return {"clock": str(clock), "pools": [[mn, mx, keep]], "ops": ops, "kind": "keepalive_stop", "stream": True}


def gen_keepalive_run(rng):
    """Pools with a keep-alive time, scheduled while RUNNING: idle workers nap (virtual clock, 1 ms steps,
    hook H7) until their keep-alive runs out. The clock may move inside a pass: every later clock step jumps
    far ahead of anything a pass can have reached."""
    uid = Uid()
    clock = rng.choice([0, 10**6, 10**9])
    mx = rng.choice([1, 2, 2, 4])
    keep = rng.choice([1, 3, 20, 50]) * 10**6
    ops, ntask, cur = [], 0, clock
    for _ in range(rng.randint(3, 14)):
        k = rng.random()
        if k < 0.35 or ntask == 0:
            style = rng.choice(["plain", "mix", "mix"])
            body = gen_task(rng, uid, cur, style)
            ops.append({"op": "submit", "p": 0, "body": body, "prio": None if rng.random() < 0.6 else str(rng.choice([0, 1, -1]))})
            ntask += 1
        elif k < 0.65:
            d = rng.random()
            deadline = U64 if d < 0.5 else cur + rng.choice([1, 2, 5, 30, 70]) * 10**6
            ops.append({"op": "pass", "p": 0, "deadline": str(deadline)})
        elif k < 0.75:
            cur += 10**9 + rng.choice([0, 1, 7]) * 10**6
            ops.append({"op": "clock", "c": str(cur)})
        elif k < 0.85:
            t = rng.randrange(ntask)
            ops.append({"op": rng.choice(["wait", "take"]), "p": 0, "t": t})
        elif k < 0.9:
            ops.append({"op": "cancel", "t": rng.randrange(ntask)})
        else:
            ops.append({"op": rng.choice(["running", "size", "state"]), "p": 0})
    cur += 2 * 10**9
    ops.append({"op": "clock", "c": str(cur)})
    ops.append({"op": "pass", "p": 0, "deadline": str(U64)})
    ops.append({"op": "running", "p": 0})
    for t in range(ntask):
        ops.append({"op": "wait", "p": 0, "t": t})
    if rng.random() < 0.5:
        ops.append({"op": "stop", "p": 0, "dur": str(3 * 10**6)})
        ops.append({"op": "state", "p": 0})
        ops.append({"op": "running", "p": 0})
    return {"clock": str(clock), "pools": [[0, mx, keep]], "ops": ops, "kind": "keepalive_run", "stream": True}


def gen_late_cancel(rng):
    """Cancels aimed at tasks that are no longer in progress (finished, result taken, result declared
    unwanted) while other tasks are: the other tasks must not notice."""
    uid = Uid()
    clock = rng.choice([0, 10**6, 10**9])
    mx = rng.choice([1, 1, 2, 65536])
    ops, cur = [], clock
    nfin = rng.randint(1, 2)
    for t in range(nfin):
        ops.append({"op": "submit", "p": 0, "prio": None,
                    "body": [{"i": "log", "k": t}, {"i": "return", "v": str(t + 1)}]})
        k = rng.random()
        if k < 0.5:
            ops.append({"op": "clean", "p": 0, "t": t})       # the join handle was dropped before the task ran
    # the worker that ran the finished tasks goes on to the live ones when they are queued behind them
    early = rng.random() < 0.3
    if early:
        ops.append({"op": "pass", "p": 0, "deadline": str(U64)})
        for t in range(nfin):
            if rng.random() < 0.4:
                ops.append({"op": rng.choice(["take", "wait", "clean"]), "p": 0, "t": t})
    nlive = rng.randint(1, 3)
    for j in range(nlive):
        body = [{"i": "log", "k": 5 + j}]
        for _ in range(rng.randint(1, 3)):
            k = rng.random()
            if k < 0.4:
                body.append({"i": "suspend", "y": "0"})
            elif k < 0.7:
                body.append({"i": "delay", "y": "0", "d": str(rng.choice([1, 2, 5]) * 1000 + uid.next())})
            else:
                body.append({"i": "until", "y": "0", "t": str(cur + rng.choice([1, 3]) * 1000 + uid.next())})
        body.append({"i": "return", "v": str(10 + j)})
        ops.append({"op": "submit", "p": 0, "prio": None, "body": body})
    ops.append({"op": "pass", "p": 0, "deadline": str(rng.choice([cur, cur + 1000]))})
    for _ in range(rng.randint(1, 3)):
        ops.append({"op": "cancel", "t": rng.randrange(nfin)})
        if rng.random() < 0.5:
            ops.append({"op": "pass", "p": 0, "deadline": str(cur + 1000)})
    cur += 10**9
    ops.append({"op": "clock", "c": str(cur)})
    ops.append({"op": "pass", "p": 0, "deadline": str(U64)})
    ops.append({"op": "pass", "p": 0, "deadline": str(U64)})
    ops.append({"op": "running", "p": 0})
    for t in range(nfin + nlive):
        ops.append({"op": "wait", "p": 0, "t": t})
    return {"clock": str(clock), "pools": [[0, mx, 0]], "ops": ops, "kind": "late_cancel", "stream": True}


def g_op(o):
    k = o["op"]
    if k == "submit":
        prio = "None" if o["prio"] is None else "(Some %s)" % gz(o["prio"])
        return "PSubmit %d %s %s" % (o["p"], glist([cocases.g_instr(i) for i in o["body"]]), prio)
    if k == "pass":
        return "PPass %d %s" % (o["p"], gz(o["deadline"]))
    if k == "wait":
        return "PWait %d %d" % (o["p"], o["t"])
    if k == "take":
        return "PTake %d %d" % (o["p"], o["t"])
    if k == "clean":
        return "PClean %d %d" % (o["p"], o["t"])
    if k == "cancel":
        return "PCancel %d" % o["t"]
    if k == "stop":
        return "PStop %d %s" % (o["p"], gz(o["dur"]))
    if k == "running":
        return "PGetRunning %d" % o["p"]
    if k == "size":
        return "PSize %d" % o["p"]
    if k == "state":
        return "PGetState %d" % o["p"]
    if k == "clock":
        return "PClock %s" % gz(o["c"])
    raise ValueError(k)


def g_tmsg(m):
    if m == "stopped":
        return "TMStopped"
    if m == "cancelled":
        return "TMCancelled"
    return "(TM %s)" % cocases.g_msg(m)


def g_tres(v):
    if "ok" in v:
        return "(TOk %s)" % gz(v["ok"])
    return "(TErr %s)" % g_tmsg(v["err"])


def g_obs(o):
    if o == "unit":
        return "OUnitP"
    if o == "diverged":
        return "OPass PDiverged []"
    if not isinstance(o, dict):
        return "OSubmit false"
    if "submit" in o:
        return "OSubmit %s" % gbool(o["submit"])
    if "pass" in o:
        evs = glist([cocases.g_ev(e) for e in o["ev"]])
        p = o["pass"]
        if isinstance(p, dict):
            return "OPass (PLeft %s) %s" % (gz(p["left"]), evs)
        return "OPass %s %s" % ({"err_stopped": "PErrStopped", "err": "PErr", "unwound": "PUnwound"}[p], evs)
    if "wait" in o:
        w = o["wait"]
        if isinstance(w, dict):
            return "OWait (WVal %s)" % g_tres(w["val"])
        return "OWait %s" % {"timeout": "WTimeout", "none": "WNone", "err": "WNone"}[w]
    if "stop" in o:
        evs = glist([cocases.g_ev(e) for e in o["ev"]])
        return "OStop %s %s" % ({"ok": "StopOk", "timeout": "StopTimeout", "err": "StopErr", "unwound": "StopUnwound"}[o["stop"]], evs)
    if "num" in o:
        return "ONumP %s" % gz(o["num"])
    if "state" in o:
        return "OState %s" % {"running": "PRunning", "stopping": "PStopping", "stopped": "PStopped"}[o["state"]]
    return "OSubmit false"


def fix_diverged(case, obs):
    """a watchdog expiry inside a pass or a stop is that call diverging"""
    out = []
    for i, o in enumerate(obs):
        if o == "diverged":
            op = case["ops"][i]["op"] if i < len(case["ops"]) else "pass"
            out.append("OStop StopDiverged []" if op == "stop" else "OPass PDiverged []")
        else:
            out.append(g_obs(o))
    return out


def term(case, obs):
    return ("{| pc_clock := %s; pc_cfgs := %s; pc_ops := %s; pc_impl := %s |}"
            % (gz(case["clock"]), glist(["(%s, %s, %s)" % (gz(c[0]), gz(c[1]), gz(c[2])) for c in case["pools"]]),
               glist([g_op(o) for o in case["ops"]]), glist(fix_diverged(case, obs))))


def nontrivial(case, obs, verdict):
    return len(verdict["tags"]) >= 3


def distribution(results):
    d = {"kinds": {}, "ops": {}, "instr": {}, "tags": {}, "tasks": 0, "events": 0}
    for c, o, v in results:
        d["kinds"][c.get("kind", "?")] = d["kinds"].get(c.get("kind", "?"), 0) + 1
        for op in c["ops"]:
            d["ops"][op["op"]] = d["ops"].get(op["op"], 0) + 1
            if op["op"] == "submit":
                d["tasks"] += 1
                for i in op["body"]:
                    d["instr"][i["i"]] = d["instr"].get(i["i"], 0) + 1
        for t in v["tags"]:
            d["tags"][t] = d["tags"].get(t, 0) + 1
        for x in o:
            if isinstance(x, dict):
                d["events"] += len(x.get("ev", []))
    return d
