"""Cases for the user-facing layer (C02 through `open_coroutine::JoinHandle<R>` and the cdylib's C
ABI): generators, Gallina printers for `Cases/C02Facade.v`, and the run-and-judge helper used by
`vlib/props/c02.py`. The harness is `harness-e2e/` (one process per case, real time)."""
import json

from . import core, e2e
from .core import gz, glist, gbool, gstr

U64MAX = 2**64 - 1
DUR = {"zero": 0, "ns1": 1, "short": 30 * 10**6, "mid": 300 * 10**6, "long": 3 * 10**9,
       "u64max": U64MAX, "max": U64MAX * 10**9 + 999999999}
MARGIN = 200 * 10**6          # a task ending this close to a deadline may be reported either way
STATIC_TEXTS = ["static failure zero", "boom", "", "line one\nline two"]
UNWRAP_TEXT = "called `Option::unwrap()` on a `None` value"
FAILED = ("join failed", "timeout join failed")


def fmt_text(n):
    return "task %d failed: code=%d" % (n, (n * 7) % 2**64)


# ------------------------------------------------------------------------------- expected outcomes

def render_value(o):
    """Rust `{:?}` of the value the task returns"""
    k = o["k"]
    if k == "unit":
        return "()"
    if k in ("i32", "i64", "u64"):
        return str(int(o["v"]))
    if k == "usize0":
        return "0"
    if k == "bool":
        return "true" if o["v"] else "false"
    if k == "opt":
        return "None" if o["v"] is None else "Some(%d)" % int(o["v"])
    if k == "string":
        return '"%s"' % o["v"]
    if k == "result":
        return "Ok(%d)" % int(o["ok"]) if o.get("ok") is not None else 'Err("%s")' % o["err"]
    if k == "array":
        n = int(o["v"])
        return "[%d, %d, %d, %d]" % (n, (n + 1) % 2**64, (n * 3) % 2**64, U64MAX)
    if k == "vec":
        return "[" + ", ".join(str(i % 251) for i in range(int(o["v"]))) + "]"
    if k == "grow":
        return "Ok(%d)" % ((int(o["v"]) + 1000) % 2**64)
    return None


def g_uout(o):
    v = render_value(o)
    if v is not None:
        return "(URet %s)" % gstr(v)
    k = o["k"]
    if k == "static":
        return "(UPanic (PayStatic %s))" % gstr(STATIC_TEXTS[int(o["m"]) % len(STATIC_TEXTS)])
    if k in ("fmt", "owned"):
        return "(UPanic (PayString %s))" % gstr(fmt_text(int(o["m"])))
    if k == "expect":
        return "(UPanic (PayString %s))" % gstr("need %d" % int(o["m"]))
    if k == "unwrap":
        return "(UPanic (PayStatic %s))" % gstr(UNWRAP_TEXT)
    return "(UPanic PayOther)"


def is_value(o):
    return render_value(o) is not None


def g_fres(r):
    if isinstance(r, dict):
        if "val" in r:
            return "(FVal %s)" % gstr(r["val"])
        if "err" in r:
            return "FFailed" if r["err"] in FAILED else "(FErr %s)" % gstr(r["err"])
        if "panicked" in r:
            return "FPanic"
    if r == "none":
        return "FNone"
    if r == "diverged":
        return "FDiverged"
    return "FAbort"      # the process died (or the harness could not make the call)


def is_outcome(r):
    return isinstance(r, dict) and ("val" in r or ("err" in r and r["err"] not in FAILED))


def _tail_tag(obs):
    for x in reversed(obs):
        if isinstance(x, str):
            return x
    return "aborted:0"


# ----------------------------------------------------------------------------------- term printing

def g_task(spec, o, tag):
    """one handle: the calls made on it and what they returned"""
    js = []
    ojs = o.get("joins", []) if isinstance(o, dict) else []
    for k, j in enumerate(spec.get("joins", [])):
        call = "FCJoin" if j["api"] == "join" else "(FCTimeout %s)" % gz(DUR[j["dur"]])
        if k < len(ojs):
            jo = ojs[k]
            if jo.get("r") == "skipped":
                continue
            t_call, t_ret = int(jo["t_call"]), int(jo["t_ret"])
            fb, fa = int(jo["fin_before"]), int(jo["fin_after"])
            dl = U64MAX if j["api"] == "join" else min(t_call + DUR[j["dur"]], U64MAX)
            amb = False
            ff = int(o.get("fin", "0"))        # read after the last call, having waited for the body
            if fb:
                fin = fb
            elif fa and fa <= t_ret:
                fin = fa                       # finished while the call was in progress
                amb = abs(fa - dl) < MARGIN or fa > dl
            elif ff:
                fin = ff                       # finished after the call returned: the model decides
                amb = abs(ff - dl) < MARGIN    # whether that was within the call's deadline
            else:
                fin = None
            r = jo["r"]
            lag = 0
            if is_outcome(r) and jo.get("first") in (None,) and fin is not None:
                lag = max(0, (t_ret - max(t_call, fin)) // 10**6)
            js.append("{| fj_call := {| fc_call := %s; fc_now := %s; fc_fin := %s |}; fj_ambiguous := %s; fj_lag_ms := %s; fj_impl := %s |}"
                      % (call, gz(t_call), "None" if fin is None else "(Some %s)" % gz(fin), gbool(amb), gz(lag), g_fres(r)))
        else:
            # the process did not get this far: the call in progress carries the tag
            js.append("{| fj_call := {| fc_call := %s; fc_now := 0; fc_fin := None |}; fj_ambiguous := false; fj_lag_ms := 0; fj_impl := %s |}"
                      % (call, g_fres(tag) if k == len(ojs) else "FAbort"))
    return "{| ft_out := %s; ft_joins := %s |}" % (g_uout(spec["out"]), glist(js))


def sleeps_overlap(d):
    """N waits on ONE event loop overlap iff first start .. last end is clearly shorter than the sum
    of the times the tasks spent in their waits (serialised waits: equal or longer)"""
    sl = d.get("sleepers", [])
    if len(sl) < 2 or any(int(o["started"]) == 0 or int(o["fin"]) == 0 for o in sl):
        return len(sl) < 2
    span = max(int(o["fin"]) for o in sl) - min(int(o["started"]) for o in sl)
    return span < 0.8 * sum(int(o["slept_ns"]) for o in sl)


def g_checks(chk):
    return glist(["(%s, %s)" % (gstr(n), gbool(b)) for n, b in chk])


def term(case, obs):
    kind = case["kind"]
    tag = _tail_tag(obs) if any(isinstance(x, str) for x in obs) else None
    dicts = [x for x in obs if isinstance(x, dict)]
    if kind == "joins":
        ts = []
        for i, t in enumerate(case["tasks"]):
            ts.append(g_task(t, dicts[i] if i < len(dicts) else {}, tag or "aborted:0"))
        chk = [("completed", tag is None)]
        return "(of_facade (FJoins %s %s))" % (glist(ts), g_checks(chk))
    if kind == "cancel":
        chk = [("completed", tag is None)]
        specs = [t for t in case["tasks"] if not t.get("cancel")]
        by = []
        blocker = {}
        cancels = []
        for d in dicts:
            if "bystanders" in d:
                by = d["bystanders"]
            elif "blocker" in d:
                blocker = d
            elif "cancel" in d:
                cancels.append(d)
        chk.append(("blocker_started", bool(blocker.get("blocker_started"))))
        chk.append(("blocker_own_value", blocker.get("blocker") == {"val": render_value(case["blocker"]["out"])}))
        chk.append(("cancel_returned_ok", len(cancels) == sum(1 for t in case["tasks"] if t.get("cancel"))
                    and all(c["cancel"] == "ok" for c in cancels)))
        chk.append(("not_started_when_cancelled", all(not c["started_before_cancel"] for c in cancels)))
        chk.append(("cancelled_task_did_not_run", all(not c["ran"] for c in cancels)))
        ts = [g_task(t, by[i] if i < len(by) else {}, tag or "aborted:0") for i, t in enumerate(specs)]
        return "(of_facade (FJoins %s %s))" % (glist(ts), g_checks(chk))
    if kind == "sleepers":
        chk = [("completed", tag is None)]
        d = dicts[-1] if dicts and "sleepers" in dicts[-1] else {"sleepers": [], "t_begin": "0", "t_end": "0"}
        ts = []
        want = [int(s["ms"]) for s in case["sleepers"]]
        slept_ok, total = True, 0
        for i, s in enumerate(case["sleepers"]):
            o = d["sleepers"][i] if i < len(d["sleepers"]) else None
            spec = {"out": {"k": "u64", "v": i}, "joins": [{"api": "join"}]}
            if o is None:
                ts.append(g_task(spec, {}, tag or "aborted:0"))
                slept_ok = False
                continue
            fin = int(o["fin"])
            ts.append("{| ft_out := %s; ft_joins := [{| fj_call := {| fc_call := FCJoin; fc_now := %s; fc_fin := %s |}; fj_ambiguous := false; fj_lag_ms := 0; fj_impl := %s |}] |}"
                      % (g_uout(spec["out"]), gz(0), "(Some 0)" if fin else "None", g_fres(o["r"])))
            if int(o["slept_ns"]) < want[i] * 10**6:
                slept_ok = False
        chk.append(("slept_at_least_requested", slept_ok))
        if not case.get("std_probe"):
            chk.append(("sleeps_overlap", sleeps_overlap(d)))
        return "(of_facade (FJoins %s %s))" % (glist(ts), g_checks(chk))
    if kind == "any":
        pre = next((d["pre"] for d in dicts if "pre" in d), None)
        fin_d = next((d for d in dicts if "r" in d), None)
        n = len(case["tasks"])
        if fin_d is not None:
            t_call, t_ret = int(fin_d["t_call"]), int(fin_d["t_ret"])
            fb = [int(x) for x in fin_d["fin_before"]]
            fa = [int(x) for x in fin_d["fin_after"]]
            r = fin_d["r"]
        elif pre is not None:
            t_call, t_ret = int(pre["t_call"]), U64MAX
            fb = [int(x) for x in pre["fin_before"]]
            fa = list(fb)
            r = tag
        else:
            t_call, t_ret, fb, fa, r = 0, 0, [0] * n, [0] * n, tag or "aborted:0"
        dur = DUR["max"] if case["api"] == "any_join" else DUR[case["dur"]]
        dl = U64MAX if dur > U64MAX else min(t_call + dur, U64MAX)
        hs, flags, seen = [], [], []
        amb = False
        for i, t in enumerate(case["tasks"]):
            if fb[i]:
                fin = fb[i]
            elif fa[i] and fa[i] <= t_ret:
                fin = fa[i]
                if abs(fin - dl) < MARGIN or fin > dl:
                    amb = True
            else:
                fin = None
            hs.append("{| ah_out := %s; ah_fin := %s |}" % (g_uout(t["out"]), "None" if fin is None else "(Some %s)" % gz(fin)))
            flags.append("{| af_out := %s; af_before := %s; af_after := %s |}" % (g_uout(t["out"]), gbool(bool(fb[i])), gbool(bool(fa[i]))))
            if fin is not None and is_value(t["out"]):
                seen.append(max(fin, t_call))
        seen.sort()
        if len(seen) >= 2 and seen[0] != seen[-1] and seen[1] - seen[0] < MARGIN:
            amb = True
        if isinstance(r, dict) and "val" in r:
            impl = "(AVal %s)" % gstr(r["val"])
        elif r == "none":
            impl = "ANone"
        elif isinstance(r, dict) and r.get("err") in FAILED:
            impl = "AFailed"
        else:
            impl = "ADiverged"
        return ("(of_facade (FAny {| ac_now := %s; ac_dur := %s; ac_hs := %s; ac_flags := %s; ac_ambiguous := %s; ac_impl := %s |}))"
                % (gz(t_call), gz(dur), glist(hs), glist(flags), gbool(amb), impl))
    raise ValueError("unknown facade case kind " + str(kind))


# -------------------------------------------------------------------------------------- generators

VALUE_OUTS = [
    {"k": "unit"}, {"k": "i32", "v": 0}, {"k": "i32", "v": -7}, {"k": "i64", "v": str(-2**63)}, {"k": "u64", "v": str(U64MAX)},
    {"k": "u64", "v": "0"}, {"k": "usize0"}, {"k": "bool", "v": False}, {"k": "opt", "v": None}, {"k": "opt", "v": 5},
    {"k": "string", "v": ""}, {"k": "string", "v": "hello world"}, {"k": "result", "ok": 3, "err": None},
    {"k": "result", "ok": None, "err": "bad input"}, {"k": "array", "v": "41"}, {"k": "vec", "v": 0}, {"k": "vec", "v": 300},
    {"k": "grow", "v": "5"},
]
PANIC_OUTS = [
    {"k": "static", "m": 0}, {"k": "static", "m": 1}, {"k": "static", "m": 2}, {"k": "static", "m": 3},
    {"k": "fmt", "m": 5}, {"k": "owned", "m": 11}, {"k": "expect", "m": 3}, {"k": "unwrap", "m": 0}, {"k": "other", "m": 0},
]


def _out(rng):
    return dict(rng.choice(VALUE_OUTS)) if rng.random() < 0.55 else dict(rng.choice(PANIC_OUTS))


def _joins_for(rng, late):
    joins = []
    if late:
        for _ in range(rng.randint(0, 2)):          # while it waits: these may only fail
            joins.append({"api": "tj", "dur": rng.choice(["zero", "ns1", "short"])})
        last = rng.choice(["long", "max", "u64max", "join"])
    else:
        last = rng.choice(["zero", "zero", "ns1", "short", "long", "max", "u64max", "join"])
    joins.append({"api": "join"} if last == "join" else {"api": "tj", "dur": last})
    if last != "join" and rng.random() < 0.5:       # handed out already: only a failure is left
        joins.append({"api": "tj", "dur": rng.choice(["zero", "short"])})
    return joins


def joins_case(rng):
    tasks = []
    spawn_all = rng.random() < 0.4
    for _ in range(rng.randint(3, 5)):
        late = rng.random() < 0.35
        t = {"out": _out(rng), "joins": _joins_for(rng, late)}
        if late and spawn_all:
            # submitted long before it is asked: it may have finished by then, and an unlimited wait
            # after the outcome has been handed out would (rightly) never return
            t["joins"] = t["joins"][-1:]
        if late:
            t["pre"] = {"how": rng.choice(["usleep", "nanosleep", "stdsleep"]), "ms": 400}
        else:
            t["wait_fin"] = rng.random() < 0.8
        if rng.random() < 0.2:
            t["prio"] = rng.choice([-5, 0, 3])
        tasks.append(t)
    return {"kind": "joins", "tasks": tasks, "spawn_all": spawn_all}


def matrix_cases():
    """every outcome kind x (asked with no time after it finished / joined while it runs)"""
    a = {"kind": "joins", "spawn_all": False,
         "tasks": [{"out": dict(o), "wait_fin": True, "joins": [{"api": "tj", "dur": "zero"}, {"api": "tj", "dur": "zero"}]}
                   for o in VALUE_OUTS]}
    b = {"kind": "joins", "spawn_all": False,
         "tasks": [{"out": dict(o), "wait_fin": True, "joins": [{"api": "tj", "dur": d}]}
                   for o, d in zip(PANIC_OUTS, ["zero", "ns1", "max", "zero", "zero", "u64max", "zero", "short", "zero"])]}
    c = {"kind": "joins", "spawn_all": True,
         "tasks": [{"out": dict(o), "pre": {"how": "usleep", "ms": 300}, "joins": [{"api": "join"}]}
                   for o in VALUE_OUTS[:6] + PANIC_OUTS[3:7]]}
    # no time at all: the finished member is still reported, the unfinished one is not
    d = {"kind": "any", "api": "any_timeout_join", "dur": "zero",
         "tasks": [{"out": {"k": "i64", "v": "5"}, "pre": {"how": "usleep", "ms": 5000}},
                   {"out": {"k": "i64", "v": "-7"}, "wait_fin": True}, {"out": {"k": "i64", "v": "8"}, "wait_fin": True}]}
    # a wait that is longer than what the task still needs returns the outcome, promptly
    e = {"kind": "joins", "spawn_all": False,
         "tasks": [{"out": {"k": "string", "v": "late value"}, "pre": {"how": "usleep", "ms": 300},
                    "joins": [{"api": "tj", "dur": "short"}, {"api": "tj", "dur": "long"}, {"api": "tj", "dur": "short"}]},
                   {"out": {"k": "fmt", "m": 9}, "pre": {"how": "nanosleep", "ms": 300}, "joins": [{"api": "tj", "dur": "long"}]},
                   {"out": {"k": "opt", "v": 7}, "pre": {"how": "usleep", "ms": 300}, "joins": [{"api": "tj", "dur": "zero"}, {"api": "tj", "dur": "mid"}]}]}
    return [a, b, c, d, e]


def any_case(rng, drop=False):
    """drop: the defect branch (a task that panicked is the first, or the only, to finish)"""
    tasks = []
    if drop:
        tasks.append({"out": dict(rng.choice(PANIC_OUTS)), "wait_fin": True})
        if rng.random() < 0.5:
            tasks.append({"out": {"k": "i64", "v": str(rng.randrange(-50, 50))}, "pre": {"how": "usleep", "ms": 5000}})
        return {"kind": "any", "api": "any_timeout_join", "dur": rng.choice(["zero", "short", "mid"]), "tasks": tasks}
    n = rng.randint(1, 4)
    shape = rng.choice(["all_done", "one_late", "staggered", "none_in_time"])
    for i in range(n):
        o = {"k": "i64", "v": str(rng.randrange(-50, 50) + 100 * i)}
        if shape == "all_done":
            tasks.append({"out": o, "wait_fin": True})
        elif shape == "one_late":
            tasks.append({"out": o, "pre": {"how": "usleep", "ms": 400 if i == 0 else 5000}})
        elif shape == "staggered":
            tasks.append({"out": o, "pre": {"how": "nanosleep", "ms": 400 + 600 * ((i + 1) % n)}})
        else:
            tasks.append({"out": o, "pre": {"how": "usleep", "ms": 5000}})
    # a mix: some members panic (their outcome is skipped by the loop; at least one member yields a value)
    for i in range(1, n):
        if rng.random() < 0.3:
            tasks[i]["out"] = dict(rng.choice(PANIC_OUTS))
    if shape == "none_in_time":
        return {"kind": "any", "api": "any_timeout_join", "dur": rng.choice(["zero", "short", "mid"]), "tasks": tasks}
    if shape == "all_done":
        return {"kind": "any", "api": "any_timeout_join", "dur": rng.choice(["zero", "ns1", "short", "long"]), "tasks": tasks}
    if rng.random() < 0.5:
        return {"kind": "any", "api": "any_join", "tasks": tasks}
    return {"kind": "any", "api": "any_timeout_join", "dur": "long", "tasks": tasks}


def cancel_case(rng):
    tasks = []
    for i in range(rng.randint(2, 4)):
        t = {"out": dict(rng.choice(VALUE_OUTS))}
        if i == 0 or rng.random() < 0.3:
            t["cancel"] = True
        else:
            t["joins"] = _joins_for(rng, False)
        tasks.append(t)
    if all(t.get("cancel") for t in tasks):
        tasks.append({"out": {"k": "i32", "v": 9}, "joins": [{"api": "join"}]})
    return {"kind": "cancel", "blocker": {"out": {"k": "string", "v": "blocker"}, "pre": {"how": "spin", "ms": 3000}}, "tasks": tasks}


def sleepers_case(rng, with_sleep):
    # only symbols the cdylib interposes (std::thread::sleep is clock_nanosleep on current toolchains,
    # which is NOT interposed: see the std_probe in vlib/props/c02.py)
    hows = ["usleep", "nanosleep"]
    s = [{"how": rng.choice(hows), "ms": rng.choice([200, 300, 400])} for _ in range(rng.randint(3, 6))]
    if with_sleep:
        s.append({"how": "sleep", "ms": 1000})
    return {"kind": "sleepers", "sleepers": s}


def gen(rng, tier):
    if tier == "quick":
        n_j, n_a, n_d, n_c, n_s = 5, 4, 1, 1, 2
    elif tier == "thorough":
        n_j, n_a, n_d, n_c, n_s = 40, 24, 4, 6, 6
    else:
        n_j, n_a, n_d, n_c, n_s = 10, 6, 1, 2, 2
    cases = matrix_cases()
    cases += [joins_case(rng) for _ in range(n_j)]
    cases += [any_case(rng) for _ in range(n_a)]
    cases += [any_case(rng, drop=True) for _ in range(n_d)]
    cases += [cancel_case(rng) for _ in range(n_c)]
    cases += [sleepers_case(rng, i == 0) for i in range(n_s)]
    if tier == "thorough":
        # the unlimited variant of the known finding: never returns (watchdog)
        cases.append({"kind": "any", "api": "any_join", "tasks": [{"out": {"k": "fmt", "m": 7}, "wait_fin": True}], "watchdog_s": 6})
    for c in cases:
        c.update({"area": e2e.AREA, "isolate": True, "timeout_ms": 40000, "ops": [], "origin": "extra"})
    return cases


# ---------------------------------------------------------------------------------- run and judge

def run_and_judge(cases, prop_id, cases_module, header=""):
    """build (from $VERIF_REPO, every time), run one process per case, judge inside Coq.
    Returns (list of (case, obs, verdict), build seconds)."""
    binp, bsec = e2e.build()
    for i, c in enumerate(cases):
        c["id"] = i
    quick = [c for c in cases if not c.get("watchdog_s")]
    slow = [c for c in cases if c.get("watchdog_s")]
    obs = e2e.run_cases(binp, quick, timeout_s=40, jobs=8)
    for c in slow:
        obs.update(e2e.run_cases(binp, [c], timeout_s=int(c["watchdog_s"]), jobs=1, confirm=False))
    terms = [term(c, obs[c["id"]]) for c in cases]
    verdicts = core.coq_eval(prop_id + "F", cases_module, terms, header=header, shard_size=12)
    return [(c, obs[c["id"]], v) for c, v in zip(cases, verdicts)], bsec
