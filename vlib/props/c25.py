"""C25 — Coroutine-local storage is private, map-like, and released with the coroutine."""
from ..core import gz, glist

ID = "C25"
PROPS = ["theories/Props/C25.vo"]
PINNED = ["C25_map_refinement", "C25_reads_latest", "C25_private", "C25_holds",
          "C25_refuted_before_repair", "C25_old_map_refinement", "C25_live_cells_exact",
          "C25_old_live_cells_exact"]
CASES_MODULE = "Cases.C25"
HEADER = "From OCV Require Import Misc.Local Misc.LocalOracle."
AREA = "local"
ISOLATE = False
TIMEOUT_MS = 5000
LEVEL = "proof"
SHRINK_KEY = "ops"
SHARD_SIZE = 40
RULE = ("histories of put/get/get_mut/remove/drop over 1-3 real coroutines and 2-4 keys (the same keys used by "
        "several coroutines), values from the i64 extremes and random, each call made either through the handle "
        "or by the coroutine's own body through Coroutine::current(); half of the histories empty every "
        "coroutine before dropping it, the other half drop coroutines that still store values (their destructors "
        "must run at the drop, exactly once; finding #27, repaired); "
        "non-trivial = some call replaced/read/rewrote/removed an existing value, or a key was live in two "
        "coroutines at once, or a coroutine was dropped with values; distinct = distinct (coroutines, op list)")
TRUSTED = ["values are a drop-logging struct (identity, i64 payload); a value handed back by put/remove is marked "
           "before the harness drops it, so the `dropped` lists show only destructor runs made by the library; "
           "the destructor runs of one call are reported sorted by identity (DashMap's iteration order is unspecified)",
           "keys are freshly allocated strings with equal content per call (k0..k3)"]
ASSUMPTIONS = ["one value type per history (put::<V>/get::<W> with V != W is undefined behaviour by construction "
               "of the API and outside the statement)",
               "calls on a dropped coroutine cannot be written in safe Rust and are outside the statement (wf)"]

I64 = [-(2**63), -1, 0, 1, 2**63 - 1]


def _val(rng):
    return rng.choice(I64) if rng.random() < 0.3 else rng.randint(-1000, 1000)


def history(rng, n, nkeys, length, full):
    ops = []
    nid = [0]
    alive = list(range(n))
    stored = {c: set() for c in range(n)}

    def via():
        return "inside" if rng.random() < 0.4 else "handle"

    def put(c, k):
        nid[0] += 1
        ops.append({"op": "put", "c": c, "k": k, "id": nid[0], "v": str(_val(rng)), "via": via()})
        stored[c].add(k)

    def remove(c, k):
        ops.append({"op": "remove", "c": c, "k": k, "via": via()})
        stored[c].discard(k)

    def drop(c):
        if not full:        # empty the coroutine first; otherwise its drop must release what it stores
            for k in sorted(stored[c]):
                remove(c, k)
        ops.append({"op": "drop", "c": c})
        alive.remove(c)

    for _ in range(length):
        if not alive:
            break
        c = rng.choice(alive)
        k = rng.randrange(nkeys)
        r = rng.random()
        if r < 0.35:
            put(c, k)
        elif r < 0.55:
            ops.append({"op": "get", "c": c, "k": k, "via": via()})
        elif r < 0.72:
            ops.append({"op": "get_mut", "c": c, "k": k, "v": str(_val(rng)), "via": via()})
        elif r < 0.92:
            remove(c, k)
        else:
            drop(c)
    if rng.random() < 0.8:
        for c in list(alive):
            drop(c)
    return {"cfg": {"cos": n}, "ops": ops, "kind": "dropped_full" if full else "emptied_first"}


def gen(rng, tier):
    n = {"quick": 120, "thorough": 3000, "search": 1200}[tier]
    cases = []
    for i in range(n):
        cos = rng.choice([1, 2, 2, 3])
        cases.append(history(rng, cos, rng.choice([2, 3, 3, 4]), rng.randint(2, 40), full=(i % 2 == 1)))
    return cases


def mutate(rng, case):
    out = []
    for _ in range(5):
        c = {"cfg": dict(case["cfg"]), "ops": [dict(o) for o in case["ops"]]}
        if c["ops"]:
            del c["ops"][rng.randrange(len(c["ops"]))]
        out.append(c)
    return out


def _op(o):
    k = o["op"]
    if k == "put":
        return "Put %s %s %s %s" % (gz(o["c"]), gz(o["k"]), gz(o["id"]), gz(o["v"]))
    if k == "get":
        return "Get %s %s" % (gz(o["c"]), gz(o["k"]))
    if k == "get_mut":
        return "GetMut %s %s %s" % (gz(o["c"]), gz(o["k"]), gz(o["v"]))
    if k == "remove":
        return "Remove %s %s" % (gz(o["c"]), gz(o["k"]))
    return "DropCo %s" % gz(o["c"])


def _obs(v):
    if isinstance(v, dict) and "drop" in v:
        return "ODrop " + glist([gz(x) for x in v["drop"]])
    if isinstance(v, dict) and "res" in v:
        r = v["res"]
        rr = "None" if r is None else "(Some (%s, %s))" % (gz(r[0]), gz(r[1]))
        return "ORes %s %s" % (rr, glist([gz(x) for x in v["dropped"]]))
    return "OBad"   # "bad", "harness-lost", "diverged", "aborted:*": never equal to a model result of a wf history


def term(case, obs):
    return "{| l_cos := %d%%nat; l_ops := %s; l_impl := %s |}" % (
        int(case["cfg"]["cos"]), glist([_op(o) for o in case["ops"]]), glist([_obs(v) for v in obs]))


def nontrivial(case, obs, verdict):
    live = {}
    for o, v in zip(case["ops"], obs):
        if isinstance(v, dict) and v.get("res") is not None:
            return True
        if o["op"] == "put":
            live.setdefault(o["k"], set()).add(o["c"])
            if len(live[o["k"]]) > 1:
                return True
    return any(isinstance(v, dict) and v.get("drop") for v in obs)


def distribution(results):
    d = {"put": 0, "get": 0, "get_mut": 0, "remove": 0, "drop": 0, "via_inside": 0, "hits": 0, "misses": 0,
         "emptied_first": 0, "dropped_full": 0, "drops_with_values": 0, "coroutines": {}, "len_max": 0}
    for c, o, v in results:
        d[c.get("kind", "emptied_first")] = d.get(c.get("kind", "emptied_first"), 0) + 1
        n = str(c["cfg"]["cos"])
        d["coroutines"][n] = d["coroutines"].get(n, 0) + 1
        d["len_max"] = max(d["len_max"], len(c["ops"]))
        for op, ob in zip(c["ops"], o):
            d[op["op"]] += 1
            if isinstance(ob, dict) and ob.get("drop"):
                d["drops_with_values"] += 1
            if op.get("via") == "inside":
                d["via_inside"] += 1
            if isinstance(ob, dict) and "res" in ob:
                d["hits" if ob["res"] is not None else "misses"] += 1
    return d


LEVEL_TEXT = ("Unbounded theorems (all histories of put/get/get_mut/remove/drop over any number of coroutines and "
              "keys) about a Gallina model of CoroutineLocal as it is: every result agrees with a functional map per "
              "coroutine (store returns the previous value, read returns the latest, remove returns and deletes), a "
              "dropped coroutine destroys exactly the values it still stored (C25_holds, no side condition), a "
              "read returns the latest write found by scanning the history backwards, the calls of other coroutines "
              "never change what one coroutine observes (projection theorem); at the ghost level the boxes still "
              "allocated after any history are exactly those of the values still stored (store, overwrite, remove "
              "and drop never leak). The code before the repair of finding #27 is kept as a model parameter: release "
              "on drop is refuted for it (witness theorem), its map clauses hold, its leaked boxes are exactly those "
              "stored at a drop. The model is tied to /repo by running the same "
              "histories on real coroutines with drop-logging values and comparing inside Coq.")
LEVEL_NOTE = ("Trusted: Coq kernel + vm_compute; hand-written model validated on sampled histories only; DashMap "
              "modelled as a map per operation, the order of the destructor runs of one drop is not observed (sorted "
              "on both sides); the drop-logging value type of the harness. Finding #27 (values_leaked_on_drop) is "
              "repaired: every entry keeps a release function monomorphised for its value's type, Drop for "
              "CoroutineLocal calls them, and put requires V: 'c (the map is invariant in 'c and the drop checker "
              "makes 'c outlive the coroutine strictly, so a destructor run at drop cannot see a dead borrow). "
              "No axioms.")
