"""C28 — Time and slicing helpers never overflow or loop."""
from ..core import gz, glist

ID = "C28"
PROPS = ["theories/Props/C28.vo"]
PINNED = ["C28_holds", "C28_oracle_sound", "C28_deadline_saturates", "C28_slices", "C28_zero_is_unlimited"]
CASES_MODULE = "Cases.C28"
HEADER = "From OCV Require Import Misc.TimeOracle."
AREA = "time"
LEVEL = "proof"
SHRINK_KEY = "ops"
RULE = ("ops drawn from a boundary grid (0, 1, slice-1, slice, slice+1, k*slice, u64::MAX, Duration::MAX, "
        "negative timeval fields) crossed with random values; a case is non-trivial when at least one op "
        "saturates, yields >= 2 slices, or hits the zero/negative timeval branch; distinct = distinct op list")
TRUSTED = ["get_time_limit is reached through the verif-feature wrapper verif_get_time_limit",
           "common::now() returns the virtual clock set by the harness (hook H1)"]
ASSUMPTIONS = ["Duration is modelled as its nanosecond count (as_nanos), u64 saturation as Z.min",
               "zero slice with a positive total is outside the statement (the real loop does not end)"]

U64 = 2**64 - 1
DURMAX = U64 * 10**9 + 999999999


def gen(rng, tier):
    n = {"quick": 60, "thorough": 600, "search": 400}[tier]
    cases = []
    nows = [0, 1, 10**18, U64 - 1, U64, U64 - 10**9, 2**63]
    durs = [0, 1, 999, 10**6, 10**9, U64 - 1, U64, U64 + 1, 2**63, DURMAX, DURMAX - 1]
    slices = [1, 2, 3, 7, 10**6, 10**7, 10**9]
    secs = [0, 1, 7, 2**31 - 1, 18446744073, 18446744074, 2**62, 2**63 - 1, -1]
    usecs = [0, 1, 999999, 10**6, 2**63 - 1, 18446744073709552, -1]
    for _ in range(n):
        ops = []
        for _ in range(rng.randint(1, 8)):
            k = rng.random()
            if k < 0.3:
                now = rng.choice(nows) if rng.random() < 0.7 else rng.randrange(0, U64 + 1)
                dur = rng.choice(durs) if rng.random() < 0.7 else rng.randrange(0, DURMAX + 1)
                ops.append({"op": "timeout_time", "now": str(now), "dur": str(dur)})
            elif k < 0.7:
                sl = rng.choice(slices) if rng.random() < 0.6 else rng.randrange(1, 10**10)
                q = rng.choice([0, 0, 1, 2, 3, 5, 17, 64, 200])
                r = rng.choice([0, 0, 1, sl - 1, sl // 2, rng.randrange(0, sl)])
                total = q * sl + r
                if rng.random() < 0.1:
                    total = 0
                if rng.random() < 0.05:
                    sl, total = 0, 0  # zero slice is only safe to run with zero total
                if rng.random() < 0.1:
                    sl = rng.choice([DURMAX, U64, DURMAX // 3])
                    total = rng.choice([DURMAX, sl, sl - 1, 5, min(DURMAX, 2 * sl + 1)])
                if sl != 0 and total // sl > 300:  # the real loop is linear in total/slice
                    total = sl * 300 + (total % sl)
                ops.append({"op": "slices", "total": str(total), "slice": str(sl)})
            else:
                sec = rng.choice(secs) if rng.random() < 0.7 else rng.randrange(0, 2**40)
                usec = rng.choice(usecs) if rng.random() < 0.7 else rng.randrange(0, 10**6)
                ops.append({"op": "time_limit", "sec": str(sec), "usec": str(usec)})
        cases.append({"ops": ops})
    return cases


def _op(o):
    if o["op"] == "timeout_time":
        return "TimeoutTime %s %s" % (gz(o["now"]), gz(o["dur"]))
    if o["op"] == "slices":
        return "Slices %s %s" % (gz(o["total"]), gz(o["slice"]))
    return "TimeLimit %s %s" % (gz(o["sec"]), gz(o["usec"]))


def _obs(v):
    if isinstance(v, list):
        return "OList " + glist([gz(x) for x in v])
    if v == "panic":
        return "OPanic"
    if isinstance(v, str) and v.lstrip("-").isdigit():
        return "OVal " + gz(v)
    return "ODiverged"


def term(case, obs):
    return "(%s, %s)" % (glist([_op(o) for o in case["ops"]]), glist([_obs(v) for v in obs]))


def nontrivial(case, obs, verdict):
    for o, v in zip(case["ops"], obs):
        if o["op"] == "timeout_time" and int(o["now"]) + int(o["dur"]) > U64:
            return True
        if o["op"] == "slices" and isinstance(v, list) and len(v) >= 2:
            return True
        if o["op"] == "time_limit" and (int(o["sec"]) <= 0 or int(o["usec"]) <= 0):
            return True
    return False


def distribution(results):
    d = {"timeout_time": 0, "slices": 0, "time_limit": 0, "saturating_deadlines": 0, "multi_piece": 0,
         "panics": 0}
    for c, o, v in results:
        for op, ob in zip(c["ops"], o):
            d[op["op"]] += 1
            if op["op"] == "timeout_time" and int(op["now"]) + int(op["dur"]) > U64:
                d["saturating_deadlines"] += 1
            if isinstance(ob, list) and len(ob) > 1:
                d["multi_piece"] += 1
            if ob == "panic":
                d["panics"] += 1
    return d

LEVEL_TEXT = ("Unbounded theorems (all u64 clocks, all Duration values up to Duration::MAX, all timevals) about the "
              "Gallina transcription of get_timeout_time / get_slices / get_time_limit: saturation instead of wrap, "
              "slices each within (0, slice] summing exactly to the total with termination inside explicit fuel, "
              "zero timeval = unlimited. The transcription is tied to /repo by running the real functions on a "
              "boundary grid and random values and comparing inside Coq. These are pure helpers, so proof is the "
              "right level and the tie is close to exhaustive on their branch structure.")
LEVEL_NOTE = ("Trusted: Coq kernel + vm_compute; hand transcription of three small functions validated only on the "
              "sampled inputs; Duration modelled by its nanosecond count; verif-feature wrappers for now() and "
              "get_time_limit. No axioms (Print Assumptions: closed under the global context).")
