"""C12 — Pool lifecycle: stop rejects new work and settles every waiter."""
from .. import poolcases

ID = "C12"
PROPS = ["theories/Props/C12.vo"]
CASES_MODULE = "Cases.C12"
AREA = "pool"
ISOLATE = True
TIMEOUT_MS = 3000
LEVEL = "proof"
SHRINK_KEY = "ops"
SHARD_SIZE = 25
term = poolcases.term
nontrivial = poolcases.nontrivial
distribution = poolcases.distribution


def gen(rng, tier):
    n = {"quick": 120, "thorough": 1500, "search": 600}[tier]
    return [poolcases.gen_keepalive_stop(rng) if i % 6 == 4 else poolcases.gen_keepalive_run(rng) if i % 6 == 5
            else poolcases.gen_case(rng, npools=1 if i % 3 else 2) for i in range(n)]


def extra(tier, rng, build_cache, known):
    """A waiter that really is blocked (another thread) on a result that is not coming, while the pool
    is stopped in two attempts (the first stop runs out of time with a task parked, the second
    succeeds): the waiter must be given an error when the pool has stopped, not left to its timeout.
    Real threads and real time, one case per child process."""
    from .. import core
    key = ((), False)
    if key not in build_cache:
        build_cache[key], _ = core.build_harness((), False)
    n = 2 if tier == "quick" else 6
    cases = [{"id": i, "clock": "0", "pools": [], "origin": "extra", "kind": "forced_stop",
              "ops": [{"op": "forced_stop"}]} for i in range(n)]
    res = core.run_harness(build_cache[key], AREA, cases, isolate=True, timeout_ms=40000, jobs=2)
    viol, conclusive, settled = [], 0, 0
    for c in cases:
        r = res[c["id"]]
        fs = r[0].get("forced_stop") if r and isinstance(r[0], dict) else None
        if not fs or not fs.get("taken") or not fs.get("registered") or fs.get("first") != "timeout":
            continue                      # the schedule was not reached (loaded machine): no verdict
        conclusive += 1
        if fs.get("second") != "ok" or fs.get("state") != "stopped":
            viol.append({"case": c, "obs": r, "note": "the second stop, with the parked task long finished, did not succeed"})
        elif fs.get("wait") != {"val": {"err": "stopped"}} or fs.get("late_ms", 10**9) > 1000:
            viol.append({"case": c, "obs": r, "tags": ["waiter_unsettled_after_retried_stop"],
                         "note": "the pool stopped and the blocked waiter was not told: wait=%s, %s ms after the stop"
                                 % (fs.get("wait"), fs.get("late_ms"))})
        else:
            settled += 1
    if not conclusive:
        viol.append({"case": cases[0], "obs": res[cases[0]["id"]], "note": "forced stop schedule never reached"})
    # through the event loop: tasks accepted, EventLoops::stop called at once: success only after every
    # accepted task has run; nothing is accepted afterwards
    lc = [{"id": 200 + i, "clock": "0", "pools": [], "origin": "extra", "kind": "loop_stop",
           "ops": [{"op": "loop_stop", "tasks": rng.choice([1, 3, 8, 40])}]} for i in range(4 if tier == "quick" else 16)]
    lres = core.run_harness(build_cache[key], AREA, lc, isolate=True, timeout_ms=40000, jobs=2)
    lok = 0
    for c in lc:
        r = lres[c["id"]]
        v = r[0].get("loop_stop") if r and isinstance(r[0], dict) else None
        if not v:
            viol.append({"case": c, "obs": r, "note": "event-loop stop scenario did not finish"})
        elif v["accepted_after_stop"] or (v["stop_ok"] and v["ran_at_stop_return"] != v["accepted"]):
            viol.append({"case": c, "obs": r, "tags": ["loop_stop_leaves_tasks"],
                         "note": "EventLoops::stop reported success with %d of %d accepted tasks run (accepted after stop: %s)"
                                 % (v["ran_at_stop_return"], v["accepted"], v["accepted_after_stop"])})
        else:
            lok += 1
    return {"info": {"forced_stop_runs": len(cases), "forced_stop_conclusive": conclusive,
                     "forced_stop_waiter_settled": settled, "loop_stop_runs": len(lc), "loop_stop_ok": lok},
            "violations": viol}


PINNED = ['C12_single_pool', 'C12_shape', 'C12_state_monotone']
LEVEL_TEXT = "Same pool model and oracle; clauses: no submission is accepted once stop was called, stop reports success only when every task accepted by the pool has run or was cancelled, a pass is refused only once stopped, the observed state only moves Running -> Stopping -> Stopped consistently with the stops made. Theorem over ALL well-formed single-pool histories (no further premise): the oracle accepts the model's run; for any number of pools and any operation the state never moves backwards. Tied to /repo by histories on real pools compared in Coq (stops with zero and non-zero timeouts, retried stops, waits across stops) and by a real-thread scenario: a waiter blocked on a result that is not coming, the first stop timing out with a task parked, the second succeeding, the waiter told so promptly."
LEVEL_NOTE = "Trusted: Coq kernel + vm_compute; hand transcription of co_pool/mod.rs, task.rs and the parts of scheduler.rs it uses (Sched/Pool.v over Sched/Sched.v, Coroutine/Co.v, Queue/OWS.v), validated on the sampled histories only; one scheduling thread at a time (the pool's scheduling half is !Sync), virtual clock (hooks H1/H2), DashMap/DashSet as association lists, process-global task/coroutine queues and cancel sets modelled as shared state of all pools. The single-pool theorems assume wf_pool1: ONE pool with min_size 0, ANY keep_alive_time, max_size >= 1, a clock that does not reach u64::MAX while a keep-alive is pending (for C01/C11), operations naming submitted tasks, task bodies that keep the coroutine API contract (no self-cancel, syscall states well bracketed), clock steps not below the model clock; the evidence counts how many generated histories satisfy it (tag wf_pool1). Histories with two pools, or with a minimum size, are covered by the correspondence and the oracle only. No axioms (every theorem closed under the global context)."
TECHNIQUE = 'Coq proof (simulation invariant over all histories of a Gallina pool model; finite-state closure lifted to all schedules for the wait/notify and signal protocols) + differential correspondence inside Coq + forced real-thread schedules through cfg-guarded pause points'
