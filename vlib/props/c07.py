"""C07 — Coroutine lifecycle follows the documented state machine."""
from .. import cocases

ID = "C07"
PROPS = ["theories/Props/C07.vo"]
CASES_MODULE = "Cases.C07"
AREA = "co"
LEVEL = "proof"
SHRINK_KEY = "ops"
SHARD_SIZE = 40
RULE = ("1-3 coroutine bodies (0-30 instructions: suspend/delay/until/cancel/syscall-state/running/tick/return/"
        "panic, well-formed and deliberately malformed) driven by 3-40 driver ops (resume, external running()/"
        "syscall(), clock changes, state reads) with two recording listeners, one of which panics in every "
        "callback in half of the cases; non-trivial = the model run exercised at least two of: cancel, "
        "syscall-state yield, timed suspend, complete, error, refused call, owned panic message; distinct = "
        "distinct (bodies, ops)")
TRUSTED = ["corosensei context switching is modelled (a yield returns control to resume_with with the yielded value)",
           "virtual clock hook H1"]
ASSUMPTIONS = ["Param/Yield/Return are u64 in the harness and Z in the model",
               "bodies that return or panic outside state Running break the API contract and are excluded from "
               "the lifecycle clauses from that point on (the hooked facades always return in state Running)"]
term = cocases.term
nontrivial = cocases.nontrivial
distribution = cocases.distribution


def gen(rng, tier):
    n = {"quick": 200, "thorough": 3000, "search": 1200}[tier]
    cases = [cocases.gen_case(rng) for _ in range(n)]
    cases += [cocases.leak_case(rng) for _ in range(n // 20)]
    return cases

PINNED = ['C07_holds', 'C07_shape', 'C07_change_is_edge', 'C07_terminal_absorbing']
LEVEL_TEXT = 'Unbounded theorem (all bodies, all driver histories, any number of listeners): every listener sees a chain of documented edges starting at Ready, each change exactly once with its matching specific callback, terminal states absorb, refused calls change nothing; plus stand-alone theorems (every reported change is a graph edge; resume on a terminal state is the identity). Proved by a simulation invariant between the model thread and the per-listener specification tracker. Tied to /repo by random bodies and resume sequences on real Coroutine<u64,u64,u64> objects with two recording listeners (one panicking in every callback).'
LEVEL_NOTE = ("Trusted: Coq kernel + vm_compute; hand transcription of state.rs / korosensei.rs (raw_resume) / suspender.rs / "
              "mod.rs (resume_with) / listener.rs (broadcast) / catch! (model Co.v) validated on sampled histories only; "
              "corosensei's context switch is modelled as 'a yield returns control to resume_with with the yielded value'; "
              "single thread; premise for C07/C08: bodies do not contain the internal IUnreachable marker (never generated). "
              "No axioms (closed under the global context).")
TECHNIQUE = "Coq proof (simulation invariant between a Gallina model and a specification tracker) + differential correspondence inside Coq"
