"""C16 — Hooked socket I/O reports exactly the bytes it transferred."""
from .. import sockio

ID = "C16"
PROPS = ["theories/Props/C16.vo"]
PINNED = ["C16_holds", "C16_total", "C16_in_order_once", "C16_minus_one_iff_nothing", "C16_zero_len"]
CASES_MODULE = "Cases.C16"
AREA = "sockio"
ISOLATE = False          # a batch that dies (abort inside an extern "C" fn) is re-run one case per child
TIMEOUT_MS = 5000
LEVEL = "proof"
SHRINK_KEY = "script"
RULE = ("one hooked call per case: entry point drawn from read/recv/write/send/readv/writev/recvmsg/sendmsg, "
        "1 buffer of 0-8 bytes or 0-4 iovec segments of 0-5 bytes, kernel script of 0-7 responses guided by the "
        "loop structure (completes-the-segment, spill into later segments, partial, end of stream, clipped "
        "over-long transfer, would-block, EINTR, hard errors), clock advances that cross the SO_*TIMEO deadline, "
        "start times next to u64::MAX, injected wait failures, blocking and non-blocking descriptors; "
        "non-trivial = the MODEL run retried, waited, moved bytes in >= 2 calls, shifted a first iovec entry, hit the "
        "deadline, met a hard error or returned -1; distinct = distinct case")
TRUSTED = sockio.TRUSTED
ASSUMPTIONS = sockio.ASSUMPTIONS
term = sockio.term
nontrivial = sockio.nontrivial
distribution = sockio.distribution


def gen(rng, tier):
    n = {"quick": 480, "thorough": 6000, "search": 1500}[tier]
    calls = sockio.BUF + sockio.VEC + sockio.VEC
    return [sockio.gen_case(rng, calls) for _ in range(n)]


LEVEL_TEXT = ("Unbounded Coq theorems (every script of kernel responses with arbitrary clock advances, every "
              "buffer / iovec shape, every timeout, both blocking modes, every pattern of wait failures) about a "
              "statement-by-statement Gallina transcription of the six hooked socket loops as they are after the "
              "fix commits: the value returned is the number of bytes the kernel moved, the bytes are the next "
              "stream bytes at consecutive caller positions (read side) / the caller's bytes in order (write side), "
              "-1 is returned only when nothing moved and then errno is the failing call's, a zero-length request "
              "returns 0. The transcription is tied to the Rust code by running the real entry points against a "
              "scripted kernel on a socketpair and comparing every observation inside Coq.")
LEVEL_NOTE = ("Trusted: Coq kernel + vm_compute; the hand transcription, validated on the generated scripts only; "
              "the scripted kernel and pointer translation of the harness; the verif wait recorder and virtual clock. "
              "Scripts are finite (ECONNRESET afterwards). No axioms.")
