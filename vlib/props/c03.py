"""C03 — Work-steal queues neither lose nor duplicate items."""
from .. import queues

ID = "C03"
PROPS = ["theories/Props/C03.vo"]
CASES_MODULE = "Cases.C03"
AREA = "ows"
ISOLATE = True
TIMEOUT_MS = 2500
LEVEL = "proof"
SHRINK_KEY = "ops"
RULE = ("sequential histories over 1-4 handles with capacities 0-9 and 64 (non powers of two included), every history ending in a full drain (pops on every handle until idle, then the shared queue) and a length read; "
        "every call under a 2.5 s watchdog (expiry = observation `diverged`); non-trivial = the model's run "
        "overflowed, stole, consulted the shared queue on a tick, or popped idle; distinct = distinct op list")
term = queues.term
nontrivial = queues.nontrivial
distribution = queues.distribution


def gen(rng, tier):
    n = {"quick": 120, "thorough": 1500, "search": 600}[tier]
    cases = []
    for i in range(n):
        k = i % 4
        if k == 0:
            cases.append(queues.fill_steal_fill(rng))
        elif k == 1:
            cases.append(queues.random_history(rng, rng.randint(5, 60), drain=True, caps=[1, 2, 3, 4, 5, 7, 9]))
        elif k == 2:
            cases.append(queues.random_history(rng, rng.randint(5, 40), style="ties", drain=True))
        else:
            cases.append(queues.random_history(rng, rng.randint(1, 25), drain=True, caps=[0, 1, 2]))
    return cases

PINNED = ['C03_holds', 'C03_wf_needed']
LEVEL_TEXT = 'Theorem over ALL well-formed sequential histories (any number of handles, capacities, priorities, lengths) of the Gallina transcription of ordered_work_steal.rs: popped items are pending items and never repeat, an idle local pop implies nothing is pending (hence a drain returns exactly the pending multiset), shared/full length exact. Proved by a multiset-conservation invariant over every model step (overflow, steal, shared pop). The transcription is tied to /repo by lockstep histories on the real source (shim-included so the random steal start is an input). The concurrent counter protocol is validated by exhaustive small-scope interleavings on the shimmed source (support, not the claim).'
LEVEL_NOTE = ("Trusted: Coq kernel + vm_compute; hand transcription of ordered_work_steal.rs (model OWS.v) validated on the "
              "sampled histories only; st3 rings / crossbeam injectors / skiplist modelled as FIFO lists and a sorted map; "
              "sequential histories (one call at a time); the steal start index is an input via the build.rs import "
              "rewrite. The plain WorkStealQueue is not modelled. No axioms (closed under the global context).")
TECHNIQUE = "Coq proof (invariants over all histories of a Gallina model) + lockstep differential correspondence inside Coq"
