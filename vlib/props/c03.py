"""C03 — Work-steal queues neither lose nor duplicate items."""
from .. import queues, pwsq

ID = "C03"
PROPS = ["theories/Props/C03.vo", "theories/Props/PWS.vo"]
CASES_MODULE = "Cases.C03"
AREA = "ows"
ISOLATE = True
TIMEOUT_MS = 2500
LEVEL = "proof"
SHRINK_KEY = "ops"
RULE = ("sequential histories over 1-4 handles with capacities 0-9 and 64 (non powers of two included), every history ending in a full drain (pops on every handle until idle, then the shared queue) and a length read; "
        "every call under a 2.5 s watchdog (expiry = observation `diverged`); non-trivial = the model's run "
        "overflowed, stole, consulted the shared queue on a tick, or popped idle; distinct = distinct op list")


from ..core import gz, glist, gbool


def conc_case(rng, three=True):
    """2-3 threads, 1-2 shared calls each, on the ordered or the plain queue"""
    nthreads = rng.choice([2, 2, 2, 3]) if three else 2
    percall = 2 if nthreads == 2 else 1
    x = [0]

    def call():
        if rng.random() < 0.6:
            x[0] += 1
            return {"c": "push", "p": str(rng.choice([0, 0, 1, -1])), "x": x[0]}
        return {"c": "pop"}
    progs = [[call() for _ in range(rng.randint(1, percall))] for _ in range(nthreads)]
    if not any(c["c"] == "push" for p in progs for c in p):
        x[0] += 1
        progs[0][0] = {"c": "push", "p": "0", "x": x[0]}
    return {"area": "conc", "isolate": False, "timeout_ms": 60000, "queue": rng.choice(["ordered", "plain"]),
            "progs": progs, "max_execs": 20000, "kind": "conc", "ops": []}


def _call(c):
    return "CPush %s %s" % (gz(c["p"]), gz(c["x"])) if c["c"] == "push" else "CPop"


def _outcome(o):
    res = glist([glist(["None" if r is None else "(Some %s)" % gz(r) for r in t]) for t in o["res"]])
    return "{| o_res := %s; o_len := %s; o_drained := %s |}" % (res, gz(o["len"]), glist([gz(v) for v in o["drained"]]))


def term(case, obs):
    if pwsq.is_plain(case):
        return "(@inr (qcase + ccase)%%type pcase %s)" % pwsq.term(case, obs)
    return "(@inl (qcase + ccase)%%type pcase %s)" % term2(case, obs)


def term2(case, obs):
    if case.get("area") != "conc":
        return "(@inl qcase ccase %s)" % queues.term(case, obs)
    o = obs[0] if obs and isinstance(obs[0], dict) else {"outcomes": [], "complete": False}
    return ("(@inr qcase ccase {| cc_plain := %s; cc_progs := %s; cc_impl := %s; cc_complete := %s |})"
            % (gbool(case["queue"] == "plain"), glist([glist([_call(c) for c in p]) for p in case["progs"]]),
               glist([_outcome(x) for x in o["outcomes"]]), gbool(bool(o.get("complete")))))


def nontrivial(case, obs, verdict):
    if pwsq.is_plain(case):
        return pwsq.nontrivial(case, obs, verdict)
    if case.get("area") == "conc":
        return bool(obs) and isinstance(obs[0], dict) and obs[0].get("executions", 0) >= 6
    return queues.nontrivial(case, obs, verdict)


def distribution(results):
    plain = [r for r in results if pwsq.is_plain(r[0])]
    results = [r for r in results if not pwsq.is_plain(r[0])]
    seq = [(c, o, v) for c, o, v in results if c.get("area") != "conc"]
    d = queues.distribution(seq)
    conc = [(c, o, v) for c, o, v in results if c.get("area") == "conc"]
    d["concurrent_programs"] = len(conc)
    d["interleavings_executed"] = sum(o[0].get("executions", 0) for c, o, v in conc if o and isinstance(o[0], dict))
    d["distinct_outcomes"] = sum(len(o[0].get("outcomes", [])) for c, o, v in conc if o and isinstance(o[0], dict))
    d["plain_queue_programs"] = sum(1 for c, o, v in conc if c["queue"] == "plain")
    d["plain_queue"] = pwsq.distribution(plain)
    return d


def gen(rng, tier):
    n = {"quick": 120, "thorough": 1500, "search": 150}[tier]
    cases = []
    for i in range(n):
        k = i % 4
        if k == 0:
            cases.append(queues.fill_steal_fill(rng))
        elif k == 1:
            cases.append(queues.random_history(rng, rng.randint(5, 60), drain=True, caps=[1, 2, 3, 4, 5, 7, 9]))
        elif k == 2:
            cases.append(queues.random_history(rng, rng.randint(5, 40), style="ties", drain=True))
        else:
            cases.append(queues.random_history(rng, rng.randint(1, 25), drain=True, caps=[0, 1, 2]))
    cases += pwsq.gen_c03(rng, tier)
    cases += [conc_case(rng, three=(tier != "quick")) for _ in range({"quick": 10, "thorough": 150, "search": 0}[tier])]
    return cases

PINNED = ['C03_holds', 'C03_wf_needed', 'C03_conservation', 'C03_pop_at_most_once', 'C03_len_bound', 'C03_quiescent_exact', 'C03_outcome_ok', 'C03_all_outcomes_ok', 'C03_old_protocol_refuted', 'PWS_C03_holds', 'PWS_C03_wf_needed', 'PWS_C03_conservation', 'PWS_C03_at_most_once', 'PWS_C03_shared_len_exact', 'PWS_model_sync']
LEVEL_TEXT = 'Theorem over ALL well-formed sequential histories (any number of handles, capacities, priorities, lengths) of the Gallina transcription of ordered_work_steal.rs: popped items are pending items and never repeat, an idle local pop implies nothing is pending (hence a drain returns exactly the pending multiset), shared/full length exact. Proved by a multiset-conservation invariant over every model step (overflow, steal, shared pop). The transcription is tied to /repo by lockstep histories on the real source (shim-included so the random steal start is an input). Concurrent part: a small-step model of the shared queue of BOTH queues (one step per atomic/injector access) with theorems for ANY number of threads, programs and schedules: conservation, pop-at-most-once, the counter never under-reports, exactness and exact drain at quiescence; tied to /repo by enumerating ALL interleavings of 2-3 real threads over the shim points of the real source and comparing the set of reachable outcomes with the set the model reaches, inside Coq.'
LEVEL_NOTE = ("Trusted: Coq kernel + vm_compute; hand transcription of ordered_work_steal.rs (model OWS.v) validated on the "
              "sampled histories only; st3 rings / crossbeam injectors / skiplist modelled as FIFO lists and a sorted map; "
              "sequential histories (one call at a time); the steal start index is an input via the build.rs import "
              "rewrite. The interleaving enumeration serialises real threads at the shim's points: atomicity of each crossbeam/st3 call is assumed. No axioms (closed under the global context).")
TECHNIQUE = "Coq proof (invariants over all histories of a Gallina model) + lockstep differential correspondence inside Coq"

LEVEL_TEXT += ' The plain WorkStealQueue (work_steal.rs: one injector, st3 rings, push overflow of half a ring, steal of half of a victim, shared-first tick every 61st pop) has its own sequential model (Queue/PWS.v) with the same theorems for every well-formed history (conservation, at-most-once, shared length exact) and the same lockstep correspondence on the shim-included real source.'
