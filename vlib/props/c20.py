"""C20 — Readiness wakes exactly the waiting coroutine, promptly."""
from ..core import gz, glist, gbool, gopt
from .. import net

ID = "C20"
PROPS = ["theories/Props/C20.vo"]
PINNED = ["C20_roundtrip", "C20_holds_outside", "C20_no_tag_outside", "C20_reuse_wakes", "C20_refuted_registration_outlives_wait",
          "C20_refuted_registration_outlives_wait_cross", "C20_refuted_one_token_per_descriptor",
          "C20_wake_hits", "C20_no_cross_wake", "C20_unregistered_direction_has_no_waiter"]
CASES_MODULE = "Cases.C20"
HEADER = ""
AREA = "net20"
ISOLATE = True
TIMEOUT_MS = 30000
LEVEL = "proof"
SHRINK_KEY = "ops"
SHARD_SIZE = 40
HARNESS_JOBS = 8                 # real event-loop threads and real 30 ms waits: do not oversubscribe the machine
RULE = ("histories of 3-14 operations over 2-3 socketpair ends pinned to fixed descriptor numbers and 1-4 named "
        "coroutines whose 64-bit ids are known (5 ids below 2^32, 16 with high bits): wait / timed-out wait for "
        "readability or writability, read readiness (a byte from the peer), write readiness (the full send buffer "
        "drains), deletion of both interests / of one interest, hooked close, reuse of the closed descriptor number by "
        "a new socket. Four families: 'clean' (45%; generated inside the premises of C20_holds_outside), "
        "'reuse' (23%; both interests on one number, close, reuse, wait on the reused number, readiness), "
        "'dirdel' (14%; both interests on one number, deletion of ONE of them, waits for what is left), "
        "'free' (the rest; anything in range, coroutines mostly not already waiting). A case is non-trivial when a "
        "readiness event was delivered to the loop or a waiter was left without one; distinct = distinct "
        "(nfd, op list)")
TRUSTED = ["hook H5: verif::point(\"event_loop_resume\", token, hit) in EventLoop::resume and "
           "(\"event_loop_resumed\", token) after it in wait_just",
           "EventLoops::verif_submit_raw_co hands a caller-named coroutine to the loop (ids = DefaultHasher of the name)",
           "/proc/self/fdinfo/<epoll fd> shows the token the OS holds (data:) and the interest (events:)",
           "a per-coroutine state listener reports Suspend / Callback / Timeout transitions",
           "socketpair ends pinned to descriptor numbers 240.. with dup2, so a reopened slot reuses the number; "
           "SO_SNDBUF at the minimum and filled with 64 KiB sends until EAGAIN: the slot is not writable until the "
           "peer has read everything"]
ASSUMPTIONS = ["one event loop",
               "epoll modelled as a table fd -> (interest, token): edge-triggered delivery of one event per arrival "
               "of new data / per drain of the full send buffer, carrying the stored token and the flag of that "
               "direction only",
               "no descriptor is readable or writable at the moment an interest is registered or modified (data is "
               "read off after every read-readiness step, the send buffer is refilled after every write-readiness "
               "step): registration of an already-ready descriptor (immediate event) is not exercised",
               "a long wait (60 s) never expires within a case; a timed-out wait (30 ms) sees no readiness",
               "usize is 64 bits"]

KINDS = ["wait", "waitt", "ready", "del", "close", "reopen"]


def _wait(kind, d, name, fd):
    return {"op": kind, "dir": d, "name": name, "id": str(net.ALL_IDS[name]), "fd": fd}


def _names(rng):
    low = list(net.LOW_IDS)
    high = list(net.HIGH_IDS)
    names = []
    for _ in range(rng.randint(1, 4)):
        n = rng.choice(low if rng.random() < 0.35 else high)
        if n not in names:
            names.append(n)
    return names


class Spec:
    """the specification's trackers (TokenOracle.v: spec_step, nd_step), used to steer generation"""

    def __init__(self, nfd):
        self.nfd = nfd
        self.wait = {}      # coroutine -> (fd or -1, dir)
        self.bind = {}      # coroutine -> fd
        self.reg = set()    # (fd, dir)
        self.closed = set()
        self.ops = []

    def free(self, names):
        return [n for n in names if n not in self.wait]

    def waiting_on(self, fd, d):
        return [c for c, w in self.wait.items() if w == (fd, d)]

    def forget(self, fd):
        for c, (f, d) in list(self.wait.items()):
            if f == fd:
                self.wait[c] = (-1, d)
        for c in [c for c, f in self.bind.items() if f == fd]:
            del self.bind[c]
        self.reg -= {(fd, "r"), (fd, "w")}

    def push(self, o):
        self.ops.append(o)
        k = o["op"]
        fd = o["fd"]
        if k in ("wait", "waitt"):
            if fd not in self.closed:
                self.bind[o["name"]] = fd
                self.reg.add((fd, o["dir"]))
                if k == "wait":
                    self.wait[o["name"]] = (fd, o["dir"])
        elif k == "ready":
            for c in self.waiting_on(fd, o["dir"]):
                del self.wait[c]
        elif k == "del":
            d = o.get("dir")
            if d is None:
                self.forget(fd)
            else:
                for c in self.waiting_on(fd, d):
                    self.wait[c] = (-1, d)
                self.reg.discard((fd, d))
                if (fd, "r") not in self.reg and (fd, "w") not in self.reg:
                    for c in [c for c, f in self.bind.items() if f == fd]:
                        del self.bind[c]
        elif k == "close":
            self.forget(fd)
            self.closed.add(fd)
        elif k == "reopen":
            self.closed.discard(fd)

    def bound_ok(self, c, fd):
        if c in self.bind:
            return self.bind[c] == fd
        return fd not in self.bind.values()


def _dir(rng):
    return "w" if rng.random() < 0.5 else "r"


def _other(d):
    return "r" if d == "w" else "w"


def gen_clean(rng):
    """inside the premises of C20_holds_outside"""
    nfd = rng.randint(2, 3)
    names = _names(rng)
    sp = Spec(nfd)
    for _ in range(rng.randint(4, 14)):
        r = rng.random()
        if r < 0.45:
            kind = "wait" if r < 0.33 else "waitt"
            free = sp.free(names)
            if not free:
                continue
            c = rng.choice(free)
            if c in sp.bind:
                fd = sp.bind[c]
            else:
                cand = [f for f in range(nfd) if f not in sp.bind.values() and f not in sp.closed]
                if not cand:
                    continue
                fd = rng.choice(cand)
            if fd in sp.closed:
                continue
            sp.push(_wait(kind, _dir(rng), c, fd))
        elif r < 0.78:
            waited = sorted({w for w in sp.wait.values() if w[0] >= 0})
            if waited and rng.random() < 0.8:
                fd, d = rng.choice(waited)
            else:
                fd, d = rng.randrange(nfd), _dir(rng)
            if sp.waiting_on(fd, _other(d)):
                continue
            sp.push({"op": "ready", "dir": d, "fd": fd})
        elif r < 0.84:
            sp.push({"op": "del", "fd": rng.randrange(nfd)})
        elif r < 0.89:
            fd, d = rng.randrange(nfd), _dir(rng)
            if (fd, _other(d)) in sp.reg:
                continue
            sp.push({"op": "del", "dir": d, "fd": fd})
        elif r < 0.95:
            sp.push({"op": "close", "fd": rng.randrange(nfd)})
        else:
            fd = rng.choice(sorted(sp.closed)) if sp.closed else rng.randrange(nfd)
            sp.push({"op": "reopen", "fd": fd})
        # a closed number is usually handed out again soon
        if sp.closed and rng.random() < 0.5:
            sp.push({"op": "reopen", "fd": rng.choice(sorted(sp.closed))})
    return {"nfd": nfd, "ops": sp.ops, "family": "clean"}


def gen_reuse(rng):
    """both interests on one descriptor number, close, reuse of the number, a wait on the reused number,
    readiness; by one coroutine (inside the premises) or by several"""
    nfd = rng.randint(2, 3)
    names = _names(rng)
    fd = rng.randrange(nfd)
    c = rng.choice(names)
    other = [n for n in names if n != c]
    ops = []
    d1 = _dir(rng)
    # first interest: a wait that ends (timed out, or resumed by its readiness)
    if rng.random() < 0.5:
        ops.append(_wait("waitt", d1, c, fd))
    else:
        ops.append(_wait("wait", d1, c, fd))
        ops.append({"op": "ready", "dir": d1, "fd": fd})
    # second interest on the same number
    c2 = rng.choice(other) if other and rng.random() < 0.3 else c
    if rng.random() < 0.5:
        ops.append(_wait("waitt", _other(d1), c2, fd))
    else:
        ops.append(_wait("wait", _other(d1), c2, fd))
        ops.append({"op": "ready", "dir": _other(d1), "fd": fd})
    r = rng.random()
    if r < 0.15:
        ops.append({"op": "del", "dir": _dir(rng), "fd": fd})
    elif r < 0.25 and nfd > 1:
        ops.append({"op": "ready", "dir": _dir(rng), "fd": (fd + 1) % nfd})
    ops.append({"op": "close", "fd": fd})
    ops.append({"op": "reopen", "fd": fd})
    # waits on the reused number, each followed (usually) by its readiness
    c3 = rng.choice(names) if rng.random() < 0.3 else c
    for _ in range(rng.randint(1, 2)):
        d = _dir(rng)
        ops.append(_wait("wait", d, c3, fd))
        if rng.random() < 0.9:
            ops.append({"op": "ready", "dir": d, "fd": fd})
        else:
            break
    return {"nfd": nfd, "ops": ops, "family": "reuse"}


def gen_dirdel(rng):
    """one coroutine, one descriptor: both interests (waits that end by time-out or by their readiness), deletion
    of ONE interest, then waits for the direction that is left and for the deleted one, each with its readiness"""
    nfd = rng.randint(1, 2)
    names = _names(rng)
    fd = rng.randrange(nfd)
    c = rng.choice(names)
    ops = []

    def ended_wait(d):
        if rng.random() < 0.5:
            ops.append(_wait("waitt", d, c, fd))
        else:
            ops.append(_wait("wait", d, c, fd))
            ops.append({"op": "ready", "dir": d, "fd": fd})

    d1 = _dir(rng)
    ended_wait(d1)
    ended_wait(_other(d1))
    if rng.random() < 0.3:
        ended_wait(_dir(rng))
    dd = _dir(rng)
    ops.append({"op": "del", "dir": dd, "fd": fd})
    dirs = [_other(dd), dd]
    rng.shuffle(dirs)
    if rng.random() < 0.4:
        dirs.append(_dir(rng))
    for d in dirs:
        ops.append(_wait("wait", d, c, fd))
        ops.append({"op": "ready", "dir": d, "fd": fd})
    return {"nfd": nfd, "ops": ops, "family": "dirdel"}


def gen_free(rng):
    nfd = rng.randint(2, 3)
    names = _names(rng)
    sp = Spec(nfd)
    for _ in range(rng.randint(3, 12)):
        r = rng.random()
        if r < 0.46:
            kind = "wait" if r < 0.34 else "waitt"
            free = sp.free(names)
            if free and rng.random() < 0.95:
                c = rng.choice(free)
            else:
                c = rng.choice(names)
            sp.push(_wait(kind, _dir(rng), c, rng.randrange(nfd)))
        elif r < 0.80:
            waited = sorted({w for w in sp.wait.values() if w[0] >= 0})
            if waited and rng.random() < 0.7:
                fd, d = rng.choice(waited)
            else:
                fd, d = rng.randrange(nfd), _dir(rng)
            sp.push({"op": "ready", "dir": d, "fd": fd})
        elif r < 0.85:
            sp.push({"op": "del", "fd": rng.randrange(nfd)})
        elif r < 0.91:
            sp.push({"op": "del", "dir": _dir(rng), "fd": rng.randrange(nfd)})
        elif r < 0.96:
            sp.push({"op": "close", "fd": rng.randrange(nfd)})
        else:
            fd = rng.choice(sorted(sp.closed)) if sp.closed else rng.randrange(nfd)
            sp.push({"op": "reopen", "fd": fd})
        if sp.closed and rng.random() < 0.4:
            sp.push({"op": "reopen", "fd": rng.choice(sorted(sp.closed))})
    return {"nfd": nfd, "ops": sp.ops, "family": "free"}


def gen(rng, tier):
    n = {"quick": 80, "thorough": 480, "search": 200}[tier]
    cases = []
    while len(cases) < n:
        r = rng.random()
        if r < 0.45:
            c = gen_clean(rng)
        elif r < 0.68:
            c = gen_reuse(rng)
        elif r < 0.82:
            c = gen_dirdel(rng)
        else:
            c = gen_free(rng)
        if c["ops"]:
            cases.append(c)
    return cases


def _d(o):
    return gbool(o.get("dir") == "w")


def _fd(o):
    # slot k is descriptor k+1 of the model: descriptor 0 is never a slot (it is what the runtime falls back to
    # for a token unknown to TOKEN_FD; the real slots sit at descriptor numbers 240..)
    return gz(int(o["fd"]) + 1)


def _op(o):
    k = o["op"]
    if k == "wait":
        return "Wait %s %s %s" % (_d(o), gz(o["id"]), _fd(o))
    if k == "waitt":
        return "WaitT %s %s %s" % (_d(o), gz(o["id"]), _fd(o))
    if k == "ready":
        return "Ready %s %s" % (_d(o), _fd(o))
    if k == "del":
        if o.get("dir") is None:
            return "Del %s" % _fd(o)
        return "DelDir %s %s" % (_d(o), _fd(o))
    if k == "close":
        return "Close %s" % _fd(o)
    if k == "reopen":
        return "Reopen %s" % _fd(o)
    raise ValueError("unknown op %r" % (o,))


def _kv(k):
    return gopt(k, lambda t: "(%s, %s, %s)" % (gbool(t[0]), gbool(t[1]), gz(t[2])))


def _obs(v):
    if isinstance(v, dict):
        if "reg" in v:
            return "OReg %s %s" % (gbool(v["reg"]), _kv(v.get("k")))
        if "regt" in v:
            return "ORegT %s %s %s" % (gbool(v["regt"]), _kv(v.get("k")), gbool(v["timeout"]))
        if "event" in v:
            return "OEvent %s %s %s" % (gz(v["event"]), gbool(v["hit"]), glist([gz(x) for x in v["woken"]]))
        if "del" in v:
            return "ODel %s %s" % (gbool(v["del"]), _kv(v.get("k")))
        if "close" in v:
            return "OClose %s" % gbool(v["close"])
    if v == "busy":
        return "OBusy"
    if v == "noevent":
        return "ONoEvent"
    if v == "reopened":
        return "OReopen"
    return "OOther"


def term(case, obs):
    return "{| c_nfd := %s; c_ops := %s; c_impl := %s |}" % (
        gz(int(case["nfd"]) + 1), glist([_op(o) for o in case["ops"]]), glist([_obs(v) for v in obs]))


def _missed(case, obs):
    """a 'noevent' answer to a readiness step (somebody may have been left waiting)"""
    return any(o["op"] == "ready" and v == "noevent" for o, v in zip(case["ops"], obs))


def nontrivial(case, obs, verdict):
    return any(isinstance(v, dict) and "event" in v for v in obs) or (not verdict["prop"] and _missed(case, obs))


def distribution(results):
    d = {"wait_r": 0, "wait_w": 0, "waitt_r": 0, "waitt_w": 0, "ready_r": 0, "ready_w": 0, "del": 0, "del_r": 0,
         "del_w": 0, "close": 0, "reopen": 0, "events": 0, "events_hit": 0, "events_waking": 0, "noevent": 0,
         "busy": 0, "failed_waits": 0, "low_id_waits": 0, "high_id_waits": 0, "other_obs": 0,
         "rows_both_interests": 0, "cases_with_both_interests": 0, "cases_with_reuse": 0,
         "waits_on_reused_number": 0, "write_waits_on_reused_number": 0,
         "cases_clean": 0, "cases_reuse": 0, "cases_dirdel": 0, "cases_free": 0, "cases_corpus": 0,
         "cases_in_premises_of_holds_outside": 0, "cases_wf": 0}
    for c, o, v in results:
        fam = c.get("family")
        d["cases_" + fam if fam in ("clean", "reuse", "dirdel", "free") else "cases_corpus"] += 1
        if "premises_of_holds_outside" in v["tags"]:
            d["cases_in_premises_of_holds_outside"] += 1
        if "wf" in v["tags"]:
            d["cases_wf"] += 1
        both = False
        closed = set()
        reused = set()
        for op, ob in zip(c["ops"], o):
            k = op["op"]
            dr = op.get("dir")
            if k in ("wait", "waitt", "ready"):
                d["%s_%s" % (k, dr or "r")] += 1
            elif k == "del":
                d["del" if dr is None else "del_" + dr] += 1
            else:
                d[k] += 1
            if k == "close":
                closed.add(op["fd"])
            if k == "reopen" and op["fd"] in closed:
                closed.discard(op["fd"])
                reused.add(op["fd"])
            if k in ("wait", "waitt"):
                if int(op["id"]) < 2**32:
                    d["low_id_waits"] += 1
                else:
                    d["high_id_waits"] += 1
                if op["fd"] in reused:
                    d["waits_on_reused_number"] += 1
                    if dr == "w":
                        d["write_waits_on_reused_number"] += 1
            if isinstance(ob, dict):
                kv = ob.get("k")
                if kv and kv[0] and kv[1]:
                    d["rows_both_interests"] += 1
                    both = True
                if ("reg" in ob and not ob["reg"]) or ("regt" in ob and not ob["regt"]):
                    d["failed_waits"] += 1
                if "event" in ob:
                    d["events"] += 1
                    d["events_hit"] += 1 if ob["hit"] else 0
                    d["events_waking"] += 1 if ob["woken"] else 0
            elif ob == "noevent":
                d["noevent"] += 1
            elif ob == "busy":
                d["busy"] += 1
            elif ob != "reopened":
                d["other_obs"] += 1
        if both:
            d["cases_with_both_interests"] += 1
        if reused:
            d["cases_with_reuse"] += 1
    return d


LEVEL_TEXT = ("Unbounded theorems (all histories of waits and timed-out waits for readability or writability, read and "
              "write readiness events, deletions of both interests or of one, hooked close and reuse of the descriptor "
              "number, all 64-bit coroutine ids, any number of descriptors) about the Gallina model of the token codec "
              "(mio_adapter.rs), the selector records and their bookkeeping (selector/mod.rs: add_read_event, "
              "add_write_event, del_event, del_read_event, del_write_event, select's record handling; the definitions "
              "are the ones C21 uses), COROUTINE_TOKENS / EventLoop::resume (event_loop.rs) and the scheduler's "
              "suspended table (try_resume): C20_roundtrip (the token the OS hands back is the coroutine id, for every "
              "id), C20_holds_outside (outside the two recorded findings every readiness event resumes, on the event, "
              "exactly the coroutines waiting for that direction of that descriptor, and a direction the OS has no "
              "interest for has no waiter, also after close and reuse of the number), C20_reuse_wakes (after ANY history, "
              "once a number is closed through the runtime and handed out again, a new coroutine waiting for either "
              "direction of the new socket has its own token and exactly its interest registered and is resumed by the "
              "readiness event, alone), "
              "and the refutation witnesses of the recorded findings registration_outlives_wait (a registration and its "
              "token outlive the wait) and one_token_per_descriptor (two coroutines waiting for the two directions of "
              "one descriptor share one OS token). The model is tied to the real event loop by running the same "
              "histories against EventLoops with named coroutines and comparing kernel-side interest and tokens "
              "(/proc fdinfo), H5 hit/miss and resumed coroutines inside Coq.")
LEVEL_NOTE = ("Trusted: Coq kernel + vm_compute; hand-written model validated on sampled histories only; epoll modelled "
              "as a table (edge-triggered, one event per readiness step, no descriptor ready at registration time); "
              "one event loop; hooks H5 and verif_submit_raw_co; timeouts are real time (60 s long / 30 ms short). No "
              "axioms (Print Assumptions: closed under the global context).")
