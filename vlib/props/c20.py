"""C20 — Readiness wakes exactly the waiting coroutine, promptly."""
from ..core import gz, glist, gbool, gopt
from .. import net

ID = "C20"
PROPS = ["theories/Props/C20.vo"]
PINNED = ["C20_roundtrip", "C20_holds_outside", "C20_refuted_registration_outlives_wait",
          "C20_refuted_registration_outlives_wait_cross", "C20_wake_hits", "C20_no_cross_wake"]
CASES_MODULE = "Cases.C20"
HEADER = ""
AREA = "net20"
ISOLATE = True
TIMEOUT_MS = 30000
LEVEL = "proof"
SHRINK_KEY = "ops"
SHARD_SIZE = 40
RULE = ("histories of wait / timed-out wait / readiness / interest deletion over 2-4 socketpairs and 1-4 named "
        "coroutines whose 64-bit ids are known (5 ids below 2^32, 16 with high bits); three quarters keep a "
        "coroutine and a descriptor paired between deletions, the rest mix them freely; a case is non-trivial when "
        "at least one readiness event was delivered to a waiting coroutine or missed one; distinct = distinct "
        "(nfd, op list)")
TRUSTED = ["hook H5: verif::point(\"event_loop_resume\", token, hit) in EventLoop::resume and "
           "(\"event_loop_resumed\", token) after it in wait_just",
           "EventLoops::verif_submit_raw_co hands a caller-named coroutine to the loop (ids = DefaultHasher of the name)",
           "/proc/self/fdinfo/<epoll fd> shows the token the OS holds (data:) and the interest (events:)",
           "a per-coroutine state listener reports Suspend / Callback / Timeout transitions"]
ASSUMPTIONS = ["one event loop; read interest only (write readiness of a socketpair cannot be withheld)",
               "epoll modelled as a table fd -> (interest, token): edge-triggered delivery of one event per arrival "
               "of new data, carrying the stored token",
               "a long wait (60 s) never expires within a case; a timed-out wait (30 ms) sees no readiness",
               "usize is 64 bits"]


def _wait(kind, name, fd):
    return {"op": kind, "name": name, "id": str(net.ALL_IDS[name]), "fd": fd}


def gen_case(rng, paired):
    nfd = rng.randint(2, 4)
    low = list(net.LOW_IDS)
    high = list(net.HIGH_IDS)
    k = rng.randint(1, 4)
    names = []
    for _ in range(k):
        pool = low if rng.random() < 0.35 else high
        n = rng.choice(pool)
        if n not in names:
            names.append(n)
    spec = {}   # coroutine -> fd (or -1) by the specification tracker
    bind = {}   # coroutine -> fd binding (paired mode)
    ops = []
    for _ in range(rng.randint(3, 12)):
        r = rng.random()
        if r < 0.5:
            kind = "wait" if r < 0.36 else "waitt"
            free = [n for n in names if n not in spec]
            if not free:
                continue
            c = rng.choice(free)
            if paired:
                if c in bind:
                    fd = bind[c]
                else:
                    cand = [f for f in range(nfd) if f not in bind.values()]
                    if not cand:
                        continue
                    fd = rng.choice(cand)
                    bind[c] = fd
            else:
                fd = rng.randrange(nfd)
            ops.append(_wait(kind, c, fd))
            if kind == "wait":
                spec[c] = fd
        elif r < 0.87:
            waited = [f for f in spec.values() if f >= 0]
            fd = rng.choice(waited) if waited and rng.random() < 0.75 else rng.randrange(nfd)
            ops.append({"op": "ready", "fd": fd})
            for c in [c for c, f in spec.items() if f == fd]:
                del spec[c]
        else:
            fd = rng.randrange(nfd)
            ops.append({"op": "del", "fd": fd})
            for c in spec:
                if spec[c] == fd:
                    spec[c] = -1
            for c in [c for c, f in bind.items() if f == fd]:
                del bind[c]
    return {"nfd": nfd, "ops": ops, "paired": paired}


def gen(rng, tier):
    n = {"quick": 48, "thorough": 400, "search": 160}[tier]
    cases = []
    while len(cases) < n:
        c = gen_case(rng, rng.random() < 0.75)
        if c["ops"]:
            cases.append(c)
    return cases


def _op(o):
    if o["op"] == "wait":
        return "Wait %s %s" % (gz(o["id"]), gz(o["fd"]))
    if o["op"] == "waitt":
        return "WaitT %s %s" % (gz(o["id"]), gz(o["fd"]))
    if o["op"] == "ready":
        return "Ready %s" % gz(o["fd"])
    return "Del %s" % gz(o["fd"])


def _obs(v):
    if isinstance(v, dict):
        if "reg" in v:
            return "OReg %s %s" % (gbool(v["reg"]), gopt(v.get("data"), gz))
        if "regt" in v:
            return "ORegT %s %s %s" % (gbool(v["regt"]), gopt(v.get("data"), gz), gbool(v["timeout"]))
        if "event" in v:
            return "OEvent %s %s %s" % (gz(v["event"]), gbool(v["hit"]), glist([gz(x) for x in v["woken"]]))
        if "del" in v:
            return "ODel %s" % gbool(v["del"])
    if v == "busy":
        return "OBusy"
    if v == "noevent":
        return "ONoEvent"
    return "OOther"


def term(case, obs):
    return "{| c_nfd := %s; c_ops := %s; c_impl := %s |}" % (
        gz(case["nfd"]), glist([_op(o) for o in case["ops"]]), glist([_obs(v) for v in obs]))


def nontrivial(case, obs, verdict):
    return any(isinstance(v, dict) and "event" in v for v in obs)


def distribution(results):
    d = {"wait": 0, "waitt": 0, "ready": 0, "del": 0, "events": 0, "events_hit": 0, "events_waking": 0,
         "noevent": 0, "busy": 0, "low_id_waits": 0, "high_id_waits": 0, "paired_cases": 0, "other_obs": 0}
    for c, o, v in results:
        if c.get("paired"):
            d["paired_cases"] += 1
        for op, ob in zip(c["ops"], o):
            d[op["op"]] += 1
            if op["op"] in ("wait", "waitt"):
                if int(op["id"]) < 2**32:
                    d["low_id_waits"] += 1
                else:
                    d["high_id_waits"] += 1
            if isinstance(ob, dict) and "event" in ob:
                d["events"] += 1
                d["events_hit"] += 1 if ob["hit"] else 0
                d["events_waking"] += 1 if ob["woken"] else 0
            elif ob == "noevent":
                d["noevent"] += 1
            elif ob == "busy":
                d["busy"] += 1
            elif not isinstance(ob, dict):
                d["other_obs"] += 1
    return d


LEVEL_TEXT = ("Unbounded theorems (all histories of waits, timed-out waits, readiness events and interest deletions, "
              "all 64-bit coroutine ids, any number of descriptors) about the Gallina model of the token codec "
              "(mio_adapter.rs), the selector records (selector/mod.rs), COROUTINE_TOKENS / EventLoop::resume "
              "(event_loop.rs) and the scheduler's suspended table (try_resume): C20_roundtrip (the token the OS "
              "hands back is the coroutine id, for every id), C20_holds_outside (when a coroutine and a descriptor stay "
              "paired between deletions, every readiness event resumes exactly the waiters of that descriptor, on the "
              "event), and the refutation witnesses of the recorded finding registration_outlives_wait (a registration "
              "and its token outlive the wait: a second coroutine waiting on the descriptor is not resumed by the event, "
              "a coroutine that moved on to another descriptor is resumed by the old one). The model is tied to the "
              "real event loop by running the same histories against EventLoops with named coroutines and comparing "
              "kernel-side tokens (/proc fdinfo), H5 hit/miss and resumed coroutines inside Coq.")
LEVEL_NOTE = ("Trusted: Coq kernel + vm_compute; hand-written model validated on sampled histories only; epoll modelled "
              "as a table (edge-triggered, one event per data arrival); one event loop, read interest only; hooks H5 and "
              "verif_submit_raw_co; timeouts are real time (60 s long / 30 ms short). No axioms (Print Assumptions: "
              "closed under the global context).")
