"""C17 — Hooked vectored I/O only hands the kernel the caller's unfilled buffers."""
from .. import sockio

ID = "C17"
PROPS = ["theories/Props/C17.vo"]
PINNED = ["C17_holds", "C17_ranges", "C17_count", "C17_first_unfilled"]
CASES_MODULE = "Cases.C17"
AREA = "sockio"
ISOLATE = False
TIMEOUT_MS = 5000
LEVEL = "proof"
SHRINK_KEY = "script"
RULE = ("one hooked readv/writev/recvmsg/sendmsg (and, for the single-range case, read/recv/write/send) per case, "
        "0-4 segments of 0-5 bytes (zero-length segments included), scripts biased to transfers that spill into a "
        "later segment followed by would-block / EINTR retries (the path that rebuilds and shifts the array); the "
        "scripted kernel logs the reported count and every entry translated back to (segment, offset, length); "
        "non-trivial = the MODEL run retried, waited, moved bytes in >= 2 calls or passed a shifted first entry; "
        "distinct = distinct case")
TRUSTED = sockio.TRUSTED + ["the scripted kernel reads as many iovec entries as must exist given the segment its "
                            "first entry points into (never more than the reported count)"]
ASSUMPTIONS = sockio.ASSUMPTIONS
term = sockio.term
nontrivial = sockio.nontrivial
distribution = sockio.distribution


def gen(rng, tier):
    n = {"quick": 480, "thorough": 6000, "search": 1500}[tier]
    calls = sockio.VEC * 4 + sockio.BUF
    return [sockio.gen_case(rng, calls, wb_bias=0.35) for _ in range(n)]


LEVEL_TEXT = ("Unbounded Coq theorems about the Gallina transcription of the four vectored loops (and the plain-buffer "
              "loops as the one-range case): every array passed down is exactly the caller's unfilled suffix (first "
              "entry shifted by the bytes already moved into its segment, the following entries untouched), hence "
              "inside the caller's buffers, in order, never before the first unfilled byte; the count reported equals "
              "the length of the array. Tied to the Rust code by the request log of a scripted kernel.")
LEVEL_NOTE = ("Trusted: Coq kernel + vm_compute; hand transcription validated on generated scripts; the harness's "
              "pointer translation; the array length itself is not observable from C, the harness reads the entries "
              "that must exist. No axioms.")
