"""C09 — Delay and cancel requests affect only the coroutine that made them."""
from .. import cocases

ID = "C09"
PROPS = ["theories/Props/C09.vo"]
CASES_MODULE = "Cases.C09"
AREA = "co"
LEVEL = "proof"
SHRINK_KEY = "ops"
SHARD_SIZE = 40
RULE = ("1-3 coroutine bodies (0-30 instructions: suspend/delay/until/cancel/syscall-state/running/tick/return/"
        "panic, well-formed and deliberately malformed) driven by 3-40 driver ops (resume, external running()/"
        "syscall(), clock changes, state reads) with two recording listeners, one of which panics in every "
        "callback in half of the cases; non-trivial = the model run exercised at least two of: cancel, "
        "syscall-state yield, timed suspend, complete, error, refused call, owned panic message; distinct = "
        "distinct (bodies, ops)")
TRUSTED = ["corosensei context switching is modelled (a yield returns control to resume_with with the yielded value)",
           "virtual clock hook H1"]
ASSUMPTIONS = ["Param/Yield/Return are u64 in the harness and Z in the model",
               "bodies that return or panic outside state Running break the API contract and are excluded from "
               "the lifecycle clauses from that point on (the hooked facades always return in state Running)"]
term = cocases.term
nontrivial = cocases.nontrivial
distribution = cocases.distribution


def gen(rng, tier):
    n = {"quick": 200, "thorough": 3000, "search": 1200}[tier]
    cases = [cocases.gen_case(rng) for _ in range(n)]
    cases += [cocases.leak_case(rng) for _ in range(n // 4)]
    return cases

PINNED = ['C09_holds', 'C09_deques_empty']
LEVEL_TEXT = 'Unbounded theorem with NO premise (all bodies, all histories, any number of coroutines on the thread): the wake-up time and cancellation reported for a yield are exactly those requested in that yield; invariant: both thread-local request deques are empty whenever control is in the driver. Tied to /repo by histories mixing plain suspends, delays, cancels and syscall-state yields (what EventLoop::wait_just does) on real coroutines.'
LEVEL_NOTE = ("Trusted: Coq kernel + vm_compute; hand transcription of state.rs / korosensei.rs (raw_resume) / suspender.rs / "
              "mod.rs (resume_with) / listener.rs (broadcast) / catch! (model Co.v) validated on sampled histories only; "
              "corosensei's context switch is modelled as 'a yield returns control to resume_with with the yielded value'; "
              "single thread; premise for C07/C08: bodies do not contain the internal IUnreachable marker (never generated). "
              "No axioms (closed under the global context).")
TECHNIQUE = "Coq proof (simulation invariant between a Gallina model and a specification tracker) + differential correspondence inside Coq"
