"""C11 — Pool worker count is exact and bounded."""
from .. import poolcases

ID = "C11"
PROPS = ["theories/Props/C11.vo"]
CASES_MODULE = "Cases.C11"
AREA = "pool"
ISOLATE = True
TIMEOUT_MS = 3000
LEVEL = "proof"
SHRINK_KEY = "ops"
SHARD_SIZE = 25
term = poolcases.term
nontrivial = poolcases.nontrivial
distribution = poolcases.distribution


def gen(rng, tier):
    n = {"quick": 120, "thorough": 1500, "search": 600}[tier]
    return [poolcases.gen_keepalive_stop(rng) if i % 5 == 4 else poolcases.gen_case(rng, npools=1 if i % 3 else 2)
            for i in range(n)]
