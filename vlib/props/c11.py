"""C11 — Pool worker count is exact and bounded."""
from .. import poolcases

ID = "C11"
PROPS = ["theories/Props/C11.vo"]
CASES_MODULE = "Cases.C11"
AREA = "pool"
ISOLATE = True
TIMEOUT_MS = 3000
LEVEL = "proof"
SHRINK_KEY = "ops"
SHARD_SIZE = 25
term = poolcases.term
nontrivial = poolcases.nontrivial
distribution = poolcases.distribution


def gen(rng, tier):
    n = {"quick": 120, "thorough": 1500, "search": 600}[tier]
    return [poolcases.gen_keepalive_stop(rng) if i % 6 == 4 else poolcases.gen_keepalive_run(rng) if i % 6 == 5
            else poolcases.gen_case(rng, npools=1 if i % 3 else 2) for i in range(n)]


PINNED = ['C11_refuted_stolen_worker_wedges_pool', 'C11_single_pool', 'C11_count_exact']
LEVEL_TEXT = "Same pool model and oracle; clauses: get_running_size is within [0, max], equals the number of legitimately parked workers after a pass with time left, is 0 after a successful stop; a stop with nothing left to do, no worker asleep and time to act in does not wait out its timeout. Theorem over ALL well-formed single-pool histories (premise wf_pool1c: wf_pool1t and no positive-timeout stop issued at clock u64::MAX): the oracle accepts the model's run, including the liveness half of the stop clause (with every task settled a stop's passes execute no task instruction, each full pass ends quiescent, so a StopTimeout leaves a parked worker), and the counter equals the number of live worker coroutines and stays within [0, max] after every prefix. With two pools REFUTED by a theorem (stolen worker accounted to the wrong pool), a recorded finding reproduced on the real code. Tied to /repo by histories on real pools compared in Coq, including pools with keep-alive and minimum size whose scheduling happens inside stop."
LEVEL_NOTE = "Trusted: Coq kernel + vm_compute; hand transcription of co_pool/mod.rs, task.rs and the parts of scheduler.rs it uses (Sched/Pool.v over Sched/Sched.v, Coroutine/Co.v, Queue/OWS.v), validated on the sampled histories only; one scheduling thread at a time (the pool's scheduling half is !Sync), virtual clock (hooks H1/H2), DashMap/DashSet as association lists, process-global task/coroutine queues and cancel sets modelled as shared state of all pools. The single-pool theorems assume wf_pool1: ONE pool with min_size 0, ANY keep_alive_time, max_size >= 1, a clock that does not reach u64::MAX while a keep-alive is pending (for C01/C11), operations naming submitted tasks, task bodies that keep the coroutine API contract (no self-cancel, syscall states well bracketed), clock steps not below the model clock; the evidence counts how many generated histories satisfy it (tag wf_pool1). Histories with two pools, or with a minimum size, are covered by the correspondence and the oracle only. No axioms (every theorem closed under the global context)."
TECHNIQUE = 'Coq proof (simulation invariant over all histories of a Gallina pool model; finite-state closure lifted to all schedules for the wait/notify and signal protocols) + differential correspondence inside Coq + forced real-thread schedules through cfg-guarded pause points'
