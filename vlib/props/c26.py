"""C26 — Process-wide named singletons are unique under concurrent first use."""
import json

from ..core import gz, glist, gbool

ID = "C26"
PROPS = ["theories/Props/C26.vo"]
PINNED = ["C26_holds_outside", "C26_refuted_get_or_default_check_then_insert",
          "C26_refuted_factory_published_twice", "C26_same_instance_repaired", "C26_spec", "C26_spec_repaired",
          "C26_all_outcomes_are_runs", "C26_no_divergence", "C26_all_outcomes_repaired_ok",
          "C26_one_queue_one_monitor_repaired"]
CASES_MODULE = "Cases.C26"
HEADER = "From OCV Require Import Misc.Beans Misc.BeansOracle."
AREA = "beans"
ISOLATE = False
TIMEOUT_MS = 90000
LEVEL = "proof"
SHRINK_KEY = None
SHARD_SIZE = 4
RULE = ("small programs of 2-3 threads (1-2 calls each out of get_or_default / get_mut_or_default / get_bean / "
        "init_bean over 1-2 names), cold (the factory itself is created under the race) or warm (a sequential "
        "prefix by the main thread first); for each program ALL interleavings of the real beans.rs source over "
        "its atomic/map operations are enumerated by a depth-first controller (a forked process per execution for "
        "cold programs; within a time budget, after which the enumeration is reported incomplete and only "
        "inclusion in the model's set is checked), "
        "and the SET of outcomes (returned instances per call, later lookups) is compared inside Coq with the "
        "model's all_outcomes; plus barrier runs without any shim: k real threads, a Default that sleeps; "
        "non-trivial = the program has at least two threads racing for one name, or a barrier with k >= 2; "
        "distinct = distinct program")
TRUSTED = ["harness/build.rs include of beans.rs with DashMap/AtomicUsize replaced by shim types that call a "
           "scheduling point before delegating to the real type; the depth-first controller (shim/dfs.rs); one "
           "forked child process per execution (the factory is a function-local static)",
           "DashMap operations are atomic per call"]
ASSUMPTIONS = ["atomics are sequentially consistent in the model (the code uses Relaxed on INSTANCE; publishing a "
               "pointer to a fresh DashMap with Relaxed is itself a data race the model cannot show)",
               "remove_bean is not part of the programs (a removed bean is outside 'stays the one later lookups return')",
               "barrier runs are timing dependent on the racy code: compared as one / more than one distinct address"]

KINDS = ["god", "godm", "get", "init"]


def _prog_size(threads, seq0):
    """upper bound on the number of interleavings of the controller (start park + <=4 points per call)"""
    from math import factorial
    lens = []
    for i, t in enumerate(threads):
        if seq0 and i == 0:
            continue
        n = 1
        for c in t:
            n += 4 if not seq0 else 3
        lens.append(n)
    tot = factorial(sum(lens))
    for n in lens:
        tot //= factorial(n)
    return tot


def _case(threads, seq0, max_execs, budget_ms=12000):
    names = sorted({c["n"] for t in threads for c in t})
    return {"mode": "dfs", "seq0": seq0, "threads": threads, "finals": names, "max_execs": max_execs,
            "budget_ms": budget_ms}


def _call(kind, n):
    return {"c": kind, "n": n}


FIXED = [
    # the two races of finding #28
    ([[_call("god", 0)], [_call("god", 0)]], False),
    ([[_call("god", 0)], [_call("god", 1)]], False),
    ([[_call("init", 0)], [_call("god", 0)]], False),
    ([[_call("god", 0)], [_call("get", 0)]], False),
    ([[_call("godm", 0)], [_call("god", 0)]], False),
    ([[_call("get", 1)], [_call("god", 0)], [_call("god", 0)]], True),
    ([[_call("god", 1)], [_call("god", 0)], [_call("godm", 0)]], True),
    ([[_call("init", 0)], [_call("init", 1)], [_call("god", 1)]], True),
]


def gen(rng, tier):
    budget = {"quick": 260, "thorough": 3000, "search": 260}[tier]
    nrand = {"quick": 10, "thorough": 48, "search": 16}[tier]
    ms = {"quick": 12000, "thorough": 100000, "search": 12000}[tier]
    cases = []
    for threads, seq0 in FIXED:
        cases.append(_case(threads, seq0, budget, ms))
    tries = 0
    while len(cases) < len(FIXED) + nrand and tries < 2000:
        tries += 1
        seq0 = rng.random() < 0.7      # cold programs need a process per execution: fewer of them
        nthreads = rng.choice([2, 2, 3]) + (1 if seq0 else 0)
        nnames = rng.choice([1, 1, 2])
        threads = []
        for t in range(nthreads):
            ncalls = rng.choice([1, 1, 2]) if not (seq0 and t == 0) else rng.choice([1, 2])
            threads.append([_call(rng.choice(KINDS if rng.random() < 0.6 else ["god"]), rng.randrange(nnames))
                            for _ in range(ncalls)])
        size = _prog_size(threads, seq0)
        if tier == "thorough":
            if size > 6 * budget:
                continue
        elif size > budget:
            continue
        cases.append(_case(threads, seq0, budget, ms))
    ks = {"quick": [2, 4, 8], "thorough": [2, 3, 4, 8, 16], "search": [4, 8]}[tier]
    for k in ks:
        cases.append({"mode": "barrier", "k": k, "sleep_ms": 100, "isolate": True})
    return cases


def key(case):
    return json.dumps({k: case[k] for k in case if k not in ("id", "origin", "max_execs", "budget_ms")}, sort_keys=True)


def _gcall(c):
    k = c["c"]
    if k in ("god", "godm"):
        return "CGetOrDefault %s" % gz(c["n"])
    if k == "get":
        return "CGetBean %s" % gz(c["n"])
    return "CInitBean %s" % gz(c["n"])


def _gres(r):
    if r is None:
        return "RNone"
    if r == "unit":
        return "RUnit"
    if r == "panic":
        return "RPanic"
    return "RAddr %s" % gz(r)


def _goutcome(o):
    if not isinstance(o, dict) or "t" not in o:
        return "None"
    return "(Some {| o_threads := %s; o_final := %s |})" % (
        glist([glist([_gres(r) for r in t]) for t in o["t"]]), glist([_gres(r) for r in o["f"]]))


def term(case, obs):
    if case["mode"] == "barrier":
        if len(obs) == 1 and isinstance(obs[0], dict) and "distinct" in obs[0]:
            return "BBarrier %d%%nat %s %s" % (int(case["k"]), gz(obs[0]["distinct"]), gbool(obs[0]["later_same"]))
        return "BLost"
    if not obs or not isinstance(obs[0], dict) or "complete" not in obs[0]:
        return "BLost"
    return "BDfs %s %s %s %s %s" % (
        gbool(case["seq0"]), glist([glist([_gcall(c) for c in t]) for t in case["threads"]]),
        glist([gz(n) for n in case["finals"]]), gbool(obs[0]["complete"]),
        glist([_goutcome(o) for o in obs[1:]]))


def nontrivial(case, obs, verdict):
    if case["mode"] == "barrier":
        return case["k"] >= 2
    racing = case["threads"][1:] if case["seq0"] else case["threads"]
    seen = {}
    for i, t in enumerate(racing):
        for c in t:
            seen.setdefault(c["n"], set()).add(i)
    return any(len(v) >= 2 for v in seen.values())


def distribution(results):
    d = {"programs": 0, "barriers": 0, "executions_on_real_code": 0, "complete_enumerations": 0,
         "impl_outcomes_max": 0, "cold": 0, "warm": 0, "threads": {}, "calls": {k: 0 for k in KINDS}}
    for c, o, v in results:
        if c["mode"] == "barrier":
            d["barriers"] += 1
            continue
        d["programs"] += 1
        d["warm" if c["seq0"] else "cold"] += 1
        n = str(len(c["threads"]) - (1 if c["seq0"] else 0))
        d["threads"][n] = d["threads"].get(n, 0) + 1
        for t in c["threads"]:
            for call in t:
                d["calls"][call["c"]] += 1
        if o and isinstance(o[0], dict) and "execs" in o[0]:
            d["executions_on_real_code"] += o[0]["execs"]
            d["complete_enumerations"] += 1 if o[0]["complete"] else 0
            d["impl_outcomes_max"] = max(d["impl_outcomes_max"], len(o) - 1)
    return d


LEVEL_TEXT = ("Small-step Gallina model of beans.rs for any number of threads, any programs of get_or_default / "
              "get_bean / init_bean calls over any names and any schedule, with a protocol flag: Racy = the code as it "
              "is (load, unconditional store of a new factory; map get, unconditional insert; init_bean's assertion), "
              "Repaired = compare-exchange publication + entry().or_insert_with. Proved: the code as it is violates "
              "the property in two ways (witness schedules, finding #28) and satisfies it in every execution that "
              "takes neither defect branch (C26_holds_outside, by an invariant over all reachable states); the "
              "repaired protocol satisfies it unconditionally for all thread counts and schedules; the enumeration "
              "all_outcomes used for the tie consists of outcomes of genuine schedules and never runs out of fuel. "
              "The step semantics is tied to /repo by enumerating ALL interleavings of small 2-3 thread programs on "
              "the real source (shim scheduling points, depth-first controller, fresh process per execution) and "
              "comparing outcome SETS with the model inside Coq, plus barrier runs of real threads with a slow "
              "Default on the unmodified crate.")
LEVEL_NOTE = ("Finding #28 is kept as a known finding: the repair was written and measured, and with a real singleton "
              "the pinned core/tests/co_pool.rs tests fail (15 of 30 runs: pools of parallel tests then share one "
              "task queue), so it cannot land under the rule that pinned tests stay green. Trusted: Coq kernel + "
              "vm_compute; the textual shim include and the controller; DashMap per-call atomicity; sequential "
              "consistency of the model; the correspondence covers programs of at most 3 racing threads and 2 calls "
              "per thread, the theorems cover all sizes. No axioms.")
