"""C08 — Values and panics cross the coroutine boundary faithfully."""
from .. import cocases

ID = "C08"
PROPS = ["theories/Props/C08.vo"]
CASES_MODULE = "Cases.C08"
AREA = "co"
LEVEL = "proof"
SHRINK_KEY = "ops"
SHARD_SIZE = 40
RULE = ("1-3 coroutine bodies (0-30 instructions: suspend/delay/until/cancel/syscall-state/running/tick/return/"
        "panic, well-formed and deliberately malformed) driven by 3-40 driver ops (resume, external running()/"
        "syscall(), clock changes, state reads) with two recording listeners, one of which panics in every "
        "callback in half of the cases; non-trivial = the model run exercised at least two of: cancel, "
        "syscall-state yield, timed suspend, complete, error, refused call, owned panic message; distinct = "
        "distinct (bodies, ops)")
TRUSTED = ["corosensei context switching is modelled (a yield returns control to resume_with with the yielded value)",
           "virtual clock hook H1"]
ASSUMPTIONS = ["Param/Yield/Return are u64 in the harness and Z in the model",
               "bodies that return or panic outside state Running break the API contract and are excluded from "
               "the lifecycle clauses from that point on (the hooked facades always return in state Running)"]
term = cocases.term
nontrivial = cocases.nontrivial
distribution = cocases.distribution


def gen(rng, tier):
    n = {"quick": 200, "thorough": 3000, "search": 1200}[tier]
    cases = [cocases.gen_case(rng) for _ in range(n)]
    cases += [cocases.leak_case(rng) for _ in range(n // 20)]
    return cases

PINNED = ['C08_holds', 'C08_message']
LEVEL_TEXT = "Unbounded theorem (all bodies/histories): resume arguments are what the body sees, yielded values are what resume reports, a return is reported once as Complete, a panic as Error carrying the panic's message (literal or formatted), nothing unwinds into the caller. Same simulation proof and tie as C07."
LEVEL_NOTE = ("Trusted: Coq kernel + vm_compute; hand transcription of state.rs / korosensei.rs (raw_resume) / suspender.rs / "
              "mod.rs (resume_with) / listener.rs (broadcast) / catch! (model Co.v) validated on sampled histories only; "
              "corosensei's context switch is modelled as 'a yield returns control to resume_with with the yielded value'; "
              "single thread; premise for C07/C08: bodies do not contain the internal IUnreachable marker (never generated). "
              "No axioms (closed under the global context).")
TECHNIQUE = "Coq proof (simulation invariant between a Gallina model and a specification tracker) + differential correspondence inside Coq"
