"""C23 — Stack growth runs the callback with room to spare and restores bookkeeping."""
from ..core import gz, glist, gbool

ID = "C23"
PROPS = ["theories/Props/C23.vo"]
PINNED = ["C23_bookkeeping_restored", "C23_holds", "C23_bookkeeping_ok", "C23_no_fault", "C23_value_returned",
          "C23_room", "C23_refuted_before_repair"]
CASES_MODULE = "Cases.C23"
HEADER = "From OCV Require Import Misc.StackGrow Misc.StackGrowOracle."
AREA = "grow"
ISOLATE = True
TIMEOUT_MS = 20000
LEVEL = "proof"
SHRINK_KEY = None
RULE = ("program trees run by real maybe_grow_with on a plain thread and inside a coroutine: the stack pointer is "
        "positioned (measured) well above or well below the threshold (red zone + guard page) before each call, calls "
        "are nested up to 4 deep, "
        "panics are raised at every depth and caught outside the call or further out, the bookkeeping is probed "
        "before, inside and after, and a 300-1500 level recursion (grow, use a 1-8 KiB frame, recurse) follows; "
        "red-zone/stack-size pairs from a grid (12-64 KiB / 64-256 KiB); a few cases (coroutine, and plain thread on its first grown segment) aim half a page below "
        "the threshold (inside the one-page window in which the check used to count the guard page, finding "
        "red_zone_counts_guard_page, repaired) or a page and a half above it; non-trivial = at least one call grew and one ran in place, or a "
        "panic was caught across a grown segment, or a recursion ran; distinct = distinct (context, program)")
TRUSTED = ["the harness's shadow list of the segments it is really running on (from the stack pointer read inside each "
           "callback; popped by the harness's own guard) and its measured positioning of the stack pointer",
           "psm::stack_pointer; corosensei::on_stack and DefaultStack (mmap + one guard page) are modelled, not verified"]
ASSUMPTIONS = ["callbacks that do anything (panic, catch, nested calls) run with at least 48 KiB left: the stack the "
               "harness's own unwinding needs is not modelled",
               "stack positions are meaningful to within about a page: programs keep decisions at least 3 pages away "
               "from the threshold (red zone + guard page), except the deliberate window cases (half a page below, a page and a half above)",
               "usable(stack_size) >= red_zone + 3 pages (the statement's premise), frames of the recursion fit the red zone",
               "the facade path open_coroutine::maybe_grow -> maybe_grow_stack is not exercised (no e2e harness in this framework)"]

PAGEZ = 4096


def mmap_len(size):
    return (max(size, 4096) + 2 * PAGEZ - 1) // PAGEZ * PAGEZ


RZS = [12288, 16384 + 4096, 32768, 65536]
SIZES = [65536, 131072, 262144]


def _pair(rng):
    while True:
        rz = rng.choice(RZS)
        size = rng.choice(SIZES)
        if rz + 3 * PAGEZ <= size:
            return rz, size


LOW = 4 * PAGEZ          # lowest position a program goes to before a call (the call itself needs stack)
ROOMY = 12 * PAGEZ       # a callback run in place gets a non-empty body only with this much left
                         # (the harness's own panic/unwind machinery needs stack that the model does not count)


class Gen:
    """generates a program while tracking the model's remaining stack, so that every decision is
    at least 3 pages away from the threshold (red zone + guard page)"""

    def __init__(self, rng, ctx):
        self.rng = rng
        self.ctx = ctx
        self.vn = 0

    def grow(self, rem, depth, grown, budget, window=False):
        """a positioned grow call; rem = model's remaining (sp - limit) here, or None on an unrecorded thread stack"""
        rng = self.rng
        rz, size = _pair(rng)
        self.vn += 1
        v = self.vn
        if self.ctx == "thread" and grown == 0:
            body = self.body(mmap_len(size) - 512, depth + 1, grown + 1, budget)
            return [{"i": "grow", "rz": rz, "size": size, "v": v, "body": body}]
        top = rem - 2 * PAGEZ                      # positions are effective only below this
        thr = rz + PAGEZ                           # the code stays in place from here up
        can_stay = top >= thr + 3 * PAGEZ
        can_grow = min(thr - 3 * PAGEZ, top) >= LOW
        if window and top >= thr + 6144:
            # half a page below the threshold (must grow; before the repair: ran in place without
            # the red zone) or a page and a half above it (runs in place, with the red zone; the
            # harness reads the stack pointer inside the callback, more than half a page further down)
            pos = thr - 2048 if window == "below" else thr + 6144
            body = [{"i": "probe"}]
        elif can_stay and (not can_grow or rng.random() < 0.5):
            pos = rng.choice([thr + 3 * PAGEZ, thr + 5 * PAGEZ, top])
            pos = max(thr + 3 * PAGEZ, min(pos, top))
            body = self.body(pos, depth + 1, grown, budget) if pos >= ROOMY else [{"i": "probe"}]
        elif can_grow:
            hi = min(thr - 3 * PAGEZ, top)
            pos = rng.choice([LOW, hi, (LOW + hi) // 2 // 16 * 16])
            body = self.body(mmap_len(size) - 512, depth + 1, grown + 1, budget)
        else:
            return [{"i": "probe"}]
        return [{"i": "pos", "rem": pos, "body": [{"i": "grow", "rz": rz, "size": size, "v": v, "body": body}]}]

    def body(self, rem, depth, grown, budget):
        rng = self.rng
        out = []
        n = rng.randint(0, 3) if depth < 4 else 0
        for _ in range(n):
            if budget[0] <= 0:
                break
            budget[0] -= 1
            r = rng.random()
            if r < 0.2:
                out.append({"i": "probe"})
            elif r < 0.55:
                out += self.grow(rem, depth, grown, budget)
            elif r < 0.8:
                inner = self.body(rem, depth + 1, grown, budget)
                if rng.random() < 0.7:
                    inner = inner + [{"i": "panic"}]
                out.append({"i": "catch", "body": inner})
            elif r < 0.9 and depth > 0:
                out.append({"i": "panic"})
                break
            else:
                out.append({"i": "probe"})
        return out


def program(rng, ctx, stack, kind):
    g = Gen(rng, ctx)
    base_rem = None if ctx == "thread" else mmap_len(stack) - 32768
    prog = []
    budget = [14]
    if kind == "panic_then_recursion":
        # a panic raised 1-3 grown segments deep, caught outside all of them; then the same calls again
        rz = rng.choice([32768, 65536])
        size = rng.choice([s for s in SIZES if rz + 3 * PAGEZ <= s])
        inner = [{"i": "probe"}, {"i": "panic"}]
        for k in range(rng.randint(0, 2)):
            inner = [{"i": "pos", "rem": LOW, "body": [{"i": "grow", "rz": rz, "size": size, "v": 10 + k, "body": inner}]}]
        outer = {"i": "grow", "rz": rz, "size": size, "v": 2, "body": inner}
        if ctx == "co":
            outer = {"i": "pos", "rem": LOW, "body": [outer]}
        prog.append({"i": "catch", "body": [outer]})
        prog.append({"i": "probe"})
        prog += g.grow(base_rem, 0, 0, [3])
    elif kind == "window" and ctx == "co":
        prog += g.grow(base_rem, 0, 0, [2], window=rng.choice(["below", "below", "above"]))
        prog.append({"i": "probe"})
    elif kind == "window":
        # plain thread: the first call always grows; the window call is made on that fresh segment
        size0 = rng.choice([131072, 262144])
        inner = g.grow(mmap_len(size0) - 512, 1, 1, [2], window=rng.choice(["below", "below", "above"]))
        prog.append({"i": "grow", "rz": 32768, "size": size0, "v": 99, "body": [{"i": "probe"}] + inner})
        prog.append({"i": "probe"})
    else:
        for _ in range(rng.randint(1, 3)):
            prog += g.grow(base_rem, 0, 0, budget)
            prog.append({"i": "probe"})
    if kind != "window" and (kind == "panic_then_recursion" or rng.random() < 0.7):
        rz, size = _pair(rng)
        frame = rng.choice([1024, 4096, 8192])
        if frame + 2 * PAGEZ <= rz:
            prog.append({"i": "rec", "n": rng.choice([300, 700, 1500]), "frame": frame, "rz": rz, "size": size})
    prog.append({"i": "probe"})
    return {"cfg": {"ctx": ctx, "stack": stack}, "prog": prog, "kind": kind}


def gen(rng, tier):
    n = {"quick": 80, "thorough": 800, "search": 300}[tier]
    cases = []
    plan = [("thread", "random"), ("co", "random"), ("thread", "panic_then_recursion"), ("co", "panic_then_recursion"),
            ("thread", "random"), ("co", "window"), ("thread", "panic_then_recursion"), ("co", "random"),
            ("thread", "window")]
    for i in range(n):
        ctx, kind = plan[i % len(plan)]
        stack = rng.choice([262144, 524288]) if ctx == "thread" else rng.choice([131072, 262144])
        cases.append(program(rng, ctx, stack, kind))
    return cases


def _prog(instrs):
    """list of instructions -> Gallina prog (body/next chaining)"""
    if not instrs:
        return "PNil"
    ins, rest = instrs[0], instrs[1:]
    k = ins["i"]
    if k == "pos":
        return "(PPos %s %s %s)" % (gz(ins["rem"]), _prog(ins["body"]), _prog(rest))
    if k == "grow":
        return "(PGrow %s %s %s %s %s)" % (gz(ins["rz"]), gz(ins["size"]), gz(ins["v"]), _prog(ins["body"]), _prog(rest))
    if k == "panic":
        return "PPanic"
    if k == "catch":
        return "(PCatch %s %s)" % (_prog(ins["body"]), _prog(rest))
    if k == "probe":
        return "(PProbe %s)" % _prog(rest)
    if k == "rec":
        return "(PRec (Z.to_nat %s) %s %s %s %s)" % (gz(ins["n"]), gz(ins["frame"]), gz(ins["rz"]), gz(ins["size"]), _prog(rest))
    raise ValueError(k)


def _ev(e):
    if isinstance(e, dict):
        k = e.get("e")
        if k == "grow":
            return "EGrow %s %s %s %s %s %s" % (gz(e["depth"]), gbool(e["enough"]), gbool(e["grew"]), gz(e["len"]),
                                               gbool(e["inb"]), gbool(e["room"]))
        if k == "ret":
            return "ERet %s" % gbool(e["ok"])
        if k == "probe":
            return "EProbe %s %s" % (gz(e["depth"]), gz(e["len"]))
        if k == "caught":
            return "ECaught"
        if k == "rec":
            return "ERec %s %s" % (gbool(e["room"]), gbool(e["ret"]))
        if k == "panic_top":
            return "EPanicTop"
        if k == "end":
            return "EEnd"
    return "EFault"   # "fault", "aborted:<sig>", "diverged", "harness-lost", anything unknown


def term(case, obs):
    return "{| g_ctx := %s; g_stack := %s; g_prog := %s; g_impl := %s |}" % (
        "CThread" if case["cfg"]["ctx"] == "thread" else "CCo", gz(case["cfg"]["stack"]),
        _prog(case["prog"]), glist([_ev(e) for e in obs]))


def nontrivial(case, obs, verdict):
    t = verdict["tags"]
    return ("grew" in t and "in_place" in t) or "caught" in t or any(i["i"] == "rec" for i in case["prog"])


def distribution(results):
    d = {"thread": 0, "co": 0, "kinds": {}, "grow_events": 0, "grew": 0, "in_place": 0, "caught": 0, "recursions": 0,
         "faults": 0, "in_place_without_room": 0, "window_cases": 0, "events_max": 0}
    for c, o, v in results:
        d[c["cfg"]["ctx"]] += 1
        d["kinds"][c.get("kind", "corpus")] = d["kinds"].get(c.get("kind", "corpus"), 0) + 1
        d["events_max"] = max(d["events_max"], len(o))
        if c.get("kind") == "window":
            d["window_cases"] += 1
        for e in o:
            if not isinstance(e, dict):
                d["faults"] += 1
                continue
            if e.get("e") == "grow":
                d["grow_events"] += 1
                d["grew" if e["grew"] else "in_place"] += 1
                if not e["grew"] and not e["room"]:
                    d["in_place_without_room"] += 1
            elif e.get("e") == "caught":
                d["caught"] += 1
            elif e.get("e") == "rec":
                d["recursions"] += 1
            elif e.get("e") == "fault":
                d["faults"] += 1
    return d


LEVEL_TEXT = ("Bookkeeping model of maybe_grow_with for both paths (coroutine: stack_infos with a pop-on-drop guard; plain "
              "thread: the thread-local list, with the same guard after the repair of finding #26) over program trees "
              "of positioned, nested grow calls, panics, catches and deep recursion. Proved for all trees: whatever "
              "returns or unwinds, the recorded list, the segments in use and the stack pointer are as before the call; "
              "on well-formed trees every call grows exactly when the stack really in use lacks the red zone of usable "
              "bytes, the coroutine reports exactly the segments in use, the callback runs inside the last one, every "
              "callback - on a fresh segment or in place - has the red zone (guard page not counted; C23_holds, no side "
              "condition, after the repair of finding red_zone_counts_guard_page), values come back, and no recursion faults. The decision "
              "before the repair is kept as a model parameter and refuted (witness theorem). Level partial: addresses, "
              "the stack switch (corosensei::on_stack), mmap and real memory "
              "availability are modelled, not verified; they are measured by running the same trees on the real code, "
              "including 300-1500 level recursions after caught panics, in a child process per case.")
LEVEL_NOTE = ("partial by nature: the theorems are about the bookkeeping and decision logic; that a segment of the "
              "recorded size is really usable memory is only measured. Trusted: the harness's own shadow segment list "
              "and stack-pointer positioning (to within a page), psm::stack_pointer, corosensei. Finding "
              "(red_zone_counts_guard_page) is repaired for unix, where a DefaultStack has exactly one guard page above "
              "limit(): the decision requires red_zone + one page. On windows limit() also lies below the guard pages "
              "and the thread stack guarantee, whose size corosensei does not expose; nothing is deducted there (not "
              "covered by this framework, which runs on linux). No axioms.")
