"""C24 — A memory fault in a coroutine only fails that coroutine."""
from ..core import gz, glist, gbool

ID = "C24"
PROPS = ["theories/Props/C24.vo"]
PINNED = ["C24_classification", "C24_isolation", "C24_own_outcome", "C24_no_divergence"]
CASES_MODULE = "Cases.C24"
HEADER = "From OCV Require Import Misc.Trap Misc.TrapOracle."
AREA = "trap"
ISOLATE = True
TIMEOUT_MS = 20000
LEVEL = "proof"
SHRINK_KEY = "cos"
RULE = ("1-5 coroutines on one real Scheduler, each a body of visible steps, suspends (0-3 before the fault), an "
        "optional switch to a grown segment, and at most one REAL fault: wild write, wild read, null write, "
        "recursion into the guard page, or the stack pointer moved below the lowest mappable address; bodies end "
        "by returning a value or panicking; after the scheduling call one more healthy coroutine is scheduled on "
        "the same scheduler and thread; every case in its own child process. Plus direct probes of "
        "stack_ptr_in_bounds at every segment boundary (+-1), inside, and at 0 / 2^32 / 2^47 / 2^63 / u64::MAX for "
        "coroutines with 1-3 segments; non-trivial = a faulting coroutine shares the scheduler with a healthy one, "
        "or a probe set over >= 2 segments; distinct = distinct case")
TRUSTED = ["where the faulting stack pointer lies is known from the fault kind, not observed: a wild access leaves it in "
           "the segment in use, an exhausted stack leaves it in that segment's guard page (which the reported segment "
           "includes), only the moved stack pointer is outside every segment",
           "the kernel delivers SIGSEGV/SIGBUS on the thread's alternate signal stack; corosensei's trap redirection"]
ASSUMPTIONS = ["the redirection of a hardware trap into the coroutine returning Err(message) is the DEFINITION of the "
               "model's fault instruction; it is checked only by the correspondence runs",
               "equal priorities, one scheduler per process (round-robin order is part of the correspondence only)",
               "a moved stack pointer is in [4096, 65536): larger wild values can hit mapped memory and not fault at all"]

FAULTS = ["write", "read", "null", "overflow", "sp_out"]


def body(rng, faulty):
    out = []
    nsusp = rng.randint(0, 3)
    grown = False
    for _ in range(nsusp):
        for _ in range(rng.randint(0, 2)):
            out.append({"i": "log"})
        if not grown and rng.random() < 0.25:
            out.append({"i": "grow"})
            grown = True
        out.append({"i": "suspend"})
    for _ in range(rng.randint(0, 2)):
        out.append({"i": "log"})
    if not grown and rng.random() < 0.3:
        out.append({"i": "grow"})
        out.append({"i": "log"})
    if faulty:
        k = rng.choice(FAULTS)
        ins = {"i": "fault", "k": k}
        if k == "sp_out":
            ins["p"] = rng.choice([4096, 8192, 32768, 65528])
        out.append(ins)
        if rng.random() < 0.5:
            out.append({"i": "log"})     # never reached
    return out


def sched_case(rng):
    n = rng.choice([1, 2, 3, 3, 4, 5])
    nfault = rng.choice([0, 1, 1, 1, 2])
    faulty = set(rng.sample(range(n), min(n, nfault)))
    cos = []
    for i in range(n):
        fin = "panic" if rng.random() < 0.15 else {"ret": rng.randint(0, 1000)}
        cos.append({"body": body(rng, i in faulty), "fin": fin})
    return {"mode": "sched", "cos": cos}


def gen(rng, tier):
    n = {"quick": 90, "thorough": 900, "search": 300}[tier]
    cases = [sched_case(rng) for _ in range(n)]
    for g in ([0, 1, 2] if tier == "quick" else [0, 1, 2, 2, 1, 0]):
        cases.append({"mode": "bounds", "grow": g, "offsets": [rng.randrange(1, 200000) for _ in range(3)]})
    return cases


def _instr(i):
    k = i["i"]
    if k == "log":
        return "ILog"
    if k == "suspend":
        return "ISuspend"
    if k == "grow":
        return "IGrow"
    f = {"write": "FWrite", "read": "FRead", "null": "FNull", "overflow": "FOverflow"}.get(i["k"])
    if f is None:
        f = "(FSpOut %s)" % gz(i["p"])
    return "IFault %s" % f


def _cprog(c):
    fin = "TPanic" if c["fin"] == "panic" else "TReturn %s" % gz(c["fin"]["ret"])
    return "{| p_body := %s; p_fin := %s |}" % (glist([_instr(i) for i in c["body"]]), fin)


def _res(r):
    if r is None:
        return "None"
    if "ok" in r:
        return "(Some (ROk %s))" % gz(r["ok"])
    return "(Some (RErr %s))" % {"invalid": "EInvalid", "overflow": "EOverflow", "panic": "EPanic"}[r["err"]]


def _obs(o):
    if isinstance(o, dict) and "log" in o:
        return "OLog %d%%nat %s" % (o["log"][0], gz(o["log"][1]))
    if isinstance(o, dict) and "res" in o:
        return "ORes %d%%nat %s" % (o["res"][0], _res(o["res"][1]))
    if o == "alive":
        return "OAlive"
    if o == "diverged":
        return "ODiverged"
    return "OBad"    # aborted:<sig>, no_trap, sched_err, harness-lost


def term(case, obs):
    if case["mode"] == "bounds":
        probes = []
        for o in obs:
            if not (isinstance(o, dict) and "segs" in o):
                return "TLost"
            segs = glist(["{| t_bot := %s; t_top := %s |}" % (gz(b), gz(t)) for b, t in o["segs"]])
            probes.append("(%s, %s, %s)" % (segs, gz(o["p"]), gbool(o["r"])))
        return "TBounds %s" % glist(probes)
    return "TSched %s %s" % (glist([_cprog(c) for c in case["cos"]]), glist([_obs(o) for o in obs]))


def nontrivial(case, obs, verdict):
    if case["mode"] == "bounds":
        return case["grow"] >= 1
    f = [any(i["i"] == "fault" for i in c["body"]) for c in case["cos"]]
    return any(f) and not all(f)


def distribution(results):
    d = {"sched": 0, "bounds": 0, "coroutines": 0, "faults": {k: 0 for k in FAULTS}, "fault_after_suspends": {},
         "fault_on_grown_segment": 0, "panics": 0, "probes": 0, "results": {"ok": 0, "invalid": 0, "overflow": 0, "panic": 0}}
    for c, o, v in results:
        if c["mode"] == "bounds":
            d["bounds"] += 1
            d["probes"] += len(o)
            continue
        d["sched"] += 1
        for co in c["cos"]:
            d["coroutines"] += 1
            if co["fin"] == "panic":
                d["panics"] += 1
            ns, grown = 0, False
            for i in co["body"]:
                if i["i"] == "suspend":
                    ns += 1
                elif i["i"] == "grow":
                    grown = True
                elif i["i"] == "fault":
                    d["faults"][i["k"]] += 1
                    d["fault_after_suspends"][str(ns)] = d["fault_after_suspends"].get(str(ns), 0) + 1
                    d["fault_on_grown_segment"] += 1 if grown else 0
                    break
        for e in o:
            if isinstance(e, dict) and "res" in e and e["res"][1]:
                r = e["res"][1]
                d["results"]["ok" if "ok" in r else r["err"]] += 1
    return d


LEVEL_TEXT = ("Theorems, for all 64-bit pointers and all segment lists: the loop of stack_ptr_in_bounds answers true "
              "exactly when some reported segment [bottom, top) contains the pointer, so the trap handler says 'stack "
              "overflow' exactly when the faulting stack pointer lies in none of them; and for every set of coroutine "
              "bodies on the round-robin scheduler model (any number, any mix of steps, suspends, grown segments, "
              "faults, panics): scheduling terminates, exactly one result per coroutine is reported, every coroutine - "
              "faulting or not - ends with what its own program alone determines (value, panic, or the classified "
              "fault message) and makes exactly its own visible steps. Level partial, stated plainly: that a hardware "
              "trap turns into the coroutine returning Err(message) is the definition of the model's fault "
              "instruction, not a theorem; it is measured by real faults (wild read/write, null, recursion into the "
              "guard page, moved stack pointer; after 0-3 suspends; on grown segments; next to healthy coroutines) "
              "in a child process per case, and by direct probes of the real stack_ptr_in_bounds at all boundaries.")
LEVEL_NOTE = ("partial by nature: the machine-level trap redirection, signal delivery and corosensei are outside the "
              "model. Observed on the real code and consistent with the theorem: an exhausted stack is reported as "
              "'invalid memory reference', not 'stack overflow', because the reported segment includes its guard "
              "page; 'stack overflow' needs a stack pointer outside every segment. A stack pointer >= 2^63 would "
              "panic inside the signal handler (i64 -> u64 conversion) and is outside the generated inputs. No axioms.")
