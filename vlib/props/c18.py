"""C18 — Non-blocking sockets keep non-blocking semantics under the hook."""
from .. import sockio

ID = "C18"
PROPS = ["theories/Props/C18.vo"]
PINNED = ["C18_every_call_returns", "C18_mode_restored", "C18_holds_outside", "C18_refuted_nonblocking_fd_waits",
          "C18_connect_eintr_refuted_before_repair", "C18_connect_eintr_returns", "C18_oracle_meaning"]
CASES_MODULE = "Cases.C18"
AREA = "sockio"
ISOLATE = False
TIMEOUT_MS = 5000
LEVEL = "proof"
SHRINK_KEY = "script"
RULE = ("one hooked call per case over all ten entry points (the eight byte-moving ones, accept, connect), half of "
        "the cases on a descriptor the caller made non-blocking, with and without SO_*TIMEO, scripts biased to "
        "would-block answers (EINPROGRESS/EALREADY for connect, and an interrupted connect: EINTR), injected wait "
        "failures, deadlines; observed: "
        "O_NONBLOCK before/after (fcntl), O_NONBLOCK as the kernel sees it during each call, every readiness wait "
        "requested; non-trivial = the MODEL run met a would-block answer, retried, waited or returned -1; "
        "distinct = distinct case")
TRUSTED = sockio.TRUSTED
ASSUMPTIONS = sockio.ASSUMPTIONS + [
    "connect: the harness descriptor is a connected socket without pending error (getpeername and SO_ERROR answer 0 "
    "after a wait)",
    "plain thread, not a coroutine: the wait is EventLoops::wait_*_event on the real selector"]
term = sockio.term
distribution = sockio.distribution


def nontrivial(case, obs, verdict):
    t = set(verdict["tags"])
    return bool(t & {"wouldblock", "eintr", "waited", "minus_one", "deadline"}) or \
        (case["call"] == "connect" and case["script"][0]["r"] != "done")


def gen(rng, tier):
    n = {"quick": 480, "thorough": 6000, "search": 1500}[tier]
    calls = sockio.BUF + sockio.VEC + ["accept", "accept", "connect", "connect"]
    return [sockio.gen_case(rng, calls, nb_prob=0.5, wb_bias=0.4) for _ in range(n)]


LEVEL_TEXT = ("Unbounded Coq theorems about the Gallina transcription of all eight loop sites (six byte-moving loops, "
              "accept, connect) with the descriptor's O_NONBLOCK flag as state. Full theorems (C18_every_call_returns, "
              "C18_mode_restored): for every script, timeout, wait-failure pattern and both modes the call returns "
              "and, on every exit path, the flag after the call equals the flag before. An interrupted connect "
              "(EINTR), which used to spin for ever (C18_connect_eintr_refuted_before_repair, about the model of the "
              "old code), is awaited like EINPROGRESS (C18_connect_eintr_returns). The non-blocking clause (no "
              "readiness wait, no kernel call after one that would have blocked, -1 with that call's errno) is "
              "refuted on the current code, which waits up to the socket time limit (C18_refuted_nonblocking_fd_waits, known finding), and proved outside that defect "
              "(C18_holds_outside). Tied to the Rust code by fcntl(F_GETFL) before/after and the wait recorder.")
LEVEL_NOTE = ("Trusted: Coq kernel + vm_compute; hand transcription validated on generated scripts; the wait recorder "
              "hook; only the plain-thread path is exercised (inside a coroutine the same loop code runs, the wait "
              "suspends the coroutine instead). No axioms.")


def extra(tier, rng, build_cache, known):
    """Real sockets: hooked connect from a blocking (and from a non-blocking) TCP socket to a dead loopback
    port (the failure is learnt asynchronously: EINPROGRESS, wait, SO_ERROR) and to a live listener: the
    descriptor keeps the mode the caller set, whatever the outcome."""
    from .. import core
    key = ((), False)
    if key not in build_cache:
        build_cache[key], _ = core.build_harness((), False)
    n = 3 if tier == "quick" else 12
    cases = [{"id": i, "origin": "extra", "kind": "connect_real",
              "ops": [{"live": live, "nb": nb} for live in (False, True) for nb in (False, True)]} for i in range(n)]
    res = core.run_harness(build_cache[key], "connreal", cases, isolate=True, timeout_ms=30000, jobs=3)
    viol, ok = [], 0
    for c in cases:
        r = res[c["id"]]
        bad = None
        for o, v in zip(c["ops"], r):
            if not isinstance(v, dict):
                bad = "scenario did not finish"
            elif v["nb_after"] != v["nb_before"]:
                bad = ("hooked connect (%s, ret %s errno %s) changed the descriptor's mode: O_NONBLOCK %s -> %s"
                       % ("live listener" if o["live"] else "dead port", v["ret"], v["errno"], v["nb_before"], v["nb_after"]))
            elif not o["live"] and not o["nb"] and not (v["ret"] == -1 and v["errno"] == 111):
                bad = "connect to a dead loopback port from a blocking socket: expected -1/ECONNREFUSED, got %s/%s" % (v["ret"], v["errno"])
            elif o["live"] and not o["nb"] and v["ret"] != 0:
                bad = "connect to a live listener from a blocking socket failed: %s/%s" % (v["ret"], v["errno"])
            if bad:
                break
        if bad:
            viol.append({"case": c, "obs": r, "tags": ["connect_mode_not_restored"], "note": bad})
        else:
            ok += 1
    return {"info": {"connect_real_cases": len(cases), "connect_real_ok": ok}, "violations": viol}
